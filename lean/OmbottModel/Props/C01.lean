import OmbottModel.Model.RouterSpec
import OmbottModel.Lemmas.RouterGet
import OmbottModel.Lemmas.RouterPrio
import OmbottModel.Lemmas.RouterIns
import OmbottModel.Lemmas.RouterResolve
import OmbottModel.Lemmas.RouterParse
import OmbottModel.Lemmas.RouterPrint
import OmbottModel.Lemmas.RouterSound
import OmbottModel.Model.RouterBuiltin
import OmbottModel.Gen.Routerbuiltin
import OmbottModel.Lemmas.RouterBuiltinEnv
import OmbottModel.Lemmas.RouterBuiltinHist
import OmbottModel.Lemmas.AppRoute
import OmbottModel.Lemmas.RouterHookNames
/-!
C01 — Route resolution equals the plain rule-by-rule semantics.
Property theorems only; helper lemmas live in `Lemmas/Router*.lean`.
-/
namespace Ombott.Router
open Py

/-- **Lookup = plain rule-by-rule matching.**  In every well-formed tree, for every filter
environment without `rex` selectors and every path, `RadiDict.get` selects exactly the rule the
plain matcher selects among the rules the tree holds (the matching rule that has literal text
where every other matching rule has a wildcard at the first difference), with the values the
filters produced, and misses iff no rule matches. -/
theorem get_eq_spec (env : FilterEnv) (hs : NoSel env) (t : Node) (h : WFN t) (path : Str) :
    (treeGet env t path).core =
      (specResolve env (denote t) path).map fun x => (x.1.data, x.1.keys, x.2) := by
  unfold treeGet denote
  rw [getN_core env hs t h, firstMatch_eq_specResolve env _ _ (denN_sorted env t h path)]
  cases firstMatch env (denN t) path <;> simp [coreOf]

/-- the empty tree of a new `RadiDict` is well formed and holds no rule -/
theorem root_wf : WFN Node.root ∧ denote Node.root = [] := by
  unfold Node.root WFN WFL WFT denote
  simp [denN, denL, denT, ownRule]

/-- **Insertion keeps the tree well formed**: `RadiDict.add` on a well-formed tree gives a
well-formed tree (or raises, and then there is no new tree: the caller keeps the old one). -/
theorem insert_wf (t t' : Node) (pat : List Sym) (d : Nat) (names : List Str) (ow : Bool)
    (h : WFN t) (hi : treeAdd t pat d names ow = .ok t') : WFN t' :=
  (insN_spec _ t h pat t' hi).1

/-- **Insertion adds exactly the rule**: after `RadiDict.add(pattern, data, params)` the tree
holds the rule `(pattern, data, params)`, every rule it held before under another pattern, and
nothing else (the rule previously stored under the same pattern is replaced). -/
theorem insert_denote (t t' : Node) (pat : List Sym) (d : Nat) (names : List Str) (ow : Bool)
    (h : WFN t) (hi : treeAdd t pat d names ow = .ok t') :
    ∀ e, e ∈ denote t' ↔ e = ⟨pat, d, names⟩ ∨ (e ∈ denote t ∧ e.pat ≠ pat) := by
  intro e
  have := (insN_spec _ t h pat t' hi).2.2.2 e
  simpa [newRule, denote] using this

/-- **Domain of the history theorems.**  The hypothesis `OpOK` they carry ("the parsed pattern
has no literal marker character") holds for every registration whose rule text does not contain
the router's own wildcard marker (CR): the literal characters of a parsed pattern all come from
the rule text. -/
theorem rule_without_marker_ok (cenv : CompileEnv) (a : AddArgs) (hr : Gen.paramToken ∉ a.rule) :
    OpOK (.add cenv a) := opOK_of_no_marker cenv a hr

/-- the parser lists exactly one parameter name per wildcard of the pattern -/
theorem one_name_per_wildcard (cenv : CompileEnv) (rule : Str) (p : Parsed)
    (h : parseRule cenv rule = .ok p) : p.params.length = countToks p.syms :=
  parseRule_params_len h

/-- **Rule syntax flavours.**  For every abstract rule (literal runs without parameter tokens,
wildcards with identifier names, filter names other than `path`, filter arguments without
parentheses or backslash for the `(…)` forms and without the closing delimiter for the
`:arg` form) written in any admissible mix of flavours (`:x`, `:`, `<x>`, `{x}`, `<x:f>`,
`<:f>`, `<x.f>`, `<x.f(a)>`, `<f(a)>`, `<x:f(a)>`, `<:f(a)>`, `<x:f:a>`, `<:f:a>`, each with `<>` or
`{}`), `Route.parse_rule` returns the abstract rule's pattern, names and filters, whenever its
filters can be built.  In particular the result does not depend on the flavours chosen. -/
theorem parse_print (cenv : CompileEnv) (segs : List ASeg) (h : SegsOK segs)
    (hb : FiltersBuild cenv segs) :
    parseRule cenv (printRule segs) = .ok (absParsed segs 0) := by
  rw [parseRule_printRule cenv segs h, parseParts_abs cenv segs h hb 0]

/-- after every history of `add` / `remove_method` calls the tree is well formed and holds
exactly the rules the `routes` table lists -/
theorem history_tree_eq_routes (upper : Str → Str) (ops : List Op) (hok : ∀ op ∈ ops, OpOK op) :
    WFN (Router.run upper ops).tree ∧
      ∀ e, e ∈ denote (Router.run upper ops).tree ↔ e ∈ (Router.run upper ops).rules :=
  ⟨(run_inv upper ops hok).wf, (run_inv upper ops hok).den⟩

/-- lookup in the router's tree = plain matcher over the router's `routes` table, for every
router state satisfying the invariant -/
theorem lookup_eq_spec_of_inv {R : Router} (hinv : Inv R) (env : FilterEnv) (hs : NoSel env) (p : Str) :
    (treeGet env R.tree p).core = (specResolve env R.rules p).map fun x => (x.1.data, x.1.keys, x.2) := by
  rw [get_eq_spec env hs R.tree hinv.wf p]
  have hinj : PatInj (denote R.tree) := by
    intro e he e' he' hp
    exact denN_patStrInj R.tree hinv.wf e he e' he' (hinv.notok e he) (hinv.notok e' he') (by rw [hp])
  rw [specResolve_congr env (denote R.tree) R.rules p hinv.den hinj]

/-- **The property, first half.**  For every history of registrations (any rules in any
syntax, any methods, overwrites, rejected registrations, method removals) and every path,
`RadiRouter.resolve` answers "not found" exactly when no registered rule matches the path
rule-by-rule; otherwise it dispatches on the route object of the rule the plain matcher selects
(the matching rule with literal text where the others have a wildcard at the first difference),
and the values handed on are the values that rule's filters produced.  -/
theorem resolve_eq_rule_by_rule (upper : Str → Str) (ops : List Op) (hok : ∀ op ∈ ops, OpOK op)
    (env : FilterEnv) (hs : NoSel env) (path : Str) (ms : List Str) :
    match specResolve env (Router.run upper ops).rules (stripSlash path) with
    | none => ∃ v h p, (Router.run upper ops).resolve env path ms = .notFound v h p
    | some (rule, vs) => ∃ route hooks,
        (Router.run upper ops).obj? rule.data = some route ∧ route.syms = rule.pat ∧
        (Router.run upper ops).resolve env path ms =
          match route.getItem ms with
          | .ok m => .found m.handler m.name
              (makeParamsDict (if m.params.isEmpty then rule.keys else m.params) vs) hooks
          | .error _ => .notAllowed (joinComma (sortStrs (route.methods.map (·.1)))) := by
  have hinv := run_inv upper ops hok
  generalize Router.run upper ops = R at hinv ⊢
  have hcore := lookup_eq_spec_of_inv hinv env hs (stripSlash path)
  unfold Router.resolve
  cases hg : treeGet env R.tree (stripSlash path) with
  | miss v h p =>
    rw [hg] at hcore
    simp only [Res.core] at hcore
    cases hsr : specResolve env R.rules (stripSlash path) with
    | none => exact ⟨v, h, p, rfl⟩
    | some x => rw [hsr] at hcore; simp at hcore
  | hit id keys vals hooks =>
    rw [hg] at hcore
    simp only [Res.core] at hcore
    cases hsr : specResolve env R.rules (stripSlash path) with
    | none => rw [hsr] at hcore; simp at hcore
    | some x =>
      obtain ⟨rule, vs⟩ := x
      rw [hsr] at hcore
      simp only [Option.map_some, Option.some.injEq, Prod.mk.injEq] at hcore
      obtain ⟨rfl, rfl, rfl⟩ := hcore
      obtain ⟨hmem, _⟩ := specResolve_mem hsr
      obtain ⟨ps, id, r, _, hr, rfl⟩ := (mem_rules R _).mp hmem
      refine ⟨r, hooks, hr, rfl, ?_⟩
      simp only [hr]
      cases r.getItem ms <;> rfl

/-- **The property, second half (names).**  When a handler is called, its keyword arguments are
built from the wildcard names of the rule text *it* was registered with (not of another rule on
the same pattern), zipped with the values obtained by matching that rule's own pattern against
the path (`makeParamsDict_iff`: the non-anonymous names, each bound to its value). -/
theorem params_are_rule_names (upper : Str → Str) (ops : List Op) (hok : ∀ op ∈ ops, OpOK op)
    (env : FilterEnv) (hs : NoSel env) (path : Str) (ms : List Str)
    (h : Nat) (mname : Str) (kw : List (Str × Val)) (hooks : List (Nat × HookPair))
    (hres : (Router.run upper ops).resolve env path ms = .found h mname kw hooks) :
    ∃ cenv a p vs, Op.add cenv a ∈ ops ∧ a.handler = h ∧ mname ∈ a.methods.map upper ∧
      parseRule cenv a.rule = .ok p ∧
      matchRule env p.syms (stripSlash path) = some vs ∧ kw = makeParamsDict p.params vs := by
  have hspec := resolve_eq_rule_by_rule upper ops hok env hs path ms
  have hent := run_entries upper ops hok
  generalize Router.run upper ops = R at hspec hent hres
  cases hsr : specResolve env R.rules (stripSlash path) with
  | none =>
    rw [hsr] at hspec
    obtain ⟨v, hh, p, hnf⟩ := hspec
    rw [hnf] at hres; cases hres
  | some x =>
    obtain ⟨rule, vs⟩ := x
    rw [hsr] at hspec
    obtain ⟨route, hooks', hobj, hsyms, hr⟩ := hspec
    rw [hr] at hres
    cases hgi : route.getItem ms with
    | error e => rw [hgi] at hres; cases hres
    | ok m =>
      rw [hgi] at hres
      simp only [Resolved.found.injEq] at hres
      obtain ⟨rfl, rfl, rfl, _⟩ := hres
      obtain ⟨name, hmem⟩ := getItem_mem hgi
      obtain ⟨op, hop, hst⟩ := hent rule.data route name m hobj hmem
      cases op with
      | removeMethod _ _ => exact hst.elim
      | add cenv a =>
        obtain ⟨p, hp, hps, hname, rfl⟩ := hst
        refine ⟨cenv, a, p, vs, hop, rfl, hname, hp, ?_, ?_⟩
        · rw [hps, hsyms]; exact (specResolve_mem hsr).2
        · simp only
          split
          · rename_i hemp
            have hnil : p.params = [] := by simpa using hemp
            have hlen := parseRule_params_len hp
            have hvs := matchRule_length (specResolve_mem hsr).2
            rw [hnil] at hlen
            rw [← hsyms, ← hps, ← hlen] at hvs
            have : vs = [] := List.eq_nil_of_length_eq_zero hvs
            rw [this, hnil, makeParamsDict_nil_vals, makeParamsDict_nil_vals]
          · rfl

/-- **The property, second half (values).**  Every value a handler receives is the value the
filter of some wildcard of its rule answered on a non-empty remainder of the path: text that a
wildcard's filter rejects never reaches a handler. -/
theorem filter_guard (upper : Str → Str) (ops : List Op) (hok : ∀ op ∈ ops, OpOK op)
    (env : FilterEnv) (hs : NoSel env) (path : Str) (ms : List Str)
    (h : Nat) (mname : Str) (kw : List (Str × Val)) (hooks : List (Nat × HookPair))
    (hres : (Router.run upper ops).resolve env path ms = .found h mname kw hooks) :
    ∀ k v, (k, v) ∈ kw → ∃ f s r, s <:+ stripSlash path ∧ s ≠ [] ∧ tokRes env f s = some r ∧ r.val = v := by
  obtain ⟨cenv, a, p, vs, _, _, _, _, hm, rfl⟩ :=
    params_are_rule_names upper ops hok env hs path ms h mname kw hooks hres
  intro k v hkv
  have hv : v ∈ vs := (List.of_mem_zip (makeParamsDict_mem hkv).1).2
  obtain ⟨f, s, r, _, h2, h3, h4, h5⟩ := matchRule_vals hm v hv
  exact ⟨f, s, r, h2, h3, h4, h5⟩

/-- **Soundness for every filter environment, `rex` selectors included.**  Whatever the filters
answer (no `NoSel` hypothesis, no well-formedness needed), a hit of `RadiDict.get` is a rule held
by the tree whose pattern matches the path in the selector-aware sense `MatchSel` (after a
wildcard whose filter answered with selector `s`, the rest of the pattern matches the remaining
text or `str(s)` + the remaining text), with exactly the values the filters answered. -/
theorem get_sound (env : FilterEnv) (t : Node) (path : Str) (d : Nat) (keys : List Str) (vs : List Val)
    (h : (treeGet env t path).core = some (d, keys, vs)) :
    ∃ rule ∈ denote t, rule.data = d ∧ rule.keys = keys ∧ MatchSel env rule.pat path vs := by
  obtain ⟨rule, hm, h1, h2, vs', h3, h4⟩ := getN_sound env t _ path d keys vs h
  simp only [List.nil_append] at h3
  subst h3
  exact ⟨rule, hm, h1, h2, h4⟩

/-- **No handler without a match, for every filter environment.**  After any history, if
`resolve` hands a request to a handler then the rule text that handler was registered with
matches the path (selector-aware), the kwargs are that rule's own names zipped with the values
of that match, and every value is what the filter of one of the rule's wildcards answered on a
non-empty piece of text: a text the filter rejects never reaches a handler, `rex` included. -/
theorem handler_called_only_on_match (upper : Str → Str) (ops : List Op) (hok : ∀ op ∈ ops, OpOK op)
    (env : FilterEnv) (path : Str) (ms : List Str)
    (h : Nat) (mname : Str) (kw : List (Str × Val)) (hooks : List (Nat × HookPair))
    (hres : (Router.run upper ops).resolve env path ms = .found h mname kw hooks) :
    ∃ cenv a p vs, Op.add cenv a ∈ ops ∧ a.handler = h ∧ mname ∈ a.methods.map upper ∧
      parseRule cenv a.rule = .ok p ∧ MatchSel env p.syms (stripSlash path) vs ∧
      kw = makeParamsDict p.params vs ∧
      ∀ k v, (k, v) ∈ kw → ∃ f s r, Sym.tok f ∈ p.syms ∧ s ≠ [] ∧ tokRes env f s = some r ∧ r.val = v := by
  have hinv := run_inv upper ops hok
  have hent := run_entries upper ops hok
  generalize Router.run upper ops = R at hinv hent hres
  unfold Router.resolve at hres
  cases hg : treeGet env R.tree (stripSlash path) with
  | miss v hh p => rw [hg] at hres; cases hres
  | hit id keys vals hk =>
    rw [hg] at hres
    simp only at hres
    obtain ⟨rule, hmem, rfl, rfl, hms⟩ :=
      get_sound env R.tree (stripSlash path) id keys vals (by rw [hg]; rfl)
    obtain ⟨ps, id', r, _, hr, heq⟩ := (mem_rules R _).mp ((hinv.den _).mp hmem)
    subst heq
    simp only [hr] at hres
    cases hgi : r.getItem ms with
    | error e => rw [hgi] at hres; cases hres
    | ok m =>
      rw [hgi] at hres
      simp only [Resolved.found.injEq] at hres
      obtain ⟨rfl, rfl, rfl, _⟩ := hres
      obtain ⟨name, hmm⟩ := getItem_mem hgi
      obtain ⟨op, hop, hst⟩ := hent _ r name m hr hmm
      cases op with
      | removeMethod _ _ => exact hst.elim
      | add cenv a =>
        obtain ⟨p, hp, hps, hname, rfl⟩ := hst
        have hkw : makeParamsDict (if p.params.isEmpty = true then r.params else p.params) vals =
            makeParamsDict p.params vals := by
          split
          · rename_i hemp
            have hnil : p.params = [] := by simpa using hemp
            have hlen := parseRule_params_len hp
            have hvs := hms.length
            have htc : ∀ q : List Sym, tokCount q = countToks q := by
              intro q; induction q with
              | nil => rfl
              | cons x xs ih => cases x <;> simp [tokCount, countToks, ih]
            rw [hnil] at hlen
            simp only at hvs
            rw [← hps, htc, ← hlen] at hvs
            have : vals = [] := List.eq_nil_of_length_eq_zero hvs
            rw [this, hnil, makeParamsDict_nil_vals, makeParamsDict_nil_vals]
          · rfl
        refine ⟨cenv, a, p, vals, hop, rfl, hname, hp, by rw [hps]; exact hms, hkw, ?_⟩
        intro k v hkv
        rw [hkw] at hkv
        have hv : v ∈ vals := (List.of_mem_zip (makeParamsDict_mem hkv).1).2
        obtain ⟨f, s, r', h1, h2, h3, h4⟩ := hms.vals v hv
        exact ⟨f, s, r', by rw [hps]; exact h1, h2, h3, h4⟩

/-- **Built-in filters, mask texts.**  The regular expressions `FilterFactory.filters` builds for
`int`, `float` and `path` (for the probed configurations, regex metacharacters in the following
literal included) are the documented ones: `path` looks ahead for the following literal text
escaped, i.e. taken literally.  Regenerated from the live module on every run. -/
theorem builtin_masks_pinned :
    (Gen.builtinMasks.all fun m =>
      Builtin.expectedMask m.1.toList m.2.1.toList == m.2.2.toList) = true := by
  decide +kernel

/-- **Built-in filters, behaviour.**  On the probe table taken from the live handlers on every
run (signs, leading zeros, exponent-like text, decoy occurrences of the literal after a `path`
wildcard, literals made of regex metacharacters) the handlers of `int`, `float`, `path` answer
exactly what the reference semantics `Builtin.builtin` says: value and characters consumed. -/
theorem builtin_probes_agree :
    (Gen.builtinProbes.all fun p =>
      Builtin.builtin p.1.toList p.2.1.toList p.2.2.1.toList ==
        p.2.2.2.map fun r => (r.1.toList, r.2)) = true := by
  decide +kernel

/-- **Built-in `int` filter at the interpreter's conversion limit.**  On digit runs of
`sys.get_int_max_str_digits()` (`Gen.intMaxStrDigits`) and one more characters — with a sign, made of
or led by zeros, followed by a literal — the live handler answers what the reference semantics
says: up to the limit the integer; beyond it *no match* (`int()` raised `ValueError` inside the
handler, which was a 500 before be98856).  Leading zeros count, the sign does not. -/
theorem builtin_int_limit_probes_agree :
    (Gen.builtinIntLimitProbes.all fun p =>
      Builtin.builtin "int".toList [] p.1 == p.2) = true := by
  decide +kernel

/-- "not found" is answered exactly when the tree lookup finds no route -/
theorem resolve_notFound_iff_miss (env : FilterEnv) (R : Router) (path : Str) (ms : List Str) :
    (∃ v h p, R.resolve env path ms = .notFound v h p) ↔
      (treeGet env R.tree (stripSlash path)).isHit = false := by
  unfold Router.resolve
  cases hg : treeGet env R.tree (stripSlash path) with
  | miss v h p => simp [Res.isHit]
  | hit id k v h =>
    simp only [Res.isHit]
    cases ho : R.obj? id with
    | none => simp
    | some r => cases hgi : r.getItem ms <;> simp [hgi]



/-! ## the built-in filters made concrete

`Model/RouterBuiltinEnv.lean` computes the handlers of `int`, `float` and `path` instead of taking
their answers as a parameter (`Ombott.Builtins.withBuiltin fc env`: `env` is consulted for user
regular expressions only; `fc` is `float(text)` for the matched texts outside the exactly modelled
domain — more than 15 significant digits, or beyond 1e-291 … 1e300).  The driver lines `router
histb` run exactly this environment. -/
section Builtin
open Ombott.Builtins Ombott.RouteUrl

/-- the value as the harness ships it: is it a `str`, its text -/
def rbShow (r : FilterRes) : Bool × Str × Nat :=
  match r.val with
  | .str s => (true, s, r.n)
  | .conv s => (false, s, r.n)

/-- `float(text)` as probed on the live converter for the table's texts outside `exactDec` -/
def rbFc : FloatConv := fun m =>
  match Gen.rbFloatConv.find? (·.1 == m) with
  | some (_, r) => .conv ("float:".toList ++ r)
  | none => .conv "float:?".toList

/-- **Built-in filters, the concrete environment.**  On the probe table taken from the live
handlers on every run (handler identity `name(args)`, text ↦ value as shipped and characters
consumed; signs, leading zeros, non-ASCII digits, 15/16/17-digit and very long numerals, values
whose `repr` uses exponent notation, newlines in front of and behind the `path` look-ahead,
look-ahead literals made of regex metacharacters) the concrete environment answers exactly what
the live handlers answer. -/
theorem builtin_env_probes_agree :
    (Gen.rbEnvProbes.all fun p =>
      (builtinEnv rbFc p.1.toList p.2.1).map rbShow == p.2.2) = true := by
  decide +kernel

/-- **`int_filter_rejects_beyond_limit`.**  A text that starts with an optional `-` and a run of more
than `Gen.intMaxStrDigits` (`sys.get_int_max_str_digits()`) digit characters — leading zeros
included, whatever follows the run — is *not matched* by an `int` wildcard of the concrete
environment: the rule does not apply to such a path (404, or the next candidate rule); the handler
is never called with it, and no 5xx comes out of the converter.  (Before be98856 `int()`'s
`ValueError` escaped as a 500: `seeded/C01-revert-be98856`.) -/
theorem int_filter_rejects_beyond_limit (fc : FloatConv) (env : FilterEnv) (g : Fid) (hg : isIntFid g = true)
    (s : Str)
    (h : Gen.intMaxStrDigits <
      ((if (s.head? == some '-') = true then s.drop 1 else s).takeWhile isDecDigit).length) :
    withBuiltin fc env g s = none := by
  simp only [withBuiltin, hg, if_true]
  exact intFilter_none_beyond s h

/-- …and every value an `int` wildcard does hand to a handler is an integer the interpreter prints
(`str(v)` does not raise): at most `Gen.intMaxStrDigits` digits -/
theorem int_filter_value_within_limit (fc : FloatConv) (env : FilterEnv) (g : Fid) (hg : isIntFid g = true)
    (s : Str) (r : FilterRes) (h : withBuiltin fc env g s = some r) :
    ∃ z, r.val = intVal z ∧ Py.intStrDigits z ≤ Gen.intMaxStrDigits := by
  simp only [withBuiltin, hg, if_true] at h
  exact (intFilter_spec_lim h).1

/-- none of the concrete handlers answers with a `rex` selector: the hypothesis `NoSel` of the
theorems above is met by the concrete environment itself -/
theorem builtin_env_no_selectors (fc : FloatConv) : NoSel (builtinEnv fc) := noSel_builtinEnv fc

/-- **The property for rule sets of built-in wildcards, without an opaque filter environment.**
For every history whose successfully parsed rule texts use only plain, `int`, `float` and `path`
wildcards (`builtinPat`, decidable on the parsed pattern) and every path, `RadiRouter.resolve` run
with the concrete handlers — whatever stands in the environment for other filters — answers
"not found" exactly when no registered rule matches rule-by-rule *under the concrete semantics of
the built-in filters* (`builtinEnv fc`: no filter parameter left except `float(text)` for numerals
of more than 15 significant digits), and otherwise dispatches on the rule the plain matcher selects
with the concretely converted values. -/
theorem resolve_eq_rule_by_rule_builtin (upper : Str → Str) (ops : List Op) (hok : ∀ op ∈ ops, OpOK op)
    (hb : ∀ cenv a p, Op.add cenv a ∈ ops → parseRule cenv a.rule = .ok p → builtinPat p.syms = true)
    (fc : FloatConv) (env : FilterEnv) (hs : NoSel env) (path : Str) (ms : List Str) :
    match specResolve (builtinEnv fc) (Router.run upper ops).rules (stripSlash path) with
    | none => ∃ v h p, (Router.run upper ops).resolve (withBuiltin fc env) path ms = .notFound v h p
    | some (rule, vs) => ∃ route hooks,
        (Router.run upper ops).obj? rule.data = some route ∧ route.syms = rule.pat ∧
        (Router.run upper ops).resolve (withBuiltin fc env) path ms =
          match route.getItem ms with
          | .ok m => .found m.handler m.name
              (makeParamsDict (if m.params.isEmpty then rule.keys else m.params) vs) hooks
          | .error _ => .notAllowed (joinComma (sortStrs (route.methods.map (·.1)))) := by
  have h := resolve_eq_rule_by_rule upper ops hok (withBuiltin fc env) (noSel_withBuiltin fc env hs) path ms
  have hr := run_rules (Q := fun s => builtinPat s = true) upper ops hb
  rw [specResolve_builtin_indep fc env (fun _ _ => none) _ hr] at h
  exact h

/-- **`filter_guard`, concretely.**  In such a history every keyword argument a handler receives
is, for some wildcard `f` of a built-in kind and some non-empty remainder `s` of the path, exactly
what `BuiltinAnswer` spells out: plain — the text of `s` up to the next separator; `int` — the
integer value of the `-?\d+` text at the start of `s`; `float` — the numeral matched by
`-?\d+(\.\d+)?` at the start of `s`; `path` — the longest newline-free non-empty prefix of `s`
followed by the literal text that follows the wildcard in the rule.  No filter parameter is
mentioned. -/
theorem filter_guard_builtin (upper : Str → Str) (ops : List Op) (hok : ∀ op ∈ ops, OpOK op)
    (hb : ∀ cenv a p, Op.add cenv a ∈ ops → parseRule cenv a.rule = .ok p → builtinPat p.syms = true)
    (fc : FloatConv) (env : FilterEnv) (hs : NoSel env) (path : Str) (ms : List Str)
    (h : Nat) (mname : Str) (kw : List (Str × Val)) (hooks : List (Nat × HookPair))
    (hres : (Router.run upper ops).resolve (withBuiltin fc env) path ms = .found h mname kw hooks) :
    ∀ k v, (k, v) ∈ kw → ∃ f s, s <:+ stripSlash path ∧ s ≠ [] ∧ BuiltinAnswer fc f s v := by
  obtain ⟨cenv, a, p, vs, hop, _, _, hp, hm, rfl⟩ :=
    params_are_rule_names upper ops hok (withBuiltin fc env) (noSel_withBuiltin fc env hs) path ms h mname kw hooks hres
  intro k v hkv
  have hv : v ∈ vs := (List.of_mem_zip (makeParamsDict_mem hkv).1).2
  obtain ⟨f, s, r, hmem, h2, h3, h4, h5⟩ := matchRule_vals hm v hv
  refine ⟨f, s, h2, h3, ?_⟩
  rw [← h5]
  exact builtinAnswer_of_tokRes fc env f (fun g hg => builtinPat_mem (hb cenv a p hop hp) (by rw [← hg]; exact hmem)) h4

end Builtin

/-- **Route hooks do not change what a handler receives.**  After every history of editing calls
(registrations, removals, hook installations and removals), one more `RadiRouter.add_hook` /
`Ombott.on_route` / per-prefix 404 handler — on the pattern of a registered rule, on a prefix of it
or anywhere else, spelled with whatever wildcard names, accepted or refused — leaves the answer of
every lookup as it was, the collected hooks aside: the same handler under the same method with the
same keyword arguments (so still the names of the rule the handler was registered under,
`params_are_rule_names`), the same 404, the same 405 with the same `Allow`. -/
theorem hooks_keep_handler_kwargs (upper : Str → Str) (ops : List EditOp) (hok : ∀ op ∈ ops, EditOK op)
    (cenv : CompileEnv) (rule : Str) (hook : Nat) (pt : Bool) (hh : EditOK (.addHook cenv rule hook pt))
    (env : FilterEnv) (hs : NoSel env) (path : Str) (ms : List Str) :
    (((Router.editRun upper ops).addHook cenv rule hook pt).1.resolve env path ms).noHooks =
      ((Router.editRun upper ops).resolve env path ms).noHooks := by
  have h1 := editRun_inv upper ops hok
  have h2 := h1.addHook cenv rule hook pt hh
  obtain ⟨hr, ho⟩ := addHook_tables (Router.editRun upper ops) cenv rule hook pt
  exact resolve_noHooks_congr h1.inv h2.inv hr ho env hs path ms

/-! ## the composed application (`Model/App.lean`): the handler event of `Ombott.__call__` -/

/-- **`app_handler_kwargs`: end to end through `App.serve`, the handler event carries exactly the
kwargs of `params_are_rule_names`.**  For every application (hooks, error handlers, handler
programs), every registration history and every request environ: if the exchange `App.serve`
describes (`wsgi → _handle → before hooks → to_route → Ombott.handler → route(**kwargs) → …`)
contains a handler event, then `PATH_INFO` decoded, the event names a callback `h` registered by
some `add` of the history under the method the dispatch selected, the program that ran is that
callback's program on the kwargs of the event, and those kwargs are the wildcard names of the rule
text of THAT registration zipped with the values obtained by matching its own pattern against the
stripped request path — whatever hooks ran before, and whatever the program then does. -/
theorem app_handler_kwargs (cfg : App.AppConfig) (ops : List Op) (hok : ∀ op ∈ ops, OpOK op)
    (hs : NoSel cfg.fenv) (q : App.Req) (resp : App.Response)
    (hserve : App.serve cfg (Router.run cfg.upper ops) q = .ok (some resp))
    (c : Option App.Call) (hc : App.Event.handler c ∈ resp.events) :
    ∃ path call, ErrorPage.utf8Decode q.rawPath = some path ∧ c = some call ∧
      (∃ r, App.wsgiReq cfg (Router.run cfg.upper ops) q = .ok r ∧
        r.route = .found (cfg.handlers call.handler call.kwargs)) ∧
      ∃ cenv a p vs, Op.add cenv a ∈ ops ∧ a.handler = call.handler ∧
        call.method ∈ a.methods.map cfg.upper ∧ parseRule cenv a.rule = .ok p ∧
        matchRule cfg.fenv p.syms (stripSlash path) = some vs ∧
        call.kwargs = makeParamsDict p.params vs := by
  obtain ⟨path, h, m, kw, hd, hres, rfl, hr⟩ := App.serve_handler_event hserve c hc
  unfold Router.handle Router.toRoute at hres
  obtain ⟨cenv, a, p, vs, hop, hh, hm, hp, hmatch, hkw⟩ :=
    params_are_rule_names cfg.upper ops hok cfg.fenv hs _ _ h m kw [] hres
  rw [App.stripSlash_request_path'] at hmatch
  exact ⟨path, ⟨h, m, kw⟩, hd, rfl, hr, cenv, a, p, vs, hop, hh, hm, hp, hmatch, hkw⟩

/-- the same for every filter environment (`rex` selectors included), in the selector-aware sense
of `handler_called_only_on_match`: no handler event without a match of the callback's own rule -/
theorem app_handler_only_on_match (cfg : App.AppConfig) (ops : List Op) (hok : ∀ op ∈ ops, OpOK op)
    (q : App.Req) (resp : App.Response)
    (hserve : App.serve cfg (Router.run cfg.upper ops) q = .ok (some resp))
    (c : Option App.Call) (hc : App.Event.handler c ∈ resp.events) :
    ∃ path call, ErrorPage.utf8Decode q.rawPath = some path ∧ c = some call ∧
      ∃ cenv a p vs, Op.add cenv a ∈ ops ∧ a.handler = call.handler ∧
        call.method ∈ a.methods.map cfg.upper ∧ parseRule cenv a.rule = .ok p ∧
        MatchSel cfg.fenv p.syms (stripSlash path) vs ∧ call.kwargs = makeParamsDict p.params vs := by
  obtain ⟨path, h, m, kw, hd, hres, rfl, _⟩ := App.serve_handler_event hserve c hc
  unfold Router.handle Router.toRoute at hres
  obtain ⟨cenv, a, p, vs, hop, hh, hm, hp, hmatch, hkw, _⟩ :=
    handler_called_only_on_match cfg.upper ops hok cfg.fenv _ _ h m kw [] hres
  rw [App.stripSlash_request_path'] at hmatch
  exact ⟨path, ⟨h, m, kw⟩, hd, rfl, cenv, a, p, vs, hop, hh, hm, hp, hmatch, hkw⟩

/-! ## Non-vacuity: concrete instances meeting the hypotheses -/
section NonVacuity

/-- an `int` filter on ASCII digits, no selectors -/
def nvEnv : FilterEnv := fun f s =>
  if f = "int(None)".toList then
    (if s.takeWhile Char.isDigit = [] then none
     else some ⟨.conv ("int:".toList ++ s.takeWhile Char.isDigit), (s.takeWhile Char.isDigit).length, none⟩)
  else none

theorem nvEnv_noSel : NoSel nvEnv := by
  intro f s r h
  unfold nvEnv at h
  split at h
  · split at h
    · cases h
    · simp only [Option.some.injEq] at h; subst h; rfl
  · cases h

def nvCenv : CompileEnv := fun _ => none

/-- `/a/<x:int>` (GET), a rejected `/a/:y` (filter mismatch), `/a/<z:int>` (POST, same pattern,
other name), `/a/b` (GET, ANY), removal of ANY -/
def nvOps : List Op :=
  [ .add nvCenv { rule := "/a/<x:int>".toList, methods := ["get".toList], handler := 0 },
    .add nvCenv { rule := "/a/:y".toList, methods := ["POST".toList], handler := 1 },
    .add nvCenv { rule := "/a/<z:int>".toList, methods := ["POST".toList], handler := 2 },
    .add nvCenv { rule := "/a/b".toList, methods := ["GET".toList, "ANY".toList], handler := 3 },
    .removeMethod 1 ["ANY".toList] ]

theorem opOK_of_parse {cenv : CompileEnv} {a : AddArgs} {p : Parsed}
    (h : parseRule cenv a.rule = .ok p) (hn : NoLitTok p.syms) : OpOK (.add cenv a) := by
  intro p' hp'; rw [h] at hp'; cases hp'; exact hn

theorem nvOps_ok : ∀ op ∈ nvOps, OpOK op := by
  intro op hop
  simp only [nvOps, List.mem_cons, List.not_mem_nil, or_false] at hop
  -- (directly; `rule_without_marker_ok` with `by decide` on the rule text works as well)
  rcases hop with rfl | rfl | rfl | rfl | rfl
  · exact opOK_of_parse (p := ⟨[.lit 'a', .lit '/', .tok (some "int(None)".toList)], ["x".toList],
      [.lit 'a', .lit '/', .tok (some "int(None)".toList)]⟩) (by rfl)
      (by intro c hc; simp at hc; rcases hc with rfl | rfl <;> decide)
  · exact opOK_of_parse (p := ⟨[.lit 'a', .lit '/', .tok none], ["y".toList],
      [.lit 'a', .lit '/', .tok none]⟩) (by rfl)
      (by intro c hc; simp at hc; rcases hc with rfl | rfl <;> decide)
  · exact opOK_of_parse (p := ⟨[.lit 'a', .lit '/', .tok (some "int(None)".toList)], ["z".toList],
      [.lit 'a', .lit '/', .tok (some "int(None)".toList)]⟩) (by rfl)
      (by intro c hc; simp at hc; rcases hc with rfl | rfl <;> decide)
  · exact opOK_of_parse (p := ⟨[.lit 'a', .lit '/', .lit 'b'], [], [.lit 'a', .lit '/', .lit 'b']⟩) (by rfl)
      (by intro c hc; simp at hc; rcases hc with rfl | rfl | rfl <;> decide)
  · trivial

def nvT1 : Node :=
  match treeAdd Node.root [.lit 'a', .lit '/', .tok none] 0 ["x".toList] with
  | .ok t => t
  | .error _ => Node.root

def nvT2 : Node :=
  match treeAdd nvT1 [.lit 'a', .lit '/', .lit 'b', .lit 'c'] 1 [] with
  | .ok t => t
  | .error _ => Node.root

/-- `get_eq_spec`, `insert_wf`, `insert_denote`: a tree with a literal and a wildcard sibling
(the second insertion splits a key); the lookup backtracks from the literal child to the wildcard -/
example : treeAdd Node.root [.lit 'a', .lit '/', .tok none] 0 ["x".toList] = .ok nvT1 ∧
    treeAdd nvT1 [.lit 'a', .lit '/', .lit 'b', .lit 'c'] 1 [] = .ok nvT2 ∧ WFN nvT2 ∧
    (treeGet nvEnv nvT2 "a/bd".toList).core = some (0, ["x".toList], [.str "bd".toList]) ∧
    (treeGet nvEnv nvT2 "a/bc".toList).core = some (1, [], []) :=
  ⟨by rfl, by rfl,
   insert_wf nvT1 nvT2 [.lit 'a', .lit '/', .lit 'b', .lit 'c'] 1 [] false
     (insert_wf Node.root nvT1 [.lit 'a', .lit '/', .tok none] 0 ["x".toList] false root_wf.1 (by rfl)) (by rfl),
   by rfl, by rfl⟩

/-- `resolve_eq_rule_by_rule`, `params_are_rule_names`, `filter_guard`: the POST handler of
`/a/<z:int>` gets `z` (not `x`, the name the pattern was first registered with), bound to the
converted value -/
example : (Router.run asciiUpper nvOps).resolve nvEnv "/a/12".toList ["POST".toList, "ANY".toList] =
    .found 2 "POST".toList [("z".toList, .conv "int:12".toList)] [] := by decide +kernel

/-- `rule_without_marker_ok`: the hypothesis is decidable on the rule text -/
example : OpOK (.add nvCenv { rule := "/a/<x:int>".toList, methods := [], handler := 0 }) :=
  rule_without_marker_ok _ _ (by decide)

/-- `parse_print`: `/a/<x:int>-{y.re(b+)}/:z` -/
def nvSegs : List ASeg :=
  [.lit "a/".toList, .wild (.colonFilter .angle) (some "x".toList) (some "int".toList) none,
   .lit "-".toList, .wild (.dotParen .brace) (some "y".toList) (some "re".toList) (some "b+".toList),
   .lit "/".toList, .wild .colon (some "z".toList) none none]

theorem isIdent_of {c : Char} {r : Str} (hc : isNameStart c = true) (hr : r.all isWord = true) :
    IsIdent (c :: r) := ⟨c, r, rfl, hc, fun x hx => List.all_eq_true.mp hr x hx⟩

example : printRule nvSegs = "/a/<x:int>-{y.re(b+)}/:z".toList ∧ SegsOK nvSegs ∧ FiltersBuild nvCenv nvSegs := by
  refine ⟨by decide, ?_, ?_⟩
  · simp only [nvSegs, SegsOK, WildOK]
    refine ⟨by decide, by decide, trivial, ⟨?_, ?_, by simp⟩, trivial, by decide, by decide, trivial,
      ⟨?_, ?_, by simp⟩, trivial, by decide, by decide, trivial, ⟨?_, ?_, by simp⟩, trivial, trivial⟩
    · intro n hn; cases hn; exact isIdent_of (by decide) (by decide)
    · intro f hf; cases hf; exact ⟨isIdent_of (by decide) (by decide), by decide⟩
    · intro n hn; cases hn; exact isIdent_of (by decide) (by decide)
    · intro f hf; cases hf; exact ⟨isIdent_of (by decide) (by decide), by decide⟩
    · intro n hn; cases hn; exact isIdent_of (by decide) (by decide)
    · intro f hf; cases hf
  · simp only [nvSegs, FiltersBuild]
    refine ⟨?_, ?_, ?_, trivial⟩
    · intro f hf; cases hf; exact ⟨rfl, by decide⟩
    · intro f hf; cases hf; exact ⟨rfl, by decide⟩
    · intro f hf; cases hf

/-- a `rex` filter with two groups: answers with a selector -/
def nvEnvSel : FilterEnv := fun f s =>
  if f = "rex((a)|(b))".toList then
    match s with
    | 'a' :: _ => some ⟨.str ['a'], 1, some 1⟩
    | 'b' :: _ => some ⟨.str ['b'], 1, some 2⟩
    | _ => none
  else none

def nvOpsSel : List Op :=
  [ .add nvCenv { rule := "/<x.rex((a)|(b))[1]>z".toList, methods := ["GET".toList], handler := 0 },
    .add nvCenv { rule := "/<y.rex((a)|(b))>b".toList, methods := ["GET".toList], handler := 1 } ]

/-- `get_sound`, `handler_called_only_on_match`: the selector route (`str(1) + "z"` against the
pattern text `1z`) and the fall-back on the text itself -/
example : (∀ op ∈ nvOpsSel, OpOK op) ∧
    (Router.run asciiUpper nvOpsSel).resolve nvEnvSel "/az".toList ["GET".toList] =
      .found 0 "GET".toList [("x".toList, .str ['a'])] [] ∧
    (Router.run asciiUpper nvOpsSel).resolve nvEnvSel "/bb".toList ["GET".toList] =
      .found 1 "GET".toList [("y".toList, .str ['b'])] [] := by
  refine ⟨?_, by decide +kernel, by decide +kernel⟩
  intro op hop
  simp only [nvOpsSel, List.mem_cons, List.not_mem_nil, or_false] at hop
  rcases hop with rfl | rfl <;> exact rule_without_marker_ok _ _ (by decide)

/-- the filter rejects: not found -/
example : (Router.run asciiUpper nvOps).resolve nvEnv "/a/x".toList ["POST".toList, "ANY".toList] =
    .notFound [] [] "a/".toList := by decide +kernel



/-! ### the built-in section -/
section BuiltinNV
open Ombott.Builtins Ombott.RouteUrl

/-- `/dl/<p:path>.tar/img/<n:int>.png`, `/w/<x:float>`, `/f/<p:path>.tar/<rest:path>` -/
def nvOpsB : List Op :=
  [ .add nvCenv { rule := "/dl/<p:path>.tar/img/<n:int>.png".toList, methods := ["GET".toList], handler := 0 },
    .add nvCenv { rule := "/w/<x:float>".toList, methods := ["GET".toList], handler := 1 },
    .add nvCenv { rule := "/f/<p:path>.tar/<rest:path>".toList, methods := ["GET".toList], handler := 2 } ]

theorem nvOpsB_ok : ∀ op ∈ nvOpsB, OpOK op := by
  intro op hop
  simp only [nvOpsB, List.mem_cons, List.not_mem_nil, or_false] at hop
  rcases hop with rfl | rfl | rfl <;> exact rule_without_marker_ok _ _ (by decide +kernel)

theorem builtin_of_parse {cenv : CompileEnv} {rule : Str} {p : Parsed}
    (h1 : ((parseRule cenv rule).toOption.map fun q => builtinPat q.syms) = some true)
    (h2 : parseRule cenv rule = .ok p) : builtinPat p.syms = true := by
  rw [h2] at h1
  simpa [Except.toOption] using h1

/-- the hypothesis `hb` of `resolve_eq_rule_by_rule_builtin` / `filter_guard_builtin`: every rule
text of the history parses to a pattern of built-in wildcards (decidable per rule text) -/
theorem nvOpsB_builtin : ∀ cenv a p, Op.add cenv a ∈ nvOpsB → parseRule cenv a.rule = .ok p → builtinPat p.syms = true := by
  intro cenv a p hop hp
  simp only [nvOpsB, List.mem_cons, List.not_mem_nil, or_false, Op.add.injEq] at hop
  rcases hop with ⟨rfl, rfl⟩ | ⟨rfl, rfl⟩ | ⟨rfl, rfl⟩
  · exact builtin_of_parse (cenv := nvCenv) (rule := "/dl/<p:path>.tar/img/<n:int>.png".toList) (by decide +kernel) hp
  · exact builtin_of_parse (cenv := nvCenv) (rule := "/w/<x:float>".toList) (by decide +kernel) hp
  · exact builtin_of_parse (cenv := nvCenv) (rule := "/f/<p:path>.tar/<rest:path>".toList) (by decide +kernel) hp

def nvFc : FloatConv := fun _ => .conv "float:?".toList

/-- the greedy `path` wildcard runs to the *last* `.tar/img/` followed by an integer; the `int`
wildcard converts `007`; the `float` wildcard reads `-0012.50` as `-12.5`; a numeral with a
17th digit is left to the converter parameter -/
example :
    (Router.run asciiUpper nvOpsB).resolve (builtinEnv nvFc) "/dl/a.tar/img/b.tar/img/007.png".toList ["GET".toList] =
      .found 0 "GET".toList [("p".toList, .str "a.tar/img/b".toList), ("n".toList, .conv "int:7".toList)] [] ∧
    (Router.run asciiUpper nvOpsB).resolve (builtinEnv nvFc) "/w/-0012.50".toList ["GET".toList] =
      .found 1 "GET".toList [("x".toList, .conv "float:-12.5".toList)] [] ∧
    (Router.run asciiUpper nvOpsB).resolve (builtinEnv nvFc) "/w/0.00001".toList ["GET".toList] =
      .found 1 "GET".toList [("x".toList, .conv "float:1e-05".toList)] [] ∧
    (Router.run asciiUpper nvOpsB).resolve (builtinEnv nvFc) "/w/12345678901234567".toList ["GET".toList] =
      .found 1 "GET".toList [("x".toList, .conv "float:?".toList)] [] ∧
    (Router.run asciiUpper nvOpsB).resolve (builtinEnv nvFc) "/f/a.tar/b.tar/x.png".toList ["GET".toList] =
      .found 2 "GET".toList [("p".toList, .str "a.tar/b".toList), ("rest".toList, .str "x.png".toList)] [] ∧
    (Router.run asciiUpper nvOpsB).resolve (builtinEnv nvFc) "/w/1.5x".toList ["GET".toList] =
      .notFound [.conv "float:1.5".toList] [] "w/1.5".toList := by
  decide +kernel

end BuiltinNV

/-! ### the composed application -/

/-- the history `nvOps` under an application with a before hook and handlers that echo nothing -/
def nvCfg : App.AppConfig :=
  { hooks := { before := [{ effs := [.setHeader "X-B".toList "1".toList], res := .ok }], after := [], errHandlers := [] },
    handlers := fun _ _ => { effs := [], res := .returns (.text "ok".toList) },
    upper := asciiUpper, fenv := nvEnv, pr := fun _ => true }

def nvReq : App.Req :=
  { id := 1, verb := "post".toList, rawPath := [47, 47, 97, 47, 49, 50],      -- `//a/12`
    env := { fwdProto := none, urlScheme := some "http".toList, fwdHost := none, host := some "h".toList,
             serverName := none, serverPort := none, query := none, scriptName := none,
             joinLib := .error .valueError },
    accept := none, fileWrapper := false }

/-- hypotheses of `app_handler_kwargs` / `app_handler_only_on_match` (`nvOps_ok`, `nvEnv_noSel`):
`post //a/12` runs the before hook, then the POST callback of `/a/<z:int>` — op 2 — with `z`
(not `x`, the name the pattern was first registered with) bound to the converted value -/
example :
    (match App.serve nvCfg (Router.run nvCfg.upper nvOps) nvReq with
     | .ok (some resp) =>
       resp.events.take 3 ==
         [.before 0, .routed, .handler (some ⟨2, "POST".toList, [("z".toList, .conv "int:12".toList)]⟩)]
     | _ => false) = true := by decide +kernel

/-- `hooks_keep_handler_kwargs`: `/a/<x:int>` (GET), a per-prefix 404 handler on the same pattern
spelled `/a/<k:int>`, `/a/<z:int>` (POST); then a route hook spelled `/a/<q:int>` -/
def nvHookOps : List EditOp :=
  [ .reg (.add nvCenv { rule := "/a/<x:int>".toList, methods := ["GET".toList], handler := 0 }),
    .addHook nvCenv "/a/<k:int>".toList 1 true,
    .reg (.add nvCenv { rule := "/a/<z:int>".toList, methods := ["POST".toList], handler := 2 }) ]

theorem nvHook_addOK (a : AddArgs) (hr : Gen.paramToken ∉ a.rule)
    (hstar : (match parseRule nvCenv a.rule with | .ok p => p.syms.getLast? | .error _ => none) ≠ some (.lit '*')) :
    EditOK (.reg (.add nvCenv a)) := by
  intro p hp
  refine ⟨parseRule_noLitTok hr hp, ?_⟩
  rw [hp] at hstar
  exact hstar

example : (∀ op ∈ nvHookOps, EditOK op) ∧ EditOK (.addHook nvCenv "/a/<q:int>".toList 3 false) := by
  refine ⟨?_, fun p hp => parseRule_noLitTok (by decide) hp⟩
  intro op hop
  simp only [nvHookOps, List.mem_cons, List.mem_nil_iff, or_false] at hop
  rcases hop with rfl | rfl | rfl
  · exact nvHook_addOK _ (by decide) (by decide +kernel)
  · exact fun p hp => parseRule_noLitTok (by decide) hp
  · exact nvHook_addOK _ (by decide) (by decide +kernel)

/-- … and both sides of its conclusion: the GET handler keeps `x`, the POST handler keeps `z` -/
example :
    (((Router.editRun asciiUpper nvHookOps).addHook nvCenv "/a/<q:int>".toList 3 false).1.resolve nvEnv
        "/a/12".toList ["GET".toList]).noHooks = .found 0 "GET".toList [("x".toList, .conv "int:12".toList)] [] ∧
    ((Router.editRun asciiUpper nvHookOps).resolve nvEnv "/a/12".toList ["POST".toList]).noHooks =
      .found 2 "POST".toList [("z".toList, .conv "int:12".toList)] [] := by decide +kernel

end NonVacuity

end Ombott.Router
