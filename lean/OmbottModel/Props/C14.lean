import OmbottModel.Model.Headers
namespace Ombott.Headers
theorem stub : True := trivial
end Ombott.Headers
