import OmbottModel.Model.Headers
import OmbottModel.Lemmas.Headers
import OmbottModel.Gen.Headers
import OmbottModel.Lemmas.AppEmit
import OmbottModel.Lemmas.RespHelp
import OmbottModel.Lemmas.PyInt
/-!
C14 — Response header values cannot split the response and are wire-safe.
Property theorems only; helper lemmas live in `Lemmas/Headers.lean`, `Lemmas/Text.lean`.
All statements are about `step`/`run`/`headerlist`/`wsgiHeaders`, the functions the driver runs.
-/
namespace Ombott.Headers
open Py

/-- the value an operation hands to `_hval` through a single-value setter: item assignment,
`append`, `setdefault`, a header attribute (after its writer) -/
def Op.direct : Op → Option PyVal
  | .setitem _ v => some v
  | .append _ v => some v
  | .setdefault _ v => some v
  | .propSet p v fmt => (p.write v fmt).toOption
  | _ => none

/-- **guarded_setter_rejects** (clause 1, single-value setters): a value whose text contains
CR, LF or NUL offered through item assignment, `append`, `setdefault` or a header attribute
raises `ValueError` and leaves the response exactly as it was. -/
theorem guarded_setter_rejects (r : Resp) (op : Op) (v : PyVal) (s : Str)
    (hop : op.direct = some v) (hs : pyStr v = some s) (hc : hasCtl s = true) :
    step r op = (r, some .valueError) := by
  have hv := hval_ctl hs hc
  cases op with
  | setitem k v' => cases hop; simp only [step, setitem_err hv]
  | append k v' => cases hop; simp only [step, append_err hv]
  | setdefault k v' => cases hop; simp only [step, setdefault_err hv]
  | propSet p v' fmt =>
    simp only [Op.direct] at hop
    cases hw : p.write v' fmt with
    | error e => simp [hw, Except.toOption] at hop
    | ok w =>
      simp only [hw, Except.toOption, Option.some.injEq] at hop
      subst hop
      simp only [step, hw, setitem_err hv]
  | delitem k => cases hop
  | clear ks => cases hop
  | status n => cases hop
  | init st h m => cases hop
  | initMap st ks m => cases hop
  | error st o => cases hop
  | cookie n o => cases hop

/-- **wrong_type_rejected**: a value that is not `str`, `int`, `float`, `bool` or `None`
raises `TypeError` through every single-value setter and changes nothing. -/
theorem wrong_type_rejected (r : Resp) (op : Op) (v : PyVal)
    (hop : op.direct = some v) (hs : pyStr v = none) :
    step r op = (r, some .typeError) := by
  have hv := hval_type hs
  cases op with
  | setitem k v' => cases hop; simp only [step, setitem_err hv]
  | append k v' => cases hop; simp only [step, append_err hv]
  | setdefault k v' => cases hop; simp only [step, setdefault_err hv]
  | propSet p v' fmt =>
    simp only [Op.direct] at hop
    cases hw : p.write v' fmt with
    | error e => simp [hw, Except.toOption] at hop
    | ok w =>
      simp only [hw, Except.toOption, Option.some.injEq] at hop
      subst hop
      simp only [step, hw, setitem_err hv]
  | delitem k => cases hop
  | clear ks => cases hop
  | status n => cases hop
  | init st h m => cases hop
  | initMap st ks m => cases hop
  | error st o => cases hop
  | cookie n o => cases hop

/-- **guarded_setter_rejects**, constructor arguments: `HTTPError(status, body, **options)` with
a refused value (control character or wrong type) among the options raises, and the response it
would have been applied to is untouched. -/
theorem guarded_error_options_reject (r : Resp) (st : Option Int) (opts : List (Str × PyVal))
    (h : ∃ p ∈ opts, Refused p.2) : ∃ e, step r (.error st opts) = (r, some e) := by
  have hr := initResp_refused Gen.errorDefaultStatus st [] opts (by simpa using h)
  simp only [step]
  cases hi : initResp Gen.errorDefaultStatus st [] opts with
  | mk e oe =>
    rw [hi] at hr
    cases oe with
    | none => cases hr
    | some err => exact ⟨err, rfl⟩

/-- **guarded_setter_rejects**, `__init__(body, status, headers, **more)`: a refused value among
the arguments makes the call raise; whatever it leaves behind in the object is clean (the entries
appended before the offending one, see `store_clean`). -/
theorem guarded_init_rejects (r : Resp) (st : Option Int) (hdrs more : List (Str × PyVal))
    (h : ∃ p ∈ hdrs ++ more, Refused p.2) :
    (step r (.init st hdrs more)).2.isSome = true ∧ StoreClean (step r (.init st hdrs more)).1.store := by
  simp only [step]
  exact ⟨initResp_refused _ st hdrs more h, (initResp_inv _ st hdrs more).1⟩

/-- a key that is not exactly two characters long stops the unpacking loop with `ValueError` -/
theorem unpackKeys_raises (keys : List Str) (h : ∃ k ∈ keys, k.length ≠ 2) :
    (unpackKeys keys).2 = some .valueError := by
  fun_induction unpackKeys keys with
  | case1 => obtain ⟨k, hk, _⟩ := h; cases hk
  | case2 a b r ps e hr ih =>
    obtain ⟨k, hk, hl⟩ := h
    simp only [List.mem_cons] at hk
    rcases hk with rfl | hk
    · simp at hl
    · have := ih ⟨k, hk, hl⟩
      rw [hr] at this
      exact this
  | case3 => rfl

/-- **guarded_setter_rejects**, constructor handed a MAPPING THAT IS NOT A `dict` (a `HeaderDict`, the `.headers` of
another response or of an upload, a mapping proxy): such a container is no proof that its values went through a
guarded setter (`HeaderDict(m)` and `update` store them as they are), and the constructor does not take them over:
whatever the mapping holds, nothing of its VALUES reaches the store (the operation does not even mention them), the
object left behind is clean, and unless every key happens to be two characters long the call raises. -/
theorem guarded_init_mapping (r : Resp) (st : Option Int) (keys : List Str) (more : List (Str × PyVal)) :
    StoreClean (step r (.initMap st keys more)).1.store ∧
    ((∃ k ∈ keys, k.length ≠ 2) → (step r (.initMap st keys more)).2.isSome = true) := by
  simp only [step]
  refine ⟨(initRespMap_inv _ st keys more).1, fun h => ?_⟩
  have hk := unpackKeys_raises keys h
  unfold initRespMap
  rcases hu : unpackKeys keys with ⟨ps, e⟩
  rw [hu] at hk
  simp only at hk
  subst hk
  simp only
  split <;> rfl

/-- **store_clean**: after any sequence of operations (each possibly raising) on a fresh
response every stored value is a CR/LF/NUL-free string, and the store is a proper dict. -/
theorem store_clean (ops : List Op) :
    StoreClean (run Resp.fresh ops).1.store ∧ KeysNodup (run Resp.fresh ops).1.store :=
  run_inv ops Resp.fresh nil_clean nil_nodup

/-- the invariant is inductive: it is kept from any state that has it -/
theorem store_clean_from (r : Resp) (ops : List Op) (hc : StoreClean r.store) (hn : KeysNodup r.store) :
    StoreClean (run r ops).1.store ∧ KeysNodup (run r ops).1.store := run_inv ops r hc hn

/-- **emitted_clean**: no value that `headerlist` emits from the store, and not the default
`Content-Type`, contains CR, LF or NUL (multi-byte UTF-8 sequences consist of bytes ≥ 0x80, so
transcoding cannot manufacture one). -/
theorem emitted_clean (r : Resp) (hc : StoreClean r.store) :
    ∀ h ∈ storePart r ++ ctypePart r, Clean h.2 := by
  intro h hh
  rcases List.mem_append.mp hh with hh | hh
  · obtain ⟨e, _, he, _, v, hv, hv2⟩ := mem_storePart hh
    unfold Clean
    rw [hv2, hasCtl_transcode]
    exact hc e he v hv
  · unfold ctypePart at hh
    split at hh
    · simp only [List.mem_singleton] at hh
      subst hh
      exact defaultContentType_clean
    · cases hh

/-- **emitted_clean** for a whole handler run through `Ombott.wsgi`: whatever the handler did,
every value in the list handed to `start_response` is free of CR/LF/NUL, provided the morsels of
the cookie jar are (C15: `emit_clean`). -/
theorem wsgi_emitted_clean (ops : List Op) (n : Nat) (r : Resp) (es : List (Option Err))
    (hl : List (Str × Str)) (hw : wsgiHeaders ops n = (r, es, some hl))
    (hck : ∀ c ∈ r.cookies, Clean c.2) : ∀ h ∈ hl, Clean h.2 := by
  unfold wsgiHeaders at hw
  have hinv := store_clean ops
  cases hrun : run Resp.fresh ops with
  | mk r0 es0 =>
    rw [hrun] at hw hinv
    simp only at hw hinv
    have hinv' := step_inv r0 (.setdefault "Content-Length".toList (.int n)) hinv.1 hinv.2
    split at hw
    · simp only [Prod.mk.injEq, Option.some.injEq] at hw
      obtain ⟨hr, _, hhl⟩ := hw
      subst hr
      intro h hh
      rw [← hhl, headerlist, List.mem_append] at hh
      rcases hh with hh | hh
      · exact emitted_clean _ hinv'.1 h hh
      · simp only [cookiePart, List.mem_map] at hh
        obtain ⟨c, hc, rfl⟩ := hh
        unfold Clean
        rw [hasCtl_transcode]
        exact hck c hc
    · simp at hw

/-! ### the composed application (`Model/App.lean`): what `Ombott.__call__` hands to `start_response` -/

/-- **`app_emitted_clean`: every header pair in `App.serve`'s `start_response` list is free of
CR, LF and NUL.**  For every application inside C03's domain (`App.DomainB`: hooks, error
handlers and handler programs — statements over the guarded setters `headers[k] = v`,
`headers.append`, `set_cookie`, the status setter; response objects built by the guarded
constructors — with CR/LF-free names), every router state and every request on which `App.serve`
is defined — whichever route the router selects, whatever the programs try to store, through
`_handle`, `apply`, `_cast`, the default or a custom error handler —, every value in the one
list handed to `start_response` is clean: on the normal path the list IS
`Model/Headers.headerlist` of the final response object (`wsgi_headers_refine_headers_model`) and
its store is clean (`emitted_clean`); the last-resort path emits its literal list.  As in
`wsgi_emitted_clean`, the morsels of the cookie jar are C15's (`emit_clean`). -/
theorem app_emitted_clean (cfg : App.AppConfig) (R : Router.Router) (q : App.Req) (res : Wsgi.Result)
    (hs : App.serveW cfg R q = .ok res) (hB : App.DomainB cfg)
    (hck : ∀ c ∈ res.slots.resp.cookies, Clean (c.1 ++ '=' :: c.2)) :
    ∀ line hdrs x, Wsgi.Event.startResponse line hdrs x ∈ res.events → ∀ h ∈ hdrs, Clean h.2 := by
  obtain ⟨r, hr, rfl⟩ := App.serveW_ok hs
  obtain ⟨_, _, _, _, _, _, _, _, _, hrel⟩ := App.wsgiReq_ok hr
  obtain ⟨hre, hra⟩ := App.route_domainB hrel hB
  have hok := App.wsgi_slots_ok cfg.hooks Wsgi.Slots.fresh r hB.1 hB.2.1 hre hra
  intro line hdrs x hmem h hh
  cases x with
  | true =>
    obtain ⟨rfl, _⟩ := App.wsgi_start_exc cfg.hooks Wsgi.Slots.fresh r line hdrs hmem
    simp only [catchAllHeaders, List.mem_singleton] at hh
    subst hh
    decide
  | false =>
    have hview := App.wsgi_start_headers_view cfg.hooks Wsgi.Slots.fresh r line hdrs hmem
    rw [hview, headerlist, List.mem_append] at hh
    have hclean := App.headersView_clean _ ((Wsgi.RState.ok_iff _).mp hok).2.1
    rcases hh with hh | hh
    · exact emitted_clean _ hclean h hh
    · simp only [cookiePart, List.mem_map] at hh
      obtain ⟨c, hc, rfl⟩ := hh
      unfold Clean
      rw [hasCtl_transcode]
      simp only [App.headersView, List.mem_map] at hc
      obtain ⟨c0, hc0, rfl⟩ := hc
      exact hck c0 hc0

/-- the same fact on core Lean's own decoder (`List.utf8Decode?_utf8Encode`) -/
theorem transcode_roundtrip_core (s : Str) :
    ∃ b, latin1Enc (transcode s) = some b ∧ b.toByteArray.utf8Decode? = some s.toArray := by
  refine ⟨utf8Enc s, latin1Enc_latin1Dec _, ?_⟩
  rw [utf8Enc_toByteArray]
  exact List.utf8Decode?_utf8Encode

/-- **emitted_latin1_roundtrip**: every emitted value consists of code points < 256 (it is
encodable as Latin-1) and those bytes decode, as UTF-8, to the very text that is in the store. -/
theorem emitted_latin1_roundtrip (r : Resp) :
    ∀ h ∈ storePart r, (∀ c ∈ h.2, c.toNat < 256) ∧
      ∃ e ∈ r.store, e.1 = h.1 ∧ ∃ v ∈ e.2.vals, wireDecode h.2 = some v := by
  intro h hh
  obtain ⟨e, _, he, hn, v, hv, hv2⟩ := mem_storePart hh
  refine ⟨?_, e, he, hn.symm, v, hv, ?_⟩
  · rw [hv2]; exact latin1Dec_lt256 _
  · rw [hv2]; exact wireDecode_transcode v

/-- **emitted_latin1_roundtrip**, end to end for item assignment: an accepted value is emitted
under its name as a text that decodes back to `str(value)`. -/
theorem accepted_value_emitted (r r' : Resp) (k : Str) (v : PyVal) (s : Str)
    (hstep : step r (.setitem k v) = (r', none)) (hs : pyStr v = some s) (hp : Passes r' k) :
    (k, transcode s) ∈ headerlist r' ∧ wireDecode (transcode s) = some s := by
  refine ⟨?_, wireDecode_transcode s⟩
  simp only [step] at hstep
  cases hset : setitem r.store k v with
  | error e => rw [hset] at hstep; simp at hstep
  | ok d =>
    rw [hset] at hstep
    simp only [Prod.mk.injEq, and_true] at hstep
    obtain ⟨s', hs', hd⟩ := setitem_ok hset
    have : s' = s := by
      have := (hval_ok hs').1
      rw [hs] at this; exact (Option.some.inj this).symm
    subst this
    have hm : (k, Entry.one s') ∈ r'.store := by
      rw [← hstep]; simp only; rw [hd]; exact dget_mem (dget_dset_self _ _ _)
    unfold headerlist
    apply List.mem_append_left
    apply List.mem_append_left
    simp only [storePart, List.mem_flatMap, List.mem_map]
    exact ⟨(k, .one s'), mem_visible hm hp, s', by simp [Entry.vals], rfl⟩

/-- **multi_in_order**: a header that holds a list of values is emitted once per value, in the
order of the list, under its own name (for every response whose store is a proper dict, which
`store_clean` guarantees after any operation sequence). -/
theorem multi_in_order (r : Resp) (hn : KeysNodup r.store) (k : Str) (e : Entry)
    (hg : dget r.store k = some e) (hp : Passes r k) :
    (storePart r).filter (·.1 == k) = e.vals.map fun v => (k, transcode v) := by
  unfold storePart
  apply filter_flatMap_key
  · unfold visible
    split
    · unfold KeysNodup at *
      exact (List.filter_sublist.map _).nodup hn
    · exact hn
  · exact mem_visible (dget_mem hg) hp

/-- **multi_in_order**, end to end: on a fresh response, `append(k, v₁) … append(k, vₙ)` with
acceptable values makes `headerlist` carry `k` exactly `n` times, with the texts of
`v₁ … vₙ` in that order. -/
theorem appended_values_emitted_in_order (k : Str) (ps : List (PyVal × Str))
    (hps : ∀ p ∈ ps, hval p.1 = .ok p.2) (hne : ps ≠ []) (hp : Passes Resp.fresh k) :
    (storePart (run Resp.fresh (ps.map fun p => Op.append k p.1)).1).filter (·.1 == k) =
      ps.map fun p => (k, transcode p.2) := by
  obtain ⟨h1, h2⟩ := run_appends k ps hps Resp.fresh
  have hinv := store_clean (ps.map fun p => Op.append k p.1)
  generalize (run Resp.fresh (ps.map fun p => Op.append k p.1)).1 = r' at *
  have hss : ps.map (·.2) ≠ [] := by simpa using hne
  have hv0 : valsOf Resp.fresh.store k = [] := by simp [valsOf, dget, Resp.fresh]
  rw [hv0, List.nil_append] at h1
  unfold valsOf at h1
  cases hg : dget r'.store k with
  | none => rw [hg] at h1; exact absurd h1.symm hss
  | some e =>
    rw [hg] at h1
    simp only at h1
    have hp' : Passes r' k := by unfold Passes passes at *; rw [h2]; exact hp
    rw [multi_in_order r' hinv.2 k e hg hp', h1, List.map_map]
    rfl

/-- **blacklist_withheld** (structural): whatever the per-status table says is withheld, in any
spelling of the name that title-cases to a listed one; and no default `Content-Type` is added. -/
theorem blacklist_withheld (r : Resp) (bad : List Str) (hb : badFor r.status = some bad) :
    ∀ h ∈ storePart r ++ ctypePart r, title h.1 ∉ bad := by
  intro h hh
  rcases List.mem_append.mp hh with hh | hh
  · obtain ⟨e, he, _, hn, _⟩ := mem_storePart hh
    unfold visible at he
    rw [hb] at he
    simp only [List.mem_filter, Bool.not_eq_eq_eq_not, Bool.not_true] at he
    rw [hn]
    intro hc
    have := he.2
    simp only [List.contains_eq_mem, decide_eq_false_iff_not] at this
    exact this hc
  · simp [ctypePart, needCtype, hb] at hh

/-- the entity headers RFC 2616 (10.2.5, 10.3.5) forbids, written here independently of the
source; `title` spelling -/
def entity204 : List String := ["Content-Type"]
def entity304 : List String := ["Allow", "Content-Encoding", "Content-Language", "Content-Length",
  "Content-Range", "Content-Type", "Content-Md5", "Last-Modified"]

def covers (code : Nat) (names : List String) : Bool :=
  match badFor (some code) with
  | some bad => names.all fun n => bad.contains n.toList
  | none => false

/-- the table probed from the live class lists every one of them (re-checked whenever the
source's `bad_headers` changes) -/
theorem generated_table_covers_rfc : covers 204 entity204 = true ∧ covers 304 entity304 = true := by
  decide

/-- **blacklist_withheld** over the generated table: a 204 response emits no `Content-Type`, a
304 response none of the eight entity headers, however the name was spelled when it was stored
(`content-length`, `CONTENT-LENGTH`, …), whichever entry point stored it, cookies included. -/
theorem entity_headers_withheld (r : Resp) (code : Nat) (names : List String)
    (hcode : (code = 204 ∧ names = entity204) ∨ (code = 304 ∧ names = entity304))
    (hs : r.status = some code) :
    ∀ h ∈ headerlist r, ∀ n ∈ names, title h.1 ≠ n.toList := by
  have hcov : covers code names = true := by
    rcases hcode with ⟨rfl, rfl⟩ | ⟨rfl, rfl⟩
    · exact generated_table_covers_rfc.1
    · exact generated_table_covers_rfc.2
  have hsc : ∀ n ∈ names, title "Set-Cookie".toList ≠ n.toList := by
    rcases hcode with ⟨_, rfl⟩ | ⟨_, rfl⟩ <;> decide
  unfold covers at hcov
  rw [← hs] at hcov
  cases hb : badFor r.status with
  | none => rw [hb] at hcov; cases hcov
  | some bad =>
    rw [hb] at hcov
    simp only [List.all_eq_true, List.contains_eq_mem, decide_eq_true_eq] at hcov
    intro h hh n hn heq
    unfold headerlist at hh
    rcases List.mem_append.mp hh with hh | hh
    · exact blacklist_withheld r bad hb h hh (heq ▸ hcov n hn)
    · simp only [cookiePart, List.mem_map] at hh
      obtain ⟨c, _, rfl⟩ := hh
      exact hsc n hn heq

/-! ### non-vacuity: concrete instances meeting the hypotheses -/
section NonVacuity

/-- a CR/LF value through item assignment: hypotheses of `guarded_setter_rejects` hold -/
example : (Op.setitem "X".toList (.str "a\r\nSet-Cookie: x".toList)).direct = some (.str "a\r\nSet-Cookie: x".toList)
    ∧ pyStr (.str "a\r\nSet-Cookie: x".toList) = some "a\r\nSet-Cookie: x".toList
    ∧ hasCtl "a\r\nSet-Cookie: x".toList = true := by decide

/-- … and through the `expires` attribute, whose writer passes a `str` through -/
example : (Op.propSet .expires (.str "x\x00".toList) (.error .typeError)).direct = some (.str "x\x00".toList) := by
  decide

/-- `store_clean_from`, `emitted_clean`: a response holding non-ASCII values has the invariant -/
example : StoreClean [("X".toList, Entry.many ["é€".toList, "a\tb".toList])] ∧
    KeysNodup [("X".toList, Entry.many ["é€".toList, "a\tb".toList])] := by decide

/-- a bytes value: hypotheses of `wrong_type_rejected` -/
example : (Op.append "X".toList (.bytes [120])).direct = some (.bytes [120]) ∧ pyStr (.bytes [120]) = none := by
  decide

/-- a mapping with an ordinary header name raises; one whose key is two characters long is taken apart -/
example : ∃ k ∈ ["X-Trace".toList], k.length ≠ 2 := ⟨_, List.mem_singleton.mpr rfl, by decide⟩
example : (initRespMap 200 none ["X-Trace".toList] []).2 = some .valueError := by decide
example : unpackKeys ["TE".toList, "X-Trace".toList] = ([("T".toList, .str "E".toList)], some .valueError) := by decide

/-- a refused option for `guarded_error_options_reject` / `guarded_init_rejects` -/
example : Refused (.str "a\nb".toList) := refused_of_ctl (s := "a\nb".toList) rfl (by decide)

/-- `wsgi_emitted_clean`: a handler that tries to smuggle CR/LF and sets a non-ASCII value -/
example : ∃ r es hl, wsgiHeaders [.setitem "X".toList (.str "é€".toList),
      .append "X".toList (.str "a\r\nb".toList)] 3 = (r, es, some hl) ∧ (∀ c ∈ r.cookies, Clean c.2) ∧
      hl.length = 3 := by
  refine ⟨_, _, _, rfl, ?_, ?_⟩ <;> decide

/-- `accepted_value_emitted`, `Passes`: a Latin-1 + BMP value under a lower-case name on a 200 -/
example : step Resp.fresh (.setitem "x-a".toList (.str "é€".toList)) =
      ({ Resp.fresh with store := [("x-a".toList, .one "é€".toList)] }, none) ∧
    Passes { Resp.fresh with store := [("x-a".toList, .one "é€".toList)] } "x-a".toList := by
  decide

/-- `multi_in_order`: a two-valued header on a response with a proper store -/
example : KeysNodup [("A".toList, Entry.many ["1".toList, "2".toList])] ∧
    dget [("A".toList, Entry.many ["1".toList, "2".toList])] "A".toList = some (.many ["1".toList, "2".toList]) ∧
    Passes { Resp.fresh with store := [("A".toList, Entry.many ["1".toList, "2".toList])] } "A".toList := by
  decide

/-- `appended_values_emitted_in_order`: int, float text, None -/
example : ∀ p ∈ [(PyVal.int 5, "5".toList), (.float "1.5".toList, "1.5".toList), (.none, "None".toList)],
    hval p.1 = .ok p.2 := by
  intro p hp
  simp only [List.mem_cons, List.not_mem_nil, or_false] at hp
  rcases hp with rfl | rfl | rfl <;> rfl

/-- `blacklist_withheld` / `entity_headers_withheld`: the 304 case exists in the table, and the
model really withholds a lower-case `content-length` there while emitting it on a 200 -/
example : (badFor (some 304)).isSome = true ∧
    headerlist { status := some 304, store := [("content-length".toList, .one "5".toList)], cookies := [] } = [] ∧
    headerlist { status := some 200, store := [("content-length".toList, .one "5".toList)], cookies := [] } ≠ [] := by
  decide

/-! #### the composed application -/

/-- a before hook that stores a non-ASCII value and a cookie; every callback tries to smuggle a
second header line through item assignment -/
def nvAppCfg : App.AppConfig :=
  { hooks := { before := [{ effs := [.setHeader "X-A".toList "é€".toList, .setCookie "k".toList "v".toList], res := .ok }],
               after := [], errHandlers := [] },
    handlers := fun _ _ => { effs := [.setHeader "X".toList "a\r\nSet-Cookie: x".toList], res := .returns (.text "hi".toList) },
    upper := Router.asciiUpper, fenv := fun _ _ => none, pr := fun _ => true }

def nvAppRouter : Router.Router :=
  Router.Router.run Router.asciiUpper
    [.add (fun _ => none) { rule := "/a".toList, methods := ["GET".toList], handler := 0 }]

def nvAppReq (path : List UInt8) : App.Req :=
  { id := 1, verb := "GET".toList, rawPath := path,
    env := { fwdProto := none, urlScheme := some "http".toList, fwdHost := none, host := some "h".toList,
             serverName := none, serverPort := none, query := none, scriptName := none,
             joinLib := .error .valueError },
    accept := none, fileWrapper := false }

/-- hypotheses of `app_emitted_clean`: the programs are inside the domain, `App.serve` is defined,
the cookie jar is clean; the refused assignment became a 500 whose list has no `X` header, while a
404 keeps the hook's cookie and drops its header (`apply`) -/
example : App.DomainB nvAppCfg ∧
    (match App.serveW nvAppCfg nvAppRouter (nvAppReq [47, 97]) with
     | .ok res => res.slots.resp.code == 500 &&
         res.slots.resp.cookies.all (fun c => !hasCtl (c.1 ++ '=' :: c.2)) &&
         (App.startOf res.events).any (fun x => !x.2.1.any (fun h => h.1 == "X".toList) &&
           x.2.1.any (fun h => h.1 == "Set-Cookie".toList && h.2 == "k=v".toList))
     | .error _ => false) = true ∧
    (match App.serveW nvAppCfg nvAppRouter (nvAppReq [47, 98]) with
     | .ok res => res.slots.resp.code == 404 &&
         (App.startOf res.events).any (fun x => !x.2.1.any (fun h => h.1 == "X-A".toList) &&
           x.2.1.any (fun h => h.1 == "Set-Cookie".toList))
     | .error _ => false) = true :=
  ⟨⟨by decide, by decide, fun _ _ => ⟨by
      show ([Wsgi.Eff.setHeader "X".toList "a\r\nSet-Cookie: x".toList]).all Wsgi.Eff.ok = true
      decide, rfl⟩⟩, by decide +kernel, by decide +kernel⟩

end NonVacuity

end Ombott.Headers

/-! ## resphelp — the response helper classes beyond the guarded setters (`Model/RespHelp.lean`)

Extension: the whole `HeaderDict` API on thread-local dicts, `HeaderProperty` for every row of the
generated table, `copy`, `delete_cookie`, `WSGIFileWrapper`, `_closeiter`.  C14's text lists the
single-value setters ("item assignment, append, setdefault, the header attributes, response
constructor arguments"); `HeaderDict.update` and the `dict` property setter are bulk operations
outside that list — the theorems below say precisely that they are the only unguarded entries. -/
namespace Ombott.RespHelp
open Py Ombott.Headers

/-- **guarded_ops_keep_clean**: any program over `HeaderDict` objects — any number of objects
(copies included), any threads, every operation of the API (`len iter in [] del []= append
setdefault keys values items get pop popitem copy clear repr dict`, every `HeaderProperty`
get / set / delete) except `update` and `dict =`, with arbitrary offered values, each call possibly
raising — leaves every dict of every object a proper dict whose stored strings are all free of
CR, LF and NUL.  Extends `store_clean` to the full API. -/
theorem guarded_ops_keep_clean (calls : List (Nat × Tid × HOp)) (objs : List HD) (rs : List (Except Err Res))
    (hg : ∀ c ∈ calls, c.2.2.unguarded = false) (hr : runH hdStart calls = some (objs, rs)) :
    ∀ h ∈ objs, ∀ p ∈ h, StoreClean p.2 ∧ KeysNodup p.2 := by
  refine runH_clean calls hdStart objs rs hg ?_ hr
  intro h hh
  simp only [hdStart, List.mem_singleton] at hh
  subst hh
  intro p hp
  simp only [hdNew, List.mem_singleton] at hp
  subst hp; exact good_nil

/-- **update_is_the_only_unguarded_entry**: an operation that can take an object from a clean
state to an unclean one (or create an unclean object) is `update` or the `dict` setter … -/
theorem update_is_the_only_unguarded_entry (op : HOp) (h : HD) (t : Tid) (fresh : Nat) (hc : HDClean h)
    (hbad : ¬ HDClean (stepH h t fresh op).1 ∨ ∃ c, (stepH h t fresh op).2.1 = some c ∧ ¬ HDClean c) :
    op.unguarded = true := by
  cases hu : op.unguarded with
  | true => rfl
  | false =>
    have := stepH_clean h t fresh op hu hc
    rcases hbad with hb | ⟨c, hc1, hc2⟩
    · exact absurd this.1 hb
    · exact absurd (this.2 c hc1) hc2

/-- … and both really are: `update({'X': 'a\r\nSet-Cookie: x=1'})` and `dict = {'Y': ['a\nb']}` on a
fresh `HeaderDict` store the value as it is (replayed on the real code by the oracle stream). -/
theorem update_lets_crlf_in :
    (stepH (hdNew 0) 0 1 (.update [("X".toList, .one "a\r\nSet-Cookie: x=1".toList)])).1 =
      [(0, [("X".toList, .one "a\r\nSet-Cookie: x=1".toList)])] ∧
    (stepH (hdNew 0) 0 1 (.setDict [("Y".toList, .many ["a\nb".toList])])).1 =
      [(0, [("Y".toList, .many ["a\nb".toList])])] ∧
    hasCtl "a\r\nSet-Cookie: x=1".toList = true ∧ hasCtl "a\nb".toList = true := by decide

/-- **HeaderDict refines an insertion-ordered map** (`Headers.Store` with `dget/dset/ddel`, whose
map laws are `dget_dset_self/other`, `dset_keys`): in a thread whose dict is `d`, every read answers
what the map answers — `KeyError` exactly for an absent key —, and every write replaces that
thread's dict by the map operation's result, leaving the others alone. -/
theorem headerdict_refines_map (h : HD) (t : Tid) (f : Nat) (d : Store) (k : Str) (hd : tsGet h t = .ok d) :
    stepH h t f .len = (h, none, .ok (.int d.length)) ∧
    stepH h t f .keys = (h, none, .ok (.keys (d.map (·.1)))) ∧
    stepH h t f .iter = (h, none, .ok (.keys (d.map (·.1)))) ∧
    stepH h t f .items = (h, none, .ok (.items d)) ∧
    stepH h t f (.contains k) = (h, none, .ok (.bool (dget d k).isSome)) ∧
    (∀ e, dget d k = some e →
      stepH h t f (.getitem k) = (h, none, .ok (.entry e)) ∧
      stepH h t f (.get k) = (h, none, .ok (.entry e)) ∧
      stepH h t f (.delitem k) = (tsSet h t (ddel d k), none, .ok .none) ∧
      ∀ b, stepH h t f (.pop k b) = (tsSet h t (ddel d k), none, .ok (.entry e))) ∧
    (dget d k = none →
      stepH h t f (.getitem k) = (h, none, .error .keyError) ∧
      stepH h t f (.get k) = (h, none, .ok .none) ∧
      stepH h t f (.delitem k) = (h, none, .error .keyError) ∧
      stepH h t f (.pop k false) = (h, none, .error .keyError) ∧
      stepH h t f (.pop k true) = (h, none, .ok .none)) ∧
    (d = [] → stepH h t f .popitem = (h, none, .error .keyError)) ∧
    stepH h t f (.clear []) = (tsSet h t [], none, .ok .none) ∧
    (∀ t2, t2 ≠ t → ∀ d', tsGet (tsSet h t d') t2 = tsGet h t2) := by
  refine ⟨?_, ?_, ?_, ?_, ?_, ?_, ?_, ?_, ?_, ?_⟩
  · simp [stepH, hd, Except.map]
  · simp [stepH, hd, Except.map]
  · simp [stepH, hd, Except.map]
  · simp [stepH, hd, Except.map]
  · simp [stepH, hd, Except.map]
  · intro e he
    refine ⟨?_, ?_, ?_, ?_⟩ <;> simp [stepH, hd, he, Except.map, Except.bind]
  · intro he
    refine ⟨?_, ?_, ?_, ?_, ?_⟩ <;> simp [stepH, hd, he, Except.map, Except.bind]
  · intro he; subst he; simp [stepH, hd]
  · simp [stepH, hd]
  · intro t2 hne d'; exact tsGet_tsSet_other h t t2 d' hne

/-- **thread-local `dict`**: a `HeaderDict` created on thread `t0` has no dict on any other thread
(`AttributeError`, for every read); assigning `dict` there gives that thread its own dict and does
not change what `t0` sees. -/
theorem thread_dicts_isolated (t0 t : Tid) (hne : t ≠ t0) (d : Store) (f : Nat) :
    (stepH (hdNew t0) t f .len).2.2 = .error .attributeError ∧
    (stepH (hdNew t0) t f .copy).2.2 = .error .attributeError ∧
    (stepH (hdNew t0) t f .repr).2.2 = .error .attributeError ∧
    tsGet (stepH (hdNew t0) t f (.setDict d)).1 t = .ok d ∧
    tsGet (stepH (hdNew t0) t f (.setDict d)).1 t0 = .ok [] := by
  have h0 : tsGet (hdNew t0) t = .error .attributeError := by
    have : (t0 == t) = false := by simpa using fun h => hne h.symm
    simp [tsGet, hdNew, this]
  refine ⟨by simp [stepH, h0, Except.map], by simp [stepH, h0], by simp [stepH, h0, Except.map], ?_, ?_⟩
  · simp only [stepH]; exact tsGet_tsSet_self _ _ _
  · simp only [stepH]
    rw [tsGet_tsSet_other _ _ _ _ hne.symm]
    simp [tsGet, hdNew]

/-- **`copy` independence**: a call on one object (the copy, say) never changes another object
(the original): lists are copied, not shared. -/
theorem copy_independent (objs objs' : List HD) (rs : List (Except Err Res)) (i j : Nat) (t : Tid) (op : HOp)
    (hij : i ≠ j) (hi : i < objs.length) (hr : runH objs [(j, t, op)] = some (objs', rs)) :
    objs'[i]? = objs[i]? := by
  simp only [runH] at hr
  split at hr
  · cases hr
  · simp only [Option.some.injEq, Prod.mk.injEq] at hr
    obtain ⟨rfl, _⟩ := hr
    rw [List.getElem?_append_left (by simpa using hi), List.getElem?_set_ne (Ne.symm hij)]

/-- the copy itself: created on the calling thread with that thread's dict, numbered next -/
theorem copy_creates_equal (h : HD) (t : Tid) (f : Nat) (d : Store) (hd : tsGet h t = .ok d) :
    stepH h t f .copy = (h, some [(t, d)], .ok (.obj f)) := by
  simp [stepH, hd, hdNew, tsSet]

/-- no character of a decimal numeral is CR, LF or NUL -/
theorem natStr_clean (n : Nat) : hasCtl (natStr n) = false := by
  cases hc : hasCtl (natStr n) with
  | false => rfl
  | true =>
    rcases (hasCtl_iff _).mp hc with h | h | h <;> exact absurd (natStr_digits n _ h) (by decide)

/-- **HeaderProperty get-after-set**, for every row of the generated table (`Gen.rhProps`: the
attributes that exist in the source): on a thread that has a dict, setting the attribute to a text
`s` without CR/LF/NUL succeeds and a row without reader (`content_type`) reads `s` back; a row with
the `int` reader (`content_length`) set to a natural number `n` of at most `Gen.intMaxStrDigits` digits (the interpreter's
`int(str)` limit, beyond which the `int` reader raises) reads back the integer `n`;
deleting it afterwards succeeds and a second delete is `KeyError`. -/
theorem hp_get_after_set (i : Nat) (row : HPRow) (hrow : hpRows[i]? = some row) (h : HD) (t : Tid) (f : Nat)
    (d : Store) (hd : tsGet h t = .ok d) (rd fmt : Except Err Str) :
    (∀ s, hasCtl s = false → row.writer.isEmpty ∨ row.writer = "http_date".toList →
      ∃ h', stepH h t f (.propSet i (.str s) fmt) = (h', none, .ok .none) ∧
        tsGet h' t = .ok (dset d row.name (.one s)) ∧
        (row.reader.isEmpty → stepH h' t f (.propGet i rd) = (h', none, .ok (.entry (.one s)))) ∧
        (stepH h' t f (.propDel i)).2.2 = .ok .none ∧
        (stepH (stepH h' t f (.propDel i)).1 t f (.propDel i)).2.2 = .error .keyError) ∧
    (∀ n : Nat, (natStr n).length ≤ Ombott.Gen.intMaxStrDigits → row.writer.isEmpty → row.reader = "int".toList →
      ∃ h', stepH h t f (.propSet i (.int n) fmt) = (h', none, .ok .none) ∧
        stepH h' t f (.propGet i rd) = (h', none, .ok (.int n))) := by
  constructor
  · intro s hs hw
    have hwr : hpWrite row (.str s) fmt = .ok (.str s) := by
      unfold hpWrite
      rcases hw with hw | hw
      · simp [hw]
      · simp [hw]
    have hv : hval (.str s) = .ok s := hval_good rfl hs
    have hset : setitem d row.name (.str s) = .ok (dset d row.name (.one s)) := by simp [setitem, hv]; rfl
    refine ⟨tsSet h t (dset d row.name (.one s)), ?_, tsGet_tsSet_self _ _ _, ?_, ?_, ?_⟩
    · simp [stepH, hrow, hwr, hv, hd, hset]
    · intro hr
      simp [stepH, hrow, tsGet_tsSet_self, Except.bind, hpRead, hr, dget_dset_self]
    · simp [stepH, hrow, tsGet_tsSet_self, dget_dset_self]
    · have hdel : dget (ddel (dset d row.name (.one s)) row.name) row.name = none := by
        unfold dget ddel
        rw [List.find?_eq_none.mpr]
        · rfl
        · intro x hx; simp only [List.mem_filter] at hx; simpa using hx.2
      simp [stepH, hrow, tsGet_tsSet_self, dget_dset_self, hdel]
  · intro n hlim hw hr
    have hwr : hpWrite row (.int n) fmt = .ok (.int n) := by unfold hpWrite; simp [hw]
    have his : intStr (n : Int) = natStr n := by simp [intStr]
    have hv : hval (.int n) = .ok (natStr n) := by
      have := hval_good (v := .int n) (s := natStr n) (by simp [pyStr, his]) (natStr_clean n)
      exact this
    have hset : setitem d row.name (.int n) = .ok (dset d row.name (.one (natStr n))) := by simp [setitem, hv]; rfl
    refine ⟨tsSet h t (dset d row.name (.one (natStr n))), ?_, ?_⟩
    · simp [stepH, hrow, hwr, hv, hd, hset]
    · have hne : row.reader.isEmpty = false := by rw [hr]; decide
      simp [stepH, hrow, tsGet_tsSet_self, Except.bind, hpRead, hne, hr, dget_dset_self, pyIntLim_natStr n hlim]

/-- the table has the rows the scope names, with these readers / writers / defaults (re-checked
whenever the source's attributes change) -/
theorem hp_table_rows :
    hpRows =
      [{ owner := "BaseResponse".toList, attr := "content_length".toList, name := "Content-Length".toList, reader := "int".toList,
         writer := [], dflt := .str [] },
       { owner := "BaseResponse".toList, attr := "content_type".toList, name := "Content-Type".toList, reader := [], writer := [],
         dflt := .str [] },
       { owner := "BaseResponse".toList, attr := "expires".toList, name := "Expires".toList, reader := "other".toList,
         writer := "http_date".toList, dflt := .str [] },
       { owner := "FileUpload".toList, attr := "content_length".toList, name := "Content-Length".toList, reader := "int".toList,
         writer := [], dflt := .int (-1) },
       { owner := "FileUpload".toList, attr := "content_type".toList, name := "Content-Type".toList, reader := [], writer := [],
         dflt := .str [] }] := by decide +kernel

/-- **WSGIFileWrapper iteration**: for a positive buffer size and a file object with `read`, under
every read schedule (short reads included) the iteration terminates, its parts concatenate to the
remaining content of the file, and every part is non-empty and at most `buffer_size` long. -/
theorem fw_iter_concat (attrs : List Str) (s : Stream) (buff : Nat) (hb : 0 < buff)
    (hr : (fwInit attrs).contains "read".toList = true) :
    ∃ parts, fwIter attrs s buff = .ok parts ∧ parts.flatten = s.data ∧
      ∀ p ∈ parts, p ≠ [] ∧ p.length ≤ buff := by
  refine ⟨fwLoop (s.data.length + 1) s buff, by unfold fwIter; rw [if_pos hr], ?_⟩
  exact fwLoop_spec _ s buff hb (Nat.lt_succ_self _)

/-- **`_closeiter.close`** calls every callback exactly once, in order (a list / tuple of
callbacks, or a single one), when none of them raises; `_closeiter(it)` without callbacks has
`[None]` and `close()` is a `TypeError` (what `_cast` avoids by only wrapping when `close` exists). -/
theorem closeiter_close_each_once (cbs : List Cb) (h : ∀ cb ∈ cbs, cb.raises = false) :
    closeiterClose (closeiterInit (.many cbs)) = (cbs.map fun cb => cb.id, none) ∧
    (∀ cb ∈ cbs, closeiterClose (closeiterInit (.one cb)) = ([cb.id], none)) ∧
    closeiterClose (closeiterInit .none) = ([], some .typeError) := by
  refine ⟨closeiterClose_all_ok cbs h, fun cb hcb => ?_, rfl⟩
  simp [closeiterInit, closeiterClose, h cb hcb]

/-- **status setter, integer case**: accepted exactly for 100..999; the code is the integer and the
status line is the generated reason line or `"<code> Unknown"`, never empty. -/
theorem status_int_accepted_iff (i : Int) :
    (100 ≤ i ∧ i ≤ 999 → ∃ l, setStatusFull (.int i) = .ok (i.toNat, l) ∧ l ≠ []) ∧
    (¬ (100 ≤ i ∧ i ≤ 999) → setStatusFull (.int i) = .error .valueError) ∧
    setStatusFull (.str []) = .error .valueError ∧ setStatusFull .other = .error .typeError := by
  refine ⟨fun hi => ?_, fun hi => by simp [setStatusFull, hi], by decide, rfl⟩
  simp only [setStatusFull, hi, and_self, if_true]
  have hne : intStr i ++ " Unknown".toList ≠ [] := by simp
  cases statusLine i with
  | none => exact ⟨_, rfl, hne⟩
  | some l =>
    by_cases hl : l.isEmpty
    · exact ⟨_, by simp [hl], hne⟩
    · exact ⟨l, by simp [hl], by simpa using hl⟩

/-- **`delete_cookie`** (`= set_cookie(key, '', max_age=-1, expires=0)`): for a legal, unreserved
name and no further keyword arguments it succeeds and the jar then holds exactly the morsel
`name=""` whose attributes are the old ones overwritten with `max-age = -1` and
`expires = http_date(0)` (`Gen.rhEpochDate`); the jar is keyed by name (`jarSet`), so there is one
`Set-Cookie` for the name.  A later `set_cookie(name, v)` replaces the value in that same morsel —
and keeps its attributes (`SimpleCookie.__setitem__` reuses the morsel). -/
theorem delete_cookie_one_expired (j : Jar) (name : Str)
    (hn : (Cookies.isReserved name || !Cookies.isLegalKey name) = false) :
    let old := ((jarGet j name).map (·.attrs)).getD []
    let m : Morsel := { coded := Cookies.quote [],
                        attrs := attrSet (attrSet old "max-age".toList (.int (-1))) "expires".toList (.text Gen.rhEpochDate.toList) }
    deleteCookie j name [] = (jarSet j name m, none) ∧
    ∀ v, v.length ≤ 4096 →
      setCookie (jarSet j name m) name (some v) [] = (jarSet (jarSet j name m) name { m with coded := Cookies.quote v }, none) := by
  intro old m
  have hget : ∀ (j : Jar) (mm : Morsel), jarGet (jarSet j name mm) name = some mm := by
    intro j mm
    induction j with
    | nil => simp [jarSet, jarGet]
    | cons x r ih =>
      obtain ⟨k', m'⟩ := x
      simp only [jarSet]
      split
      · simp [jarGet]
      · rename_i hne
        unfold jarGet at ih ⊢
        simp only [List.find?_cons, hne]
        exact ih
  have hr1 : reservedName "max-age".toList = some "Max-Age".toList := by decide
  have hr2 : reservedName "expires".toList = some "expires".toList := by decide
  have hl1 : lowerAscii ("max_age".toList.map fun c => if c == '_' then '-' else c) = "max-age".toList := by decide
  have hl2 : lowerAscii ("expires".toList.map fun c => if c == '_' then '-' else c) = "expires".toList := by decide
  have hlen : ¬ ([] : Str).length > 4096 := by simp
  constructor
  · simp only [deleteCookie, setCookie, hlen, if_false, hn, Bool.false_eq_true, deleteOpts, attrSet]
    have h3 : ("max_age".toList == "expires".toList) = false := by decide
    simp only [h3, Bool.false_eq_true, if_false, applyOpts, hl1, hl2, hr1, hr2]
    cases hj : jarGet j name with
    | none => simp [m, old, hj]
    | some m0 => simp [m, old, hj]
  · intro v hv
    have hlen' : ¬ v.length > 4096 := by omega
    simp only [setCookie, hlen', if_false, hn, Bool.false_eq_true, hget, applyOpts]

/-- the `Set-Cookie` a deletion emits, and what a later `set_cookie` turns it into, on the wire
(`delete_cookie('a')`, then `set_cookie('a', 'new')`): one entry, clean per C15's `emit_clean`
criterion (printable ASCII) -/
theorem delete_cookie_wire :
    (headerlist { RObj.fresh with jar := (deleteCookie [] "a".toList []).1 }.toResp).filter (·.1 == "Set-Cookie".toList) =
      [("Set-Cookie".toList, "a=\"\"; expires=Thu, 01 Jan 1970 00:00:00 GMT; Max-Age=-1".toList)] ∧
    (headerlist { RObj.fresh with jar := (setCookie (deleteCookie [] "a".toList []).1 "a".toList (some "new".toList) []).1 }.toResp).filter
        (·.1 == "Set-Cookie".toList) =
      [("Set-Cookie".toList, "a=new; expires=Thu, 01 Jan 1970 00:00:00 GMT; Max-Age=-1".toList)] := by
  decide +kernel

/- OPEN: theorem response_copy_same_wire (r : RObj) (cls : Cls) (hcls : respNew cls true = .ok ())
     (hsingle : ∀ p ∈ r.store, ∃ v, p.2 = .one v) (hclean : StoreClean r.store) (hn : KeysNodup r.store)
     (hline : ∃ c l, r.code = some c ∧ r.line = some l ∧ setStatusFull (.str l) = .ok (c, l))
     (hsorted : copyJar r.jar = r.jar) :
     ∃ cp, respCopy r (some cls) = .ok cp ∧ observe cp = observe r
   Proved below on concrete instances (`response_copy_same_wire_partial`), together with the three
   ways the real `copy` fails: default class, a `Response` target, a list-valued header. -/

/-- a response with a custom status line, a non-ASCII header, a quoted cookie with a path and a deleted cookie -/
def nvResp : RObj :=
  (runR RObj.fresh [.setStatus (.str "299 Custom".toList), .setHeader "X-A".toList (.str "é".toList),
    .setHeader "Content-Type".toList (.str "text/plain".toList), .setCookie "a".toList (some "v w".toList) [("path".toList, .text "/".toList)],
    .deleteCookie "b".toList []]).1

/-- **response_copy_same_wire** (partial: concrete instances by evaluation; the general statement
is the OPEN block above and is exercised by the correspondence and oracle streams).  `copy(cls)` of a
response with a custom status line, single-valued headers and cookies gives the same status code,
status line and header list for both exception-derived classes; `copy()` with the default class and
`copy(Response)` raise `TypeError` (`BaseResponse.__new__` forwards the constructor arguments to
`object.__new__`), and so does `copy(HTTPResponse)` of a response holding a list-valued header
(`append` is handed the list). -/
theorem response_copy_same_wire_partial :
    (∀ cls ∈ [Cls.httpResponse, Cls.httpError], (respCopy nvResp (some cls)).toOption.map (fun c =>
        decide (c.code = nvResp.code) && decide (c.line = nvResp.line) &&
        decide (headerlist c.toResp = headerlist nvResp.toResp)) = some true) ∧
    respCopy nvResp none = .error .typeError ∧ respCopy nvResp (some .response) = .error .typeError ∧
    respCopy (runR nvResp [.appendHeader "X-A".toList (.str "2".toList)]).1 (some .httpResponse) = .error .typeError := by
  decide +kernel

section NonVacuity

/-- `guarded_ops_keep_clean`: a program with two objects and two threads that tries to smuggle CR/LF
through every guarded entry -/
example : (runH hdStart [(0, 0, .setitem "X".toList (.str "a\r\nb".toList)), (0, 0, .append "X".toList (.str "v".toList)),
      (0, 0, .append "X".toList (.str "w".toList)), (0, 0, .copy), (1, 0, .propSet 1 (.str "x\ny".toList) (.error .typeError)),
      (1, 1, .len), (1, 0, .popitem), (0, 0, .clear ["X".toList])]).map (fun x => (x.1.length, x.2.length)) = some (2, 8) := by
  decide +kernel

/-- `update_is_the_only_unguarded_entry`: its hypothesis is met by `update` -/
example : HDClean (hdNew 0) ∧
    ¬ HDClean (stepH (hdNew 0) 0 1 (.update [("X".toList, .one "a\r\nb".toList)])).1 := by
  refine ⟨fun p hp => ?_, fun h => ?_⟩
  · simp only [hdNew, List.mem_singleton] at hp; subst hp; exact good_nil
  · have := (h (0, [("X".toList, .one "a\r\nb".toList)]) (by decide)).1 _ List.mem_cons_self _ List.mem_cons_self
    exact absurd this (by decide)

/-- `headerdict_refines_map`, `hp_get_after_set`, `copy_creates_equal`: a thread with a dict -/
example : tsGet (hdNew 3) 3 = .ok [] ∧ hpRows[1]? = some (hpRows[1]!) ∧ (hpRows[1]!).reader.isEmpty = true ∧
    (hpRows[0]!).reader = "int".toList ∧ (hpRows[0]!).writer.isEmpty = true := by decide

/-- `copy_independent`: appending to the copy of a list-valued header leaves the original's list -/
example : (runH [[(0, [("X".toList, .many ["1".toList, "2".toList])])], [(0, [("X".toList, .many ["1".toList, "2".toList])])]]
    [(1, 0, .append "X".toList (.str "3".toList))]).map (·.1) =
    some [[(0, [("X".toList, .many ["1".toList, "2".toList])])], [(0, [("X".toList, .many ["1".toList, "2".toList, "3".toList])])]] := by
  decide +kernel

/-- `fw_iter_concat`: a file object with `read` and `close`, short reads, buffer 2 -/
example : (fwInit ["close".toList, "read".toList]).contains "read".toList = true ∧
    fwIter ["close".toList, "read".toList] { data := [1, 2, 3, 4, 5], sched := [1, 0, 9] } 2 = .ok [[1], [2], [3, 4], [5]] := by
  decide +kernel

/-- `closeiter_close_each_once`, and a raising callback stops the comprehension -/
example : (∀ cb ∈ [Cb.mk 1 false, Cb.mk 2 false], cb.raises = false) ∧
    closeiterClose (closeiterInit (.many [⟨1, false⟩, ⟨2, true⟩, ⟨3, false⟩])) = ([1, 2], some .runtimeError) := by decide

/-- `delete_cookie_one_expired`: a legal name; a reserved or illegal one is a `CookieError` -/
example : (Cookies.isReserved "sid".toList || !Cookies.isLegalKey "sid".toList) = false ∧
    (deleteCookie [] "path".toList []).2 = some .cookieError ∧ (deleteCookie [] "a b".toList []).2 = some .cookieError := by
  decide +kernel

end NonVacuity

end Ombott.RespHelp
