import OmbottModel.Model.Headers
import OmbottModel.Lemmas.Headers
import OmbottModel.Gen.Headers
import OmbottModel.Lemmas.AppEmit
/-!
C14 — Response header values cannot split the response and are wire-safe.
Property theorems only; helper lemmas live in `Lemmas/Headers.lean`, `Lemmas/Text.lean`.
All statements are about `step`/`run`/`headerlist`/`wsgiHeaders`, the functions the driver runs.
-/
namespace Ombott.Headers
open Py

/-- the value an operation hands to `_hval` through a single-value setter: item assignment,
`append`, `setdefault`, a header attribute (after its writer) -/
def Op.direct : Op → Option PyVal
  | .setitem _ v => some v
  | .append _ v => some v
  | .setdefault _ v => some v
  | .propSet p v fmt => (p.write v fmt).toOption
  | _ => none

/-- **guarded_setter_rejects** (clause 1, single-value setters): a value whose text contains
CR, LF or NUL offered through item assignment, `append`, `setdefault` or a header attribute
raises `ValueError` and leaves the response exactly as it was. -/
theorem guarded_setter_rejects (r : Resp) (op : Op) (v : PyVal) (s : Str)
    (hop : op.direct = some v) (hs : pyStr v = some s) (hc : hasCtl s = true) :
    step r op = (r, some .valueError) := by
  have hv := hval_ctl hs hc
  cases op with
  | setitem k v' => cases hop; simp only [step, setitem_err hv]
  | append k v' => cases hop; simp only [step, append_err hv]
  | setdefault k v' => cases hop; simp only [step, setdefault_err hv]
  | propSet p v' fmt =>
    simp only [Op.direct] at hop
    cases hw : p.write v' fmt with
    | error e => simp [hw, Except.toOption] at hop
    | ok w =>
      simp only [hw, Except.toOption, Option.some.injEq] at hop
      subst hop
      simp only [step, hw, setitem_err hv]
  | delitem k => cases hop
  | clear ks => cases hop
  | status n => cases hop
  | init st h m => cases hop
  | initMap st ks m => cases hop
  | error st o => cases hop
  | cookie n o => cases hop

/-- **wrong_type_rejected**: a value that is not `str`, `int`, `float`, `bool` or `None`
raises `TypeError` through every single-value setter and changes nothing. -/
theorem wrong_type_rejected (r : Resp) (op : Op) (v : PyVal)
    (hop : op.direct = some v) (hs : pyStr v = none) :
    step r op = (r, some .typeError) := by
  have hv := hval_type hs
  cases op with
  | setitem k v' => cases hop; simp only [step, setitem_err hv]
  | append k v' => cases hop; simp only [step, append_err hv]
  | setdefault k v' => cases hop; simp only [step, setdefault_err hv]
  | propSet p v' fmt =>
    simp only [Op.direct] at hop
    cases hw : p.write v' fmt with
    | error e => simp [hw, Except.toOption] at hop
    | ok w =>
      simp only [hw, Except.toOption, Option.some.injEq] at hop
      subst hop
      simp only [step, hw, setitem_err hv]
  | delitem k => cases hop
  | clear ks => cases hop
  | status n => cases hop
  | init st h m => cases hop
  | initMap st ks m => cases hop
  | error st o => cases hop
  | cookie n o => cases hop

/-- **guarded_setter_rejects**, constructor arguments: `HTTPError(status, body, **options)` with
a refused value (control character or wrong type) among the options raises, and the response it
would have been applied to is untouched. -/
theorem guarded_error_options_reject (r : Resp) (st : Option Int) (opts : List (Str × PyVal))
    (h : ∃ p ∈ opts, Refused p.2) : ∃ e, step r (.error st opts) = (r, some e) := by
  have hr := initResp_refused Gen.errorDefaultStatus st [] opts (by simpa using h)
  simp only [step]
  cases hi : initResp Gen.errorDefaultStatus st [] opts with
  | mk e oe =>
    rw [hi] at hr
    cases oe with
    | none => cases hr
    | some err => exact ⟨err, rfl⟩

/-- **guarded_setter_rejects**, `__init__(body, status, headers, **more)`: a refused value among
the arguments makes the call raise; whatever it leaves behind in the object is clean (the entries
appended before the offending one, see `store_clean`). -/
theorem guarded_init_rejects (r : Resp) (st : Option Int) (hdrs more : List (Str × PyVal))
    (h : ∃ p ∈ hdrs ++ more, Refused p.2) :
    (step r (.init st hdrs more)).2.isSome = true ∧ StoreClean (step r (.init st hdrs more)).1.store := by
  simp only [step]
  exact ⟨initResp_refused _ st hdrs more h, (initResp_inv _ st hdrs more).1⟩

/-- a key that is not exactly two characters long stops the unpacking loop with `ValueError` -/
theorem unpackKeys_raises (keys : List Str) (h : ∃ k ∈ keys, k.length ≠ 2) :
    (unpackKeys keys).2 = some .valueError := by
  fun_induction unpackKeys keys with
  | case1 => obtain ⟨k, hk, _⟩ := h; cases hk
  | case2 a b r ps e hr ih =>
    obtain ⟨k, hk, hl⟩ := h
    simp only [List.mem_cons] at hk
    rcases hk with rfl | hk
    · simp at hl
    · have := ih ⟨k, hk, hl⟩
      rw [hr] at this
      exact this
  | case3 => rfl

/-- **guarded_setter_rejects**, constructor handed a MAPPING THAT IS NOT A `dict` (a `HeaderDict`, the `.headers` of
another response or of an upload, a mapping proxy): such a container is no proof that its values went through a
guarded setter (`HeaderDict(m)` and `update` store them as they are), and the constructor does not take them over:
whatever the mapping holds, nothing of its VALUES reaches the store (the operation does not even mention them), the
object left behind is clean, and unless every key happens to be two characters long the call raises. -/
theorem guarded_init_mapping (r : Resp) (st : Option Int) (keys : List Str) (more : List (Str × PyVal)) :
    StoreClean (step r (.initMap st keys more)).1.store ∧
    ((∃ k ∈ keys, k.length ≠ 2) → (step r (.initMap st keys more)).2.isSome = true) := by
  simp only [step]
  refine ⟨(initRespMap_inv _ st keys more).1, fun h => ?_⟩
  have hk := unpackKeys_raises keys h
  unfold initRespMap
  rcases hu : unpackKeys keys with ⟨ps, e⟩
  rw [hu] at hk
  simp only at hk
  subst hk
  simp only
  split <;> rfl

/-- **store_clean**: after any sequence of operations (each possibly raising) on a fresh
response every stored value is a CR/LF/NUL-free string, and the store is a proper dict. -/
theorem store_clean (ops : List Op) :
    StoreClean (run Resp.fresh ops).1.store ∧ KeysNodup (run Resp.fresh ops).1.store :=
  run_inv ops Resp.fresh nil_clean nil_nodup

/-- the invariant is inductive: it is kept from any state that has it -/
theorem store_clean_from (r : Resp) (ops : List Op) (hc : StoreClean r.store) (hn : KeysNodup r.store) :
    StoreClean (run r ops).1.store ∧ KeysNodup (run r ops).1.store := run_inv ops r hc hn

/-- **emitted_clean**: no value that `headerlist` emits from the store, and not the default
`Content-Type`, contains CR, LF or NUL (multi-byte UTF-8 sequences consist of bytes ≥ 0x80, so
transcoding cannot manufacture one). -/
theorem emitted_clean (r : Resp) (hc : StoreClean r.store) :
    ∀ h ∈ storePart r ++ ctypePart r, Clean h.2 := by
  intro h hh
  rcases List.mem_append.mp hh with hh | hh
  · obtain ⟨e, _, he, _, v, hv, hv2⟩ := mem_storePart hh
    unfold Clean
    rw [hv2, hasCtl_transcode]
    exact hc e he v hv
  · unfold ctypePart at hh
    split at hh
    · simp only [List.mem_singleton] at hh
      subst hh
      exact defaultContentType_clean
    · cases hh

/-- **emitted_clean** for a whole handler run through `Ombott.wsgi`: whatever the handler did,
every value in the list handed to `start_response` is free of CR/LF/NUL, provided the morsels of
the cookie jar are (C15: `emit_clean`). -/
theorem wsgi_emitted_clean (ops : List Op) (n : Nat) (r : Resp) (es : List (Option Err))
    (hl : List (Str × Str)) (hw : wsgiHeaders ops n = (r, es, some hl))
    (hck : ∀ c ∈ r.cookies, Clean c.2) : ∀ h ∈ hl, Clean h.2 := by
  unfold wsgiHeaders at hw
  have hinv := store_clean ops
  cases hrun : run Resp.fresh ops with
  | mk r0 es0 =>
    rw [hrun] at hw hinv
    simp only at hw hinv
    have hinv' := step_inv r0 (.setdefault "Content-Length".toList (.int n)) hinv.1 hinv.2
    split at hw
    · simp only [Prod.mk.injEq, Option.some.injEq] at hw
      obtain ⟨hr, _, hhl⟩ := hw
      subst hr
      intro h hh
      rw [← hhl, headerlist, List.mem_append] at hh
      rcases hh with hh | hh
      · exact emitted_clean _ hinv'.1 h hh
      · simp only [cookiePart, List.mem_map] at hh
        obtain ⟨c, hc, rfl⟩ := hh
        unfold Clean
        rw [hasCtl_transcode]
        exact hck c hc
    · simp at hw

/-! ### the composed application (`Model/App.lean`): what `Ombott.__call__` hands to `start_response` -/

/-- **`app_emitted_clean`: every header pair in `App.serve`'s `start_response` list is free of
CR, LF and NUL.**  For every application inside C03's domain (`App.DomainB`: hooks, error
handlers and handler programs — statements over the guarded setters `headers[k] = v`,
`headers.append`, `set_cookie`, the status setter; response objects built by the guarded
constructors — with CR/LF-free names), every router state and every request on which `App.serve`
is defined — whichever route the router selects, whatever the programs try to store, through
`_handle`, `apply`, `_cast`, the default or a custom error handler —, every value in the one
list handed to `start_response` is clean: on the normal path the list IS
`Model/Headers.headerlist` of the final response object (`wsgi_headers_refine_headers_model`) and
its store is clean (`emitted_clean`); the last-resort path emits its literal list.  As in
`wsgi_emitted_clean`, the morsels of the cookie jar are C15's (`emit_clean`). -/
theorem app_emitted_clean (cfg : App.AppConfig) (R : Router.Router) (q : App.Req) (res : Wsgi.Result)
    (hs : App.serveW cfg R q = .ok res) (hB : App.DomainB cfg)
    (hck : ∀ c ∈ res.slots.resp.cookies, Clean (c.1 ++ '=' :: c.2)) :
    ∀ line hdrs x, Wsgi.Event.startResponse line hdrs x ∈ res.events → ∀ h ∈ hdrs, Clean h.2 := by
  obtain ⟨r, hr, rfl⟩ := App.serveW_ok hs
  obtain ⟨_, _, _, _, _, _, _, _, _, hrel⟩ := App.wsgiReq_ok hr
  obtain ⟨hre, hra⟩ := App.route_domainB hrel hB
  have hok := App.wsgi_slots_ok cfg.hooks Wsgi.Slots.fresh r hB.1 hB.2.1 hre hra
  intro line hdrs x hmem h hh
  cases x with
  | true =>
    obtain ⟨rfl, _⟩ := App.wsgi_start_exc cfg.hooks Wsgi.Slots.fresh r line hdrs hmem
    simp only [catchAllHeaders, List.mem_singleton] at hh
    subst hh
    decide
  | false =>
    have hview := App.wsgi_start_headers_view cfg.hooks Wsgi.Slots.fresh r line hdrs hmem
    rw [hview, headerlist, List.mem_append] at hh
    have hclean := App.headersView_clean _ ((Wsgi.RState.ok_iff _).mp hok).2.1
    rcases hh with hh | hh
    · exact emitted_clean _ hclean h hh
    · simp only [cookiePart, List.mem_map] at hh
      obtain ⟨c, hc, rfl⟩ := hh
      unfold Clean
      rw [hasCtl_transcode]
      simp only [App.headersView, List.mem_map] at hc
      obtain ⟨c0, hc0, rfl⟩ := hc
      exact hck c0 hc0

/-- the same fact on core Lean's own decoder (`List.utf8Decode?_utf8Encode`) -/
theorem transcode_roundtrip_core (s : Str) :
    ∃ b, latin1Enc (transcode s) = some b ∧ b.toByteArray.utf8Decode? = some s.toArray := by
  refine ⟨utf8Enc s, latin1Enc_latin1Dec _, ?_⟩
  rw [utf8Enc_toByteArray]
  exact List.utf8Decode?_utf8Encode

/-- **emitted_latin1_roundtrip**: every emitted value consists of code points < 256 (it is
encodable as Latin-1) and those bytes decode, as UTF-8, to the very text that is in the store. -/
theorem emitted_latin1_roundtrip (r : Resp) :
    ∀ h ∈ storePart r, (∀ c ∈ h.2, c.toNat < 256) ∧
      ∃ e ∈ r.store, e.1 = h.1 ∧ ∃ v ∈ e.2.vals, wireDecode h.2 = some v := by
  intro h hh
  obtain ⟨e, _, he, hn, v, hv, hv2⟩ := mem_storePart hh
  refine ⟨?_, e, he, hn.symm, v, hv, ?_⟩
  · rw [hv2]; exact latin1Dec_lt256 _
  · rw [hv2]; exact wireDecode_transcode v

/-- **emitted_latin1_roundtrip**, end to end for item assignment: an accepted value is emitted
under its name as a text that decodes back to `str(value)`. -/
theorem accepted_value_emitted (r r' : Resp) (k : Str) (v : PyVal) (s : Str)
    (hstep : step r (.setitem k v) = (r', none)) (hs : pyStr v = some s) (hp : Passes r' k) :
    (k, transcode s) ∈ headerlist r' ∧ wireDecode (transcode s) = some s := by
  refine ⟨?_, wireDecode_transcode s⟩
  simp only [step] at hstep
  cases hset : setitem r.store k v with
  | error e => rw [hset] at hstep; simp at hstep
  | ok d =>
    rw [hset] at hstep
    simp only [Prod.mk.injEq, and_true] at hstep
    obtain ⟨s', hs', hd⟩ := setitem_ok hset
    have : s' = s := by
      have := (hval_ok hs').1
      rw [hs] at this; exact (Option.some.inj this).symm
    subst this
    have hm : (k, Entry.one s') ∈ r'.store := by
      rw [← hstep]; simp only; rw [hd]; exact dget_mem (dget_dset_self _ _ _)
    unfold headerlist
    apply List.mem_append_left
    apply List.mem_append_left
    simp only [storePart, List.mem_flatMap, List.mem_map]
    exact ⟨(k, .one s'), mem_visible hm hp, s', by simp [Entry.vals], rfl⟩

/-- **multi_in_order**: a header that holds a list of values is emitted once per value, in the
order of the list, under its own name (for every response whose store is a proper dict, which
`store_clean` guarantees after any operation sequence). -/
theorem multi_in_order (r : Resp) (hn : KeysNodup r.store) (k : Str) (e : Entry)
    (hg : dget r.store k = some e) (hp : Passes r k) :
    (storePart r).filter (·.1 == k) = e.vals.map fun v => (k, transcode v) := by
  unfold storePart
  apply filter_flatMap_key
  · unfold visible
    split
    · unfold KeysNodup at *
      exact (List.filter_sublist.map _).nodup hn
    · exact hn
  · exact mem_visible (dget_mem hg) hp

/-- **multi_in_order**, end to end: on a fresh response, `append(k, v₁) … append(k, vₙ)` with
acceptable values makes `headerlist` carry `k` exactly `n` times, with the texts of
`v₁ … vₙ` in that order. -/
theorem appended_values_emitted_in_order (k : Str) (ps : List (PyVal × Str))
    (hps : ∀ p ∈ ps, hval p.1 = .ok p.2) (hne : ps ≠ []) (hp : Passes Resp.fresh k) :
    (storePart (run Resp.fresh (ps.map fun p => Op.append k p.1)).1).filter (·.1 == k) =
      ps.map fun p => (k, transcode p.2) := by
  obtain ⟨h1, h2⟩ := run_appends k ps hps Resp.fresh
  have hinv := store_clean (ps.map fun p => Op.append k p.1)
  generalize (run Resp.fresh (ps.map fun p => Op.append k p.1)).1 = r' at *
  have hss : ps.map (·.2) ≠ [] := by simpa using hne
  have hv0 : valsOf Resp.fresh.store k = [] := by simp [valsOf, dget, Resp.fresh]
  rw [hv0, List.nil_append] at h1
  unfold valsOf at h1
  cases hg : dget r'.store k with
  | none => rw [hg] at h1; exact absurd h1.symm hss
  | some e =>
    rw [hg] at h1
    simp only at h1
    have hp' : Passes r' k := by unfold Passes passes at *; rw [h2]; exact hp
    rw [multi_in_order r' hinv.2 k e hg hp', h1, List.map_map]
    rfl

/-- **blacklist_withheld** (structural): whatever the per-status table says is withheld, in any
spelling of the name that title-cases to a listed one; and no default `Content-Type` is added. -/
theorem blacklist_withheld (r : Resp) (bad : List Str) (hb : badFor r.status = some bad) :
    ∀ h ∈ storePart r ++ ctypePart r, title h.1 ∉ bad := by
  intro h hh
  rcases List.mem_append.mp hh with hh | hh
  · obtain ⟨e, he, _, hn, _⟩ := mem_storePart hh
    unfold visible at he
    rw [hb] at he
    simp only [List.mem_filter, Bool.not_eq_eq_eq_not, Bool.not_true] at he
    rw [hn]
    intro hc
    have := he.2
    simp only [List.contains_eq_mem, decide_eq_false_iff_not] at this
    exact this hc
  · simp [ctypePart, needCtype, hb] at hh

/-- the entity headers RFC 2616 (10.2.5, 10.3.5) forbids, written here independently of the
source; `title` spelling -/
def entity204 : List String := ["Content-Type"]
def entity304 : List String := ["Allow", "Content-Encoding", "Content-Language", "Content-Length",
  "Content-Range", "Content-Type", "Content-Md5", "Last-Modified"]

def covers (code : Nat) (names : List String) : Bool :=
  match badFor (some code) with
  | some bad => names.all fun n => bad.contains n.toList
  | none => false

/-- the table probed from the live class lists every one of them (re-checked whenever the
source's `bad_headers` changes) -/
theorem generated_table_covers_rfc : covers 204 entity204 = true ∧ covers 304 entity304 = true := by
  decide

/-- **blacklist_withheld** over the generated table: a 204 response emits no `Content-Type`, a
304 response none of the eight entity headers, however the name was spelled when it was stored
(`content-length`, `CONTENT-LENGTH`, …), whichever entry point stored it, cookies included. -/
theorem entity_headers_withheld (r : Resp) (code : Nat) (names : List String)
    (hcode : (code = 204 ∧ names = entity204) ∨ (code = 304 ∧ names = entity304))
    (hs : r.status = some code) :
    ∀ h ∈ headerlist r, ∀ n ∈ names, title h.1 ≠ n.toList := by
  have hcov : covers code names = true := by
    rcases hcode with ⟨rfl, rfl⟩ | ⟨rfl, rfl⟩
    · exact generated_table_covers_rfc.1
    · exact generated_table_covers_rfc.2
  have hsc : ∀ n ∈ names, title "Set-Cookie".toList ≠ n.toList := by
    rcases hcode with ⟨_, rfl⟩ | ⟨_, rfl⟩ <;> decide
  unfold covers at hcov
  rw [← hs] at hcov
  cases hb : badFor r.status with
  | none => rw [hb] at hcov; cases hcov
  | some bad =>
    rw [hb] at hcov
    simp only [List.all_eq_true, List.contains_eq_mem, decide_eq_true_eq] at hcov
    intro h hh n hn heq
    unfold headerlist at hh
    rcases List.mem_append.mp hh with hh | hh
    · exact blacklist_withheld r bad hb h hh (heq ▸ hcov n hn)
    · simp only [cookiePart, List.mem_map] at hh
      obtain ⟨c, _, rfl⟩ := hh
      exact hsc n hn heq

/-! ### non-vacuity: concrete instances meeting the hypotheses -/
section NonVacuity

/-- a CR/LF value through item assignment: hypotheses of `guarded_setter_rejects` hold -/
example : (Op.setitem "X".toList (.str "a\r\nSet-Cookie: x".toList)).direct = some (.str "a\r\nSet-Cookie: x".toList)
    ∧ pyStr (.str "a\r\nSet-Cookie: x".toList) = some "a\r\nSet-Cookie: x".toList
    ∧ hasCtl "a\r\nSet-Cookie: x".toList = true := by decide

/-- … and through the `expires` attribute, whose writer passes a `str` through -/
example : (Op.propSet .expires (.str "x\x00".toList) (.error .typeError)).direct = some (.str "x\x00".toList) := by
  decide

/-- `store_clean_from`, `emitted_clean`: a response holding non-ASCII values has the invariant -/
example : StoreClean [("X".toList, Entry.many ["é€".toList, "a\tb".toList])] ∧
    KeysNodup [("X".toList, Entry.many ["é€".toList, "a\tb".toList])] := by decide

/-- a bytes value: hypotheses of `wrong_type_rejected` -/
example : (Op.append "X".toList (.bytes [120])).direct = some (.bytes [120]) ∧ pyStr (.bytes [120]) = none := by
  decide

/-- a mapping with an ordinary header name raises; one whose key is two characters long is taken apart -/
example : ∃ k ∈ ["X-Trace".toList], k.length ≠ 2 := ⟨_, List.mem_singleton.mpr rfl, by decide⟩
example : (initRespMap 200 none ["X-Trace".toList] []).2 = some .valueError := by decide
example : unpackKeys ["TE".toList, "X-Trace".toList] = ([("T".toList, .str "E".toList)], some .valueError) := by decide

/-- a refused option for `guarded_error_options_reject` / `guarded_init_rejects` -/
example : Refused (.str "a\nb".toList) := refused_of_ctl (s := "a\nb".toList) rfl (by decide)

/-- `wsgi_emitted_clean`: a handler that tries to smuggle CR/LF and sets a non-ASCII value -/
example : ∃ r es hl, wsgiHeaders [.setitem "X".toList (.str "é€".toList),
      .append "X".toList (.str "a\r\nb".toList)] 3 = (r, es, some hl) ∧ (∀ c ∈ r.cookies, Clean c.2) ∧
      hl.length = 3 := by
  refine ⟨_, _, _, rfl, ?_, ?_⟩ <;> decide

/-- `accepted_value_emitted`, `Passes`: a Latin-1 + BMP value under a lower-case name on a 200 -/
example : step Resp.fresh (.setitem "x-a".toList (.str "é€".toList)) =
      ({ Resp.fresh with store := [("x-a".toList, .one "é€".toList)] }, none) ∧
    Passes { Resp.fresh with store := [("x-a".toList, .one "é€".toList)] } "x-a".toList := by
  decide

/-- `multi_in_order`: a two-valued header on a response with a proper store -/
example : KeysNodup [("A".toList, Entry.many ["1".toList, "2".toList])] ∧
    dget [("A".toList, Entry.many ["1".toList, "2".toList])] "A".toList = some (.many ["1".toList, "2".toList]) ∧
    Passes { Resp.fresh with store := [("A".toList, Entry.many ["1".toList, "2".toList])] } "A".toList := by
  decide

/-- `appended_values_emitted_in_order`: int, float text, None -/
example : ∀ p ∈ [(PyVal.int 5, "5".toList), (.float "1.5".toList, "1.5".toList), (.none, "None".toList)],
    hval p.1 = .ok p.2 := by
  intro p hp
  simp only [List.mem_cons, List.not_mem_nil, or_false] at hp
  rcases hp with rfl | rfl | rfl <;> rfl

/-- `blacklist_withheld` / `entity_headers_withheld`: the 304 case exists in the table, and the
model really withholds a lower-case `content-length` there while emitting it on a 200 -/
example : (badFor (some 304)).isSome = true ∧
    headerlist { status := some 304, store := [("content-length".toList, .one "5".toList)], cookies := [] } = [] ∧
    headerlist { status := some 200, store := [("content-length".toList, .one "5".toList)], cookies := [] } ≠ [] := by
  decide

/-! #### the composed application -/

/-- a before hook that stores a non-ASCII value and a cookie; every callback tries to smuggle a
second header line through item assignment -/
def nvAppCfg : App.AppConfig :=
  { hooks := { before := [{ effs := [.setHeader "X-A".toList "é€".toList, .setCookie "k".toList "v".toList], res := .ok }],
               after := [], errHandlers := [] },
    handlers := fun _ _ => { effs := [.setHeader "X".toList "a\r\nSet-Cookie: x".toList], res := .returns (.text "hi".toList) },
    upper := Router.asciiUpper, fenv := fun _ _ => none, pr := fun _ => true }

def nvAppRouter : Router.Router :=
  Router.Router.run Router.asciiUpper
    [.add (fun _ => none) { rule := "/a".toList, methods := ["GET".toList], handler := 0 }]

def nvAppReq (path : List UInt8) : App.Req :=
  { id := 1, verb := "GET".toList, rawPath := path,
    env := { fwdProto := none, urlScheme := some "http".toList, fwdHost := none, host := some "h".toList,
             serverName := none, serverPort := none, query := none, scriptName := none,
             joinLib := .error .valueError },
    accept := none, fileWrapper := false }

/-- hypotheses of `app_emitted_clean`: the programs are inside the domain, `App.serve` is defined,
the cookie jar is clean; the refused assignment became a 500 whose list has no `X` header, while a
404 keeps the hook's cookie and drops its header (`apply`) -/
example : App.DomainB nvAppCfg ∧
    (match App.serveW nvAppCfg nvAppRouter (nvAppReq [47, 97]) with
     | .ok res => res.slots.resp.code == 500 &&
         res.slots.resp.cookies.all (fun c => !hasCtl (c.1 ++ '=' :: c.2)) &&
         (App.startOf res.events).any (fun x => !x.2.1.any (fun h => h.1 == "X".toList) &&
           x.2.1.any (fun h => h.1 == "Set-Cookie".toList && h.2 == "k=v".toList))
     | .error _ => false) = true ∧
    (match App.serveW nvAppCfg nvAppRouter (nvAppReq [47, 98]) with
     | .ok res => res.slots.resp.code == 404 &&
         (App.startOf res.events).any (fun x => !x.2.1.any (fun h => h.1 == "X-A".toList) &&
           x.2.1.any (fun h => h.1 == "Set-Cookie".toList))
     | .error _ => false) = true :=
  ⟨⟨by decide, by decide, fun _ _ => ⟨by
      show ([Wsgi.Eff.setHeader "X".toList "a\r\nSet-Cookie: x".toList]).all Wsgi.Eff.ok = true
      decide, rfl⟩⟩, by decide +kernel, by decide +kernel⟩

end NonVacuity

end Ombott.Headers
