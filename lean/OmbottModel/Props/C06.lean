import OmbottModel.Model.Multipart
import OmbottModel.Model.MultipartSpec
import OmbottModel.Gen.Multipart
import OmbottModel.Lemmas.MultipartEatData
import OmbottModel.Lemmas.MultipartWF
import OmbottModel.Lemmas.MultipartTotal
/-!
C06 — Multipart parsing is independent of how the body is split into reads.
Property theorems only; helper lemmas live in `Lemmas/Multipart*.lean`.
-/
namespace Ombott.Multipart
open Py Spec

/-! ### tie to the source: constants and the one regular expression -/

/-- the byte constants the model was written for are the ones in `multipart.py`, and
`BodyMarkuper.__init__` builds `--boundary` / `CRLF--boundary` as `Markuper.init` does -/
theorem source_tokens_tie :
    Gen.mpHYPHEN = [HYPHEN] ∧ Gen.mpHYPHENx2 = HYPHENx2 ∧ Gen.mpCR = [CR] ∧ Gen.mpLF = [LF] ∧
    Gen.mpCRLF = CRLF ∧ Gen.mpCRLFx2 = CRLFx2 ∧ Gen.mpCRLF_LEN = 2 ∧ Gen.mpCRLFx2_LEN = 4 ∧
    Gen.mpEndHeadersPatt = "(\\r\\n\\r\\n)|(\\r(\\n\\r?)?)$" ∧
    (Markuper.init [98, 110, 100]).toOption.map (fun m => (m.boundary, m.token)) =
      some (Gen.mpProbeBoundary, Gen.mpProbeToken) := by
  decide

def endSearchCode : EndSearch → Nat × Nat
  | .none => (0, 0)
  | .found p => (1, p)
  | .tail n => (2, n)

/-- `endHeadersSearch` gives what `end_headers_patt.search(s, base)` gave on the live module for
every string of length ≤ 5 over {CR, LF, x} and every start offset (2 0xx probes) -/
theorem end_headers_search_table :
    Gen.mpEndHeadersTable.all (fun r => endSearchCode (endHeadersSearch r.1 r.2.1) == r.2.2) = true := by
  decide +kernel

/-! ### the delimiter scanner -/

/-- The delimiter `CRLF--boundary` of a boundary the constructor accepts starts with CR and has
no other CR; hence no proper prefix of it is also a suffix of it (it has no border): two
different partial matches can never be alive at the same time. -/
theorem token_no_border (boundary : Bytes) (hb : CR ∉ boundary) :
    NB (delim boundary) ∧
    ∀ k, 0 < k → k < (delim boundary).length → ¬ (delim boundary).take k <:+ delim boundary := by
  have hnb : NB (delim boundary) := by
    refine ⟨LF :: (HYPHENx2 ++ boundary), rfl, ?_⟩
    simp only [HYPHENx2, List.cons_append, List.nil_append, List.mem_cons, not_or]
    exact ⟨by decide, by decide, by decide, hb⟩
  refine ⟨hnb, fun k hk hkl hs => ?_⟩
  exact pm_unique hnb (delim boundary) k (delim boundary).length hk hkl (Nat.le_refl _) hs
    (by unfold Pm; simp)

/-- `_eat_data` (block-wise stride of one token length, `match_tail` on each block, the pending
remainder `trest` carried within and across chunks, the short tail of the chunk) returns exactly
what the byte-at-a-time scanner of the reference machine returns: the position where the
delimiter is first completed, or `None` with `trest` = the remainder still expected after the
`m'` bytes matched at the end.  For **arbitrary** chunk contents, start offset and pending
state — not only for well-formed bodies. -/
theorem eatData_refines_R (boundary chunk : Bytes) (base m : Nat) (hb : CR ∉ boundary)
    (hm : m < (delim boundary).length) :
    eatData (delim boundary) chunk base (trestOf (delim boundary) m) =
      .ok (renderScan (delim boundary) base (scan (delim boundary) m (chunk.drop base))) :=
  eatData_refines (token_no_border boundary hb).1 chunk base m hm

/-- **One-shot reading.**  From a fresh state (nothing pending) `_eat_data(chunk, base)` returns
the position of the *first occurrence* of `CRLF--boundary` in `chunk[base:]` in the sense of
`bytes.find`, or `None` when there is none — for arbitrary chunk contents. -/
theorem eatData_first_occurrence (boundary chunk : Bytes) (base : Nat) (hb : CR ∉ boundary) :
    match findSub (delim boundary) (chunk.drop base) with
    | some i => eatData (delim boundary) chunk base none = .ok ⟨some (((base + i : Nat) : Int)), none⟩
    | none => ∃ tr, eatData (delim boundary) chunk base none = .ok ⟨none, tr⟩ := by
  have hnb := (token_no_border boundary hb).1
  have hl := nb_length_pos hnb
  have href := eatData_refines hnb chunk base 0 hl
  have hfind := scan_eq_find hnb (chunk.drop base)
  simp only [trestOf, if_true] at href
  cases hf : findSub (delim boundary) (chunk.drop base) with
  | some i =>
    rw [hf] at hfind
    simp only at hfind ⊢
    rw [href, hfind]
    simp only [renderScan]
    congr 3
    omega
  | none =>
    rw [hf] at hfind
    obtain ⟨m', hm'⟩ := hfind
    simp only
    rw [href, hm']
    exact ⟨_, rfl⟩

/-! ### the post-delimiter machine -/

/-- `HeadersEaeter.eat` (the CRLF or the closing `--` after a delimiter, then the header block up
to CRLFCRLF, with `headers_end_expected` carried across chunks and `end_headers_patt.search`
inside a chunk) agrees with the byte-at-a-time phases of the reference machine wherever those
are defined: same end position of the header block, same carried state, `StopMarkupException`
exactly at the closing delimiter.  For arbitrary chunk contents.  (`base = 0` when a partial
CRLFCRLF is pending is how the source uses it: that state only exists at the start of a chunk.) -/
theorem eater_refines_R (ph : Phase)
    (hph : ph = .afterDelim ∨ ph = .afterCR ∨ ph = .afterHyphen ∨ ∃ k, k ≤ 3 ∧ ph = .headers k)
    (chunk : Bytes) (base : Nat) (hb : ∀ k, ph = .headers k → 0 < k → base = 0) :
    match runH ph (chunk.drop base) with
    | .undef => True
    | .stop => eat (eaterOf ph) chunk base = .error .stopMarkup
    | .done j => eat (eaterOf ph) chunk base =
        .ok (eaterOf .afterDelim, some (((base + j : Nat) : Int) - 4))
    | .more ph' => eat (eaterOf ph) chunk base = .ok (eaterOf ph', none) := by
  have hph' : HdrPhase ph := by
    rcases hph with rfl | rfl | rfl | ⟨k, hk, rfl⟩
    · trivial
    · trivial
    · trivial
    · exact hk
  have := eat_refines ph hph' chunk base hb
  cases h : runH ph (chunk.drop base) <;> rw [h] at this <;> exact this

/-! ### the property -/

/-- **Refinement.** Whatever way an input is divided into chunks, feeding the chunks to a fresh
`MultipartMarkup` gives the markups, error and stopped flag of the byte-at-a-time reference
machine on the concatenation, whenever that machine is defined on it.  (The machine is
undefined exactly where the implementation's answer depends on the chunking: a preamble, junk
after a delimiter, bare CR/LF patterns inside a header block; see `Spec.step`.) -/
theorem parse_refines_R (boundary : Bytes) (chunks : List Bytes) (o : Obs)
    (h : run boundary chunks.flatten = some o) : parseChunks boundary chunks = .ok o := by
  unfold run at h
  split at h
  · cases h
  · next hb =>
    obtain ⟨s0, hinit, hsim⟩ := init_sim boundary hb
    cases hr : runFrom (delim boundary) RSt.init chunks.flatten with
    | none => rw [hr] at h; cases h
    | some r' =>
      rw [hr] at h
      simp only [Option.map_some, Option.some.injEq] at h
      have := (feed_sim (tokOk_delim boundary hb) chunks s0 RSt.init r' hsim hr).obs
      unfold parseChunks
      rw [hinit]
      simp only [this, h]

/-- **`feed_append` (core).** From any state reached by feeding chunks to a fresh object, feeding
`a` and then `b` is observably the same as feeding `a ++ b`, provided the reference machine is
defined on the total input (in particular when the total input is a prefix of a well-formed
body). -/
theorem feed_append (boundary : Bytes) (s0 : St) (hs0 : St.init boundary = .ok s0)
    (chunks0 : List Bytes) (a b : Bytes) (o : Obs)
    (h : run boundary (chunks0.flatten ++ (a ++ b)) = some o) :
    (parse (parse (feed s0 chunks0) a) b).obs = (parse (feed s0 chunks0) (a ++ b)).obs := by
  have h1 : parseChunks boundary (chunks0 ++ [a, b]) = .ok o :=
    parse_refines_R boundary _ o (by simpa using h)
  have h2 : parseChunks boundary (chunks0 ++ [a ++ b]) = .ok o :=
    parse_refines_R boundary _ o (by simpa using h)
  unfold parseChunks at h1 h2
  rw [hs0] at h1 h2
  simp only [feed, List.foldl_append, List.foldl_cons, List.foldl_nil, Except.ok.injEq] at h1 h2
  simp only [feed]
  rw [h1, h2]

/-- the reference machine is defined on every prefix of every well-formed body -/
theorem wf_prefix_defined (boundary : Bytes) (parts : List Part) (epilogue : Bytes)
    (hwf : WFBody boundary parts) (p : Bytes) (hp : p <+: encodeBody boundary parts epilogue) :
    ∃ o, run boundary p = some o := by
  obtain ⟨q, hq⟩ := hp
  exact run_prefix boundary p q _ (hq ▸ run_encodeBody boundary parts epilogue hwf)

/-- **THE property.**  For every boundary, every well-formed body (any number of parts, header
lines free of CR/LF, any data not containing the delimiter, any epilogue), every prefix `p` of it
and every division of `p` into consecutive chunks (any number of chunks, empty ones included):
parsing the chunks gives the same markups, error and stopped flag as parsing `p` in one piece. -/
theorem markup_split_independent (boundary : Bytes) (parts : List Part) (epilogue : Bytes)
    (hwf : WFBody boundary parts) (p : Bytes) (hp : p <+: encodeBody boundary parts epilogue)
    (chunks : List Bytes) (hc : chunks.flatten = p) :
    parseChunks boundary chunks = parseChunks boundary [p] := by
  obtain ⟨o, ho⟩ := wf_prefix_defined boundary parts epilogue hwf p hp
  rw [parse_refines_R boundary chunks o (by rw [hc]; exact ho),
    parse_refines_R boundary [p] o (by simpa using ho)]

/-- the same with the division given as a list of cut positions -/
theorem markup_cut_independent (boundary : Bytes) (parts : List Part) (epilogue : Bytes)
    (hwf : WFBody boundary parts) (p : Bytes) (hp : p <+: encodeBody boundary parts epilogue)
    (cuts : List Nat) :
    parseChunks boundary (cutAt p 0 cuts) = parseChunks boundary [p] :=
  markup_split_independent boundary parts epilogue hwf p hp _ (cutAt_flatten cuts p 0)

/-- the result for a prefix is never an error: an upload never fails because of where a buffer
boundary fell -/
theorem wf_prefix_no_error (boundary : Bytes) (parts : List Part) (epilogue : Bytes)
    (hwf : WFBody boundary parts) (p : Bytes) (hp : p <+: encodeBody boundary parts epilogue)
    (chunks : List Bytes) (hc : chunks.flatten = p) :
    ∃ o, parseChunks boundary chunks = .ok o ∧ o.error = none := by
  obtain ⟨q, hq⟩ := hp
  have hfull := run_encodeBody boundary parts epilogue hwf
  rw [← hq] at hfull
  obtain ⟨o, ho⟩ := run_prefix boundary p q _ hfull
  refine ⟨o, parse_refines_R boundary chunks o (by rw [hc]; exact ho), ?_⟩
  -- an error state is absorbing, and the full body ends without error
  unfold run at ho hfull
  split at ho
  · cases ho
  · rw [runFrom_append] at hfull
    cases hr : runFrom (delim boundary) RSt.init p with
    | none => rw [hr] at ho; cases ho
    | some r =>
      rw [hr] at ho hfull
      simp only [Option.map_some, Option.some.injEq, Option.bind_some] at ho hfull
      rw [← ho]
      obtain ⟨ph, pos, ss, mks⟩ := r
      cases ph with
      | failed e =>
        rw [runFrom_failed] at hfull
        simp [RSt.obs] at hfull
      | _ => rfl

/-- **`section_ranges_exact`.**  A complete well-formed body, in whatever chunks it arrives, is
marked up as: the empty section before the first boundary, then for every part its header block
(from after the delimiter line's CRLF to the CRLFCRLF) and its data range (from after the
CRLFCRLF to the first `CRLF--boundary`); the closing delimiter is seen (`stopped`), no error. -/
theorem section_ranges_exact (boundary : Bytes) (parts : List Part) (epilogue : Bytes)
    (hwf : WFBody boundary parts) (chunks : List Bytes)
    (hc : chunks.flatten = encodeBody boundary parts epilogue) :
    parseChunks boundary chunks = .ok ⟨expectedMarkups boundary parts, none, true⟩ :=
  parse_refines_R boundary chunks _ (by rw [hc]; exact run_encodeBody boundary parts epilogue hwf)

/-- the same in terms of content: the bytes covered by the sections found are exactly, in order,
nothing (before the first boundary), then per part its header lines (joined by CRLF) and its
data — no byte of a delimiter, of a neighbouring part or of the epilogue (shared with C07) -/
theorem section_contents_exact (boundary : Bytes) (parts : List Part) (epilogue : Bytes)
    (hwf : WFBody boundary parts) (chunks : List Bytes)
    (hc : chunks.flatten = encodeBody boundary parts epilogue) :
    ∃ o, parseChunks boundary chunks = .ok o ∧ o.error = none ∧ o.stopped = true ∧
      o.markups.map (sectionBytes (encodeBody boundary parts epilogue)) = expectedContents parts :=
  ⟨_, section_ranges_exact boundary parts epilogue hwf chunks hc, rfl, rfl,
    expected_contents boundary parts epilogue hwf⟩

/-! ### "or the error reported": what can be reported at all (shared with C12) -/

/-- For **every** input (any bytes, any chunking) and every boundary the constructor accepts, the
markup ends with no error or with one of the three multipart error classes; the bounds that
stand for the Python `while True` loops in the model are never reached (no hang), no assertion
of the source fails, no built-in exception is raised.  The constructor itself rejects exactly the
boundaries containing CR. -/
theorem markup_total (boundary : Bytes) (chunks : List Bytes) :
    (CR ∈ boundary → parseChunks boundary chunks = .error .invalidBoundaryError) ∧
    (CR ∉ boundary → ∃ o, parseChunks boundary chunks = .ok o ∧
      (o.error = none ∨ o.error = some .invalidBoundaryError ∨ o.error = some .malformedHeaders ∨
        o.error = some .unexpectedBodyEnd)) := by
  refine ⟨fun hb => by simp [parseChunks, St.init, Markuper.init, hb], fun hb => ?_⟩
  obtain ⟨o, ho, he⟩ := parseChunks_total boundary hb chunks
  refine ⟨o, ho, ?_⟩
  cases hoe : o.error with
  | none => exact Or.inl rfl
  | some e =>
    rw [hoe] at he
    cases e <;> first | exact he.elim | simp

/-! ### non-vacuity: concrete instances meeting the hypotheses; the residue outside them -/
section NonVacuity

/-- boundary `b`; one part with header line `X` and data `CR LF - -` (a partial look-alike of the
delimiter `CR LF - - b`); epilogue `CR LF` -/
def exBoundary : Bytes := [98]
def exParts : List Part := [⟨[[88]], [13, 10, 45, 45]⟩]
def exBody : Bytes := encodeBody exBoundary exParts [13, 10]

example : CR ∉ exBoundary := by decide
example : (2 : Nat) < (delim exBoundary).length := by decide
example : WFBody exBoundary exParts := by decide
example : exBody = [45, 45, 98, 13, 10, 88, 13, 10, 13, 10, 13, 10, 45, 45, 13, 10, 45, 45, 98, 45, 45, 13, 10] := by
  decide
/-- the reference machine is defined on the example and gives the encoder's sections -/
example : run exBoundary exBody =
    some ⟨[⟨.data, 0, 0⟩, ⟨.headers, 5, 6⟩, ⟨.data, 10, 14⟩], none, true⟩ := by decide
example : expectedMarkups exBoundary exParts = [⟨.data, 0, 0⟩, ⟨.headers, 5, 6⟩, ⟨.data, 10, 14⟩] := by decide
example : expectedContents exParts = [[], [88], [13, 10, 45, 45]] := by decide
/-- an instance of `markup_split_independent`: a prefix ending inside the closing delimiter, cut
inside the look-alike and inside the delimiter -/
example : parseChunks exBoundary (cutAt (exBody.take 19) 0 [12, 13, 17]) =
    parseChunks exBoundary [exBody.take 19] :=
  markup_cut_independent exBoundary exParts [13, 10] (by decide) _ (List.take_prefix _ _) _
example : (parseChunks exBoundary [exBody.take 19]).toOption =
    some ⟨[⟨.data, 0, 0⟩, ⟨.headers, 5, 6⟩, ⟨.data, 10, 14⟩], none, false⟩ := by decide
/-- an instance of the hypothesis of `eater_refines_R` with a pending partial CRLFCRLF -/
example : ∀ k, Phase.headers 2 = .headers k → 0 < k → (0 : Nat) = 0 := fun _ _ _ => rfl

/-- Residue (outside "well-formed"): a header block containing `CR LF CR x`.  In one piece the
sequence is passed over; when a chunk ends right after the bare CR the eater raises
`MalformedHeadersError`.  The reference machine is undefined there, so no theorem speaks about
this input. -/
example : (parseChunks exBoundary [[45, 45, 98, 13, 10, 88, 13, 10, 13], [89, 13, 10, 13, 10]]).toOption =
      some ⟨[⟨.data, 0, 0⟩], some .malformedHeaders, false⟩ ∧
    (parseChunks exBoundary [[45, 45, 98, 13, 10, 88, 13, 10, 13, 89, 13, 10, 13, 10]]).toOption =
      some ⟨[⟨.data, 0, 0⟩, ⟨.headers, 5, 10⟩], none, false⟩ := by decide
example : run exBoundary [45, 45, 98, 13, 10, 88, 13, 10, 13, 89, 13, 10, 13, 10] = none := by decide
/-- junk after a delimiter: an error or silently skipped, by chunking; undefined in the reference -/
example : (parseChunks exBoundary [[45, 45, 98, 120], [121]]).toOption =
      some ⟨[⟨.data, 0, 0⟩], some .malformedHeaders, false⟩ ∧
    (parseChunks exBoundary [[45, 45, 98, 120, 121]]).toOption = some ⟨[⟨.data, 0, 0⟩], none, false⟩ := by
  decide
example : run exBoundary [45, 45, 98, 120, 121] = none := by decide

end NonVacuity

end Ombott.Multipart
