import OmbottModel.Model.Multipart
import OmbottModel.Model.MultipartSpec
import OmbottModel.Gen.Multipart
/-!
C06 — Multipart parsing is independent of how the body is split into reads.
Property theorems only; helper lemmas live in `Lemmas/Multipart*.lean`.
-/
namespace Ombott.Multipart
open Py

/-! ### tie to the source: constants and the one regular expression -/

/-- the byte constants the model was written for are the ones in `multipart.py`, and
`BodyMarkuper.__init__` builds `--boundary` / `CRLF--boundary` as `Markuper.init` does -/
theorem source_tokens_tie :
    Gen.mpHYPHEN = [HYPHEN] ∧ Gen.mpHYPHENx2 = HYPHENx2 ∧ Gen.mpCR = [CR] ∧ Gen.mpLF = [LF] ∧
    Gen.mpCRLF = CRLF ∧ Gen.mpCRLFx2 = CRLFx2 ∧ Gen.mpCRLF_LEN = 2 ∧ Gen.mpCRLFx2_LEN = 4 ∧
    Gen.mpEndHeadersPatt = "(\\r\\n\\r\\n)|(\\r(\\n\\r?)?)$" ∧
    (Markuper.init [98, 110, 100]).toOption.map (fun m => (m.boundary, m.token)) =
      some (Gen.mpProbeBoundary, Gen.mpProbeToken) := by
  decide

def endSearchCode : EndSearch → Nat × Nat
  | .none => (0, 0)
  | .found p => (1, p)
  | .tail n => (2, n)

/-- `endHeadersSearch` gives what `end_headers_patt.search(s, base)` gave on the live module for
every string of length ≤ 5 over {CR, LF, x} and every start offset (2 0xx probes) -/
theorem end_headers_search_table :
    Gen.mpEndHeadersTable.all (fun r => endSearchCode (endHeadersSearch r.1 r.2.1) == r.2.2) = true := by
  decide +kernel

end Ombott.Multipart
