import OmbottModel.Model.Multipart
import OmbottModel.Model.MultipartSpec
import OmbottModel.Gen.Multipart
import OmbottModel.Lemmas.MultipartEatData
/-!
C06 — Multipart parsing is independent of how the body is split into reads.
Property theorems only; helper lemmas live in `Lemmas/Multipart*.lean`.
-/
namespace Ombott.Multipart
open Py Spec

/-! ### tie to the source: constants and the one regular expression -/

/-- the byte constants the model was written for are the ones in `multipart.py`, and
`BodyMarkuper.__init__` builds `--boundary` / `CRLF--boundary` as `Markuper.init` does -/
theorem source_tokens_tie :
    Gen.mpHYPHEN = [HYPHEN] ∧ Gen.mpHYPHENx2 = HYPHENx2 ∧ Gen.mpCR = [CR] ∧ Gen.mpLF = [LF] ∧
    Gen.mpCRLF = CRLF ∧ Gen.mpCRLFx2 = CRLFx2 ∧ Gen.mpCRLF_LEN = 2 ∧ Gen.mpCRLFx2_LEN = 4 ∧
    Gen.mpEndHeadersPatt = "(\\r\\n\\r\\n)|(\\r(\\n\\r?)?)$" ∧
    (Markuper.init [98, 110, 100]).toOption.map (fun m => (m.boundary, m.token)) =
      some (Gen.mpProbeBoundary, Gen.mpProbeToken) := by
  decide

def endSearchCode : EndSearch → Nat × Nat
  | .none => (0, 0)
  | .found p => (1, p)
  | .tail n => (2, n)

/-- `endHeadersSearch` gives what `end_headers_patt.search(s, base)` gave on the live module for
every string of length ≤ 5 over {CR, LF, x} and every start offset (2 0xx probes) -/
theorem end_headers_search_table :
    Gen.mpEndHeadersTable.all (fun r => endSearchCode (endHeadersSearch r.1 r.2.1) == r.2.2) = true := by
  decide +kernel

/-! ### the delimiter scanner -/

/-- The delimiter `CRLF--boundary` of a boundary the constructor accepts starts with CR and has
no other CR; hence no proper prefix of it is also a suffix of it (it has no border): two
different partial matches can never be alive at the same time. -/
theorem token_no_border (boundary : Bytes) (hb : CR ∉ boundary) :
    NB (delim boundary) ∧
    ∀ k, 0 < k → k < (delim boundary).length → ¬ (delim boundary).take k <:+ delim boundary := by
  have hnb : NB (delim boundary) := by
    refine ⟨LF :: (HYPHENx2 ++ boundary), rfl, ?_⟩
    simp only [HYPHENx2, List.cons_append, List.nil_append, List.mem_cons, not_or]
    exact ⟨by decide, by decide, by decide, hb⟩
  refine ⟨hnb, fun k hk hkl hs => ?_⟩
  exact pm_unique hnb (delim boundary) k (delim boundary).length hk hkl (Nat.le_refl _) hs
    (by unfold Pm; simp)

/-- `_eat_data` (block-wise stride of one token length, `match_tail` on each block, the pending
remainder `trest` carried within and across chunks, the short tail of the chunk) returns exactly
what the byte-at-a-time scanner of the reference machine returns: the position where the
delimiter is first completed, or `None` with `trest` = the remainder still expected after the
`m'` bytes matched at the end.  For **arbitrary** chunk contents, start offset and pending
state — not only for well-formed bodies. -/
theorem eatData_refines_R (boundary chunk : Bytes) (base m : Nat) (hb : CR ∉ boundary)
    (hm : m < (delim boundary).length) :
    eatData (delim boundary) chunk base (trestOf (delim boundary) m) =
      .ok (renderScan (delim boundary) base (scan (delim boundary) m (chunk.drop base))) :=
  eatData_refines (token_no_border boundary hb).1 chunk base m hm

end Ombott.Multipart
