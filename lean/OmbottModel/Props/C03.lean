import OmbottModel.Model.WsgiSpec
import OmbottModel.Lemmas.WsgiCast
import OmbottModel.Lemmas.WsgiTrace
/-!
C03 — Every request gets exactly one well-formed WSGI response.
Property theorems only; helper lemmas live in `Lemmas/Wsgi*.lean`.  All statements are about
`wsgi` / `exchange` of `Model/Wsgi.lean`, the functions the driver runs (`wsgi serve` lines),
for **every** application (hooks, custom error handlers), request, handler program of the `Out`
grammar and every state the reused request/response objects may be in.
-/
namespace Ombott.Wsgi
open Py

/-- `cast_terminates`: the `while True` loop of `_cast`, run with its own `loops_cnt` guard,
returns after at most `castMaxLoops + 1` iterations for every output object, every set of
custom error handlers (including ones that answer an error with the same error for ever) and
every response state: the `diverged` marker of the model is never produced. -/
theorem cast_terminates (app : App) (fw : Bool) (s : Slots) (out : Out) :
    (cast app fw s out).2 ≠ .diverged := by
  have h := runLoop_terminates app fw (Gen.castMaxLoops + 1) 0 s out (Nat.zero_le _) (by omega)
  unfold cast
  split
  · rename_i s' r heq
    intro hr
    simp only at hr
    subst hr
    have hnd := runLoop_invariant app fw Cfg.notDiverged (step_notDiverged app fw)
      (Gen.castMaxLoops + 1) (.run 0 s out) trivial
    rw [heq] at hnd
    exact hnd
  · rename_i heq
    rw [heq] at h
    cases h

/-- (a) `start_response` is called exactly once per request, whatever the handler, hooks and
error handlers do (normal path or catch-all), and it is the last event of the call. -/
theorem wsgi_one_start_response (app : App) (s : Slots) (r : Req) :
    ((wsgi app s r).events.filter Event.isStart).length = 1 ∧
    ((exchange app s r).filter Event.isStart).length = 1 ∧
    (∃ pre st, (wsgi app s r).events = pre ++ [st] ∧ st.isStart = true) := by
  have hplain := handle_events_plain app s r
  have hfilter : ((handle app s r).2.1.filter Event.isStart) = [] := by
    rw [List.filter_eq_nil_iff]
    intro e he
    simp [(hplain e he).1]
  have hclose : ∀ c, (closeEvents c).filter Event.isStart = [] := by
    intro c; cases c <;> rfl
  obtain ⟨c, errs, st, herrs, hst, hev, _⟩ := wsgi_events_shape app s r
  have herrs' : errs.filter Event.isStart = [] := by
    rcases herrs with rfl | rfl <;> rfl
  have key : ((wsgi app s r).events.filter Event.isStart).length = 1 := by
    rw [hev]
    simp only [List.filter_append, hfilter, hclose, herrs', List.nil_append]
    simp [List.filter, hst]
  refine ⟨key, ?_, ⟨_, st, hev, hst⟩⟩
  unfold exchange serverEvents
  simp only [List.filter_append, hclose, List.append_nil]
  exact key

/-- the only place the table of body-less statuses is used: every 1xx, 204 and 304 is in it -/
theorem bodyless_complete :
    ∀ c, c < 1000 → ((100 ≤ c ∧ c < 200) ∨ c = 204 ∨ c = 304) → isBodyless c = true := by
  decide +kernel

/-- (e) HEAD requests get an empty iterable (normal path and catch-all alike), and a response
sent by the normal path whose status code is in the body-less table (1xx, 204, 304 by
`bodyless_complete`) gets an empty iterable. -/
theorem wsgi_no_body (app : App) (s : Slots) (r : Req) :
    (r.isHead = true → (wsgi app s r).body = []) ∧
    (∀ line hdrs, Event.startResponse line hdrs false ∈ (wsgi app s r).events →
      isBodyless (wsgi app s r).slots.resp.code = true → (wsgi app s r).body = []) := by
  have hplain := handle_events_plain app s r
  unfold wsgi
  rcases hh : handle app s r with ⟨s1, ev1, out⟩
  rw [hh] at hplain
  simp only at hplain
  rcases hc : cast app r.fileWrapper s1 out with ⟨s2, cr⟩
  have hcrit : ∀ line hdrs (c : Option Nat) (pre : List Event),
      (∀ e ∈ pre, e.isStart = false) →
      Event.startResponse line hdrs false ∉ pre ++ closeEvents c ++ [Event.stderr, critStart] := by
    intro line hdrs c pre hpre hmem
    simp only [List.mem_append, List.mem_cons, List.not_mem_nil, or_false] at hmem
    rcases hmem with (h | h) | h | h
    · have := hpre _ h; simp [Event.isStart] at this
    · cases c <;> simp [closeEvents] at h
    · cases h
    · simp [critStart] at h
  cases cr with
  | body items closer fwCL =>
    simp only [hc]
    cases hl : headerlist s2.resp with
    | some l =>
      simp only
      constructor
      · intro hhead; simp only [hhead, Bool.or_true, if_true]
      · intro line hdrs _ hb; simp only [hb, Bool.true_or, if_true]
    | none =>
      simp only
      constructor
      · intro hhead; simp only [catchAll, hhead, if_true]
      · intro line hdrs hmem
        exfalso
        refine hcrit line hdrs _ _ ?_ hmem
        intro e he
        rcases List.mem_append.mp he with h | h
        · exact (hplain _ h).1
        · split at h
          · cases closer <;> simp [closeEvents] at h
            subst h; rfl
          · cases h
  | raised =>
    simp only [hc]
    constructor
    · intro hhead; simp only [catchAll, hhead, if_true]
    · intro line hdrs hmem
      exact absurd hmem (hcrit line hdrs _ _ (fun e he => (hplain e he).1))
  | diverged =>
    simp only [hc]
    constructor
    · intro hhead; simp only [catchAll, hhead, if_true]
    · intro line hdrs hmem
      exact absurd hmem (hcrit line hdrs _ _ (fun e he => (hplain e he).1))

/-- (f) over the whole exchange (the call plus the server's `close()` on the returned object)
the `close` events are exactly: one `close k` when the iterable `_cast` returned was built over
handler object `k` that has a `close` method (whether the body is then sent, suppressed for
HEAD / 1xx / 204 / 304, or replaced by the catch-all page), and none otherwise.  In particular
no handler object is closed twice and an iterable that produced output is never left open. -/
theorem wsgi_close_exactly_once (app : App) (s : Slots) (r : Req) :
    (exchange app s r).filterMap Event.closeId =
      (match castCloser (cast app r.fileWrapper (handle app s r).1 (handle app s r).2.2).2 with
       | some k => [k]
       | none => []) := by
  have hplain := handle_events_plain app s r
  have hnone : (handle app s r).2.1.filterMap Event.closeId = [] := by
    rw [List.filterMap_eq_nil_iff]
    intro e he
    exact (hplain e he).2
  obtain ⟨c, errs, st, herrs, hst, hev, hcl⟩ := wsgi_events_shape app s r
  have herrs' : errs.filterMap Event.closeId = [] := by
    rcases herrs with rfl | rfl <;> rfl
  have hst' : [st].filterMap Event.closeId = [] := by
    cases st <;> simp [Event.isStart] at hst <;> rfl
  have hce : ∀ c : Option Nat, (closeEvents c).filterMap Event.closeId =
      (match c with | some k => [k] | none => []) := by
    intro c; cases c <;> rfl
  unfold exchange serverEvents
  simp only
  rw [hev]
  simp only [List.filterMap_append, hnone, herrs', hst', List.nil_append, List.append_nil]
  rw [← List.filterMap_append, hcl, hce]

/-- where the closer comes from: when the loop body meets an iterable whose first non-empty
item is a `bytes` / `str` object (its items are what the server will send), the returned
iterable forwards `close()` to exactly that object if it has a `close` method. -/
theorem cast_closer_is_body_source (app : App) (fw : Bool) (cnt : Nat) (s : Slots) (id : Nat)
    (hasClose : Bool) (items : List Item) :
    (∀ b rest, skipEmpty items = .bytes b :: rest →
      castOut app fw cnt s (.iter id hasClose items) =
        .done s (.body (.chunk b :: restBytes rest) (if hasClose then some id else none) none)) ∧
    (∀ t rest, skipEmpty items = .text t :: rest →
      castOut app fw cnt s (.iter id hasClose items) =
        .done s (.body (.chunk (utf8 t) :: restText rest) (if hasClose then some id else none) none)) := by
  constructor
  · intro b rest h
    simp only [castOut, castIter, h]
  · intro t rest h
    simp only [castOut, castIter, h]

/-- (h) the hook discipline, as the complete event trace of the call for a decodable path:
before-hooks once each in registration order up to and including the first failing one; then
— only if none failed — routing and (if a route was found) the handler; then, whatever
happened (success, raised response, exception, 404, 405, failed before-hook), the after-hooks
once each in reverse registration order up to and including the first failing one; then only
`wsgi.errors` writes, at most one `close` and the `start_response` call. -/
theorem wsgi_hooks (app : App) (s : Slots) (r : Req) (hp : r.pathOK = true) :
    ∃ rest,
      (wsgi app s r).events =
        (ranUntilFail (enumFrom 0 app.before)).map Event.before ++
        (if (enumFrom 0 app.before).all (fun p => !p.2.fails) then
            Event.routed :: (if r.route.isFound then [Event.handler] else []) else []) ++
        (ranUntilFail (enumFrom 0 app.after).reverse).map Event.after ++ rest ∧
      (∀ e ∈ rest, e = .stderr ∨ e.isStart = true ∨ e.closeId ≠ none) := by
  obtain ⟨tail, ht, heq⟩ := handle_trace app s r hp
  obtain ⟨c, errs, st, herrs, hst, hev, _⟩ := wsgi_events_shape app s r
  refine ⟨tail ++ closeEvents c ++ errs ++ [st], ?_, ?_⟩
  · rw [hev, heq]
    simp only [List.append_assoc]
  · intro e he
    simp only [List.mem_append, List.mem_cons, List.not_mem_nil, or_false] at he
    rcases he with ((h | h) | h) | h
    · rcases ht with rfl | rfl
      · cases h
      · simp only [List.mem_cons, List.not_mem_nil, or_false] at h
        left; exact h
    · cases c with
      | none => cases h
      | some k =>
        simp only [closeEvents, List.mem_cons, List.not_mem_nil, or_false] at h
        subst h; right; right; simp [Event.closeId]
    · rcases herrs with rfl | rfl
      · cases h
      · simp only [List.mem_cons, List.not_mem_nil, or_false] at h
        left; exact h
    · subst h; right; left; exact hst

/-- (h), the two readings the property names: if no hook fails, every before-hook runs exactly
once in registration order before routing, and every after-hook exactly once in reverse order
after it — for a found route, a 404 and a 405 alike. -/
theorem wsgi_hooks_all_run (app : App) (s : Slots) (r : Req) (hp : r.pathOK = true)
    (hb : app.before.all (fun h => !h.fails) = true) (ha : app.after.all (fun h => !h.fails) = true) :
    ∃ rest,
      (wsgi app s r).events =
        (List.range app.before.length).map Event.before ++
        (Event.routed :: (if r.route.isFound then [Event.handler] else [])) ++
        ((List.range app.after.length).reverse).map Event.after ++ rest ∧
      (∀ e ∈ rest, e = .stderr ∨ e.isStart = true ∨ e.closeId ≠ none) := by
  obtain ⟨rest, heq, hrest⟩ := wsgi_hooks app s r hp
  refine ⟨rest, ?_, hrest⟩
  have hb' : (enumFrom 0 app.before).all (fun p => !p.2.fails) = true := by
    exact (enumFrom_all (fun h : Hook => !h.fails) app.before 0).trans hb
  have ha' : (enumFrom 0 app.after).reverse.all (fun p => !p.2.fails) = true := by
    rw [List.all_reverse]
    exact (enumFrom_all (fun h : Hook => !h.fails) app.after 0).trans ha
  rw [heq, ranUntilFail_noFail _ hb', ranUntilFail_noFail _ ha', hb']
  simp only [if_true, List.map_reverse, enumFrom_map_fst, List.range_eq_range']

end Ombott.Wsgi
