import OmbottModel.Model.WsgiSpec
import OmbottModel.Lemmas.WsgiCast
import OmbottModel.Lemmas.WsgiTrace
import OmbottModel.Lemmas.WsgiInv
import OmbottModel.Lemmas.WsgiBody
import OmbottModel.Lemmas.WsgiFail
import OmbottModel.Lemmas.AppServe
/-!
C03 — Every request gets exactly one well-formed WSGI response.
Property theorems only; helper lemmas live in `Lemmas/Wsgi*.lean`.  All statements are about
`wsgi` / `exchange` of `Model/Wsgi.lean`, the functions the driver runs (`wsgi serve` lines),
for **every** application (hooks, custom error handlers), request, handler program of the `Out`
grammar and every state the reused request/response objects may be in.
-/
namespace Ombott.Wsgi
open Py

/-- `cast_terminates`: the `while True` loop of `_cast`, run with its own `loops_cnt` guard,
returns after at most `castMaxLoops + 1` iterations for every output object, every set of
custom error handlers (including ones that answer an error with the same error for ever) and
every response state: the `diverged` marker of the model is never produced. -/
theorem cast_terminates (app : App) (fw : Bool) (s : Slots) (out : Out) :
    (cast app fw s out).2 ≠ .diverged := by
  have h := runLoop_terminates app fw (Gen.wsgiCastMaxLoops + 1) 0 s out (Nat.zero_le _) (by omega)
  unfold cast
  split
  · rename_i s' r heq
    intro hr
    simp only at hr
    subst hr
    have hnd := runLoop_invariant app fw Cfg.notDiverged (step_notDiverged app fw)
      (Gen.wsgiCastMaxLoops + 1) (.run 0 s out) trivial
    rw [heq] at hnd
    exact hnd
  · rename_i heq
    rw [heq] at h
    cases h

/-- (a) `start_response` is called exactly once per request, whatever the handler, hooks and
error handlers do (normal path or catch-all), and it is the last event of the call. -/
theorem wsgi_one_start_response (app : App) (s : Slots) (r : Req) :
    ((wsgi app s r).events.filter Event.isStart).length = 1 ∧
    ((exchange app s r).filter Event.isStart).length = 1 ∧
    (∃ pre st, (wsgi app s r).events = pre ++ [st] ∧ st.isStart = true) := by
  have hplain := handle_events_plain app s r
  have hfilter : ((handle app s r).2.1.filter Event.isStart) = [] := by
    rw [List.filter_eq_nil_iff]
    intro e he
    simp [(hplain e he).1]
  have hclose : ∀ c, (closeEvents c).filter Event.isStart = [] := by
    intro c; cases c <;> rfl
  obtain ⟨c, errs, st, herrs, hst, hev, _⟩ := wsgi_events_shape app s r
  have herrs' : errs.filter Event.isStart = [] := by
    rcases herrs with rfl | rfl <;> rfl
  have key : ((wsgi app s r).events.filter Event.isStart).length = 1 := by
    rw [hev]
    simp only [List.filter_append, hfilter, hclose, herrs', List.nil_append]
    simp [List.filter, hst]
  refine ⟨key, ?_, ⟨_, st, hev, hst⟩⟩
  unfold exchange serverEvents
  simp only [List.filter_append, hclose, List.append_nil]
  exact key

/-- the only place the table of body-less statuses is used: every 1xx, 204 and 304 is in it -/
theorem bodyless_complete :
    ∀ c, c < 1000 → ((100 ≤ c ∧ c < 200) ∨ c = 204 ∨ c = 304) → isBodyless c = true := by
  decide +kernel

/-- (e) HEAD requests get an empty iterable (normal path and catch-all alike), and a response
sent by the normal path whose status code is in the body-less table (1xx, 204, 304 by
`bodyless_complete`) gets an empty iterable. -/
theorem wsgi_no_body (app : App) (s : Slots) (r : Req) :
    (r.isHead = true → (wsgi app s r).body = []) ∧
    (∀ line hdrs, Event.startResponse line hdrs false ∈ (wsgi app s r).events →
      isBodyless (wsgi app s r).slots.resp.code = true → (wsgi app s r).body = []) := by
  have hplain := handle_events_plain app s r
  unfold wsgi
  rcases hh : handle app s r with ⟨s1, ev1, out⟩
  rw [hh] at hplain
  simp only at hplain
  rcases hc : cast app r.fileWrapper s1 out with ⟨s2, cr⟩
  have hcrit : ∀ line hdrs (c : Option Nat) (pre : List Event),
      (∀ e ∈ pre, e.isStart = false) →
      Event.startResponse line hdrs false ∉ pre ++ closeEvents c ++ [Event.stderr, critStart] := by
    intro line hdrs c pre hpre hmem
    simp only [List.mem_append, List.mem_cons, List.not_mem_nil, or_false] at hmem
    rcases hmem with (h | h) | h | h
    · have := hpre _ h; simp [Event.isStart] at this
    · cases c <;> simp [closeEvents] at h
    · cases h
    · simp [critStart] at h
  cases cr with
  | body items closer fwCL =>
    simp only [hc]
    cases hl : headerlist s2.resp with
    | some l =>
      simp only
      constructor
      · intro hhead; simp only [hhead, Bool.or_true, if_true]
      · intro line hdrs _ hb; simp only [hb, Bool.true_or, if_true]
    | none =>
      simp only
      constructor
      · intro hhead; simp only [catchAll, hhead, if_true]
      · intro line hdrs hmem
        exfalso
        refine hcrit line hdrs _ _ ?_ hmem
        intro e he
        rcases List.mem_append.mp he with h | h
        · exact (hplain _ h).1
        · split at h
          · cases closer <;> simp [closeEvents] at h
            subst h; rfl
          · cases h
  | raised =>
    simp only [hc]
    constructor
    · intro hhead; simp only [catchAll, hhead, if_true]
    · intro line hdrs hmem
      exact absurd hmem (hcrit line hdrs _ _ (fun e he => (hplain e he).1))
  | diverged =>
    simp only [hc]
    constructor
    · intro hhead; simp only [catchAll, hhead, if_true]
    · intro line hdrs hmem
      exact absurd hmem (hcrit line hdrs _ _ (fun e he => (hplain e he).1))

/-- (f) over the whole exchange (the call plus the server's `close()` on the returned object)
the `close` events are exactly: one `close k` when the iterable `_cast` returned was built over
handler object `k` that has a `close` method (whether the body is then sent, suppressed for
HEAD / 1xx / 204 / 304, or replaced by the catch-all page), and none otherwise.  In particular
no handler object is closed twice and an iterable that produced output is never left open. -/
theorem wsgi_close_exactly_once (app : App) (s : Slots) (r : Req) :
    (exchange app s r).filterMap Event.closeId =
      (match castCloser (cast app r.fileWrapper (handle app s r).1 (handle app s r).2.2).2 with
       | some k => [k]
       | none => []) := by
  have hplain := handle_events_plain app s r
  have hnone : (handle app s r).2.1.filterMap Event.closeId = [] := by
    rw [List.filterMap_eq_nil_iff]
    intro e he
    exact (hplain e he).2
  obtain ⟨c, errs, st, herrs, hst, hev, hcl⟩ := wsgi_events_shape app s r
  have herrs' : errs.filterMap Event.closeId = [] := by
    rcases herrs with rfl | rfl <;> rfl
  have hst' : [st].filterMap Event.closeId = [] := by
    cases st <;> simp [Event.isStart] at hst <;> rfl
  have hce : ∀ c : Option Nat, (closeEvents c).filterMap Event.closeId =
      (match c with | some k => [k] | none => []) := by
    intro c; cases c <;> rfl
  unfold exchange serverEvents
  simp only
  rw [hev]
  simp only [List.filterMap_append, hnone, herrs', hst', List.nil_append, List.append_nil]
  rw [← List.filterMap_append, hcl, hce]

/-- where the closer comes from: when the loop body meets an iterable whose first non-empty
item is a `bytes` / `str` object (its items are what the server will send), the returned
iterable forwards `close()` to exactly that object if it has a `close` method. -/
theorem cast_closer_is_body_source (app : App) (fw : Bool) (cnt : Nat) (s : Slots) (id : Nat)
    (hasClose : Bool) (items : List Item) :
    (∀ b rest, skipEmpty items = .bytes b :: rest →
      castOut app fw cnt s (.iter id hasClose items) =
        .done s (.body (.chunk b :: restBytes rest) (if hasClose then some id else none) none)) ∧
    (∀ t rest, skipEmpty items = .text t :: rest →
      castOut app fw cnt s (.iter id hasClose items) =
        .done s (.body (.chunk (utf8 t) :: restText rest) (if hasClose then some id else none) none)) := by
  constructor
  · intro b rest h
    simp only [castOut, castIter, h]
  · intro t rest h
    simp only [castOut, castIter, h]

/-- (h) the hook discipline, as the complete event trace of the call for a decodable path:
before-hooks once each in registration order up to and including the first failing one; then
— only if none failed — routing and (if a route was found) the handler; then, whatever
happened (success, raised response, exception, 404, 405, failed before-hook), the after-hooks
once each in reverse registration order up to and including the first failing one; then only
`wsgi.errors` writes, at most one `close` and the `start_response` call. -/
theorem wsgi_hooks (app : App) (s : Slots) (r : Req) (hp : r.pathOK = true) :
    ∃ rest,
      (wsgi app s r).events =
        (ranUntilFail (enumFrom 0 app.before)).map Event.before ++
        (if (enumFrom 0 app.before).all (fun p => !p.2.fails) then
            Event.routed :: (if r.route.isFound then [Event.handler] else []) else []) ++
        (ranUntilFail (enumFrom 0 app.after).reverse).map Event.after ++ rest ∧
      (∀ e ∈ rest, e = .stderr ∨ e.isStart = true ∨ e.closeId ≠ none) := by
  obtain ⟨tail, ht, heq⟩ := handle_trace app s r hp
  obtain ⟨c, errs, st, herrs, hst, hev, _⟩ := wsgi_events_shape app s r
  refine ⟨tail ++ closeEvents c ++ errs ++ [st], ?_, ?_⟩
  · rw [hev, heq]
    simp only [List.append_assoc]
  · intro e he
    simp only [List.mem_append, List.mem_cons, List.not_mem_nil, or_false] at he
    rcases he with ((h | h) | h) | h
    · rcases ht with rfl | rfl
      · cases h
      · simp only [List.mem_cons, List.not_mem_nil, or_false] at h
        left; exact h
    · cases c with
      | none => cases h
      | some k =>
        simp only [closeEvents, List.mem_cons, List.not_mem_nil, or_false] at h
        subst h; right; right; simp [Event.closeId]
    · rcases herrs with rfl | rfl
      · cases h
      · simp only [List.mem_cons, List.not_mem_nil, or_false] at h
        left; exact h
    · subst h; right; left; exact hst

/-- (h), the two readings the property names: if no hook fails, every before-hook runs exactly
once in registration order before routing, and every after-hook exactly once in reverse order
after it — for a found route, a 404 and a 405 alike. -/
theorem wsgi_hooks_all_run (app : App) (s : Slots) (r : Req) (hp : r.pathOK = true)
    (hb : app.before.all (fun h => !h.fails) = true) (ha : app.after.all (fun h => !h.fails) = true) :
    ∃ rest,
      (wsgi app s r).events =
        (List.range app.before.length).map Event.before ++
        (Event.routed :: (if r.route.isFound then [Event.handler] else [])) ++
        ((List.range app.after.length).reverse).map Event.after ++ rest ∧
      (∀ e ∈ rest, e = .stderr ∨ e.isStart = true ∨ e.closeId ≠ none) := by
  obtain ⟨rest, heq, hrest⟩ := wsgi_hooks app s r hp
  refine ⟨rest, ?_, hrest⟩
  have hb' : (enumFrom 0 app.before).all (fun p => !p.2.fails) = true := by
    exact (enumFrom_all (fun h : Hook => !h.fails) app.before 0).trans hb
  have ha' : (enumFrom 0 app.after).reverse.all (fun p => !p.2.fails) = true := by
    rw [List.all_reverse]
    exact (enumFrom_all (fun h : Hook => !h.fails) app.after 0).trans ha
  rw [heq, ranUntilFail_noFail _ hb', ranUntilFail_noFail _ ha', hb']
  simp only [if_true, List.map_reverse, enumFrom_map_fst, List.range_eq_range']

/-- the programs of the property's domain for conjunct (b): the statements of hooks and
handler use header / cookie names free of CR/LF and statuses that are `int`s or strings of the
documented form `ddd reason`; every `HTTPResponse` / `HTTPError` object any program part can
return, raise or yield is well formed in the same sense -/
def DomainB (app : App) (r : Req) : Prop :=
  app.effsOK = true ∧ app.all respOK = true ∧ r.route.effsOK = true ∧ r.route.all respOK = true

/-- … for conjunct (c): iterables keep to the type of their first non-empty item -/
def DomainC (app : App) (r : Req) : Prop :=
  app.all homog = true ∧ r.route.all homog = true

/-- (b) the one `start_response` call gets a status line of the shape `ddd reason` without
CR/LF — on the normal path it is the line of the status code that the body suppression looks
at — and a header list whose names and values are free of CR and LF. -/
theorem wsgi_status_and_headers (app : App) (s : Slots) (r : Req) (hd : DomainB app r) :
    ∀ line hdrs x, Event.startResponse line hdrs x ∈ (wsgi app s r).events →
      statusLineOK line = true ∧ hdrs.all pairOK = true ∧
      (x = false → lineFor (wsgi app s r).slots.resp.code line = true) := by
  obtain ⟨heff, hall, hreff, hrall⟩ := hd
  have hplain := handle_events_plain app s r
  have hinv := handle_inv respOK internal_respOK app s r heff hall hreff hrall
  have hcast := cast_resp_ok respOK internal_respOK (fun o h => Out.all_self respOK o h) app hall
    r.fileWrapper (handle app s r).1 (handle app s r).2.2 hinv.1 hinv.2
  intro line hdrs x hmem
  have hcritical : ∀ pre : List Event, (∀ e ∈ pre, e.isStart = false) →
      Event.startResponse line hdrs x ∈ pre ++ [Event.stderr, critStart] →
      statusLineOK line = true ∧ hdrs.all pairOK = true ∧ x = true := by
    intro pre hpre hm
    simp only [List.mem_append, List.mem_cons, List.not_mem_nil, or_false] at hm
    rcases hm with h | h | h
    · have := hpre _ h; simp [Event.isStart] at this
    · cases h
    · simp only [critStart, Event.startResponse.injEq] at h
      obtain ⟨rfl, rfl, rfl⟩ := h
      exact ⟨by decide, by decide, rfl⟩
  have hcl : ∀ c : Option Nat, ∀ e ∈ closeEvents c, e.isStart = false := by
    intro c e he; cases c <;> simp [closeEvents] at he; subst he; rfl
  unfold wsgi at hmem ⊢
  rcases hh : handle app s r with ⟨s1, ev1, out⟩
  rw [hh] at hplain hcast hmem
  simp only at hplain hcast hmem ⊢
  rcases hc : cast app r.fileWrapper s1 out with ⟨s2, cr⟩
  rw [hc] at hcast hmem
  simp only at hcast
  cases cr with
  | body items closer fwCL =>
    simp only at hmem ⊢
    cases hl : headerlist s2.resp with
    | some l =>
      rw [hl] at hmem
      simp only at hmem ⊢
      simp only [List.mem_append, List.mem_cons, List.not_mem_nil, or_false] at hmem
      rcases hmem with (h | h) | h
      · have := (hplain _ h).1; simp [Event.isStart] at this
      · split at h
        · have := hcl _ _ h; simp [Event.isStart] at this
        · cases h
      · simp only [Event.startResponse.injEq] at h
        obtain ⟨rfl, rfl, rfl⟩ := h
        have hok := (RState.ok_iff s2.resp).mp hcast
        exact ⟨lineFor_statusLineOK _ _ hok.1, headerlist_ok s2.resp hcast _ hl, fun _ => hok.1⟩
    | none =>
      rw [hl] at hmem
      simp only [catchAll] at hmem ⊢
      rw [List.append_assoc] at hmem
      have := hcritical _ ?_ (by rw [List.append_assoc]; exact hmem)
      · exact ⟨this.1, this.2.1, fun hx => by rw [this.2.2] at hx; cases hx⟩
      · intro e he
        simp only [List.mem_append] at he
        rcases he with (h | h) | h
        · exact (hplain _ h).1
        · split at h
          · exact hcl _ _ h
          · cases h
        · exact hcl _ _ h
  | raised =>
    simp only [catchAll, closeEvents, List.append_nil] at hmem ⊢
    have := hcritical ev1 (fun e he => (hplain e he).1) hmem
    exact ⟨this.1, this.2.1, fun hx => by rw [this.2.2] at hx; cases hx⟩
  | diverged =>
    simp only [catchAll, closeEvents, List.append_nil] at hmem ⊢
    have := hcritical ev1 (fun e he => (hplain e he).1) hmem
    exact ⟨this.1, this.2.1, fun hx => by rw [this.2.2] at hx; cases hx⟩

/-- (c) the object returned to the server is an iterable of `bytes`: every item it yields is a
byte string (no `str`, no other object, no exception while iterating). -/
theorem wsgi_body_is_bytes (app : App) (s : Slots) (r : Req) (hd : DomainC app r) :
    (wsgi app s r).body.all BodyItem.isChunk = true := by
  obtain ⟨hall, hrall⟩ := hd
  have hout : Out.all homog (handle app s r).2.2 = true := by
    -- objects flowing out of `_handle` come from the program or are built by the model
    unfold handle
    rw [reinit_eq]
    unfold handleFrom
    simp only
    split
    · exact internal_homog.mkError_all 400 _ [] (by omega) (by omega) rfl
    · have hallb := hall
      unfold App.all at hallb
      simp only [Bool.and_eq_true] at hallb
      have hbR := hookList_all "before_request" app.before (fun h => h.res.all homog) hallb.1.1
      have haR := hookList_all "after_request" app.after (fun h => h.res.all homog) hallb.1.2
      have hb := runBefore_flow (hookList "before_request" app.before) RState.init
      rcases hrb : runBefore (hookList "before_request" app.before) RState.init with ⟨st1, ev1, fl1⟩
      rw [hrb] at hb
      simp only at hb ⊢
      have hff : ∀ (l : List (Nat × Hook)), l.all (fun x => x.2.res.all homog) = true →
          ∀ f, firstFlow l = some f → f.all homog = true := by
        intro l
        induction l with
        | nil => intro _ f hf; cases hf
        | cons q qs ih =>
          intro hq f hf
          obtain ⟨i, h⟩ := q
          simp only [List.all_cons, Bool.and_eq_true] at hq
          unfold firstFlow at hf
          cases hflow : h.flow with
          | some f' =>
            rw [hflow] at hf
            simp only [Option.some.injEq] at hf
            subst hf
            unfold Hook.flow at hflow
            split at hflow
            · cases hflow; rfl
            · split at hflow
              · cases hflow
              · rename_i o hres
                cases hflow
                have := hq.1; rw [hres] at this; exact this
              · cases hflow; rfl
          | none => rw [hflow] at hf; exact ih hq.2 f hf
      have hroute : r.route.flow.all homog = true := by
        unfold Route.flow
        cases hrt : r.route with
        | notFound => exact internal_homog.mkError_all 404 _ [] (by omega) (by omega) rfl
        | notAllowed a => exact rfl
        | found h =>
          rw [hrt] at hrall
          simp only [Route.all] at hrall
          simp only
          split
          · rfl
          · cases hres : h.res with
            | returns o => rw [hres] at hrall; exact hrall
            | raisesResp o => rw [hres] at hrall; exact hrall
            | raises => rfl
      cases fl1 with
      | some fl =>
        simp only
        have hfl : fl.all homog = true := hff _ hbR fl hb.symm
        have ha := runAfter_flow (hookList "after_request" app.after) st1 fl
        rcases hra : runAfter (hookList "after_request" app.after) st1 fl with ⟨st3, ev3, fl3⟩
        rw [hra] at ha
        simp only at ha ⊢
        apply settle_inv homog internal_homog
        rw [ha]
        cases hf : firstFlow (hookList "after_request" app.after) with
        | some f => exact hff _ haR f hf
        | none => exact hfl
      | none =>
        simp only
        have hr := runRoute_flow r.route st1
        rcases hrr : runRoute r.route st1 with ⟨st2, ev2, fl2⟩
        rw [hrr] at hr
        simp only at hr ⊢
        have ha := runAfter_flow (hookList "after_request" app.after) st2 fl2
        rcases hra : runAfter (hookList "after_request" app.after) st2 fl2 with ⟨st3, ev3, fl3⟩
        rw [hra] at ha
        simp only at ha ⊢
        apply settle_inv homog internal_homog
        rw [ha]
        cases hf : firstFlow (hookList "after_request" app.after) with
        | some f => exact hff _ haR f hf
        | none => rw [hr]; exact hroute
  have hchunks := cast_chunks app hall r.fileWrapper (handle app s r).1 (handle app s r).2.2 hout
  unfold wsgi
  rcases hh : handle app s r with ⟨s1, ev1, out⟩
  rw [hh] at hchunks
  simp only at hchunks ⊢
  rcases hc : cast app r.fileWrapper s1 out with ⟨s2, cr⟩
  rw [hc] at hchunks
  cases cr with
  | body items closer fwCL =>
    simp only
    have hi := hchunks items closer fwCL rfl
    cases hl : headerlist s2.resp with
    | some l =>
      simp only
      split
      · rfl
      · exact hi
    | none =>
      simp only [catchAll]
      split <;> rfl
  | raised => simp only [catchAll]; split <;> rfl
  | diverged => simp only [catchAll]; split <;> rfl

/-- (d) when the framework itself set `Content-Length` (its `setdefault` inserted the header)
and the response may carry a body (not HEAD, status not body-less), the value is the number of
bytes returned; the header is on the response object when `start_response` is called.  No
hypothesis on the program. -/
theorem wsgi_content_length (app : App) (s : Slots) (r : Req) (n : Nat)
    (hcl : (wsgi app s r).fwCL = some n) :
    (r.isHead = false → isBodyless (wsgi app s r).slots.resp.code = false →
      bodyLen (wsgi app s r).body = n) ∧
    (∃ pre, (wsgi app s r).slots.resp.headers =
      pre ++ [("Content-Length".toList, [HVal.good (natStr n)])]) := by
  have hcast := cast_cl app r.fileWrapper (handle app s r).1 (handle app s r).2.2
  unfold wsgi at hcl ⊢
  rcases hh : handle app s r with ⟨s1, ev1, out⟩
  rw [hh] at hcast hcl
  simp only at hcast hcl ⊢
  rcases hc : cast app r.fileWrapper s1 out with ⟨s2, cr⟩
  rw [hc] at hcast hcl
  simp only at hcast
  cases cr with
  | body items closer fwCL =>
    simp only at hcl ⊢
    cases hl : headerlist s2.resp with
    | some l =>
      rw [hl] at hcl
      simp only at hcl ⊢
      subst hcl
      have := hcast items closer n rfl
      refine ⟨?_, this.2⟩
      intro hh hb
      simp only [hh, hb, Bool.or_self, Bool.false_eq_true, if_false]
      exact this.1
    | none =>
      rw [hl] at hcl
      simp only [catchAll] at hcl
      cases hcl
  | raised => simp only [catchAll] at hcl; cases hcl
  | diverged => simp only [catchAll] at hcl; cases hcl

/-- the per-status blacklist withholds `Content-Length` only for 304 -/
theorem content_length_kept (code : Nat) (h : code ≠ 304) :
    (badHeadersFor code).contains (titleAscii "Content-Length".toList) = false := by
  unfold badHeadersFor
  have ht : titleAscii "Content-Length".toList = "Content-Length".toList := by decide
  rw [ht]
  -- the extracted table has two rows
  have hrows : Gen.wsgiBadHeaders.map (·.1) = [204, 304] := by decide
  by_cases h204 : code = 204
  · subst h204; decide
  · have : Gen.wsgiBadHeaders.find? (·.1 == code) = none := by
      rw [List.find?_eq_none]
      intro x hx
      have : x.1 ∈ Gen.wsgiBadHeaders.map (·.1) := List.mem_map_of_mem hx
      rw [hrows] at this
      simp only [List.mem_cons, List.not_mem_nil, or_false] at this
      simp only [beq_iff_eq]
      rcases this with h1 | h1 <;> omega
    rw [this]; rfl

/-- (d), emitted form: when the framework set `Content-Length` itself and the status is not 304
(whose header blacklist withholds it), the header list handed to `start_response` contains
`('Content-Length', str(n))` with `n` the value of `wsgi_content_length`. -/
theorem wsgi_content_length_emitted (app : App) (s : Slots) (r : Req) (n : Nat)
    (hcl : (wsgi app s r).fwCL = some n) (h304 : (wsgi app s r).slots.resp.code ≠ 304) :
    ∃ line hdrs, Event.startResponse line hdrs false ∈ (wsgi app s r).events ∧
      ("Content-Length".toList, natStr n) ∈ hdrs := by
  obtain ⟨_, pre, hpre⟩ := wsgi_content_length app s r n hcl
  unfold wsgi at hcl hpre h304 ⊢
  rcases hh : handle app s r with ⟨s1, ev1, out⟩
  rw [hh] at hcl hpre h304
  simp only at hcl hpre h304 ⊢
  rcases hc : cast app r.fileWrapper s1 out with ⟨s2, cr⟩
  rw [hc] at hcl hpre h304
  cases cr with
  | body items closer fwCL =>
    simp only at hcl hpre h304 ⊢
    cases hl : headerlist s2.resp with
    | some l =>
      rw [hl] at hcl hpre h304
      simp only at hcl hpre h304 ⊢
      refine ⟨s2.resp.line, l, by simp, ?_⟩
      have hm : ("Content-Length".toList, [HVal.good (natStr n)]) ∈ s2.resp.headers := by
        rw [hpre]; simp
      have := headerlist_mem s2.resp l hl _ _ hm (content_length_kept _ h304)
      rw [recode_ascii _ (natStr_ascii n)] at this
      exact this
    | none =>
      rw [hl] at hcl
      simp only [catchAll] at hcl
      cases hcl
  | raised => simp only [catchAll] at hcl; cases hcl
  | diverged => simp only [catchAll] at hcl; cases hcl

/-- the status-500 line of the table has the 500 prefix the property speaks about -/
theorem line500 : (lineOfCode 500).take 4 = "500 ".toList := by decide +kernel

/-- (g) handler failures become a 500 instead of escaping: when an exception that is not an
`HTTPResponse` leaves the `try`/`finally` of `_handle` — raised by the handler, by one of its
statements, by a before-hook, or by an after-hook (`handleFlow` computes which from the program
alone) — the traceback is written to `wsgi.errors`, and unless the application installed its own
handler for 500 the one `start_response` call carries a `500 …` status line.  The model returns
a `Result` for every input: nothing escapes (`catchall` is on in the extracted configuration). -/
theorem wsgi_failure_is_500 (app : App) (s : Slots) (r : Req) (hp : r.pathOK = true)
    (hfail : handleFlow app r = .exc) (hno : errHandlerFor app 500 = none) :
    Event.stderr ∈ (wsgi app s r).events ∧
    ∃ line hdrs x, Event.startResponse line hdrs x ∈ (wsgi app s r).events ∧
      line.take 4 = "500 ".toList := by
  obtain ⟨hout, herr⟩ := handle_out app s r hp
  rw [hfail] at hout herr
  simp only [settle] at hout herr
  have herr' := herr trivial
  unfold wsgi
  rcases hh : handle app s r with ⟨s1, ev1, out⟩
  rw [hh] at hout herr'
  simp only at hout herr' ⊢
  subst hout
  obtain ⟨s', items, cl, hc, hcode, hline⟩ :=
    cast_error500 app r.fileWrapper s1 "Internal Server Error".toList [] hno
  rw [hc]
  simp only
  cases hl : headerlist s'.resp with
  | some l =>
    simp only
    refine ⟨by simp [herr'], s'.resp.line, l, false, by simp, ?_⟩
    rw [hline]; exact line500
  | none =>
    simp only [catchAll]
    refine ⟨by simp [herr'], "500 INTERNAL SERVER ERROR".toList,
      [("Content-Type".toList, "text/html; charset=UTF-8".toList)], true, ?_, by decide⟩
    simp only [List.mem_append, List.mem_cons, List.not_mem_nil, or_false]
    right; right; rfl

/-- (g), first `next()`: a handler that returns an iterable whose first `next()` (after any
number of empty items) raises gets the 500 as well. -/
theorem wsgi_first_next_failure_is_500 (app : App) (s : Slots) (r : Req) (hp : r.pathOK = true)
    (id : Nat) (hc : Bool) (items rest : List Item)
    (hflow : handleFlow app r = .ret (.iter id hc items))
    (hi : skipEmpty items = .raises :: rest) (hno : errHandlerFor app 500 = none) :
    ∃ line hdrs x, Event.startResponse line hdrs x ∈ (wsgi app s r).events ∧
      line.take 4 = "500 ".toList := by
  obtain ⟨hout, _⟩ := handle_out app s r hp
  rw [hflow] at hout
  simp only [settle] at hout
  unfold wsgi
  rcases hh : handle app s r with ⟨s1, ev1, out⟩
  rw [hh] at hout
  simp only at hout ⊢
  subst hout
  obtain ⟨s', its, cl, hcast, hcode, hline⟩ :=
    cast_first_next_raises app r.fileWrapper s1 id hc items rest hi hno
  rw [hcast]
  simp only
  cases hl : headerlist s'.resp with
  | some l =>
    simp only
    refine ⟨s'.resp.line, l, false, by simp, ?_⟩
    rw [hline]; exact line500
  | none =>
    simp only [catchAll]
    refine ⟨"500 INTERNAL SERVER ERROR".toList,
      [("Content-Type".toList, "text/html; charset=UTF-8".toList)], true, ?_, by decide⟩
    simp only [List.mem_append, List.mem_cons, List.not_mem_nil, or_false]
    right; right; rfl

/-- `wsgi_wellformed`: the conjuncts (a)–(h) together, for a request with a decodable path and a
program inside the property's domain (`DomainB`: CR/LF-free names, statuses that are codes or
`ddd reason` strings; `DomainC`: homogeneous iterables).  Conjuncts (a), (d), (e), (f), (h) need
no hypothesis on the program at all (see the individual theorems). -/
theorem wsgi_wellformed (app : App) (s : Slots) (r : Req) (hp : r.pathOK = true)
    (hB : DomainB app r) (hC : DomainC app r) :
    -- (a) exactly one start_response
    ((exchange app s r).filter Event.isStart).length = 1 ∧
    -- (b) status line and header list
    (∀ line hdrs x, Event.startResponse line hdrs x ∈ (wsgi app s r).events →
      statusLineOK line = true ∧ hdrs.all pairOK = true) ∧
    -- (c) iterable of bytes
    (wsgi app s r).body.all BodyItem.isChunk = true ∧
    -- (d) framework Content-Length = bytes returned
    (∀ n, (wsgi app s r).fwCL = some n → r.isHead = false →
      isBodyless (wsgi app s r).slots.resp.code = false → bodyLen (wsgi app s r).body = n) ∧
    -- (e) HEAD / 1xx / 204 / 304: no body
    ((r.isHead = true → (wsgi app s r).body = []) ∧
     (∀ line hdrs, Event.startResponse line hdrs false ∈ (wsgi app s r).events →
       isBodyless (wsgi app s r).slots.resp.code = true → (wsgi app s r).body = [])) ∧
    -- (f) close discipline
    ((exchange app s r).filterMap Event.closeId =
      (match castCloser (cast app r.fileWrapper (handle app s r).1 (handle app s r).2.2).2 with
       | some k => [k]
       | none => [])) ∧
    -- (g) failures become a 500
    (handleFlow app r = .exc → errHandlerFor app 500 = none →
      Event.stderr ∈ (wsgi app s r).events ∧
      ∃ line hdrs x, Event.startResponse line hdrs x ∈ (wsgi app s r).events ∧
        line.take 4 = "500 ".toList) ∧
    -- (h) hooks
    (∃ rest,
      (wsgi app s r).events =
        (ranUntilFail (enumFrom 0 app.before)).map Event.before ++
        (if (enumFrom 0 app.before).all (fun p => !p.2.fails) then
            Event.routed :: (if r.route.isFound then [Event.handler] else []) else []) ++
        (ranUntilFail (enumFrom 0 app.after).reverse).map Event.after ++ rest ∧
      (∀ e ∈ rest, e = .stderr ∨ e.isStart = true ∨ e.closeId ≠ none)) :=
  ⟨(wsgi_one_start_response app s r).2.1,
   fun line hdrs x h => ⟨(wsgi_status_and_headers app s r hB line hdrs x h).1,
     (wsgi_status_and_headers app s r hB line hdrs x h).2.1⟩,
   wsgi_body_is_bytes app s r hC,
   fun n h => (wsgi_content_length app s r n h).1,
   wsgi_no_body app s r,
   wsgi_close_exactly_once app s r,
   fun hf hno => wsgi_failure_is_500 app s r hp hf hno,
   wsgi_hooks app s r hp⟩

/-! ### the composed application (`Model/App.lean`): the route result and the header pairs are
no longer parameters -/

/-- `app_wellformed`: **`wsgi_wellformed` for `App.serve`, with the REAL router and the REAL header
emission plugged in.**  For every application (hooks, error handlers, one handler program per
registered callback, given the kwargs), every router state `R` and every request environ with a
decodable path on which `App.serve` is defined, the response `res = App.serveW cfg R q` is
`Wsgi.wsgi` run on a request `r` all of whose former parameters are computed: its route result is
what `Router.handle` (`request.method.upper()`, `request.path`, `to_route`, `RadiRouter.resolve`)
answers — the handler program of the resolved callback on the kwargs the router produced, 404, or
405 with the router's `Allow` (`RouteRel`) — and the conjuncts (a)–(h) hold, with
* (b) strengthened: the header list of the normal path IS `Model/Headers.headerlist` of the final
  response object (C14's emission: blacklist, transcoding, default `Content-Type`, cookies);
* (h) read on the router: the handler event occurs iff the router resolved a call.
The domain hypotheses speak about the programs only (`App.DomainB`, `App.DomainC`): nothing is
assumed about the route result — the `Allow` value of a 405 included. -/
theorem app_wellformed (cfg : App.AppConfig) (R : Router.Router) (q : App.Req) (res : Result)
    (hs : App.serveW cfg R q = .ok res) (hp : (ErrorPage.utf8Decode q.rawPath).isSome = true)
    (hB : App.DomainB cfg) (hC : App.DomainC cfg) :
    ∃ r, App.wsgiReq cfg R q = .ok r ∧ res = wsgi cfg.hooks Slots.fresh r ∧
      App.RouteRel cfg (App.resolved cfg R q) r.route ∧
      -- (a) exactly one start_response over the whole exchange
      ((res.events ++ serverEvents res).filter Event.isStart).length = 1 ∧
      -- (b) status line and header list; the list is `Model/Headers`' emission
      (∀ line hdrs x, Event.startResponse line hdrs x ∈ res.events →
        statusLineOK line = true ∧ hdrs.all pairOK = true ∧
        (x = false → hdrs = Headers.headerlist (App.headersView res.slots.resp))) ∧
      -- (c) iterable of bytes
      res.body.all BodyItem.isChunk = true ∧
      -- (d) framework Content-Length = bytes returned
      (∀ n, res.fwCL = some n → (q.verb == "HEAD".toList) = false →
        isBodyless res.slots.resp.code = false → bodyLen res.body = n) ∧
      -- (e) HEAD / 1xx / 204 / 304: no body
      (((q.verb == "HEAD".toList) = true → res.body = []) ∧
       (∀ line hdrs, Event.startResponse line hdrs false ∈ res.events →
         isBodyless res.slots.resp.code = true → res.body = [])) ∧
      -- (f) close discipline
      ((res.events ++ serverEvents res).filterMap Event.closeId =
        (match castCloser (cast cfg.hooks q.fileWrapper (handle cfg.hooks Slots.fresh r).1
            (handle cfg.hooks Slots.fresh r).2.2).2 with
         | some k => [k]
         | none => [])) ∧
      -- (g) failures become a 500
      (handleFlow cfg.hooks r = .exc → errHandlerFor cfg.hooks 500 = none →
        Event.stderr ∈ res.events ∧
        ∃ line hdrs x, Event.startResponse line hdrs x ∈ res.events ∧ line.take 4 = "500 ".toList) ∧
      -- (h) hooks; the handler runs iff the router resolved a call
      (∃ rest,
        res.events =
          (ranUntilFail (enumFrom 0 cfg.hooks.before)).map Event.before ++
          (if (enumFrom 0 cfg.hooks.before).all (fun p => !p.2.fails) then
              Event.routed :: (if (App.callOf (App.resolved cfg R q)).isSome then [Event.handler] else [])
           else []) ++
          (ranUntilFail (enumFrom 0 cfg.hooks.after).reverse).map Event.after ++ rest ∧
        (∀ e ∈ rest, e = .stderr ∨ e.isStart = true ∨ e.closeId ≠ none)) := by
  obtain ⟨r, hr, rfl⟩ := App.serveW_ok hs
  obtain ⟨url, _, _, hhead, hfw, hpok, _, _, _, hrel⟩ := App.wsgiReq_ok hr
  have hpr : r.pathOK = true := by rw [hpok]; exact hp
  obtain ⟨hre, hra⟩ := App.route_domainB hrel hB
  have hDB : DomainB cfg.hooks r := ⟨hB.1, hB.2.1, hre, hra⟩
  have hDC : DomainC cfg.hooks r := ⟨hC.1, App.route_domainC hrel hC⟩
  obtain ⟨ha, hb, hc, hd, he, hf, hg, hh⟩ := wsgi_wellformed cfg.hooks Slots.fresh r hpr hDB hDC
  refine ⟨r, hr, rfl, hrel, ha, ?_, hc, ?_, ?_, ?_, hg, ?_⟩
  · intro line hdrs x hm
    refine ⟨(hb line hdrs x hm).1, (hb line hdrs x hm).2, ?_⟩
    intro hx
    subst hx
    exact App.wsgi_start_headers_view cfg.hooks Slots.fresh r line hdrs hm
  · intro n hn hhd hbl
    exact hd n hn (by rw [hhead]; exact hhd) hbl
  · refine ⟨fun hhd => he.1 (by rw [hhead]; exact hhd), he.2⟩
  · rw [← hfw]; exact hf
  · rw [← App.route_isFound hrel]; exact hh

/-- the catch-all branch is modelled because the extracted configuration has it switched on -/
theorem catchall_on : Gen.wsgiCatchall = true ∧ Gen.wsgiDebug = false := by decide

/-! ### NonVacuity: concrete instances meeting the hypotheses -/
section NonVacuity

/-- an application with a failing before-hook, two after-hooks and a custom 404 handler -/
def exApp : App :=
  { before := [{ effs := [.setHeader "X-A".toList "1".toList], res := .ok },
               { effs := [.setStatus (.line "299 Custom reason".toList)], res := .raises }],
    after := [{ effs := [.setCookie "k".toList "v".toList], res := .ok }, { effs := [], res := .ok }],
    errHandlers := [(404, .const (.text "gone".toList))] }

/-- a closable generator with two leading empty items, returned inside a 201 response -/
def exOut : Out :=
  .resp false { code := 201, line := "201 Created".toList, headers := [("X-B".toList, [.good "2".toList])],
                cookies := [("sid".toList, "abc".toList)] }
    (.iter 7 true [.empty, .text [], .text "ab".toList, .text "c".toList])

def exReq (route : Route) (head : Bool) : Req :=
  { id := 1, isHead := head, fileWrapper := false, pathOK := true, path := "/x".toList,
    urlRepr := "'http://h/x'".toList, json := false, route := route }

def exRoute : Route := .found { effs := [.setStatus (.code 202), .addHeader "X-C".toList "3".toList], res := .returns exOut }

def plainApp : App := { before := [], after := [{ effs := [], res := .ok }], errHandlers := [] }

example : DomainB exApp (exReq exRoute false) := by
  refine ⟨?_, ?_, ?_, ?_⟩ <;> decide +kernel

example : DomainC exApp (exReq exRoute false) := by
  refine ⟨?_, ?_⟩ <;> decide +kernel

/-- hypotheses of (d): a text body gets the framework's Content-Length … -/
example : (wsgi plainApp Slots.fresh (exReq (.found { effs := [], res := .returns (.text "héllo".toList) }) false)).fwCL
    = some 6 := by decide +kernel

/-- hypotheses of the emitted form of (d): Content-Length set by the framework, status not 304 -/
example :
    let res := wsgi plainApp Slots.fresh (exReq (.found { effs := [], res := .returns (.text "héllo".toList) }) false)
    res.fwCL = some 6 ∧ res.slots.resp.code ≠ 304 := by decide +kernel

/-- hypothesis of `cast_closer_is_body_source`: leading empty items, then a `bytes` item -/
example : skipEmpty [Item.empty, Item.bytes [], Item.bytes [104, 105], Item.bytes [33]] =
    Item.bytes [104, 105] :: [Item.bytes [33]] := rfl

/-- hypotheses of (g): the handler raises, no custom 500 handler -/
example : handleFlow plainApp (exReq (.found { effs := [], res := .raises }) false) = .exc ∧
    errHandlerFor plainApp 500 = none := ⟨rfl, rfl⟩

/-- … or a statement of the handler raises (`response.status = 99`) -/
example : handleFlow plainApp (exReq (.found { effs := [.setStatus (.code 99)], res := .returns (.text "x".toList) }) false)
    = .exc := rfl

/-- hypotheses of (g), first `next()` -/
example : handleFlow plainApp (exReq (.found { effs := [], res := .returns (.iter 3 true [.empty, .raises]) }) false)
      = .ret (.iter 3 true [.empty, .raises]) ∧
    skipEmpty [Item.empty, Item.raises] = .raises :: [] := ⟨rfl, rfl⟩

/-- hypotheses of `wsgi_hooks_all_run` -/
example : plainApp.before.all (fun h => !h.fails) = true ∧ plainApp.after.all (fun h => !h.fails) = true := by
  decide +kernel

/-- (h) on a failing before-hook: `exApp`'s second before-hook raises, so routing and the handler
are skipped and both after-hooks still run, in reverse order -/
example : ((wsgi exApp Slots.fresh (exReq exRoute false)).events.take 4) =
    [.before 0, .before 1, .after 1, .after 0] := by decide +kernel

/-- (e)/(f) on a HEAD request for the closable generator: closed once before `start_response`,
nothing left for the server to close, empty body -/
example : (exchange plainApp Slots.fresh (exReq exRoute true)).filterMap Event.closeId = [7] ∧
    (wsgi plainApp Slots.fresh (exReq exRoute true)).body = [] ∧
    (wsgi plainApp Slots.fresh (exReq exRoute true)).closer = none := by decide +kernel

/-! #### the composed application -/

/-- `/a/:x` (GET) and `/b` (PUT) on a fresh router -/
def exRouter : Router.Router :=
  Router.Router.run Router.asciiUpper
    [ .add (fun _ => none) { rule := "/a/:x".toList, methods := ["get".toList], handler := 0 },
      .add (fun _ => none) { rule := "/b".toList, methods := ["PUT".toList], handler := 1 } ]

/-- `exApp`'s hooks and error handlers; every callback adds a header naming itself and answers with
the names of its kwargs -/
def exCfg : App.AppConfig :=
  { hooks := plainApp,
    handlers := fun id kw => { effs := [.addHeader "X-Id".toList (natStr id)],
                               res := .returns (.text (kw.flatMap fun p => p.1 ++ "=".toList)) },
    upper := Router.asciiUpper, fenv := fun _ _ => none, pr := fun _ => true }

def exEnviron (verb path : String) : App.Req :=
  { id := 1, verb := verb.toList, rawPath := path.toList.map fun c => UInt8.ofNat c.toNat,
    env := { fwdProto := none, urlScheme := some "http".toList, fwdHost := none, host := some "h".toList,
             serverName := none, serverPort := none, query := some "q=<i>".toList, scriptName := none,
             joinLib := .error .valueError },
    accept := none, fileWrapper := false }

theorem exCfg_domain : App.DomainB exCfg ∧ App.DomainC exCfg :=
  ⟨⟨by decide, by decide, fun id _ => ⟨by
      show ([Eff.addHeader "X-Id".toList (natStr id)]).all Eff.ok = true
      simp only [List.all_cons, List.all_nil, Eff.ok, Bool.and_true]
      decide, rfl⟩⟩, ⟨by decide, fun _ _ => rfl⟩⟩

/-- hypotheses of `app_wellformed`: a GET for `/a/v` is inside `App.serve`'s domain, the path
decodes, the programs are inside the domain; the handler of op 0 runs with the router's kwargs -/
example :
    (match App.serveW exCfg exRouter (exEnviron "GET" "/a/v") with
     | .ok res => res.events.take 2 == [.routed, .handler] && res.body == [.chunk [120, 61]]
     | .error _ => false) = true ∧
    (ErrorPage.utf8Decode (exEnviron "GET" "/a/v").rawPath).isSome = true ∧
    App.callOf (App.resolved exCfg exRouter (exEnviron "GET" "/a/v")) =
      some ⟨0, "GET".toList, [("x".toList, .str "v".toList)]⟩ ∧
    App.DomainB exCfg ∧ App.DomainC exCfg :=
  ⟨by decide +kernel, by decide +kernel, by decide +kernel, exCfg_domain.1, exCfg_domain.2⟩

/-- … and a PUT for the same path is the router's 405 with its `Allow`, a DELETE for `/zz` its 404 -/
example :
    (match App.serveW exCfg exRouter (exEnviron "PUT" "/a/v") with
     | .ok res => res.slots.resp.code == 405 &&
         res.slots.resp.headers.any (fun h => h.1 == "Allow".toList && h.2 == [.good "GET".toList])
     | .error _ => false) = true ∧
    (match App.serveW exCfg exRouter (exEnviron "DELETE" "/zz") with
     | .ok res => res.slots.resp.code == 404
     | .error _ => false) = true := by
  constructor <;> decide +kernel

end NonVacuity

end Ombott.Wsgi
