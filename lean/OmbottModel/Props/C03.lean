import OmbottModel.Model.Wsgi
import OmbottModel.Lemmas.WsgiCast
/-!
C03 — Every request gets exactly one well-formed WSGI response.
Property theorems only; helper lemmas live in `Lemmas/Wsgi*.lean`.
-/
namespace Ombott.Wsgi
open Py

/-- `cast_terminates`: the `while True` loop of `_cast`, run with its own `loops_cnt` guard,
returns after at most `castMaxLoops + 1` iterations for every output object, every set of
custom error handlers (including ones that answer an error with the same error for ever) and
every response state: the `diverged` marker of the model is never produced. -/
theorem cast_terminates (app : App) (fw : Bool) (s : Slots) (out : Out) :
    (cast app fw s out).2 ≠ .diverged := by
  have h := runLoop_terminates app fw (Gen.castMaxLoops + 1) 0 s out (Nat.zero_le _) (by omega)
  unfold cast
  split
  · rename_i s' r heq
    intro hr
    simp only at hr
    subst hr
    have hnd := runLoop_invariant app fw Cfg.notDiverged (step_notDiverged app fw)
      (Gen.castMaxLoops + 1) (.run 0 s out) trivial
    rw [heq] at hnd
    exact hnd
  · rename_i heq
    rw [heq] at h
    cases h

end Ombott.Wsgi
