import OmbottModel.Model.StaticFile
import OmbottModel.Lemmas.Normpath
/-!
C16 — static_file never serves a file outside its root.
Property theorems only; helper lemmas live in `Lemmas/Normpath.lean`.
-/
namespace Ombott.StaticFile
open Py

/-! ### the path functions -/

/-- `normpath` of an absolute path has no `..` segment left -/
theorem normpath_abs_no_dotdot (p : Str) (h : p.head? = some '/') : dotdot ∉ segments (normpath p) :=
  normpath_abs_no_dotdot' p h

/-- `normpath` is idempotent -/
theorem normpath_idempotent (p : Str) : normpath (normpath p) = normpath p := normpath_idempotent' p

/-- `abspath` yields an absolute path whenever the working directory is absolute -/
theorem abspath_abs (cwd path : Str) (hcwd : cwd.head? = some '/') : (abspath cwd path).head? = some '/' := by
  unfold abspath
  apply normpath_abs_head
  split
  · assumption
  · rename_i hrel
    unfold join
    rw [if_neg hrel]
    cases cwd with
    | nil => simp at hcwd
    | cons c cs =>
      simp at hcwd; subst hcwd
      split <;> simp

/-! ### the decision -/

/-- **served_inside_root.**  Whatever the root spelling, the requested name, the working
directory (absolute) and the file system: if the decision is to open `p`, then `p` starts with the
normalised root followed by a separator, is itself normalised, has no `..` segment, and the
segments of the normalised root are a prefix of the segments of `p` (segment-wise: a sibling
directory that merely shares the root's name as a string prefix is excluded). -/
theorem served_inside_root (fs : Fs) (cwd root filename p : Str) (hcwd : cwd.head? = some '/')
    (h : staticDecide fs cwd root filename = .open_ p) :
    (abspath cwd root ++ ['/']) <+: p ∧ p = normpath p ∧ dotdot ∉ segments p ∧
      segments (abspath cwd root) <+: segments p := by
  -- the decision opens only `target`, and only after the prefix test
  have hp : p = target cwd root filename ∧ (rootDir cwd root).isPrefixOf (target cwd root filename) = true := by
    unfold staticDecide at h
    simp only at h
    split at h
    · cases h
    · rename_i hpre
      split at h
      · cases h
      · split at h
        · cases h
        · simp only [Decision.open_.injEq] at h
          exact ⟨h.symm, by simpa using hpre⟩
  obtain ⟨rfl, hpre⟩ := hp
  have hprefix : (abspath cwd root ++ ['/']) <+: target cwd root filename :=
    List.isPrefixOf_iff_prefix.mp hpre
  have hRabs := abspath_abs cwd root hcwd
  -- the joined path is absolute, so `abspath` is `normpath` of it
  have hjoin : (join (rootDir cwd root) (stripSeps filename)).head? = some '/' := by
    unfold join
    split
    · assumption
    · have hr : (rootDir cwd root).head? = some '/' := by
        unfold rootDir
        cases hR : abspath cwd root with
        | nil => rw [hR] at hRabs; simp at hRabs
        | cons x xs => rw [hR] at hRabs; simpa using hRabs
      cases hrd : rootDir cwd root with
      | nil => rw [hrd] at hr; simp at hr
      | cons x xs =>
        rw [hrd] at hr; simp at hr; subst hr
        split <;> simp
  have htarget : target cwd root filename = normpath (join (rootDir cwd root) (stripSeps filename)) := by
    unfold target abspath
    rw [if_pos hjoin]
  refine ⟨hprefix, ?_, ?_, ?_⟩
  · rw [htarget, normpath_idempotent]
  · rw [htarget]; exact normpath_abs_no_dotdot _ hjoin
  · obtain ⟨t, ht⟩ := hprefix
    rw [← ht]
    have : abspath cwd root ++ ['/'] ++ t = abspath cwd root ++ '/' :: t := by simp
    rw [this, segments_append_sep]
    exact List.prefix_append _ _

/-- **only_open_is_served.**  `static_file` hands at most one path to `open`, and only the path of
a positive decision. -/
theorem only_open_is_served (fs : Fs) (cwd root filename : Str) (isHead notMod : Bool) :
    (∀ q ∈ (serve fs cwd root filename isHead notMod).opened, staticDecide fs cwd root filename = .open_ q) ∧
    (serve fs cwd root filename isHead notMod).opened.length ≤ 1 := by
  unfold serve
  cases hd : staticDecide fs cwd root filename with
  | deny403 => simp
  | deny404 => simp
  | open_ p =>
    simp only
    split
    · simp
    · split <;> simp

/-- **else_403_404.**  Without a positive decision the answer is 403 or 404 and nothing is opened;
conversely a 403/404 answer never comes with an opened file. -/
theorem else_403_404 (fs : Fs) (cwd root filename : Str) (isHead notMod : Bool) :
    ((∀ p, staticDecide fs cwd root filename ≠ .open_ p) →
      ((serve fs cwd root filename isHead notMod).status = 403 ∨
       (serve fs cwd root filename isHead notMod).status = 404) ∧
      (serve fs cwd root filename isHead notMod).opened = []) ∧
    (((serve fs cwd root filename isHead notMod).status = 403 ∨
      (serve fs cwd root filename isHead notMod).status = 404) →
      (serve fs cwd root filename isHead notMod).opened = []) := by
  unfold serve
  cases hd : staticDecide fs cwd root filename with
  | deny403 => simp
  | deny404 => simp
  | open_ p =>
    constructor
    · intro h; exact absurd rfl (h p)
    · simp only
      split
      · simp
      · split <;> simp

/-- a positive decision needs the file to exist, to be a regular file and to be readable -/
theorem open_needs_fs (fs : Fs) (cwd root filename p : Str) (h : staticDecide fs cwd root filename = .open_ p) :
    fs.exists_ p = true ∧ fs.isfile p = true ∧ fs.access p = true := by
  unfold staticDecide at h
  simp only at h
  split at h
  · cases h
  · split at h
    · cases h
    · rename_i h2
      split at h
      · cases h
      · rename_i h3
        simp only [Decision.open_.injEq] at h
        subst h
        simp only [not_or, Bool.not_eq_true, Bool.not_eq_false] at h2 h3
        simp_all

/-- **The property.**  Every path `static_file` opens lies, segment by segment, below the
normalised root, is normalised and free of `..` — for all names, roots, absolute working
directories, file systems, methods and conditional headers. -/
theorem no_file_outside_root (fs : Fs) (cwd root filename : Str) (isHead notMod : Bool)
    (hcwd : cwd.head? = some '/') :
    ∀ q ∈ (serve fs cwd root filename isHead notMod).opened,
      segments (abspath cwd root) <+: segments q ∧ dotdot ∉ segments q ∧ q = normpath q ∧
      (abspath cwd root ++ ['/']) <+: q := by
  intro q hq
  have hd := (only_open_is_served fs cwd root filename isHead notMod).1 q hq
  obtain ⟨h1, h2, h3, h4⟩ := served_inside_root fs cwd root filename q hcwd hd
  exact ⟨h4, h3, h2, h1⟩

section NonVacuity
/-! concrete instances: the hypotheses are satisfiable and the statements speak about real cases -/

def fsAll : Fs := ⟨fun _ => true, fun _ => true, fun _ => true⟩

/-- a working directory meeting `hcwd`, a relative root with a trailing separator, a name with
`..`, a backslash and surrounding separators: served from inside -/
example : ("/w".toList).head? = some '/' := by decide
example : staticDecide fsAll "/w".toList "root/".toList "/sub/../a.txt\\".toList = .open_ "/w/root/a.txt".toList := by
  decide
example : (serve fsAll "/w".toList "root/".toList "/sub/../a.txt\\".toList false false).opened =
    ["/w/root/a.txt".toList] := by decide
/-- the sibling that shares the root's name as a string prefix is refused … -/
example : staticDecide fsAll "/w".toList "root".toList "../root2/secret.txt".toList = .deny403 := by decide
/-- … and is not inside in the segment-wise sense, although it is in the naive string sense -/
example : "/w/root".toList <+: "/w/root2/secret.txt".toList := by decide
example : ¬ segments "/w/root".toList <+: segments "/w/root2/secret.txt".toList := by decide
/-- climbing out and coming back in is inside -/
example : staticDecide fsAll "/w".toList "/w/root".toList "../root/a.txt".toList = .open_ "/w/root/a.txt".toList := by
  decide
example : normpath "//a/./b/../../../c//".toList = "//c".toList := by decide
example : normpath "a/../../b".toList = "../b".toList := by decide
end NonVacuity

end Ombott.StaticFile
