import OmbottModel.Model.StaticFile
/-!
C16 — static_file never serves a file outside its root.
-/
namespace Ombott.StaticFile
open Py

/-- a refusal opens nothing (placeholder until the full statements are proved) -/
theorem deny_opens_nothing (fs : Fs) (cwd root fn : Str) (h n : Bool)
    (hd : decide fs cwd root fn = .deny403) : (serve fs cwd root fn h n).opened = [] := by
  simp [serve, hd]

end Ombott.StaticFile
