import OmbottModel.Model.RouterEditSpec
import OmbottModel.Lemmas.RouterEditProps
import OmbottModel.Lemmas.RouterEditWitness
import OmbottModel.Lemmas.RouterEditMaps
import OmbottModel.Lemmas.RouterParse
import OmbottModel.Lemmas.RouterEditFresh
import OmbottModel.Lemmas.RouterEditFreshWitness
import OmbottModel.Lemmas.RouterListingKeys
import OmbottModel.Lemmas.RouterListingRender
import OmbottModel.Lemmas.RouterListingWitness
import OmbottModel.Lemmas.RouterListingPrefix
/-!
C11 — The router after any edit history equals a freshly built router.
Property theorems only; helper lemmas live in `Lemmas/RouterEdit*.lean`.

Vocabulary.  `denote t` = the routes a tree holds (C01); `hdenN enc t` = the hook pairs it holds,
as records `(pattern, enc pair, [])` for any numbering `enc` of pairs; `shape p` = a pattern as
`RadiDict._match` without filters sees it; `RemOK erase mode p old new` = "`new` is `old` minus
the zone of the removal" (`Lemmas/RouterEditRem.lean`); `R.routeAt / nameAt / hookAt` = the three
index maps (`Model/RouterEditSpec.lean`); `taintRun ops` = the hook patterns at or below a removed
`prefix*` (unspecified by the property until `remove_hook` clears them).
-/
namespace Ombott.Router
open Py

/-! ## the tree -/

/-- **`remove` keeps the tree well formed** (every mode: exact, `prefix*`, hooks only; with
upward pruning and `_try_merge`). -/
theorem remove_wf (t t' : Node) (pat : List Sym) (hooksOnly : Bool) (h : WFN t)
    (hr : treeRemove t pat hooksOnly = .ok t') : WFN t' :=
  (treeRemove_spec ownR_ok ownR_clear t h pat hooksOnly t' hr).1

/-- **`remove` erases exactly its zone.**  Routes: nothing new appears; a plain / `prefix*`
removal leaves no route in the zone (the pattern itself up to filters / everything extending
the prefix) and keeps every route outside it; a hooks-only removal keeps all routes.  Hook pairs:
a hooks-only removal erases the pair at the pattern and nothing else; a plain removal keeps all
pairs (also at a node whose route goes, and at prefixes emptied by pruning); a `prefix*` removal
adds none and keeps every pair not at or below the prefix. -/
theorem remove_denote (t t' : Node) (pat : List Sym) (hooksOnly : Bool) (h : WFN t)
    (hr : treeRemove t pat hooksOnly = .ok t') :
    RemOK (eraseOf true false (remMode (starSplit pat).2 hooksOnly)) (remMode (starSplit pat).2 hooksOnly)
        (starSplit pat).1 (denote t) (denote t') ∧
    ∀ enc, RemOK (eraseOf false true (remMode (starSplit pat).2 hooksOnly))
        (remMode (starSplit pat).2 hooksOnly) (starSplit pat).1 (hdenN enc t) (hdenN enc t') := by
  refine ⟨?_, fun enc => (treeRemove_spec (ownH_ok enc) (ownH_clear enc) t h pat hooksOnly t' hr).2⟩
  have := (treeRemove_spec ownR_ok ownR_clear t h pat hooksOnly t' hr).2
  rwa [gN_ownR, gN_ownR] at this

/-- `remove_denote` spelled out for the plain removal of one route: the tree afterwards holds
the routes under other patterns, all of them, and every hook pair it held. -/
theorem remove_exact_denote (t t' : Node) (pat : List Sym) (h : WFN t) (hns : NoStar pat)
    (hr : treeRemove t pat false = .ok t') :
    (∀ e, e ∈ denote t' → e ∈ denote t ∧ shape e.pat ≠ shape pat) ∧
    (∀ e, e ∈ denote t → patStr e.pat ≠ patStr pat → e ∈ denote t') ∧
    (∀ enc e, e ∈ hdenN enc t' ↔ e ∈ hdenN enc t) := by
  obtain ⟨hR, hH⟩ := remove_denote t t' pat false h hr
  rw [starSplit_nostar hns] at hR hH
  simp only [remMode, Bool.false_eq_true, if_false, eraseOf] at hR hH
  refine ⟨fun e he => ⟨(hR.1 e he).1, (hR.1 e he).2 rfl⟩, fun e he hne => hR.2 e he (fun hk => hne hk.2), ?_⟩
  intro enc e
  exact ⟨fun he => ((hH enc).1 e he).1, fun he => (hH enc).2 e he (fun hk => by cases hk.1)⟩

/-- `remove_denote` spelled out for `remove(prefix*)`: no route extending the prefix is left,
every other route is; hook pairs: none new, all those not at or below the prefix are kept (what
happens to the ones below is left open, as in the property). -/
theorem remove_prefix_denote (t t' : Node) (p : List Sym) (h : WFN t)
    (hr : treeRemove t (p ++ [.lit '*']) false = .ok t') :
    (∀ e, e ∈ denote t' → e ∈ denote t ∧ ¬ shape p <+: shape e.pat) ∧
    (∀ e, e ∈ denote t → ¬ patStr p <+: patStr e.pat → e ∈ denote t') ∧
    (∀ enc e, e ∈ hdenN enc t' → e ∈ hdenN enc t) ∧
    (∀ enc e, e ∈ hdenN enc t → ¬ patStr p <+: patStr e.pat → e ∈ hdenN enc t') := by
  obtain ⟨hR, hH⟩ := remove_denote t t' _ false h hr
  have hsp : starSplit (p ++ [.lit '*']) = (p, true) := by simp [starSplit]
  rw [hsp] at hR hH
  simp only [remMode, if_true, eraseOf] at hR hH
  exact ⟨fun e he => ⟨(hR.1 e he).1, (hR.1 e he).2 rfl⟩, fun e he hk => hR.2 e he hk,
    fun enc e he => ((hH enc).1 e he).1, fun enc e he hk => (hH enc).2 e he hk⟩

/-- `remove_denote` spelled out for `remove(pattern, hooks_only=True)`: the routes stay, the
pair at the pattern goes, every other pair stays. -/
theorem remove_hooksOnly_denote (t t' : Node) (pat : List Sym) (h : WFN t)
    (hr : treeRemove t pat true = .ok t') :
    (∀ e, e ∈ denote t' ↔ e ∈ denote t) ∧
    (∀ enc e, e ∈ hdenN enc t' → e ∈ hdenN enc t ∧ shape e.pat ≠ shape pat) ∧
    (∀ enc e, e ∈ hdenN enc t → patStr e.pat ≠ patStr pat → e ∈ hdenN enc t') := by
  obtain ⟨hR, hH⟩ := remove_denote t t' pat true h hr
  rw [treeRemove_hooksOnly_ok hr] at hR hH
  simp only [remMode, Bool.false_eq_true, if_false, if_true, eraseOf] at hR hH
  refine ⟨fun e => ⟨fun he => (hR.1 e he).1, fun he => hR.2 e he (fun hk => by cases hk.1)⟩,
    fun enc e he => ⟨((hH enc).1 e he).1, ((hH enc).1 e he).2 rfl⟩,
    fun enc e he hne => (hH enc).2 e he (fun hk => hne hk.2)⟩

/-- **`add_hooks` adds exactly the pair**: the tree stays well formed, its routes do not change,
its hook pairs are the old ones under other patterns plus the new pair at `pat`. -/
theorem addHooks_denote (t t' : Node) (pat : List Sym) (hooks : HookPair) (ow : Bool) (h : WFN t)
    (hi : treeAddHooks t pat hooks ow = .ok t') :
    WFN t' ∧ (∀ e, e ∈ denote t' ↔ e ∈ denote t) ∧
      ∀ enc e, e ∈ hdenN enc t' ↔ e = ⟨pat, enc hooks, []⟩ ∨ (e ∈ hdenN enc t ∧ e.pat ≠ pat) := by
  have hs := fun enc => insHooks_spec enc { hooks := some hooks, overwrite := ow } rfl hooks rfl t t' pat h hi
  exact ⟨(hs (fun _ => 0)).1, (hs (fun _ => 0)).2.1, fun enc => (hs enc).2.2⟩

/-! ## the router: tree and indexes stay in step -/

/-- the domain of the history theorems (`EditOK`) in terms of the rule texts: no rule text
contains the router's marker character (CR), and no *registered* rule has a pattern ending
with `*` (the marker `remove` strips) -/
theorem editOK_of_rule_text (op : EditOp)
    (h : match op with
      | .reg (.add cenv a) => Gen.paramToken ∉ a.rule ∧ ∀ p, parseRule cenv a.rule = .ok p → NoStar p.syms
      | .reg (.removeMethod _ _) => True
      | .removeRule _ rule => Gen.paramToken ∉ rule
      | .removeName _ => True
      | .addHook _ rule _ _ => Gen.paramToken ∉ rule
      | .removeHook _ rule => Gen.paramToken ∉ rule) : EditOK op := by
  cases op with
  | reg o =>
    cases o with
    | add cenv a => exact fun p hp => ⟨parseRule_noLitTok h.1 hp, h.2 p hp⟩
    | removeMethod id ms => trivial
  | removeRule cenv rule => exact fun p hp => parseRule_noLitTok h hp
  | removeName nm => trivial
  | addHook cenv rule hook pt => exact fun p hp => parseRule_noLitTok h hp
  | removeHook cenv rule => exact fun p hp => parseRule_noLitTok h hp


/-- **Refinement.**  After every history of editing calls (registrations accepted or rejected —
method clash, name clash after the tree was updated, filter clash, syntax error —, overwrites,
`remove(rule)`, `remove(name=…)`, `remove(prefix*)`, `add_hook`, `remove_hook`,
`remove_method`) the router's tree stands for exactly its three index maps:
the tree is well formed and holds exactly the routes of `routes`; every name of `named_routes`
points at a route that `routes` lists (no name outlives its route); and at every pattern that is
not at or below a removed `prefix*` the tree holds exactly the hook pair `hooks` lists. -/
theorem router_refines_maps (upper : Str → Str) (ops : List EditOp) (hok : ∀ op ∈ ops, EditOK op) :
    let R := Router.editRun upper ops
    (WFN R.tree ∧ ∀ e, e ∈ denote R.tree ↔ e ∈ R.rules) ∧
    (∀ nm id, (nm, id) ∈ R.named → ∃ r, R.obj? id = some r ∧ (patStr r.syms, id) ∈ R.routes) ∧
    (∀ q, NoLitTok q → ¬ taintRun ops (patStr q) → hookAtShape R.tree q = R.hookAt (patStr q)) := by
  have h := editRun_inv upper ops hok
  exact ⟨⟨h.inv.wf, h.inv.den⟩, h.named, fun q hq hT => hookAtShape_eq_index h q hq hT⟩

/-- **The editing calls act on the three maps as the plain finite-map spec does**
(`Model/RouterEditSpec.lean`: `Maps.dropRoutes`, `Maps.setHook`), in every state a history can
reach: `remove(rule)` erases from `routes` the pattern (or, for `prefix*`, every pattern string
that starts with the prefix: `keepOf` is false exactly there) together with the names of the
erased routes, and leaves `hooks` alone; `remove(name=…)` erases the named route and all its
names, an unknown name changes nothing; `remove_hook` erases the one pair; an accepted `add_hook`
on a specified pattern sets the pair to the old pair of the map with the hook installed in its
slot.  With `router_refines_maps` (the tree follows the maps) this is the refinement of the
three-map spec by the router. -/
theorem edits_on_maps (upper : Str → Str) (ops : List EditOp) (hok : ∀ op ∈ ops, EditOK op) :
    let R := Router.editRun upper ops
    (∀ pat, (R.removePattern pat).1.maps = R.maps.dropRoutes (fun ps => !keepOf pat ps)) ∧
    (∀ name, match R.nameAt name with
      | some v => (R.removeName name).1.maps = R.maps.dropRoutes (fun ps => ps == patStr v.syms)
      | none => (R.removeName name).1.maps = R.maps) ∧
    (∀ cenv rule p, parseRule cenv rule = .ok p → (starSplit p.syms).2 = false →
      (R.removeHook cenv rule).1.maps = R.maps.setHook (patStr p.syms) none) ∧
    (∀ p hook pt pat, NoLitTok p.syms → ¬ taintRun ops (patStr p.syms) →
      (R.addHookParsed p hook pt).2 = .ok pat →
      (R.addHookParsed p hook pt).1.maps =
        R.maps.setHook (patStr p.syms) (some (installHook (R.hookAt (patStr p.syms)) hook pt))) := by
  have h := editRun_inv upper ops hok
  refine ⟨fun pat => removePattern_maps h pat, fun name => removeName_maps h name,
    fun cenv rule p hp hs => removeHook_maps _ cenv rule p hp hs, ?_⟩
  intro p hook pt pat hnt hT hres
  rw [← hookAtShape_eq_index h p.syms hnt hT]
  exact addHook_maps h p hook pt hT pat hres

/-! ## the property -/

/-- **The router after any edit history answers as any router holding the same survivors** —
in particular as one freshly built from them.  `ops` and `ops'` are two histories (for instance
an arbitrary edit history and the plain registration of its survivors) that leave the same three
maps (routes with their method tables and stored names, names, hook pairs).  Then for every path
and method list `resolve` gives the same handler, method and keyword arguments / 404 / 405 with
the same `Allow`; lookups by name and by rule return routes with the same pattern and method
table; and the hooks delivered with a match are equal provided no prefix of the matched pattern
is at or below a `prefix*` removed in either history (the property specifies `prefix*` removal
for routes only). -/
theorem history_eq_fresh (upper : Str → Str) (ops ops' : List EditOp)
    (hok : ∀ op ∈ ops, EditOK op) (hok' : ∀ op ∈ ops', EditOK op)
    (hsame : SameSurvivors (Router.editRun upper ops) (Router.editRun upper ops'))
    (env : FilterEnv) (hns : NoSel env) :
    let R := Router.editRun upper ops
    let F := Router.editRun upper ops'
    (∀ path ms, (R.resolve env path ms).answer = (F.resolve env path ms).answer) ∧
    (∀ path ms rule vs, specResolve env R.rules (stripSlash path) = some (rule, vs) →
      (∀ q, q <+: rule.pat → ¬ taintRun ops (patStr q) ∧ ¬ taintRun ops' (patStr q)) →
      (R.resolve env path ms).hooks = (F.resolve env path ms).hooks) ∧
    (∀ nm, ((R.byName nm).bind R.obj?).map Route.view = ((F.byName nm).bind F.obj?).map Route.view) ∧
    (∀ cenv rule, (R.byRule cenv rule).map (fun o => (o.bind R.obj?).map Route.view) =
      (F.byRule cenv rule).map (fun o => (o.bind F.obj?).map Route.view)) := by
  exact answers_of_same_survivors (editRun_inv upper ops hok) (editRun_inv upper ops' hok') hsame env hns

/-- **Registering the survivors on an empty router reproduces the three maps.**  `R.fresh`
(`Model/RouterEdit.lean`, section 11; the function the driver's `FS` op runs) reads the survivors
off the edited router — `routes` with the route objects, `named_routes`, the hook pairs of the
tree — and registers them one call at a time on a new `RadiRouter()`.  After every edit history
every one of these calls is accepted (all patterns come from one well-formed tree, so no filter
clash; no name clash; no method clash) and stores what it was given: the rebuilt router holds the
same `routes` map (pattern string ↦ pattern, stored names, method table in order), the same
`named_routes` map, and the same pair in `hooks` at every pattern that is not at or below a
removed `prefix*` (there the `hooks` index of the edited router keeps pairs its tree has dropped,
which the property leaves unspecified). -/
theorem fresh_same_maps (upper : Str → Str) (ops : List EditOp) (hok : ∀ op ∈ ops, EditOK op) :
    let R := Router.editRun upper ops
    (∀ ps, R.routeAt ps = R.fresh.routeAt ps) ∧ (∀ nm, R.nameAt nm = R.fresh.nameAt nm) ∧
    (∀ ps, ¬ taintRun ops ps → R.hookAt ps = R.fresh.hookAt ps) :=
  fresh_maps (editRun_inv upper ops hok) (editRun_finv upper ops hok)

/-- `fresh_same_maps` when nothing is unspecified (no `prefix*` removal reached a hook pattern that
was not cleared by `remove_hook` afterwards; `taintRun_none`: in particular every history without
`prefix*` removals): the edited router and the one rebuilt from its survivors hold the same
survivors.  This was the hypothesis `hsame` of earlier versions of `history_eq_fresh_built`. -/
theorem fresh_same_survivors (upper : Str → Str) (ops : List EditOp) (hok : ∀ op ∈ ops, EditOK op)
    (hT : ∀ ps, ¬ taintRun ops ps) :
    SameSurvivors (Router.editRun upper ops) (Router.editRun upper ops).fresh := by
  obtain ⟨h1, h2, h3⟩ := fresh_same_maps upper ops hok
  exact ⟨h1, h2, fun ps => h3 ps (hT ps)⟩

/-- **The router after any edit history equals the router freshly built from its survivors.**
For every history of editing calls in the domain (`EditOK`: no CR in a rule text, no registered
rule ending with `*`) and every filter environment without `rex` selectors: `R.fresh` is a
legitimate router state (all invariants of `router_refines_maps` hold in it, nothing in it is
unspecified), and the edited router answers every path with every method list (handler, method,
keyword arguments / 404 / 405 with the same `Allow`), every lookup by name and every lookup by
rule exactly as `R.fresh` does; the hooks delivered with a match are the same too, provided no
prefix of the matched pattern is at or below a removed `prefix*` (the property specifies `prefix*`
removal for routes only).  No hypothesis about the survivors is left: `fresh_same_maps` supplies
the equality of the maps. -/
theorem history_eq_fresh_built (upper : Str → Str) (ops : List EditOp) (hok : ∀ op ∈ ops, EditOK op)
    (env : FilterEnv) (hns : NoSel env) :
    let R := Router.editRun upper ops
    EInv R.fresh (fun _ => False) ∧
    (∀ path ms, (R.resolve env path ms).answer = (R.fresh.resolve env path ms).answer) ∧
    (∀ path ms rule vs, specResolve env R.rules (stripSlash path) = some (rule, vs) →
      (∀ q, q <+: rule.pat → ¬ taintRun ops (patStr q)) →
      (R.resolve env path ms).hooks = (R.fresh.resolve env path ms).hooks) ∧
    (∀ nm, ((R.byName nm).bind R.obj?).map Route.view =
      ((R.fresh.byName nm).bind R.fresh.obj?).map Route.view) ∧
    (∀ cenv rule, (R.byRule cenv rule).map (fun o => (o.bind R.obj?).map Route.view) =
      (R.fresh.byRule cenv rule).map (fun o => (o.bind R.fresh.obj?).map Route.view)) := by
  have hR := editRun_inv upper ops hok
  have hF := fresh_einv hR
  obtain ⟨m1, m2, m3⟩ := fresh_same_maps upper ops hok
  obtain ⟨h1, h2, h3, h4⟩ := answers_of_same_maps hR hF m1 m2 (fun ps hT _ => m3 ps hT) env hns
  exact ⟨hF, h1, fun path ms rule vs hsr hT => h2 path ms rule vs hsr (fun q hq => ⟨hT q hq, fun hf => hf⟩), h3, h4⟩

/-- **Route hooks fire for exactly the matched routes whose pattern extends the hook's, outermost
first, with the matched path prefix.**  When `resolve` finds a handler, the plain matcher selects
a rule of `routes`, and — unless a prefix of its pattern is at or below a removed `prefix*` — the
hooks delivered are `specHooks` of the `hooks` index: for every symbol-prefix of the matched
pattern that has a pair in the index, shortest first, the pair with the number of path characters
that prefix matched.  A request then runs the simple hooks of these pairs in this order, each
with the request path cut after that position (`Ombott.handler`). -/
theorem hooks_fire_exactly (upper : Str → Str) (ops : List EditOp) (hok : ∀ op ∈ ops, EditOK op)
    (env : FilterEnv) (hns : NoSel env) (path : Str) (ms : List Str)
    (h : Nat) (mname : Str) (kw : List (Str × Val)) (hooks : List (Nat × HookPair))
    (hres : (Router.editRun upper ops).resolve env path ms = .found h mname kw hooks) :
    ∃ rule vs, specResolve env (Router.editRun upper ops).rules (stripSlash path) = some (rule, vs) ∧
      ((∀ q, q <+: rule.pat → ¬ taintRun ops (patStr q)) →
        hooks = specHooks env (fun q => (Router.editRun upper ops).hookAt (patStr q)) rule.pat (stripSlash path)) ∧
      ∀ reqPath, serveResolved reqPath (.found h mname kw hooks) =
        .ran h mname kw (hooks.filterMap fun x => x.2.simple.map fun hk => (hk, reqPath.take (1 + x.1))) := by
  have hR := editRun_inv upper ops hok
  have hfull := resolve_full hR.inv env hns path ms
  cases hsr : specResolve env (Router.editRun upper ops).rules (stripSlash path) with
  | none =>
    rw [hsr] at hfull
    obtain ⟨v, hh, p, hnf⟩ := hfull
    rw [hnf] at hres; cases hres
  | some x =>
    obtain ⟨rule, vs⟩ := x
    rw [hsr] at hfull
    obtain ⟨route, _, _, _, _, hr⟩ := hfull
    refine ⟨rule, vs, rfl, ?_, fun reqPath => rfl⟩
    intro hT
    rw [hr] at hres
    cases hgi : route.getItem ms with
    | error e => rw [hgi] at hres; cases hres
    | ok m =>
      rw [hgi] at hres
      simp only [Resolved.found.injEq] at hres
      obtain ⟨_, _, _, rfl⟩ := hres
      have hmem : rule ∈ denote (Router.editRun upper ops).tree := (hR.inv.den _).mpr (specResolve_mem hsr).1
      exact specHooks_index hR env rule.pat (hR.inv.notok rule hmem) hT _


/-! ## enumerating and printing the router, key forms of `__getitem__`
(`Model/RouterListing.lean`; helper lemmas in `Lemmas/RouterListing*.lean`) -/

/-- **`RadiDict._routes_iter()` yields exactly the routes the tree holds.**  For every tree `t`
(no hypothesis): reading pattern, filters, `DATA` and `PARAMS` off the node paths the
explicit-stack loop yields (`listedOf`) gives, in this order, `denPostN t` — the rules of
`denote t` listed depth first with the literal children in stored order, then the wildcard child,
then the node itself (the loop yields a node when its frame is popped, i.e. *after* its subtree;
`denote` lists it before) — every yielded path ends in a node holding a route, and `denPostN t` is
a rearrangement of `denote t` (same rules, same multiplicities).  For a well-formed tree no
pattern occurs twice, so every stored route is yielded exactly once. -/
theorem routes_iter_eq_denote (t : Node) :
    ((routesIter t).map listedOf).map Listed.rule? = (denPostN t).map some ∧
    (denPostN t).Perm (denote t) ∧
    (WFN t → ((denote t).map (·.pat)).Nodup ∧ (((routesIter t).map listedOf).map (·.pat)).Nodup) := by
  refine ⟨routesIter_rules t, denPostN_perm t, fun h => ⟨denN_pats_nodup t h, ?_⟩⟩
  rw [map_pat_of_rule? (routesIter_rules t)]
  exact ((denPostN_perm t).map _).nodup_iff.mpr (denN_pats_nodup t h)

/-- `_routes_iter(yield_hooks=True)` lists, in the same children-first order, every node that holds
a route or a hook pair (`listPostN true`); the routes among them are again `denPostN t`, in the
same order as without the flag. -/
theorem routes_iter_yield_hooks (t : Node) :
    (routesIter t [] true).map listedOf = listPostN true t ∧
    ((routesIter t [] true).map listedOf).filterMap Listed.rule? = denPostN t ∧
    ((routesIter t [] true).map listedOf).filterMap Listed.rule? =
      ((routesIter t).map listedOf).filterMap Listed.rule? :=
  ⟨routesIter_listed true t, routesIter_filterMap_rules true t,
    (routesIter_filterMap_rules true t).trans (routesIter_filterMap_rules false t).symm⟩

/-- **`_routes_iter(startswith=sw)` selects by pattern prefix.**  In a well-formed tree whose
listed patterns hold no literal marker character, for a marker-free `sw` the enumeration started
with `startswith=sw` (walk along `sw` without filters, a key that `sw` ends inside is accepted
when it starts with what is left) lists exactly the entries of the full enumeration whose pattern
starts with `sw` up to filters — equivalently, whose pattern *string* starts with the string of
`sw` — in the order of the full enumeration; a prefix no pattern has lists nothing. -/
theorem routes_iter_startswith (yh : Bool) (t : Node) (h : WFN t) (sw : List Sym) (hsw : NoLitTok sw)
    (hk : ∀ l ∈ listPostN yh t, NoLitTok l.pat) :
    (routesIter t sw yh).map listedOf = ((routesIter t [] yh).map listedOf).filter (prefB sw) ∧
    ∀ l ∈ (routesIter t [] yh).map listedOf, (prefB sw l = true ↔ patStr sw <+: patStr l.pat) := by
  rw [routesIter_listed]
  exact ⟨routesIter_startswith yh t h sw hsw hk, fun l hl => prefB_iff_patStr hsw (hk l hl)⟩

/-- … and after any edit history, for any string `s` given as `startswith`: the routes whose
pattern string starts with `s`, in the order of the full enumeration. -/
theorem routes_iter_startswith_after_history (upper : Str → Str) (ops : List EditOp)
    (hok : ∀ op ∈ ops, EditOK op) (s : Str) :
    let R := Router.editRun upper ops
    (routesIter R.tree (symsOfStr s)).map listedOf =
      ((routesIter R.tree).map listedOf).filter (fun l => s.isPrefixOf (patStr l.pat)) :=
  startswith_of_einv (editRun_inv upper ops hok) s

/-- **After any edit history the enumeration of the tree, the `routes` index and the name index
list the same routes** (corollary of `router_refines_maps`): the routes `_routes_iter()` yields
are a rearrangement of the rules of the `routes` index (each exactly once); the pattern strings
yielded are a rearrangement of the keys of `routes` (`list(app.routes)`); and every route a name
of `named_routes` points at is among the yielded ones. -/
theorem routes_iter_after_history (upper : Str → Str) (ops : List EditOp) (hok : ∀ op ∈ ops, EditOK op) :
    let R := Router.editRun upper ops
    (((routesIter R.tree).map listedOf).filterMap Listed.rule?).Perm R.rules ∧
    (((routesIter R.tree).map listedOf).map fun l => patStr l.pat).Perm R.appRoutes ∧
    (∀ nm id, (nm, id) ∈ R.named → ∃ l ∈ (routesIter R.tree).map listedOf, l.data = some id) :=
  listing_of_einv (editRun_inv upper ops hok)

/-- **The rule text `_render_route` prints parses back to the pattern it was printed from** —
on exactly the patterns described by `Renderable` (`Lemmas/RouterListingRender.lean`): all
wildcards plain (the printer writes `:name` only, so *no* filter kind — `int`, `float`, `path`,
`re`, `rex` — can be printed), each with an identifier name of its own (not the stored
`anon-<k>` of an anonymous wildcard), each followed by `/` or the end of the pattern, literal
text free of `:`, `<`, `{` and CR.  Then `parse_rule('/' + _render_route(pattern, names))`
returns the same pattern, the same names and no filters.  (Outside that domain the examples
below show the three ways it fails.) -/
theorem render_route_roundtrip (cenv : CompileEnv) (p : List Sym) (names : List Str)
    (h : Renderable p names) :
    parseRule cenv ('/' :: renderRoute (patStr p) names) = .ok ⟨p, names, p⟩ := by
  rw [render_eq_printRule h, parseRule_printRule cenv _ (segsOK_segsOf h),
    parseParts_abs cenv _ (segsOK_segsOf h) (filtersBuild_segsOf cenv h) 0, absParsed_segsOf h 0]

/-- `RadiDict.params_unpack` undoes `Route.params_signature`: for a rule without a repeated
wildcard name, `_set` receives the names and filters exactly as `parse_rule` listed them (what
`Model/Router.lean` passes to `insN` directly), all exclusivity flags false. -/
theorem params_signature_unpack (names : List Str) (filters : List (Option Fid))
    (hnd : names.Nodup) (hlen : names.length = filters.length) :
    paramsUnpack (some (paramsSignature names filters)) = (names.map fun _ => false, filters, names) := by
  unfold paramsSignature paramsUnpack
  have hz : ((names.zip filters).map (·.1)).Nodup := by rw [zip_map_fst _ _ hlen]; exact hnd
  have := foldl_dictSet_fresh (names.zip filters) [] hz (fun _ _ _ hy => by cases hy)
  simp only [List.nil_append] at this
  simp only [this, List.map_map, Function.comp_def]
  refine Prod.ext ?_ (Prod.ext ?_ ?_)
  · simp only
    have := zip_map_fst names filters hlen
    calc (names.zip filters).map (fun _ => false) = ((names.zip filters).map (·.1)).map (fun _ => false) := by
          simp [List.map_map, Function.comp_def]
      _ = names.map fun _ => false := by rw [this]
  · exact zip_map_snd names filters hlen
  · exact zip_map_fst names filters hlen

/-- **Every key form `RadiRouter.__getitem__` accepts, and what it refuses.**
(1) a `str` is looked up in `named_routes` (`None` when absent, never an exception);
(2) `{rule}`, `{'rule': rule}` and `RouteKey(rule)` (non-empty `rule`) are one and the same
lookup, `_match(rule)` with filters compared (`byRule`);
(3) `{'pattern': s}`, `{'route_pattern': s}` and `RouteKey(pattern=s)` are one and the same
lookup, the walk along the pattern string without filters (`matchStr`);
(4) everything else raises exactly as the code does: the empty set `IndexError`; a set or dict
with more than one item, the empty dict, a dict under any other keyword (`filters`, `get_hooks`,
unknown, not a `str`), a value that is not a `str`, `RouteKey()` / `RouteKey('')` /
`RouteKey(None)` (they become `{'pattern': None}`), and any key that is neither `str`, `set`
nor `dict`: `TypeError`; `RouteKey(rule, pattern=…)` with both given: `TypeError` from the
constructor. -/
theorem getitem_forms_agree (cenv : CompileEnv) (R : Router) :
    (∀ nm, R.getItem cenv (.name nm) = .ok (R.byName nm)) ∧
    (∀ rule, R.getItem cenv (.set [.str rule]) = R.byRule cenv rule ∧
      R.getItem cenv (.dict [(.str "rule".toList, .str rule)]) = R.byRule cenv rule ∧
      (rule ≠ [] → R.getByRouteKey cenv (.str rule) .none = R.byRule cenv rule)) ∧
    (∀ s, R.getItem cenv (.dict [(.str "pattern".toList, .str s)]) = R.matchStr s ∧
      R.getItem cenv (.dict [(.str "route_pattern".toList, .str s)]) = R.matchStr s ∧
      R.getByRouteKey cenv .none (.str s) = R.matchStr s) ∧
    (R.getItem cenv (.set []) = .error "IndexError" ∧
      (∀ es, 1 < es.length → R.getItem cenv (.set es) = .error "TypeError") ∧
      (∀ items, items.length ≠ 1 → R.getItem cenv (.dict items) = .error "TypeError") ∧
      (∀ k v, k ≠ .str "rule".toList → k ≠ .str "pattern".toList → k ≠ .str "route_pattern".toList →
        R.getItem cenv (.dict [(k, v)]) = .error "TypeError") ∧
      (∀ k v, (∀ s, v ≠ .str s) → R.getItem cenv (.dict [(k, v)]) = .error "TypeError") ∧
      (∀ v, (∀ s, v ≠ .str s) → R.getItem cenv (.set [v]) = .error "TypeError") ∧
      R.getItem cenv .other = .error "TypeError" ∧
      (∀ a b, a ≠ .none → b ≠ .none → R.getByRouteKey cenv a b = .error "TypeError") ∧
      (∀ a, a.truthy = false → R.getByRouteKey cenv a .none = .error "TypeError")) := by
  refine ⟨fun _ => rfl, fun rule => ⟨rfl, rfl, ?_⟩, fun s => ⟨rfl, rfl, rfl⟩, rfl, ?_, ?_, ?_, ?_, ?_, rfl, ?_, ?_⟩
  · intro hne
    cases rule with
    | nil => exact absurd rfl hne
    | cons c cs => rfl
  · intro es hes
    simp only [Router.getItem]
    rw [if_pos (by omega)]
  · intro items hlen
    simp only [Router.getItem]
    by_cases h1 : items.length > 1
    · rw [if_pos h1]
    · rw [if_neg h1]
      cases items with
      | nil => rfl
      | cons x xs =>
        cases xs with
        | nil => simp at hlen
        | cons y ys => simp at h1
  · intro k v h1 h2 h3
    rw [getItem_dict_single]
    exact matchKw_other_keyword cenv R _ v (renameKw_other h1 h2 h3).1 (renameKw_other h1 h2 h3).2
  · intro k v hv
    rw [getItem_dict_single]
    exact matchKw_value_not_str cenv R _ v hv
  · intro v hv
    simp only [Router.getItem, List.length_singleton, gt_iff_lt, Nat.lt_irrefl, if_false]
    exact matchKw_value_not_str cenv R _ v hv
  · intro a b ha hb
    simp only [Router.getByRouteKey, routeKeyNew_both a b ha hb]
  · intro a ha
    simp only [Router.getByRouteKey, routeKeyNew_falsy a ha]
    rw [getItem_dict_single]
    exact matchKw_value_not_str cenv R _ _ (fun s h => by cases h)

/-- **A lookup returns the route object `resolve` dispatches on.**  After any edit history:
`router[{rule}]` returns the route `id` exactly when the rule parses (without leading `/` in
the pattern) to a pattern — filters included — that the `routes` index lists with `id`, and it
raises exactly the parser's error or the `/` assertion; `router[{'pattern': s}]` returns `id`
exactly when `routes` lists a rule with pattern string `s` and route `id`; `router[name]` returns
a route of the index, the one `_match` finds under its pattern.  And for every path the plain
matcher resolves (no `rex` selector): `resolve(path)` returns that rule's route, every rule text
that parses to the rule's pattern gets the same route from `router[{rule}]`, the pattern-string
forms get it from `router[{'pattern': …}]`, and every name registered for a route with that
pattern gets it from `router[name]`. -/
theorem getitem_returns_resolved_route (upper : Str → Str) (ops : List EditOp) (hok : ∀ op ∈ ops, EditOK op)
    (cenv : CompileEnv) :
    let R := Router.editRun upper ops
    (∀ rule id, R.byRule cenv rule = .ok (some id) ↔
      ∃ p, parseRule cenv rule = .ok p ∧ p.syms.head? ≠ some (.lit '/') ∧
        ∃ keys, (⟨p.syms, id, keys⟩ : Rule) ∈ R.rules) ∧
    (∀ rule e, R.byRule cenv rule = .error e ↔ parseRule cenv rule = .error e ∨
      ∃ p, parseRule cenv rule = .ok p ∧ p.syms.head? = some (.lit '/') ∧ e = "AssertionError") ∧
    (∀ s id, R.matchStr s = .ok (some id) ↔
      s.head? ≠ some '/' ∧ ∃ e ∈ R.rules, patStr e.pat = s ∧ e.data = id) ∧
    (∀ nm id, R.byName nm = some id →
      ∃ r, R.obj? id = some r ∧ (patStr r.syms, id) ∈ R.routes ∧ R.matchPat r.syms = some id) ∧
    (∀ env, NoSel env → ∀ path rule vs, specResolve env R.rules (stripSlash path) = some (rule, vs) →
      R.resolveRoute env path = some rule.data ∧
      (∀ rtext p, parseRule cenv rtext = .ok p → p.syms = rule.pat → p.syms.head? ≠ some (.lit '/') →
        R.byRule cenv rtext = .ok (some rule.data)) ∧
      ((patStr rule.pat).head? ≠ some '/' → R.matchStr (patStr rule.pat) = .ok (some rule.data)) ∧
      (∀ nm id r, R.byName nm = some id → R.obj? id = some r → r.syms = rule.pat → id = rule.data)) := by
  intro R
  have hE := editRun_inv upper ops hok
  refine ⟨fun rule id => byRule_iff hE.inv cenv rule id, fun rule e => byRule_error cenv rule e,
    fun s id => matchStr_iff hE.inv s id, ?_, ?_⟩
  · intro nm id hn
    have hmem := dictGet_mem hn
    obtain ⟨r, hr, hin⟩ := hE.named nm id hmem
    refine ⟨r, hr, hin, ?_⟩
    rw [matchPat_iff hE.inv.wf]
    exact ⟨r.params, (hE.inv.den _).mpr ((mem_rules _ _).mpr ⟨_, id, r, hin, hr, rfl⟩)⟩
  · intro env hns path rule vs hsr
    have hrule := (specResolve_mem hsr).1
    refine ⟨?_, ?_, ?_, ?_⟩
    · rw [resolveRoute_eq hE.inv env hns, hsr]; rfl
    · intro rtext p hp hsy hh
      rw [byRule_iff hE.inv]
      exact ⟨p, hp, hh, rule.keys, by rw [hsy]; exact hrule⟩
    · intro hh
      rw [matchStr_iff hE.inv]
      exact ⟨hh, rule, hrule, rfl, rfl⟩
    · intro nm id r hn hr hsy
      have hmem := dictGet_mem hn
      obtain ⟨r', hr', hin⟩ := hE.named nm id hmem
      rw [hr] at hr'; cases hr'
      have h1 : (⟨r.syms, id, r.params⟩ : Rule) ∈ R.rules := (mem_rules _ _).mpr ⟨_, id, r, hin, hr, rfl⟩
      have := rules_patInj hE.inv _ h1 _ hrule hsy
      rw [← this]

/-- **The wrappers of `Ombott` add nothing.**  `add_route`, `remove_route(rule)`,
`remove_route(name=…)`, `on_route`, `remove_route_hook` are the `RadiRouter` calls of the edit
histories (so every theorem above about `Router.editRun` covers histories made through the
application object), `remove_route(route_pattern=s)` is the removal of the pattern `s` read as
`RadiDict._match` reads it, which for a rule text parsing to that pattern is `remove(rule)`; a
rule wins over a name, a name over a pattern string; `routes` is the index itself. -/
theorem ombott_wrappers (upper : Str → Str) (cenv : CompileEnv) (R : Router) :
    (∀ a, R.appAddRoute upper cenv a = R.add upper cenv a) ∧
    (∀ rule nm s, R.appRemoveRoute cenv (some rule) nm s = R.removeRule cenv rule) ∧
    (∀ nm s, R.appRemoveRoute cenv none (some nm) s = R.removeName nm) ∧
    (∀ s, R.appRemoveRoute cenv none none (some s) = R.removePattern (symsOfStr s)) ∧
    (∀ rule p, parseRule cenv rule = .ok p → R.removeRule cenv rule = R.removePattern p.syms) ∧
    (∀ rule hook, R.appOnRoute cenv rule hook = R.addHook cenv rule hook false) ∧
    (∀ rule, R.appRemoveRouteHook cenv rule = R.removeHook cenv rule) ∧
    R.appRoutes = R.routes.map (·.1) := by
  refine ⟨fun _ => rfl, fun _ _ _ => rfl, fun _ _ => rfl, fun _ => rfl, ?_, fun _ _ => rfl, fun _ => rfl, rfl⟩
  intro rule p hp
  simp [Router.removeRule, hp]

/-! ## non-vacuity: concrete instances meeting the hypotheses
(the trees and histories are defined in `Lemmas/RouterEditWitness.lean`) -/

section NonVacuity

/-- `addHooks_denote`: a well-formed tree and an accepted `add_hooks` -/
example : WFN exT2 ∧ treeAddHooks exT2 exAB ⟨some 7, none⟩ false = .ok exT := ⟨exT2_wf, rfl⟩

/-- `remove_wf`, `remove_denote`, `remove_exact_denote`: removing `/ab` (which also holds a hook
pair and has a child) from a well-formed tree; one of two routes goes -/
example : ∃ t', WFN exT ∧ NoStar exAB ∧ treeRemove exT exAB false = .ok t' ∧
    (denote exT).length = 2 ∧ (denote t').length = 1 ∧ (hdenN encPair t').length = 1 :=
  ⟨_, exT_wf, exAB_nostar, rfl, rfl, rfl, rfl⟩

/-- `remove_prefix_denote`: `remove('/ab*')` empties the tree of routes, the pair at `/ab` stays -/
example : ∃ t', WFN exT ∧ treeRemove exT (exAB ++ [.lit '*']) false = .ok t' ∧
    (denote t').length = 0 ∧ (hdenN encPair t').length = 1 :=
  ⟨_, exT_wf, rfl, rfl, rfl⟩

/-- `remove_hooksOnly_denote`: `remove('/ab', hooks_only=True)` -/
example : ∃ t', WFN exT ∧ treeRemove exT exAB true = .ok t' ∧
    (denote t').length = 2 ∧ (hdenN encPair t').length = 0 :=
  ⟨_, exT_wf, rfl, rfl, rfl⟩

/-- `router_refines_maps`, `history_eq_fresh`, `hooks_fire_exactly`: the edited router and the
one registering the survivors only hold the same three maps (one route, one name, one pair),
in different states (the edited one keeps the object of the removed route) -/
example : (∀ op ∈ exOps, EditOK op) ∧ (∀ op ∈ exOpsF, EditOK op) ∧
    SameSurvivors (Router.editRun id exOps) (Router.editRun id exOpsF) ∧
    (Router.editRun id exOps).objs.length = 2 ∧ (Router.editRun id exOpsF).objs.length = 1 := by
  refine ⟨exOps_ok, exOpsF_ok, ?_⟩
  have h1 : (Router.editRun id exOps).routes = [("ab".toList, 0)] := rfl
  have h2 : (Router.editRun id exOpsF).routes = [("ab".toList, 0)] := rfl
  have o1 : (Router.editRun id exOps).obj? 0 = (Router.editRun id exOpsF).obj? 0 := rfl
  have n1 : (Router.editRun id exOps).named = [("n".toList, 0)] := rfl
  have n2 : (Router.editRun id exOpsF).named = [("n".toList, 0)] := rfl
  have k1 : (Router.editRun id exOps).hookIdx = (Router.editRun id exOpsF).hookIdx := rfl
  refine ⟨⟨fun ps => ?_, fun nm => ?_, fun ps => ?_⟩, rfl, rfl⟩
  · unfold Router.routeAt dictGet
    rw [h1, h2]
    simp only [List.find?]
    split <;> simp [o1]
  · unfold Router.nameAt dictGet
    rw [n1, n2]
    simp only [List.find?]
    split <;> simp [o1]
  · unfold Router.hookAt
    rw [k1]

/-- `fresh_same_maps`, `history_eq_fresh_built`: the example history (accepted and rejected adds,
a hook, an exact and a `prefix*` removal) meets the hypothesis, and the router rebuilt from the
survivors holds the same three maps as the edited one, seen by evaluation -/
example : ∀ op ∈ exOps, EditOK op := exOps_ok

/-- … and the conclusion of `fresh_same_maps` on it (here even all of `SameSurvivors`: the removed
prefix `/x` held no hook) -/
example : SameSurvivors (Router.editRun id exOps) (Router.editRun id exOps).fresh := by
  have h1 : (Router.editRun id exOps).routes = [("ab".toList, 0)] := rfl
  have h2 : (Router.editRun id exOps).fresh.routes = [("ab".toList, 0)] := rfl
  have o1 : ((Router.editRun id exOps).obj? 0).map Route.view = ((Router.editRun id exOps).fresh.obj? 0).map Route.view := rfl
  have n1 : (Router.editRun id exOps).named = [("n".toList, 0)] := rfl
  have n2 : (Router.editRun id exOps).fresh.named = [("n".toList, 0)] := rfl
  have k1 : (Router.editRun id exOps).hookIdx = (Router.editRun id exOps).fresh.hookIdx := rfl
  refine ⟨fun ps => ?_, fun nm => ?_, fun ps => ?_⟩
  · unfold Router.routeAt dictGet
    rw [h1, h2]
    simp only [List.find?]
    split <;> simp [o1]
  · unfold Router.nameAt dictGet
    rw [n1, n2]
    simp only [List.find?]
    split <;> simp [o1]
  · unfold Router.hookAt
    rw [k1]

/-- `fresh_same_survivors`: a history with a removal that leaves nothing unspecified -/
example : (∀ op ∈ exOps.take 4, EditOK op) ∧ (∀ ps, ¬ taintRun (exOps.take 4) ps) ∧
    (Router.editRun id (exOps.take 4)).objs.length = 2 ∧ (Router.editRun id (exOps.take 4)).routes.length = 1 := by
  refine ⟨fun op h => exOps_ok op (List.mem_of_mem_take h), taintRun_none _ ?_, rfl, rfl⟩
  intro cenv rule p hmem hp
  simp only [exOps, exAdd, List.take, List.mem_cons, List.mem_nil_iff, or_false, EditOp.removeRule.injEq,
    reduceCtorEq, false_or] at hmem
  obtain ⟨rfl, rfl⟩ := hmem
  have h0 : parseRule cenv0 "/abc".toList = .ok ⟨exABC, [], exABC⟩ := rfl
  rw [h0] at hp; cases hp
  rfl

/-- the hypothesis `hT` of `fresh_same_survivors` cannot be dropped: after `remove('/ab*')` the
`hooks` index still lists the pair at `/ab/c` which the tree (and so the rebuilt router) no longer
holds — the unspecified part of the property -/
example : (∀ op ∈ exOpsT, EditOK op) ∧
    ¬ SameSurvivors (Router.editRun id exOpsT) (Router.editRun id exOpsT).fresh := by
  refine ⟨exOpsT_ok, fun h => ?_⟩
  have h1 : (Router.editRun id exOpsT).hookAt "ab/c".toList = some ⟨some 2, none⟩ := rfl
  have h2 : (Router.editRun id exOpsT).fresh.hookAt "ab/c".toList = none := rfl
  have := h.2.2 "ab/c".toList
  rw [h1, h2] at this
  cases this

/-- a lookup that hits, with a hook delivered; no filter environment entry has a selector -/
example : NoSel (fun _ _ => none) ∧
    (Router.editRun id exOps).resolve (fun _ _ => none) "/ab".toList ["GET".toList] =
      .found 0 "GET".toList [] [(2, ⟨some 2, none⟩)] :=
  ⟨fun _ _ _ h => (nomatch h), rfl⟩


/-! ### listing and key forms (trees and patterns in `Lemmas/RouterListingWitness.lean`) -/

/-- `routes_iter_eq_denote`: a well-formed tree with a split key, a wildcard child next to a
literal sibling, a route below the wildcard and a hook-only node; the loop yields the four routes
children first — literal children in stored order (newest first), the wildcard child last, the
wildcard's own route after the route below it — while `denote` lists the wildcard's route before its subtree -/
example : WFN lsT ∧
    (((routesIter lsT).map listedOf).map fun l => (patStr l.pat, l.data)) =
      [("abc".toList, some 2), ("a/b".toList, some 1), ("a/\r/d".toList, some 3), ("a/\r".toList, some 0)] ∧
    ((denote lsT).map fun e => (patStr e.pat, e.data)) =
      [("abc".toList, 2), ("a/b".toList, 1), ("a/\r".toList, 0), ("a/\r/d".toList, 3)] :=
  ⟨lsT_wf, by decide, by decide⟩

/-- `routes_iter_yield_hooks`: with `yield_hooks` the hook-only node `a` is listed too, after its
subtree -/
example : (((routesIter lsT [] true).map listedOf).map fun l => (patStr l.pat, l.data, l.hooks.isSome)) =
    [("abc".toList, some 2, false), ("a/b".toList, some 1, false), ("a/\r/d".toList, some 3, false),
     ("a/\r".toList, some 0, false), ("a".toList, none, true)] := by decide

/-- `startswith`: the enumeration below a prefix that ends inside a key / at a wildcard -/
example : (((routesIter lsT (symsOfStr "a/".toList)).map listedOf).map fun l => patStr l.pat) =
      ["a/b".toList, "a/\r/d".toList, "a/\r".toList] ∧
    (((routesIter lsT (symsOfStr "ab".toList)).map listedOf).map fun l => patStr l.pat) = ["abc".toList] ∧
    (routesIter lsT (symsOfStr "abx".toList)) = [] := ⟨by decide, by decide, by decide⟩

/-- `routes_iter_startswith`: the example tree is well formed and marker-free, `a/` is marker-free -/
example : WFN lsT ∧ NoLitTok (symsOfStr "a/".toList) ∧ ∀ l ∈ listPostN true lsT, NoLitTok l.pat := by
  refine ⟨lsT_wf, noLitTok_symsOfStr _, ?_⟩
  have : listPostN true lsT = (routesIter lsT [] true).map listedOf := (routesIter_listed true lsT).symm
  rw [this]
  intro l hl
  apply noLitTok_of_test
  revert l
  decide

/-- `routes_iter_after_history`: the example history meets the hypothesis; one route survives and
is what the tree, `routes` and the name `n` list -/
example : (∀ op ∈ exOps, EditOK op) ∧
    (((routesIter (Router.editRun id exOps).tree).map listedOf).map fun l => (patStr l.pat, l.data)) =
      [("ab".toList, some 0)] ∧
    (Router.editRun id exOps).appRoutes = ["ab".toList] ∧ (Router.editRun id exOps).named = [("n".toList, 0)] :=
  ⟨exOps_ok, by decide, by decide, by decide⟩

/-- `render_route_roundtrip`: `a/<x>/b/<y_1>` is printed as `a/:x/b/:y_1` -/
example : Renderable rdPat rdNames ∧ renderRoute (patStr rdPat) rdNames = "a/:x/b/:y_1".toList :=
  ⟨rdPat_renderable, by decide⟩

/-- outside `Renderable`, (a) a filter is not printed: the text of `a/<x:int>` reads back as the
plain wildcard; (b) an anonymous wildcard prints as `:anon-0`, which the parser refuses;
(c) a wildcard followed by literal text other than `/` reads back with the text in its name -/
example :
    parseRule cenv0 ('/' :: renderRoute (patStr [.lit 'a', .lit '/', .tok (some "int(None)".toList)]) ["x".toList]) =
      .ok ⟨[.lit 'a', .lit '/', .tok none], ["x".toList], [.lit 'a', .lit '/', .tok none]⟩ ∧
    parseRule cenv0 ('/' :: renderRoute (patStr [.tok none]) ["anon-0".toList]) = .error "RouteSyntaxError" ∧
    parseRule cenv0 ('/' :: renderRoute (patStr [.tok none, .lit 'b']) ["x".toList]) =
      .ok ⟨[.tok none], ["xb".toList], [.tok none]⟩ := ⟨by rfl, by rfl, by rfl⟩

/-- `params_signature_unpack`: two distinct names; with a repeated name the dict collapses and
`_set` receives one name and the *last* filter (outside the domain, `inDomain`) -/
example : ["x".toList, "y".toList].Nodup ∧
    paramsUnpack (some (paramsSignature ["x".toList, "x".toList] [none, some "int(None)".toList])) =
      ([false], [some "int(None)".toList], ["x".toList]) := ⟨by decide, by decide⟩

/-- `getitem_forms_agree`, `getitem_returns_resolved_route`: on the edited example router the
name `n`, the rule `/ab` in the three rule forms, the pattern string `ab` in the three pattern
forms and `resolve('/ab')` all give route 0; a two-item set is refused -/
example :
    (Router.editRun id exOps).getItem cenv0 (.name "n".toList) = .ok (some 0) ∧
    (Router.editRun id exOps).getItem cenv0 (.set [.str "/ab".toList]) = .ok (some 0) ∧
    (Router.editRun id exOps).getByRouteKey cenv0 (.str "/ab".toList) .none = .ok (some 0) ∧
    (Router.editRun id exOps).getItem cenv0 (.dict [(.str "pattern".toList, .str "ab".toList)]) = .ok (some 0) ∧
    (Router.editRun id exOps).getByRouteKey cenv0 .none (.str "ab".toList) = .ok (some 0) ∧
    (Router.editRun id exOps).getItem cenv0 (.set [.str "/abc".toList]) = .ok none ∧
    (Router.editRun id exOps).getItem cenv0 (.set [.str "/ab".toList, .str "/abc".toList]) = .error "TypeError" ∧
    (Router.editRun id exOps).resolveRoute (fun _ _ => none) "/ab".toList = some 0 :=
  ⟨by rfl, by rfl, by rfl, by rfl, by rfl, by rfl, by rfl, by rfl⟩

end NonVacuity

end Ombott.Router
