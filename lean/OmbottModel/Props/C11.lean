import OmbottModel.Model.RouterEdit
/-!
C11 — The router after any edit history equals a freshly built router.
Property theorems only; helper lemmas live in `Lemmas/RouterEdit*.lean`.
-/
namespace Ombott.Router
open Py

/-- the hooks that run before the handler are the simple hooks of the pairs delivered with the
match, in the order delivered, each with the request path cut after the position recorded -/
theorem fired_in_delivery_order (reqPath : Str) (hooks : List (Nat × HookPair)) :
    (firedHooks reqPath hooks).map (·.1) = hooks.filterMap (·.2.simple) := by
  induction hooks with
  | nil => rfl
  | cons x xs ih =>
    obtain ⟨pos, hp⟩ := x
    cases hs : hp.simple <;> simp_all [firedHooks, List.filterMap_cons]

end Ombott.Router
