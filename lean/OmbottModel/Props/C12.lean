import OmbottModel.Model.BodyAccess
import OmbottModel.Lemmas.BodyAccessTotal
import OmbottModel.Gen.Forms
/-!
C12 — Malformed request bodies yield client errors, never server faults.
Property theorems only; helper lemmas live in `Lemmas/`.
-/
namespace Ombott.BodyAccess
open Py Ombott.Multipart Ombott.Forms

/-! ### tie to the source: the error map and `_raise` -/

def errOfName (n : String) : Option Err :=
  [Err.requestError, .bodyParsingError, .bodySizeError, .invalidBoundaryError, .stopMarkup,
   .malformedHeaders, .unexpectedBodyEnd].find? (·.name == n)

/-- `raiseErr` over the generated `errors_map` raises what `Request._raise` raised on the live
module, for every modelled error class with and without `except_class = RequestError` -/
theorem raise_probe_tie :
    Gen.formsRaiseProbe.all (fun r =>
      match errOfName r.1 with
      | none => false
      | some e =>
        (raiseErr Gen.formsErrorsMap e (if r.2.1 == "-" then none else errOfName r.2.1)).name == r.2.2) = true := by
  decide +kernel

/-- every entry of the live `errors_map` is a client error, and `RequestError` (the
`except_class` of every `_raise` call of the body accessors) has one -/
theorem errors_map_client_errors :
    (∀ e ∈ Gen.formsErrorsMap, 400 ≤ e.2 ∧ e.2 < 500) ∧ (mapGet Gen.formsErrorsMap "RequestError").isSome := by
  decide

/-! ### the property -/

/-- **No server fault.**  For every content type (present or not, any text: multipart with any
boundary, urlencoded, JSON, anything else), every `content_length`, every result of the body
reader (any list of parts — i.e. any byte string in any fragmentation — or either `RequestError`
class), every `max_memfile_size`, every `json.loads` that keeps its contract, and every sequence of
accesses to `body | json | POST | forms | files` on that request (each outcome caught by the
handler or not): the outcome is a value (the handler goes on: 200) or an `HTTPError` of the live
`errors_map` with a 4xx status.  No built-in exception and no unmapped `RequestError` reaches the
catch-all of `_handle`.  Every function of `Model/Forms.lean` and `Model/BodyAccess.lean` is
structurally recursive over its input, so none of the modelled loops can spin; the two `while True`
loops of the multipart markup (`_eat_data`, `iter_markup`) carry fuel in `Model/Multipart.lean`, and
that this fuel is never exhausted is C06's `eatData_never_out_of_fuel` /
`iterMarkup_never_out_of_fuel` (the "no hang" half for those two loops rests on them). -/
theorem body_access_total (maxMemfile : Nat) (jl : JLoads) (hjl : JsonContract jl) (req : Req)
    (accs : List Accessor) :
    ∀ o ∈ accessSeq ⟨maxMemfile, Gen.formsErrorsMap⟩ jl req {} accs,
      statusOf o = 200 ∨ (400 ≤ statusOf o ∧ statusOf o < 500) := by
  intro o ho
  have hm : Map4xx Gen.formsErrorsMap := errors_map_client_errors
  exact good_status o (accessSeq_good ⟨maxMemfile, Gen.formsErrorsMap⟩ hm jl hjl req accs {}
    (fun h => by simp at h) o ho)

section NonVacuity

/-- a `json.loads` that keeps the contract (it raises `ValueError` on everything) -/
example : JsonContract (fun _ => .raises (.py .valueError)) := by
  intro b e h; cases h; exact Or.inl rfl

/-- the contract is needed: a `json.loads` raising `TypeError` gives a 500 -/
example :
    (accessSeq ⟨100, Gen.formsErrorsMap⟩ (fun _ => .raises (.py .typeError))
      ⟨some "application/json".toList, 2, .ok [[123, 125]]⟩ {} [.json]).map statusOf = [500] := by
  decide

/-- a part with an empty header block is a client error (was a 500 before fix 57b6c35):
`--b CRLF CRLF CRLF x CRLF --b--` read through `forms`, then `files`, then `body` -/
example :
    (accessSeq ⟨100, Gen.formsErrorsMap⟩ (fun _ => .null)
      ⟨some "multipart/form-data; boundary=b".toList, 17,
       .ok [[45, 45, 98, 13, 10, 13, 10, 13, 10, 120, 13, 10, 45, 45, 98, 45, 45]]⟩ {}
      [.forms, .files, .body]).map statusOf = [400, 200, 200] := by
  decide +kernel

end NonVacuity

end Ombott.BodyAccess
