import OmbottModel.Model.BodyAccess
import OmbottModel.Lemmas.BodyAccessTotal
import OmbottModel.Lemmas.FormsItems
import OmbottModel.Props.C05
import OmbottModel.Gen.Forms
/-!
C12 — Malformed request bodies yield client errors, never server faults.
Property theorems only; helper lemmas live in `Lemmas/`.
-/
namespace Ombott.BodyAccess
open Py Ombott.Multipart Ombott.Forms

/-! ### tie to the source: the error map and `_raise` -/

def errOfName (n : String) : Option Err :=
  [Err.requestError, .bodyParsingError, .bodySizeError, .invalidBoundaryError, .stopMarkup,
   .malformedHeaders, .unexpectedBodyEnd].find? (·.name == n)

/-- `raiseErr` over the generated `errors_map` raises what `Request._raise` raised on the live
module, for every modelled error class with and without `except_class = RequestError` -/
theorem raise_probe_tie :
    Gen.formsRaiseProbe.all (fun r =>
      match errOfName r.1 with
      | none => false
      | some e =>
        (raiseErr Gen.formsErrorsMap e (if r.2.1 == "-" then none else errOfName r.2.1)).name == r.2.2) = true := by
  decide +kernel

/-- every entry of the live `errors_map` is a client error, and `RequestError` (the
`except_class` of every `_raise` call of the body accessors) has one -/
theorem errors_map_client_errors :
    (∀ e ∈ Gen.formsErrorsMap, 400 ≤ e.2 ∧ e.2 < 500) ∧ (mapGet Gen.formsErrorsMap "RequestError").isSome := by
  decide

/-! ### the property -/

/-- **No server fault.**  For every content type (present or not, any text: multipart with any
boundary, urlencoded, JSON, anything else), every `content_length`, every result of the body
reader (any list of parts — i.e. any byte string in any fragmentation — or either `RequestError`
class), every `max_memfile_size`, every `json.loads` that keeps its contract, and every sequence of
accesses to `body | json | POST | forms | files` on that request (each outcome caught by the
handler or not): the outcome is a value (the handler goes on: 200) or an `HTTPError` of the live
`errors_map` with a 4xx status.  No built-in exception and no unmapped `RequestError` reaches the
catch-all of `_handle`.  Every function of `Model/Forms.lean` and `Model/BodyAccess.lean` is
structurally recursive over its input, so none of the modelled loops can spin; the two `while True`
loops of the multipart markup (`_eat_data`, `iter_markup`) carry fuel in `Model/Multipart.lean`, and
that this fuel is never exhausted is C06's `markup_total` (the markup of every input ends with no
error or one of the three multipart error classes, never the `RuntimeError` that stands for an
exhausted bound). -/
theorem body_access_total (maxMemfile : Nat) (jl : JLoads) (hjl : JsonContract jl) (req : Req)
    (accs : List Accessor) :
    ∀ o ∈ accessSeq ⟨maxMemfile, Gen.formsErrorsMap⟩ jl req {} accs,
      statusOf o = 200 ∨ (400 ≤ statusOf o ∧ statusOf o < 500) := by
  intro o ho
  have hm : Map4xx Gen.formsErrorsMap := errors_map_client_errors
  exact good_status o (accessSeq_good ⟨maxMemfile, Gen.formsErrorsMap⟩ hm jl hjl req accs {}
    (fun h => by simp at h) o ho)

/-- the delimiter `CRLF--boundary` for the boundary named in the Content-Type header -/
def delimOf (bnd : Str) : Bytes := CRLF ++ (HYPHENx2 ++ utf8Encode bnd)

/-- **Only complete, delimiter-terminated parts are delivered.**  For every request whose body
could be read (any content type naming a boundary, any parts = any bytes in any fragmentation),
every memory budget and every field `f` that `FieldStorage.iter_items` yields — including the
fields yielded before a later part makes the whole access fail: there is a range `s ≤ e` of the
buffered body with `body[e : e + len(T)] = T` (`T = CRLF--boundary`), and the field is exactly
that range: an upload is the window `(s, e)`, a text field is the strict UTF-8 decoding of
`body[s : e]`.  Nothing that ends at the end of the input or at a look-alike is delivered. -/
theorem delivered_fields_terminated (cfg : Cfg) (req : Req) (body : Bytes) (st : St)
    (h : bodyOf cfg req = .ok (body, some st)) (maxRead : Int) (i : Nat) (f : FieldS)
    (hf : (iterItems body (spooled cfg body) st.markups maxRead).items[i]? = some f) :
    ∃ bnd, boundaryOf (req.contentType.getD []) = some bnd ∧
    ∃ s e : Nat, s ≤ e ∧ ((body.drop e).take (delimOf bnd).length = delimOf bnd) ∧
      ((f.filename.isSome ∧ f.file = some ((s : Int), (e : Int)) ∧ f.value = none) ∨
       (f.filename = none ∧ f.file = none ∧ f.value.isSome ∧
         f.value = utf8Decode ((body.drop s).take (e - s)))) := by
  obtain ⟨bnd, s0, chunks, hbnd, hs0, _, hbody, hst⟩ := bodyOf_feed cfg req body st h
  refine ⟨bnd, hbnd, ?_⟩
  obtain ⟨hm, dm, mr', hr, a1, a2, a3, a4, a5⟩ := iterItems_item _ _ _ _ _ _ hf
  have hterm := feed_terminated (utf8Encode bnd) s0 chunks hs0
  rw [← hbody, ← hst] at hterm
  obtain ⟨k, hk1, hk2, hk3⟩ := hterm (2 * i + 2) dm a2 (by omega) a4
  have hpos := (bodyOf_markup cfg req body st h).2.2.2.2 dm (List.mem_of_getElem? a2)
  refine ⟨dm.start.toNat, k, by omega, hk3, ?_⟩
  have := readField_content body (spooled cfg body) hm.start hm.stop dm.start dm.stop mr' f hr hpos
    (by omega) a5
  rw [hk1] at this
  have e1 : ((dm.start.toNat : Nat) : Int) = dm.start := by omega
  have e2 : ((k : Int) - dm.start).toNat = k - dm.start.toNat := by omega
  rw [e1, ← e2]
  exact this

/-- **A failed form parse stays failed and leaves nothing behind** (fix 9db424c).  When reading
`POST` fails with `e` (a mapped 4xx by `body_access_total`), then in every sequence of accesses on
that request, in any order and however interleaved with `body` / `json`, every access to
`forms`, `files` or `POST` raises that same `e`: none of them ever returns a (partial or empty)
mapping. -/
theorem failed_post_stays_failed (cfg : Cfg) (jl : JLoads) (req : Req) (e : Exc)
    (h : (postOf cfg jl req).result = .error e) (accs : List Accessor) (i : Nat) (a : Accessor)
    (hi : accs[i]? = some a) (ha : a = .post ∨ a = .forms ∨ a = .files) :
    (accessSeq cfg jl req {} accs)[i]? = some (.error e) :=
  accessSeq_failed cfg jl req e h accs {} ⟨rfl, rfl, rfl⟩ i a hi
    (by rcases ha with rfl | rfl | rfl <;> rfl)

/-! ### composition with the body readers (C04, C05, C13) -/

/-- the result of `_body_read` (`Model/BodyMixin.lean`) as the framing input of this model; `chunks`
= the parts the reader yielded (`Sink` keeps only their concatenation) -/
def framingOf (res : Except Err Body.Sink) (chunks : List Bytes) : Except FrErr (List Bytes) :=
  match res with
  | .ok _ => .ok chunks
  | .error .bodySizeError => .error .size
  | .error _ => .error .parsing

/-- `framingOf` loses nothing: under either framing, for every stream, schedule, buffer and limit
the reader returns a body or raises exactly one of the two classes of `FrErr` (C05 `chunked_total`,
`cl_total`) -/
theorem reader_result_covered (buf : Nat) (cl : Int) (chunked : Bool) (max : Option Nat) (r : Body.Rec) :
    (∃ sk, (Body.bodyRead buf cl chunked max r).1 = .ok sk) ∨
    (Body.bodyRead buf cl chunked max r).1 = .error .bodyParsingError ∨
    (Body.bodyRead buf cl chunked max r).1 = .error .bodySizeError := by
  cases h : (Body.bodyRead buf cl chunked max r).1 with
  | ok sk => exact Or.inl ⟨sk, rfl⟩
  | error e =>
    right
    cases chunked with
    | true =>
      rcases Ombott.Chunked.chunked_total buf max cl r e h with rfl | rfl
      · exact Or.inl rfl
      · exact Or.inr rfl
    | false =>
      have := Ombott.Chunked.cl_total buf max cl r e h
      subst this; exact Or.inr rfl

/-- `body_access_total` on top of the modelled readers: whatever `wsgi.input` delivers (any bytes,
any read schedule), under either framing, with any `content_length`, buffer and size limit, and
whatever parts the reader cut the payload into -/
theorem body_access_total_framed (cfg : Body.Cfg) (cl : Int) (chunked : Bool) (r : Body.Rec)
    (ct : Option Str) (chunks : List Bytes) (jl : JLoads) (hjl : JsonContract jl) (accs : List Accessor) :
    ∀ o ∈ accessSeq ⟨cfg.memfile, Gen.formsErrorsMap⟩ jl
        ⟨ct, cl, framingOf (Body.bodyRead cfg.memfile cl chunked cfg.maxBody r).1 chunks⟩ {} accs,
      statusOf o = 200 ∨ (400 ≤ statusOf o ∧ statusOf o < 500) :=
  body_access_total cfg.memfile jl hjl _ accs

section NonVacuity

/-- a `json.loads` that keeps the contract (it raises `ValueError` on everything) -/
example : JsonContract (fun _ => .raises (.py .valueError)) := by
  intro b e h; cases h; exact Or.inl rfl

/-- the contract is needed: a `json.loads` raising `TypeError` gives a 500 -/
example :
    (accessSeq ⟨100, Gen.formsErrorsMap⟩ (fun _ => .raises (.py .typeError))
      ⟨some "application/json".toList, 2, .ok [[123, 125]]⟩ {} [.json]).map statusOf = [500] := by
  decide

/-- a part with an empty header block is a client error (was a 500 before fix 57b6c35):
`--b CRLF CRLF CRLF x CRLF --b--` read through `forms`, then `files`, then `body` -/
example :
    (accessSeq ⟨100, Gen.formsErrorsMap⟩ (fun _ => .null)
      ⟨some "multipart/form-data; boundary=b".toList, 17,
       .ok [[45, 45, 98, 13, 10, 13, 10, 13, 10, 120, 13, 10, 45, 45, 98, 45, 45]]⟩ {}
      [.forms, .files, .body]).map statusOf = [400, 400, 200] := by
  decide +kernel

/-- `delivered_fields_terminated` is not vacuous: a body whose second part is cut off delivers
the first field only (and then fails with a 400); the delivered value `x` is followed by the
delimiter.  `--b CRLF Content-Disposition: form-data; name="a" CRLF CRLF x CRLF --b CRLF C: d CRLF CRLF yy` -/
def cutBody : Bytes :=
  utf8Encode "--b\r\nContent-Disposition: form-data; name=\"a\"\r\n\r\nx\r\n--b\r\nC: d\r\n\r\nyy".toList

example :
    (match bodyOf ⟨100, Gen.formsErrorsMap⟩
        ⟨some "multipart/form-data; boundary=b".toList, 0, .ok [cutBody.take 20, cutBody.drop 20]⟩ with
      | .ok (b, some st) =>
        some ((iterItems b false st.markups 100).items.map (fun f => (f.name, f.value)),
              (iterItems b false st.markups 100).exc)
      | _ => none) = some ([("a".toList, some "x".toList)], some (.py .bodyParsingError)) := by
  decide +kernel

end NonVacuity

end Ombott.BodyAccess
