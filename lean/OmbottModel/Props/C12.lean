import OmbottModel.Model.BodyAccess
import OmbottModel.Gen.Forms
/-!
C12 — Malformed request bodies yield client errors, never server faults.
Property theorems only; helper lemmas live in `Lemmas/`.
-/
namespace Ombott.BodyAccess
open Py Ombott.Multipart Ombott.Forms

/-! ### tie to the source: the error map and `_raise` -/

def errOfName (n : String) : Option Err :=
  [Err.requestError, .bodyParsingError, .bodySizeError, .invalidBoundaryError, .stopMarkup,
   .malformedHeaders, .unexpectedBodyEnd].find? (·.name == n)

/-- `raiseErr` over the generated `errors_map` raises what `Request._raise` raised on the live
module, for every modelled error class with and without `except_class = RequestError` -/
theorem raise_probe_tie :
    Gen.formsRaiseProbe.all (fun r =>
      match errOfName r.1 with
      | none => false
      | some e =>
        (raiseErr Gen.formsErrorsMap e (if r.2.1 == "-" then none else errOfName r.2.1)).name == r.2.2) = true := by
  decide +kernel

/-- every entry of the live `errors_map` is a client error, and `RequestError` (the
`except_class` of every `_raise` call of the body accessors) has one -/
theorem errors_map_client_errors :
    (∀ e ∈ Gen.formsErrorsMap, 400 ≤ e.2 ∧ e.2 < 500) ∧ (mapGet Gen.formsErrorsMap "RequestError").isSome := by
  decide

end Ombott.BodyAccess
