import OmbottModel.Model.Range
import OmbottModel.Lemmas.PyInt
import OmbottModel.Lemmas.Split
import OmbottModel.Gen.Tables
/-!
C17 — Range and conditional requests describe exactly the bytes delivered.
Property theorems only; helper lemmas live in `Lemmas/`.
-/
namespace Ombott.Range
open Py

/-- a range that is returned always lies inside the file and is non-empty -/
theorem range_some_bounds (h : Str) (len s e : Nat) (hr : firstRange h len = some (s, e)) :
    s < e ∧ e ≤ len := by
  have hclip : ∀ r, clip len r = some (s, e) → s < e ∧ e ≤ len := by
    intro r hc
    unfold clip at hc
    split at hc
    · split at hc
      · simp only [Option.some.injEq, Prod.mk.injEq] at hc
        obtain ⟨rfl, rfl⟩ := hc
        omega
      · contradiction
    · contradiction
  unfold firstRange at hr
  split at hr
  · contradiction
  · split at hr
    · exact hclip _ hr
    · contradiction

/-- `_file_iter_range` delivers exactly the first `n` bytes after the offset, for every read
fragmentation of the file object -/
theorem iter_flatten (data : Bytes) (sched : List Nat) (n maxread : Nat) (hm : 0 < maxread) :
    (fileIterRange ⟨data, sched⟩ n maxread).flatten = data.take n := by
  induction n using Nat.strongRecOn generalizing data sched with
  | _ n ih =>
    unfold fileIterRange
    split
    · rename_i h
      obtain ⟨hn, hne⟩ := h
      have hlen := Stream.read_length_le ⟨data, sched⟩ (min n maxread)
      have happ := Stream.read_append ⟨data, sched⟩ (min n maxread)
      have hpos : 0 < (Stream.read ⟨data, sched⟩ (min n maxread)).1.length := List.length_pos_iff.mpr hne
      rcases hr : Stream.read ⟨data, sched⟩ (min n maxread) with ⟨part, ⟨d', s'⟩⟩
      rw [hr] at hlen happ hpos
      simp only at hlen happ hpos ⊢
      have hmin : min n maxread ≤ n := Nat.min_le_left _ _
      rw [List.flatten_cons, ih (n - part.length) (by omega)]
      rw [← happ, List.take_append, List.take_of_length_le (l := part) (by omega)]
    · rename_i h
      by_cases hn : n = 0
      · subst hn; simp
      · have h' : (Stream.read ⟨data, sched⟩ (min n maxread)).1 = [] := by
          apply Classical.byContradiction
          intro hc
          exact h ⟨by omega, hc⟩
        have := (Stream.read_nil_iff ⟨data, sched⟩ (min n maxread) (by omega)).mp h'
        simp at this; subst this; simp

/-- no delivered chunk is larger than the streaming buffer, and none is empty -/
theorem iter_chunk_le (st : Stream) (n maxread : Nat) :
    ∀ c ∈ fileIterRange st n maxread, c.length ≤ maxread ∧ c ≠ [] := by
  induction n using Nat.strongRecOn generalizing st with
  | _ n ih =>
    unfold fileIterRange
    split
    · rename_i h
      intro c hc
      have hlen := Stream.read_length_le st (min n maxread)
      have hpos : 0 < (st.read (min n maxread)).1.length := List.length_pos_iff.mpr h.2
      rcases List.mem_cons.mp hc with rfl | hc
      · exact ⟨by omega, h.2⟩
      · exact ih _ (by omega) _ c hc
    · intro c hc; cases hc

/-- what it means for a 206 answer to be self-consistent and inside the file -/
def PartialOK (file : Bytes) (isHead : Bool) (maxread : Nat) (cr cl : Str) (body : List Bytes) : Prop :=
  ∃ s e, s < e ∧ e ≤ file.length ∧
    cr = "bytes ".toList ++ natStr s ++ "-".toList ++ natStr (e - 1) ++ "/".toList ++ natStr file.length ∧
    cl = natStr (e - s) ∧
    (isHead = false → body.flatten = slice file s e) ∧
    (isHead = true → body = []) ∧
    (∀ c ∈ body, c.length ≤ maxread)

/-- The 206 response: Content-Range, Content-Length and the delivered bytes describe one and
the same slice of the file, which lies inside the file; chunks respect the buffer; HEAD has no
body.  For every file, Range header, read schedule and buffer size. -/
theorem partial_consistent (file : Bytes) (sched : List Nat) (isHead : Bool) (rh : Option Str)
    (ims : Option Int) (mtime : Int) (maxread : Nat) (hm : 0 < maxread)
    (cr cl : Str) (body : List Bytes)
    (hres : staticFile file sched isHead rh ims mtime maxread = .partialContent cr cl body) :
    PartialOK file isHead maxread cr cl body := by
  have key : ∀ clen, clen = file.length →
      staticFile.go file sched isHead rh maxread clen = .partialContent cr cl body →
      PartialOK file isHead maxread cr cl body := by
    intro clen hclen hgo
    unfold staticFile.go at hgo
    split at hgo
    · rename_i h
      split at hgo
      · cases hgo
      · split at hgo
        · cases hgo
        · rename_i s e hfr
          have hb := range_some_bounds h clen s e hfr
          simp only [Resp.partialContent.injEq] at hgo
          obtain ⟨hcr, hcl, hbody⟩ := hgo
          refine ⟨s, e, hb.1, hclen ▸ hb.2, ?_, hcl.symm, ?_, ?_, ?_⟩
          · rw [← hcr, hclen]
            have : ((e : Int) - 1) = ((e - 1 : Nat) : Int) := by omega
            rw [this]; rfl
          · intro hh
            rw [← hbody]; simp only [staticBody, hh]
            simp only [Bool.false_eq_true, if_false]
            rw [iter_flatten _ _ _ _ hm]
            unfold slice
            rw [List.take_drop]
            congr 1
            congr 1
            omega
          · intro hh; rw [← hbody]; simp [staticBody, hh]
          · intro c hc
            rw [← hbody] at hc
            unfold staticBody at hc
            split at hc
            · cases hc
            · exact (iter_chunk_le _ _ _ c hc).1
    · cases hgo
  unfold staticFile at hres
  split at hres
  · split at hres
    · cases hres
    · exact key _ rfl hres
  · exact key _ rfl hres

/-- without a Range header (and no satisfied If-Modified-Since) the whole file is delivered with
its true length; HEAD gets the same length and no body -/
theorem no_range_full (file : Bytes) (sched : List Nat) (isHead : Bool) (mtime : Int) (maxread : Nat) :
    staticFile file sched isHead none none mtime maxread =
      .full file.length (if isHead then [] else [file]) := by
  simp [staticFile, staticFile.go]

/-- a conditional date not older than the file gives 304 (which carries no body) -/
theorem ims_304 (file : Bytes) (sched : List Nat) (isHead : Bool) (rh : Option Str) (t mtime : Int)
    (maxread : Nat) (h : t ≥ mtime) :
    staticFile file sched isHead rh (some t) mtime maxread = .notModified := by
  simp [staticFile, h]

/-- an older date changes nothing -/
theorem ims_older_ignored (file : Bytes) (sched : List Nat) (isHead : Bool) (rh : Option Str) (t mtime : Int)
    (maxread : Nat) (h : t < mtime) :
    staticFile file sched isHead rh (some t) mtime maxread =
      staticFile file sched isHead rh none mtime maxread := by
  have : ¬ t ≥ mtime := by omega
  simp [staticFile, this]

/-- HEAD yields the same answer as GET with the body removed -/
def stripBody : Resp → Resp
  | .partialContent cr cl _ => .partialContent cr cl []
  | .full cl _ => .full cl []
  | r => r

theorem head_same_headers (file : Bytes) (sched : List Nat) (rh : Option Str) (ims : Option Int)
    (mtime : Int) (maxread : Nat) :
    staticFile file sched true rh ims mtime maxread =
      stripBody (staticFile file sched false rh ims mtime maxread) := by
  have key : ∀ clen, staticFile.go file sched true rh maxread clen =
      stripBody (staticFile.go file sched false rh maxread clen) := by
    intro clen
    unfold staticFile.go
    cases rh with
    | none => simp [stripBody]
    | some h =>
      simp only
      split
      · simp [stripBody]
      · split <;> simp [stripBody, staticBody]
  unfold staticFile
  cases ims with
  | none => exact key _
  | some t =>
    simp only
    split
    · rfl
    · exact key _


/-! ### RFC 7233: the first range-spec, clipped to the file

The specification is written independently of the implementation model: `byte-range-spec`
`a-b`, open `a-` and `suffix-byte-range-spec` `-n`, satisfiable iff it selects at least one
byte of a file of `len` bytes. -/

def rfcClosed (a b len : Nat) : Option (Nat × Nat) :=
  if a < len ∧ a ≤ b then some (a, min (b + 1) len) else none
def rfcOpen (a len : Nat) : Option (Nat × Nat) :=
  if a < len then some (a, len) else none
def rfcSuffix (n len : Nat) : Option (Nat × Nat) :=
  if 0 < n ∧ 0 < len then some (len - n, len) else none

/-- further range-specs after the first are `,…` or nothing -/
def TailOK (tail : Str) : Prop := tail = [] ∨ ∃ r, tail = ',' :: r

private theorem natStr_no (n : Nat) (c : Char) (hc : c.isDigit = false) : c ∉ natStr n :=
  fun hm => by have := natStr_digits n c hm; simp [hc] at this

private theorem head_first (x tail : Str) (hx : ',' ∉ x) (ht : TailOK tail) :
    (splitOn1 ',' (x ++ tail)).headD [] = x := by
  rcases ht with rfl | ⟨r, rfl⟩
  · simp [splitOn1_nosep ',' x hx]
  · simp [splitOn1_append ',' x r hx]

private theorem first_eq (s e tail : Str) (len : Nat) (hs : ',' ∉ s ∧ '-' ∉ s) (he : ',' ∉ e ∧ '-' ∉ e)
    (ht : TailOK tail) :
    firstRange ("bytes=".toList ++ (s ++ '-' :: e ++ tail)) len = clip len (rangeNums s e len) := by
  unfold firstRange
  rw [splitFirstSub_prefix _ _ (by decide)]
  simp only
  have hx : ',' ∉ s ++ '-' :: e := by
    simp only [List.mem_append, List.mem_cons, not_or]
    exact ⟨hs.1, by decide, he.1⟩
  have : s ++ '-' :: e ++ tail = (s ++ '-' :: e) ++ tail := by simp
  rw [this, head_first _ _ hx ht, splitOn1_append '-' s e hs.2, splitOn1_nosep '-' e he.2]

/-- a numeral as a header carries it: `k` leading zeros, then the canonical decimal digits of `n`
(every ASCII spelling of `n` RFC 7233's `1*DIGIT` allows) -/
def numeral (k n : Nat) : Str := List.replicate k '0' ++ natStr n

/-- the number of digit characters of the numeral as written (leading zeros count) -/
def numeralDigits (k n : Nat) : Nat := k + (natStr n).length

/-- **the recorded exclusion** (`C17:range:numeral-longer-than-int-max-str-digits`): the numeral as
written has at most `sys.get_int_max_str_digits()` digit characters.  Decidable; over the header
text, not the value. -/
abbrev WithinIntLimit (k n : Nat) : Prop := numeralDigits k n ≤ Gen.intMaxStrDigits

private theorem numeral_digits (k n : Nat) : ∀ c ∈ numeral k n, c.isDigit = true := by
  intro c hc
  rcases List.mem_append.mp hc with h | h
  · rw [(List.mem_replicate.mp h).2]; decide
  · exact natStr_digits n c h

private theorem numeral_no (k n : Nat) (c : Char) (hc : c.isDigit = false) : c ∉ numeral k n :=
  fun hm => by have := numeral_digits k n c hm; simp [hc] at this

private theorem numeral_nonempty (k n : Nat) : (numeral k n).isEmpty = false := by
  cases h : numeral k n with
  | nil => exact absurd (List.append_eq_nil_iff.mp h).2 (natStr_ne_nil n)
  | cons _ _ => rfl

private theorem int_numeral (k n : Nat) (h : WithinIntLimit k n) : pyIntLim (numeral k n) = some (n : Int) :=
  pyIntLim_zeros_natStr k n h

private theorem int_numeral_none (k n : Nat) (h : Gen.intMaxStrDigits < numeralDigits k n) :
    pyIntLim (numeral k n) = none :=
  pyIntLim_zeros_natStr_none k n h

/-- **RFC 7233, `a-b`.**  For every spelling of the two numbers (any number of leading zeros) that
stays within the interpreter's `int()` limit as written, `get_first_range` answers exactly the RFC
clipping.  (Before the limit was modelled this was stated for all naturals — true of the unbounded
model, false of the code: `range_rfc_fails_beyond_int_limit`.) -/
theorem range_rfc_closed (ka a kb b len : Nat) (tail : Str) (ht : TailOK tail)
    (hla : WithinIntLimit ka a) (hlb : WithinIntLimit kb b) :
    firstRange ("bytes=".toList ++ (numeral ka a ++ '-' :: numeral kb b ++ tail)) len = rfcClosed a b len := by
  rw [first_eq _ _ _ _ ⟨numeral_no ka a _ (by decide), numeral_no ka a _ (by decide)⟩
    ⟨numeral_no kb b _ (by decide), numeral_no kb b _ (by decide)⟩ ht]
  simp only [rangeNums, numeral_nonempty, int_numeral ka a hla, int_numeral kb b hlb, Bool.false_eq_true, if_false]
  unfold clip rfcClosed
  simp only
  by_cases h : a < len ∧ a ≤ b
  · have : (0:Int) ≤ a ∧ (a:Int) < min ((b:Int) + 1) len ∧ min ((b:Int) + 1) (len:Int) ≤ len := by omega
    simp only [this, h, and_self, if_true, Option.some.injEq, Prod.mk.injEq]
    constructor <;> omega
  · have : ¬ ((0:Int) ≤ a ∧ (a:Int) < min ((b:Int) + 1) len ∧ min ((b:Int) + 1) (len:Int) ≤ len) := by omega
    rw [if_neg this, if_neg h]

/-- **RFC 7233, `a-`** (same domain) -/
theorem range_rfc_open (ka a len : Nat) (tail : Str) (ht : TailOK tail) (hla : WithinIntLimit ka a) :
    firstRange ("bytes=".toList ++ (numeral ka a ++ '-' :: [] ++ tail)) len = rfcOpen a len := by
  rw [first_eq _ _ _ _ ⟨numeral_no ka a _ (by decide), numeral_no ka a _ (by decide)⟩
    ⟨by simp, by simp⟩ ht]
  simp only [rangeNums, numeral_nonempty, int_numeral ka a hla, Bool.false_eq_true, if_false, List.isEmpty_nil, if_true,
    Option.map_some]
  unfold clip rfcOpen
  simp only
  by_cases h : a < len
  · have : (0:Int) ≤ a ∧ (a:Int) < len ∧ (len:Int) ≤ len := by omega
    simp [this, h]
  · have : ¬ ((0:Int) ≤ a ∧ (a:Int) < len ∧ (len:Int) ≤ len) := by omega
    simp [this, h]

/-- **RFC 7233, `-n`** (same domain) -/
theorem range_rfc_suffix (kn n len : Nat) (tail : Str) (ht : TailOK tail) (hln : WithinIntLimit kn n) :
    firstRange ("bytes=".toList ++ ([] ++ '-' :: numeral kn n ++ tail)) len = rfcSuffix n len := by
  rw [first_eq _ _ _ _ ⟨by simp, by simp⟩
    ⟨numeral_no kn n _ (by decide), numeral_no kn n _ (by decide)⟩ ht]
  simp only [rangeNums, int_numeral kn n hln, List.isEmpty_nil, if_true, Option.map_some]
  unfold clip rfcSuffix
  simp only
  by_cases h : 0 < n ∧ 0 < len
  · have : (0:Int) ≤ max 0 ((len:Int) - n) ∧ max 0 ((len:Int) - n) < len ∧ (len:Int) ≤ len := by omega
    simp only [this, h, and_self, if_true, Option.some.injEq, Prod.mk.injEq]
    constructor <;> omega
  · have : ¬ ((0:Int) ≤ max 0 ((len:Int) - n) ∧ max 0 ((len:Int) - n) < len ∧ (len:Int) ≤ len) := by omega
    rw [if_neg this, if_neg h]

/-! #### beyond the limit (known finding `C17:range:numeral-longer-than-int-max-str-digits`) -/

/-- a numeral of more digit characters than `int()` converts, in any of the three forms, on either
side: `get_first_range` answers `None` (416) — whatever the numbers are -/
theorem range_beyond_int_limit_none (ka a kb b len : Nat) (tail : Str) (ht : TailOK tail) :
    (Gen.intMaxStrDigits < numeralDigits ka a ∨ Gen.intMaxStrDigits < numeralDigits kb b →
      firstRange ("bytes=".toList ++ (numeral ka a ++ '-' :: numeral kb b ++ tail)) len = none) ∧
    (Gen.intMaxStrDigits < numeralDigits ka a →
      firstRange ("bytes=".toList ++ (numeral ka a ++ '-' :: [] ++ tail)) len = none) ∧
    (Gen.intMaxStrDigits < numeralDigits kb b →
      firstRange ("bytes=".toList ++ ([] ++ '-' :: numeral kb b ++ tail)) len = none) := by
  refine ⟨?_, ?_, ?_⟩
  · intro h
    rw [first_eq _ _ _ _ ⟨numeral_no ka a _ (by decide), numeral_no ka a _ (by decide)⟩
      ⟨numeral_no kb b _ (by decide), numeral_no kb b _ (by decide)⟩ ht]
    simp only [rangeNums, numeral_nonempty, Bool.false_eq_true, if_false]
    rcases h with h | h
    · rw [int_numeral_none ka a h]; rfl
    · rw [int_numeral_none kb b h]
      cases pyIntLim (numeral ka a) <;> rfl
  · intro h
    rw [first_eq _ _ _ _ ⟨numeral_no ka a _ (by decide), numeral_no ka a _ (by decide)⟩ ⟨by simp, by simp⟩ ht]
    simp only [rangeNums, numeral_nonempty, int_numeral_none ka a h, Bool.false_eq_true, if_false, List.isEmpty_nil,
      if_true, Option.map_none]
    rfl
  · intro h
    rw [first_eq _ _ _ _ ⟨by simp, by simp⟩ ⟨numeral_no kb b _ (by decide), numeral_no kb b _ (by decide)⟩ ht]
    simp only [rangeNums, int_numeral_none kb b h, List.isEmpty_nil, if_true, Option.map_none]
    rfl

/-- `10^LIMIT` is the smallest number whose canonical text has LIMIT+1 digits -/
private theorem big_digits : Gen.intMaxStrDigits < numeralDigits 0 (10 ^ Gen.intMaxStrDigits) := by
  have h : ¬ (natStr (10 ^ Gen.intMaxStrDigits)).length ≤ Gen.intMaxStrDigits := fun hle =>
    Nat.lt_irrefl _ ((natStr_length_le_iff _ _ (by decide)).mp hle)
  simp only [numeralDigits, Nat.zero_add]
  exact Nat.lt_of_not_le h

/-- **Witness of the finding**: the excluded points really violate the RFC conclusion, in the model
as in the code.  On a 10-byte file `bytes=0-<10^LIMIT>` (a last-byte-pos beyond the end: RFC 7233
clips it, 206 with bytes 0-9), `bytes=-<10^LIMIT>` (a suffix longer than the file: the whole file)
and `bytes=<LIMIT+1 zeros>-` (first-byte-pos 0 written with leading zeros: the whole file) all
name satisfiable ranges, and `get_first_range` answers `None` (416) for each: `int()` refuses the
numeral for its length.  Proved from the definitions, not by evaluating the 4301-digit texts. -/
theorem range_rfc_fails_beyond_int_limit :
    (firstRange ("bytes=".toList ++ (numeral 0 0 ++ '-' :: numeral 0 (10 ^ Gen.intMaxStrDigits) ++ [])) 10 = none ∧
      rfcClosed 0 (10 ^ Gen.intMaxStrDigits) 10 = some (0, 10)) ∧
    (firstRange ("bytes=".toList ++ ([] ++ '-' :: numeral 0 (10 ^ Gen.intMaxStrDigits) ++ [])) 10 = none ∧
      rfcSuffix (10 ^ Gen.intMaxStrDigits) 10 = some (0, 10)) ∧
    (firstRange ("bytes=".toList ++ (numeral Gen.intMaxStrDigits 0 ++ '-' :: [] ++ [])) 10 = none ∧
      rfcOpen 0 10 = some (0, 10)) := by
  have hbig : 10 ≤ 10 ^ Gen.intMaxStrDigits :=
    Nat.le_trans (by decide : 10 ≤ 10 ^ 1) (Nat.pow_le_pow_right (by decide) (by decide))
  have hz : Gen.intMaxStrDigits < numeralDigits Gen.intMaxStrDigits 0 := by
    simp [numeralDigits, natStr, Nat.toDigits_zero]
  refine ⟨⟨(range_beyond_int_limit_none 0 0 0 _ 10 [] (Or.inl rfl)).1 (Or.inr big_digits), ?_⟩,
    ⟨(range_beyond_int_limit_none 0 0 0 _ 10 [] (Or.inl rfl)).2.2 big_digits, ?_⟩,
    ⟨(range_beyond_int_limit_none _ 0 0 0 10 [] (Or.inl rfl)).2.1 hz, by decide⟩⟩
  · generalize 10 ^ Gen.intMaxStrDigits = big at hbig
    unfold rfcClosed
    rw [if_pos ⟨by decide, Nat.zero_le _⟩]
    congr 2
    omega
  · generalize 10 ^ Gen.intMaxStrDigits = big at hbig
    unfold rfcSuffix
    rw [if_pos ⟨by omega, by decide⟩]
    congr 2
    omega

/-- what the model's `int()` counts is what the live `int` was probed to count
(`harness/tables/pyint.py`): every spelling — plain digits, leading zeros, all zeros, a sign,
surrounding whitespace, underscores between the digits, non-ASCII digits — is accepted with LIMIT
digit characters and refused with LIMIT+1; `int(x, 16)` has no limit; `str(int)` has the same one -/
theorem int_limit_counts_pinned :
    Gen.intLimitProbes.all (fun p => p.2.1 && !p.2.2) = true ∧ Gen.intHexUnlimited = true ∧
      Gen.intStrProbes = (true, false) := by decide

/-- a first range-spec without any `-` (`bytes=5`, `bytes=5,0-1`, `bytes=`) names no range: there is
nothing a 206 could describe, the answer is 416 whatever follows the first comma -/
theorem range_no_dash_none (x tail : Str) (len : Nat) (hx : ',' ∉ x ∧ '-' ∉ x) (ht : TailOK tail) :
    firstRange ("bytes=".toList ++ (x ++ tail)) len = none := by
  unfold firstRange
  rw [splitFirstSub_prefix _ _ (by decide)]
  simp only
  rw [head_first _ _ hx.1 ht, splitOn1_nosep '-' x hx.2]

theorem range_no_dash_416 (file : Bytes) (sched : List Nat) (isHead : Bool) (ims : Option Int) (mtime : Int)
    (maxread : Nat) (x tail : Str) (hx : ',' ∉ x ∧ '-' ∉ x) (ht : TailOK tail)
    (hims : ∀ t, ims = some t → t < mtime) :
    staticFile file sched isHead (some ("bytes=".toList ++ (x ++ tail))) ims mtime maxread = .unsatisfiable := by
  have hgo : ∀ clen, staticFile.go file sched isHead (some ("bytes=".toList ++ (x ++ tail))) maxread clen =
      .unsatisfiable := by
    intro clen
    unfold staticFile.go
    simp only
    rw [if_neg (by simp), range_no_dash_none x tail clen hx ht]
  unfold staticFile
  cases ims with
  | none => exact hgo _
  | some t =>
    have := hims t rfl
    simp only
    rw [if_neg (by omega)]
    exact hgo _

/-! ### the conditional date

`parseDate` is `calendar.timegm` of the fields `parsedate_tz` returned, minus the date's own zone
offset: by construction independent of the time zone of the process.  What is stated here is that
it feeds the 304 decision as the property says and that it is the plain linear clock. -/

/-- an If-Modified-Since date that names the modification instant or a later one yields 304, GET and
HEAD alike, with or without a Range header -/
theorem ims_date_304 (file : Bytes) (sched : List Nat) (isHead : Bool) (rh : Option Str) (f : DateFields)
    (t mtime : Int) (maxread : Nat) (hp : parseDate f = some t) (h : t ≥ mtime) :
    staticFile file sched isHead rh (parseDate f) mtime maxread = .notModified := by
  rw [hp]; exact ims_304 file sched isHead rh t mtime maxread h

/-- the same at the full resolution of the file's stamp: a date that is not older than the modification time in
nanoseconds (so: not older than the file, sub-second part included) yields 304, for EVERY stamp - zero, negative
(before 1970), fractional on either side of the epoch; the truncation of `int(st_mtime)` never turns a date that is
not older into an older one -/
theorem ims_not_older_ns_304 (file : Bytes) (sched : List Nat) (isHead : Bool) (rh : Option Str) (t ns : Int)
    (maxread : Nat) (h : t * 1000000000 ≥ ns) :
    staticFileNs file sched isHead rh (some t) ns maxread = .notModified := by
  unfold staticFileNs
  apply ims_304
  unfold mtimeSeconds
  split <;> omega

/-- and a date older than the file by a whole second or more (older even at the resolution of an HTTP date) never
yields 304 -/
theorem ims_older_ns_ignored (file : Bytes) (sched : List Nat) (isHead : Bool) (rh : Option Str) (t ns : Int)
    (maxread : Nat) (h : (t + 1) * 1000000000 ≤ ns) :
    staticFileNs file sched isHead rh (some t) ns maxread =
      staticFileNs file sched isHead rh none ns maxread := by
  unfold staticFileNs
  apply ims_older_ignored
  unfold mtimeSeconds
  split <;> omega

/-- one second later on the wall clock (same zone offset) is one second later as an instant, and a
zone offset of `z` seconds names the instant `z` seconds earlier -/
theorem parseDate_linear (f : DateFields) (k z : Int) (t : Int) (hp : parseDate f = some t) :
    parseDate { f with s := f.s + k, tz := f.tz + z } = some (t + k - z) := by
  unfold parseDate timegm at hp ⊢
  simp only at hp ⊢
  split at hp
  · rename_i hr
    rw [if_pos hr]
    simp only [Option.map_some, Option.some.injEq] at hp ⊢
    omega
  · simp at hp

/-- non-vacuity: concrete instances on which the statements above speak -/
example : firstRange "bytes=2-5,7-9".toList 4 = some (2, 4) := by decide
example : firstRange "bytes=-3".toList 10 = some (7, 10) := by decide
example : firstRange "bytes=9-".toList 4 = none := by decide
example : TailOK ",7-9".toList := Or.inr ⟨_, rfl⟩
example : WithinIntLimit 2 5 ∧ numeral 2 5 = "005".toList := by decide
example : firstRange ("bytes=".toList ++ (numeral 2 5 ++ '-' :: numeral 1 7 ++ ",9-".toList)) 7 = rfcClosed 5 7 7 ∧
    rfcClosed 5 7 7 = some (5, 7) := by decide
example : ¬ WithinIntLimit 4300 1 ∧ ¬ WithinIntLimit 0 (10 ^ 4300) ∧ WithinIntLimit 4299 1 ∧
    WithinIntLimit 0 (10 ^ 4300 - 1) := by decide +kernel
example : firstRange "bytes=5,0-1".toList 10 = none := by decide
example : (',' ∉ "5".toList ∧ '-' ∉ "5".toList) := by decide
/-- `Sun, 06 Nov 1994 08:49:37 GMT`, the example date of RFC 7231; a leap day; the epoch; a zone offset -/
example : parseDate ⟨1994, 11, 6, 8, 49, 37, 0⟩ = some 784111777 := by decide
example : parseDate ⟨2020, 2, 29, 12, 0, 0, 0⟩ = some 1582977600 := by decide
example : parseDate ⟨1970, 1, 1, 0, 0, 0, 0⟩ = some 0 := by decide
example : parseDate ⟨2020, 7, 1, 14, 0, 0, 7200⟩ = parseDate ⟨2020, 7, 1, 12, 0, 0, 0⟩ := by decide

/-- the epoch date against files stamped 0, half a second after, half a second before the epoch, and in 1969 -/
example : staticFileNs [1] [] false none (parseDate ⟨1970, 1, 1, 0, 0, 0, 0⟩) 0 1 = .notModified := by decide
example : staticFileNs [1] [] false none (parseDate ⟨1970, 1, 1, 0, 0, 0, 0⟩) 500000000 1 = .notModified := by decide
example : staticFileNs [1] [] false none (parseDate ⟨1970, 1, 1, 0, 0, 0, 0⟩) (-500000000) 1 = .notModified := by decide
example : staticFileNs [1] [] false none (parseDate ⟨1970, 1, 1, 0, 0, 0, 0⟩) (-86400000000000) 1 = .notModified := by decide
example : staticFileNs [1] [] true none (parseDate ⟨1970, 1, 1, 0, 0, 0, 0⟩) 1000000000 1 = .full 1 [] := by decide
example : mtimeSeconds (-1750000000) = -1 ∧ mtimeSeconds 1750000000 = 1 := by decide

/-- the streaming buffer the theorems are instantiated with is the one in the source -/
theorem source_maxread_pos : 0 < Ombott.Gen.fileIterMaxread := by decide

end Ombott.Range
