import OmbottModel.Model.RouteUrl
/-!
The built-in route filters as a *concrete* filter environment
(`ombott/router/filter_factory.py`: `FilterFactory.filters['int' | 'float' | 'path']` behind the
handler `make_filter` builds, and the formatter `_float_out`).

* `int`   — `intFilter` of `Model/RouteUrl.lean` (mask `-?\d+` over the `\d` class of the running
  interpreter, converter `int`).
* `path`  — mask `.+(?=<re.escape(conf)>)` for a non-empty `conf` (the literal text that follows the
  wildcard in the rule), `.+$` for an empty one; no converter, no formatter.  `.` does not match a
  newline, `.+` is greedy and backtracks from the longest newline-free prefix to the longest
  prefix after which `conf` stands literally; `$` holds at the end of the text and in front of a
  final newline.  The match is tried once (`re.match`), nothing is retried inside the tree walk.
* `float` — mask `-?\d+(\.\d+)?` (same `\d`), converter `float`, formatter
  `format(Decimal(repr(float(x))), 'f')`.  The *text matched* is modelled exactly.  The *value*
  `float(text)` is modelled exactly — as `repr` of the double, which is how the harness ships a
  converted value — for texts whose decimal numeral has at most 15 significant digits and lies
  between 1e-291 and 1e300 (`exactDec`): by the 15-digit round-trip guarantee of IEEE-754 binary64
  (`DBL_DIG`) the shortest text that reads back as the double (`repr`) then has exactly the digits
  of the numeral.  Outside that domain the value is the parameter `FloatConv` (the text → the
  shipped answer of the real converter).  The formatter is modelled exactly for every finite float
  value (it is text manipulation of `repr`).

ASCII output only; `\d` input characters of every decimal block are read through `decDigit?`.
-/
namespace Ombott.Builtins
open Py Ombott.Router Ombott.RouteUrl

/-! ## handler identities -/

/-- argument text of a handler identity `name(args)` (the cache key of `make_filter`) -/
def fidArgs (f : Fid) : Str := ((f.dropWhile (· != '(')).drop 1).dropLast

def isFloatFid (f : Fid) : Bool := fidName f == "float".toList

def isPathFid (f : Fid) : Bool := fidName f == "path".toList

/-! ## `path` -/

/-- how far `.+` can run: the length of the newline-free prefix -/
def dotRun (s : Str) : Nat := (s.takeWhile (· != '\n')).length

/-- backtracking of a greedy repetition: the largest `k` with `1 ≤ k ≤ n` and `ok k` -/
def lastOk (ok : Nat → Bool) : Nat → Option Nat
  | 0 => none
  | k + 1 => if ok (k + 1) then some (k + 1) else lastOk ok k

/-- what has to hold after `k` characters: `(?=<conf taken literally>)`, or `$` for an empty `conf` -/
def pathOk (conf s : Str) (k : Nat) : Bool :=
  if conf.isEmpty then s.drop k == [] || s.drop k == ['\n'] else conf.isPrefixOf (s.drop k)

/-- the handler of `path(conf)`: `tmp = mask.match(param)`; `(tmp.group(), tmp.end(), None)` -/
def pathFilter (conf s : Str) : Option FilterRes :=
  (lastOk (pathOk conf s) (dotRun s)).map fun k => ⟨.str (s.take k), k, none⟩

/-- the literal `conf` stands again in `rest` at a position `1 … dotRun rest` (after its first
character, not beyond the first newline): the greedy look-ahead of a `path` wildcard in front of
`rest` would run on to it -/
def laterLit (conf rest : Str) : Bool :=
  (List.range (dotRun rest)).any fun i => pathOk conf rest (i + 1)

/-! ## `float`: the text -/

/-- what `-?\d+(\.\d+)?` matched at the start: sign, integer digits, fraction digits (`[]` when
the optional group did not take part) -/
structure FloatLex where
  neg : Bool
  ip : Str
  fp : Str
  deriving DecidableEq, Repr

/-- `\d+(\.\d+)?` at the start of `body`: integer digits and fraction digits -/
def lexBody (body : Str) : Option (Str × Str) :=
  let ip := body.takeWhile isDecDigit
  if ip.isEmpty then none
  else some (ip, match body.drop ip.length with
    | '.' :: r => r.takeWhile isDecDigit
    | _ => [])

def floatLex (s : Str) : Option FloatLex :=
  (lexBody (if (s.head? == some '-') = true then s.drop 1 else s)).map
    fun x => ⟨s.head? == some '-', x.1, x.2⟩

/-- `tmp.end()` -/
def FloatLex.len (l : FloatLex) : Nat :=
  (if l.neg then 1 else 0) + l.ip.length + (if l.fp.isEmpty then 0 else l.fp.length + 1)

/-! ## `float`: the value -/

/-- a decimal numeral in canonical form: sign, significant digits (ASCII, no leading and no
trailing zero; `[]` is zero), position of the decimal point counted from the start of `ds` -/
structure Dec where
  neg : Bool
  ds : Str
  pt : Int
  deriving DecidableEq, Repr

/-- the ASCII digit a `\d` character stands for -/
def ascDigit (c : Char) : Char := Char.ofNat (48 + (decDigit? c).getD 0)

def rstrip0 (l : Str) : Str := (l.reverse.dropWhile (· == '0')).reverse

/-- canonical form of the numeral with digit string `all` and the decimal point after `pt`
digits -/
def canon (neg : Bool) (all : Str) (pt : Int) : Dec :=
  let d1 := all.dropWhile (· == '0')
  let ds := rstrip0 d1
  if ds.isEmpty then ⟨neg, [], 0⟩ else ⟨neg, ds, pt - ((all.length - d1.length : Nat) : Int)⟩

def FloatLex.dec (l : FloatLex) : Dec := canon l.neg ((l.ip ++ l.fp).map ascDigit) l.ip.length

/-- the domain in which `float(text)` is the numeral itself: at most 15 significant digits
(`DBL_DIG`), magnitude well inside the normal range of binary64 -/
def exactDec (d : Dec) : Bool := decide (d.ds.length ≤ 15) && decide (-290 ≤ d.pt) && decide (d.pt ≤ 300)

def zeros (n : Nat) : Str := List.replicate n '0'

/-- exponent digits of `repr`: at least two -/
def exp2 (n : Nat) : Str := if n < 10 then '0' :: natStr n else natStr n

/-- `repr(x)` (`float_repr_style == 'short'`) of the double whose shortest round-trip digits are
`d`: positional for `1e-4 ≤ |x| < 1e16`, exponent notation otherwise -/
def reprDec (d : Dec) : Str :=
  (if d.neg then ['-'] else []) ++
  if d.ds.isEmpty then ['0', '.', '0']
  else if -4 < d.pt ∧ d.pt ≤ 16 then
    if d.pt ≤ 0 then '0' :: '.' :: (zeros (-d.pt).toNat ++ d.ds)
    else if d.pt < (d.ds.length : Int) then d.ds.take d.pt.toNat ++ '.' :: d.ds.drop d.pt.toNat
    else d.ds ++ zeros (d.pt - (d.ds.length : Int)).toNat ++ ['.', '0']
  else
    d.ds.take 1 ++ (if d.ds.length > 1 then '.' :: d.ds.drop 1 else []) ++
      'e' :: (if d.pt - 1 < 0 then '-' else '+') :: exp2 (d.pt - 1).natAbs

/-- how the harness ships a `float` value: `'%s:%r' % (type(v).__name__, v)` -/
def floatVal (d : Dec) : Val := .conv ("float:".toList ++ reprDec d)

/-- `float(text)` for the matched texts outside `exactDec`: the real converter's answer -/
abbrev FloatConv := Str → Val

/-- the handler of `float`: `tmp = mask.match(param)`; `(float(tmp.group()), tmp.end(), None)` -/
def floatFilter (fc : FloatConv) (s : Str) : Option FilterRes :=
  (floatLex s).map fun l => ⟨if exactDec l.dec then floatVal l.dec else fc (s.take l.len), l.len, none⟩

/-! ## `float`: the formatter `_float_out` -/

/-- the exponent part of a `repr` text applied to the position `n` of the decimal point -/
def mantTail (all : Str) (n : Int) : Str → Option (Str × Int)
  | [] => some (all, n)
  | 'e' :: '+' :: x => if x.isEmpty || !x.all Char.isDigit then none else some (all, n + (digitsValue x : Int))
  | 'e' :: '-' :: x => if x.isEmpty || !x.all Char.isDigit then none else some (all, n - (digitsValue x : Int))
  | _ => none

/-- `Decimal(text)` for an unsigned `repr` text `I[.F][e±X]`: the digits `I ++ F` of the mantissa
and the position of the decimal point in front of them, exponent applied -/
def parseMant (body : Str) : Option (Str × Int) :=
  let mant := body.takeWhile (· != 'e')
  let ip := mant.takeWhile (· != '.')
  let fp := (mant.drop ip.length).drop 1
  if ip.isEmpty || !(ip ++ fp).all Char.isDigit then none
  else mantTail (ip ++ fp) (ip.length : Int) (body.drop mant.length)

/-- `Decimal(repr)`: sign, digits, position of the decimal point -/
def parseRepr (r : Str) : Option (Bool × Str × Int) :=
  (parseMant (if (r.head? == some '-') = true then r.drop 1 else r)).map
    fun x => (r.head? == some '-', x.1, x.2)

/-- `format(d, 'f')` of the `Decimal` with digit string `all` and the point after `pt` digits:
coefficient without leading zeros (`0` for zero), exponent `pt - |all|`; no exponent notation, no
decimal point when the exponent is not negative -/
def positional (neg : Bool) (all : Str) (pt : Int) : Str :=
  let c0 := all.dropWhile (· == '0')
  let c := if c0.isEmpty then ['0'] else c0
  let e : Int := pt - (all.length : Int)
  (if neg then ['-'] else []) ++
  if 0 ≤ e then c ++ zeros e.toNat
  else if c.length > (-e).toNat then c.take (c.length - (-e).toNat) ++ '.' :: c.drop (c.length - (-e).toNat)
  else '0' :: '.' :: (zeros ((-e).toNat - c.length) ++ c)

/-- `_float_out(x)` on a finite `float` (as shipped: `float:<repr>`); `none`: not such a value
(the real formatter's answer is looked up instead) -/
def floatFmt : Val → Option Str
  | .conv r =>
    if "float:".toList.isPrefixOf r then (parseRepr (r.drop 6)).map fun x => positional x.1 x.2.1 x.2.2
    else none
  | .str _ => none

/-! ## the environment -/

/-- the filter environment with the handlers of `int`, `float`, `path` computed by the model
instead of shipped; every other filter (`re`, `rex`: user regular expressions) stays with `env` -/
def withBuiltin (fc : FloatConv) (env : FilterEnv) : FilterEnv := fun f s =>
  if isIntFid f then intFilter s
  else if isFloatFid f then floatFilter fc s
  else if isPathFid f then pathFilter (fidArgs f) s
  else env f s

/-- no user regular expressions at all -/
def builtinEnv (fc : FloatConv) : FilterEnv := withBuiltin fc fun _ _ => none

/-- the formatter environment with `_float_out` on finite `float` values computed by the model -/
def withFloatFmt (fenv : FormatEnv) : FormatEnv := fun g v =>
  if isFloatFid g then
    match floatFmt v with
    | some s => .ok s
    | none => fenv g v
  else fenv g v

/-! ## side conditions of the C19 theorems (decidable) -/

/-- a `float` value whose formatted text has a decimal point and is read back by the handler,
whole, as the same value.  Holds for the value of every matched text inside `exactDec` below 1e16
(`Lemmas/RouterBuiltinFloat.lean: floatValOK_exact`). -/
def floatValOK (fc : FloatConv) (v : Val) : Bool :=
  match floatFmt v with
  | none => false
  | some u => u.contains '.' && floatFilter fc u == some ⟨v, u.length, none⟩

/-- `rest` goes on with `.` and a digit: what the optional group `(\.\d+)?` would take -/
def dotDigit : Str → Bool
  | c :: d :: _ => c == '.' && isDecDigit d
  | _ => false

/-- the side condition of a `float` wildcard in front of the URL `rest'` built for the rest of the
rule: the formatted text is read back by the handler, whole, as the same value, and — when it has
no decimal point (values from 1e16) — `rest'` does not go on with `.` and a digit.  Implied by
`floatValOK`. -/
def floatSide (fc : FloatConv) (v : Val) (rest' : Str) : Bool :=
  match floatFmt v with
  | none => false
  | some u => floatFilter fc u == some ⟨v, u.length, none⟩ && (u.contains '.' || !dotDigit rest')

def startsWithTok : List Sym → Bool
  | .tok _ :: _ => true
  | _ => false

/-- every wildcard is plain, `int`, `float`, or a `path` wildcard whose configured look-ahead is
the literal text that follows it in the rule (what `Parser.iter_parse` hands it) and which is
not directly followed by another wildcard (an undocumented combination: its look-ahead is then
the *rule text* of that wildcard) -/
def builtinOnly : List Sym → Bool
  | [] => true
  | .lit _ :: p => builtinOnly p
  | .tok none :: p => builtinOnly p
  | .tok (some g) :: p =>
    (isIntFid g || isFloatFid g || (isPathFid g && fidArgs g == litRun p && !startsWithTok p)) && builtinOnly p

def startsWithConv : List Sym → Bool
  | .tok (some g) :: _ => isIntFid g || isFloatFid g
  | _ => false

/-- some converting wildcard (`int`, `float`: canonical text may start differently from the
matched text) directly follows another wildcard -/
def convAfterTok : List Sym → Bool
  | [] => false
  | .lit _ :: p => convAfterTok p
  | .tok _ :: p => startsWithConv p || convAfterTok p

/-- side condition of one wildcard, on its value and on the URL built for the rest of the rule -/
def tokSide (fc : FloatConv) (f : Option Fid) (p' : List Sym) (v : Val) (rest' : Str) : Bool :=
  match f with
  | none => true
  | some g =>
    if isIntFid g then true
    else if isFloatFid g then floatSide fc v rest'
    else if isPathFid g then !laterLit (litRun p') rest'
    else true

/-- the side conditions of all wildcards of a rule for the matched values `vs`: every `float`
value meets `floatSide`; after no `path` wildcard does the literal it looks ahead for stand again
(`laterLit`) in the URL built for the rest of the rule -/
def sideOK (fc : FloatConv) (env : FilterEnv) (fenv : FormatEnv) : List Sym → List Val → Bool
  | [], _ => true
  | .lit _ :: p, vs => sideOK fc env fenv p vs
  | .tok _ :: _, [] => true
  | .tok f :: p, v :: vs =>
    (match buildUrl env fenv p vs with
     | .ok rest' => tokSide fc f p v rest'
     | .error _ => true) && sideOK fc env fenv p vs

/-- the `float` part of `sideOK` alone -/
def floatsOK (fc : FloatConv) : List Sym → List Val → Bool
  | [], _ => true
  | .lit _ :: p, vs => floatsOK fc p vs
  | .tok _ :: _, [] => true
  | .tok f :: p, v :: vs =>
    (match f with
     | some g => !isFloatFid g || floatValOK fc v
     | none => true) && floatsOK fc p vs

/-- every text a `float` wildcard takes while the pattern is matched against `path` is a numeral the
model converts itself (`exactDec`: at most 15 significant digits) with the decimal point after at
most 16 digits (below 1e16 the formatted value always has a decimal point) -/
def floatTextsExact (env : FilterEnv) : List Sym → Str → Bool
  | [], _ => true
  | .lit _ :: _, [] => true
  | .lit _ :: p, _ :: path => floatTextsExact env p path
  | .tok f :: p, path =>
    match tokRes env f path with
    | none => true
    | some r =>
      (match f with
       | some g =>
         !isFloatFid g ||
           (match floatLex path with
            | some l => exactDec l.dec && decide (l.dec.pt ≤ 16)
            | none => true)
       | none => true) && floatTextsExact env p (path.drop r.n)

/-- no converting wildcard (`int`, `float`) in the pattern: the URL built from matched values is
the matched text itself -/
def textOnly : List Sym → Bool
  | [] => true
  | .lit _ :: p => textOnly p
  | .tok none :: p => textOnly p
  | .tok (some g) :: p => isPathFid g && textOnly p

/-- no `path` wildcard is followed, anywhere later in the rule, by a converting wildcard -/
def pathThenText : List Sym → Bool
  | [] => true
  | .lit _ :: p => pathThenText p
  | .tok none :: p => pathThenText p
  | .tok (some g) :: p => (!isPathFid g || textOnly p) && pathThenText p

/-- the kinds of wildcard the concrete environment answers for -/
def builtinPat : List Sym → Bool
  | [] => true
  | .lit _ :: p => builtinPat p
  | .tok none :: p => builtinPat p
  | .tok (some g) :: p => (isIntFid g || isFloatFid g || isPathFid g) && builtinPat p

end Ombott.Builtins
