import OmbottModel.Model.TsProps
/-!
# A served request cut into atomic steps

Mirrors, access by access, what `Ombott.wsgi` / `_handle` / `handler` / `_cast`
(`ombott/ombott.py`), `BaseRequest.__init__` / `copy` / `__setitem__`
(`ombott/request_pkg/request.py`), the `cache_in` properties of `PropsMixin` / `BodyMixin`,
`BaseResponse.__init__` / `status` / `set_cookie` / `headerlist` and `HTTPResponse.apply`
(`ombott/response.py`) do to `app.request` and `app.response`.  Every attribute access on those two
objects is one `Prog.step`; the dict operations between them (on the environ, the header dict,
the cookie jar) are steps on the dict held in a register.

What is *not* modelled and arrives as data of the request instead (each is another property's
subject): the router's answer for (path, method) (C01/C02), the parsed query / cookie / form / body
values (pseudo keys `#q:name`, `#c:name`, `#f:name`, `#body`, `#url` placed in the environ by the
harness, computed from that request alone: C18, C15, C04-C07), the status line for a code, the
rendering of a cookie, the error page template (C20: the body of an HTML error page is the tuple
`E(status|url|text)`, with `debug` on `D(status|url|text|exception|traceback)`, of a JSON error
page `J(text|exception|traceback)`).

Objects shared by all applications and threads are part of the state: the `HTTPError` instances of
`DefaultConfig.errors_map` (`Heap.errs`, booted from the generated table).  A request whose body
fails to parse ends on such a shared object (`Outcome.failJson`, `Outcome.failForm`); `_cast` then
reads it attribute by attribute (`Access.errGet`).

An exception raised by an accessor (`AttributeError` of a missing attribute) is recorded as the
result of that step; its propagation through the framework is not modelled.  With the current
decorator it cannot occur once the application is constructed.
-/
namespace Ombott.WsgiConc
open Py Ombott.TsProps

/-! ## requests and handler scripts -/

mutual
  /-- one statement of a handler -/
  inductive HOp
    | path | method | query (k : String) | cookie (k : String)
    | header (name wsgiKey : String) | envGet (k : String) | body | form (k : String) | url
    | file (name field : String)       -- `request.files.get(name)` and one attribute of the upload
    | kwargs                           -- the keyword arguments the router handed to the handler
    | urlArgs                          -- `request.url_args`
    | scookie (k : String)             -- `request.get_cookie(k, secret=...)`: a signed cookie, decoded
    /-- read everything an accessor hands out (`what` = query, cookies, headers, forms, post, files,
    params, urlargs): `sorted(request.<what>.items())` -/
    | dump (what : String)
    /-- obtain the object the accessor hands out and change it in place (add a key, drop a key, append
    to a list value): the object is private to this request, so nothing else may notice -/
    | mutate (what : String)
    | envSet (k v : String)            -- `request.environ[k] = v`
    | extSet (name v : String)         -- `app.request.name = v` (an extension attribute)
    /-- `app.request[k] = v` inside a handler: `BaseRequest.__setitem__` on the LIVE request, which emits
    `env_changed` to the listeners of THAT request object only (the built-in cache invalidation; a
    listener a handler subscribed with `request.on` is a statement of its own application, spelled out by
    the harness as the reads that follow) -/
    | reqSet (k v : String)
    | extGet (name : String)           -- `getattr(app.request, name, None)`
    | whoami                           -- which handler runs: the rule it was registered under
    | status (code : Int) (line : String) | rdStatus
    | setHdr (k v : String) | addHdr (k v : String) | rdHdr (k : String)
    | setCookie (k rendered : String) | ctype (v : String)
    | copy | cpath (n : Nat) | cset (n : Nat) (k v : String)
    | cheader (n : Nat) (name wsgiKey : String)      -- `copies[n].headers.get(name)`
    | nested (r : Req)                 -- `other_app(environ, start_response)` inside the handler
    | construct (a : AppId)            -- `Ombott()` inside the handler
  /-- how the handler ends -/
  inductive Outcome
    | ret (text : String) | retBytes (text : String) | empty
    | raise (code : Int) (line body : String) (hdrs : List (String × String))   -- `raise HTTPResponse(...)`
    | error (code : Int) (line text : String)                                    -- `raise HTTPError(code, text)`
    | crash (line exc : String)                                                  -- any other exception
    /-- `request.json` on a body that is not JSON: `_raise` picks the shared `errors_map[e]` -/
    | failJson (e : String)
    /-- `request.forms` on a body over `max_memfile_size`: the shared `errors_map[e]` -/
    | failForm (e : String)
    /-- `request.forms` on a malformed multipart body: the shared `errors_map[e]` -/
    | failMultipart (e : String)
    /-- the module-level helper `redirect(loc)`: it works on the DEFAULT application's live request and
    response (`Globals.request` / `Globals.response`), whatever application the handler belongs to -/
    | redirect (loc line : String)
  /-- what the router answered -/
  inductive Route
    | handler (ops : List HOp) (out : Outcome)
    | notFound (line text : String)
    | notAllowed (line text allow : String)
    | badPath (line : String)          -- PATH_INFO is not UTF-8
  /-- a request with the configuration of its application that matters while serving it:
  `config.debug`, the status codes with an `@app.error(code)` handler, the `before_request` and
  `after_request` hooks -/
  inductive Req
    | mk (app : AppId) (env : Dict) (debug : Bool) (custom : List Int) (before after : List HOp)
        (route : Route)
end

/-- what a thread does at top level -/
inductive Item
  | serve (r : Req)
  | construct (a : AppId)
  /-- `app.request[k] = v` on the idle request of an application (outside any request) -/
  | poke (a : AppId) (k v : String)
  /-- `app.request.name = v` -/
  | pokeAttr (a : AppId) (name v : String)
  /-- look at the idle request of an application: `dict(app.request.environ)` -/
  | idle (a : AppId)

/-! ## small helpers -/

def showPVal : PVal → String
  | .none => "~"
  | .bool b => if b then "b1" else "b0"
  | .int i => "i" ++ toString i
  | .str s => "s" ++ s
  | .strs l => "l" ++ "\x1f".intercalate l

def showRes : Res → String
  | .val v => showPVal v
  | .ref => "<dict>"
  | .items d => "{" ++ ",".intercalate (d.map fun kv => kv.1 ++ "=" ++ showPVal kv.2) ++ "}"
  | .err e => "!" ++ e.name

def resVal : Res → PVal
  | .val v => v
  | .err e => .str ("!" ++ e.name)
  | _ => .none

def strOf : PVal → String
  | .str s => s
  | .int i => toString i
  | .none => "None"
  | .bool b => if b then "True" else "False"
  | .strs l => ",".intercalate l

def truthy : PVal → Bool
  | .none => false
  | .bool b => b
  | .int i => i != 0
  | .str s => s != ""
  | .strs l => !l.isEmpty

/-- `'/' + s.lstrip('/')` -/
def normPath (s : String) : String := "/" ++ String.ofList (s.toList.dropWhile (· == '/'))

/-- `name.title()` for header names (ASCII) -/
def titleCase (s : String) : String :=
  let rec go : List Char → Bool → List Char
    | [], _ => []
    | c :: r, up =>
      if c.isAlpha then (if up then c.toUpper else c.toLower) :: go r false
      else c :: go r true
  String.ofList (go s.toList true)

/-- `BaseResponse.bad_headers` -/
def badHeaders (code : Int) : List String :=
  if code == 204 then ["Content-Type"]
  else if code == 304 then ["Allow", "Content-Encoding", "Content-Language", "Content-Length",
    "Content-Range", "Content-Type", "Content-Md5", "Last-Modified"]
  else []

def defaultContentType : String := "text/html; charset=UTF-8"

/-! ## register allocation (Python locals of the frames involved) -/

def rEnviron : Reg := 0      -- `environ` of `wsgi` / `_handle`
def rTmp : Reg := 1          -- result of an attribute read that is used at once
def rNewHdrs : Reg := 2      -- `{}` of `BaseResponse.__init__`
def rHd : Reg := 3           -- `self._ts.dict` inside a `HeaderDict` method
def rCookies : Reg := 4
def rCopyEnv : Reg := 5      -- `self.environ.copy()`
def rWsgiHd : Reg := 6       -- the environ held by `WSGIHeaderDict`
def rCache (depth : Nat) : Reg := 10 + depth    -- `storage` of a `cache_in` getter, per nesting depth

/-! ## the decorator and the constructors -/

/-- `init_wrapper` up to the call of the wrapped `__init__` -/
def initWrapper (a : AppId) (o : Obj) (cls : Cls) (k : Prog) : Prog :=
  .step a (.initHead o) fun _ =>
    (propsOf cls).foldr (fun p k => .step a (.initNone o p) fun _ => k) k

/-- how the object an environ belongs to shows in `environ['ombott.request']` -/
def ownerMark (a : AppId) : Obj → String
  | .request => "<request " ++ toString a ++ ">"
  | _ => "<copy>"

/-- `BaseRequest.__init__(environ)` on object `o`, the environ being in register `env` -/
def requestInit (a : AppId) (o : Obj) (env : Reg) (k : Prog) : Prog :=
  initWrapper a o .request <|
  -- self.environ = environ        (`__setattr__` also sets `_env_get = value.get`)
  .step a (.fset o "environ" (.reg env)) fun _ =>
  .step a (.fset o "_env_get" (.reg env)) fun _ =>
  -- self.environ['ombott.request'] = self
  .step a (.fget o "environ" rTmp) fun _ =>
  .step a (.dOp rTmp (.set "ombott.request" (.str (ownerMark a o)))) fun _ => k

/-- `BaseResponse.__init__()` on `app.response` -/
def responseInit (a : AppId) (k : Prog) : Prog :=
  initWrapper a .response .response <|
  .step a (.fset .response "_status_line" (.lit .none)) fun _ =>
  .step a (.fset .response "_status_code" (.lit .none)) fun _ =>
  .step a (.fset .response "_cookies" (.lit .none)) fun _ =>
  -- self._headers = {}
  .step a (.dNew rNewHdrs []) fun _ =>
  .step a (.fset .response "_headers" (.reg rNewHdrs)) fun _ =>
  -- self.headers.dict = self._headers
  .step a (.fget .response "_headers" rTmp) fun _ =>
  .step a (.hdSet (.reg rTmp)) fun _ =>
  -- self.body = body
  .step a (.fset .response "body" (.lit (.str ""))) fun _ =>
  -- self.status = status or self.default_status
  .step a (.fset .response "_status_code" (.lit (.int 200))) fun _ =>
  .step a (.fset .response "_status_line" (.lit (.str "200 OK"))) fun _ => k

/-- `Ombott.__init__`: `Request(config=config)` then `Response()` -/
def constructApp (a : AppId) (k : Prog) : Prog :=
  -- Request(): `__new__`, then `__init__(environ=None)`: `self.environ = {}`
  .step a (.dNew rCopyEnv []) fun _ =>
  requestInit a .request rCopyEnv <|
  -- Response(): `__new__` creates `HeaderDict()`: `_ts.dict = dict()`
  .step a (.dNew rHd []) fun _ =>
  .step a (.hdSet (.reg rHd)) fun _ =>
  responseInit a k

/-! ## `cache_in('environ[ key ]')` -/

/-- `storage = self.environ; if key not in storage: storage[key] = getter(self); return storage[key]` -/
def cacheIn (a : AppId) (o : Obj) (depth : Nat) (key : String)
    (getter : (PVal → Prog) → Prog) (k : PVal → Prog) : Prog :=
  .step a (.fget o "environ" (rCache depth)) fun _ =>
  .step a (.dOp (rCache depth) (.has key)) fun r =>
    match r with
    | .val (.bool true) => .step a (.dOp (rCache depth) (.getItem key)) fun r => k (resVal r)
    | _ => getter fun v =>
      .step a (.dOp (rCache depth) (.set key v)) fun _ =>
      .step a (.dOp (rCache depth) (.getItem key)) fun r => k (resVal r)

/-- `self._env_get(key, default)` -/
def envGet (a : AppId) (o : Obj) (key : String) (k : PVal → Prog) : Prog :=
  .step a (.fget o "_env_get" rTmp) fun _ =>
  .step a (.dOp rTmp (.get key)) fun r => k (resVal r)

/-- `self.environ.get(key)` / `self.environ[key]` -/
def environGet (a : AppId) (o : Obj) (key : String) (k : PVal → Prog) : Prog :=
  .step a (.fget o "environ" rTmp) fun _ =>
  .step a (.dOp rTmp (.get key)) fun r => k (resVal r)

/-- `request.path` -/
def reqPath (a : AppId) (o : Obj) (k : PVal → Prog) : Prog :=
  envGet a o "PATH_INFO" fun v => k (.str (normPath (match v with | .str s => s | _ => "")))

/-- `request.content_length` (the parsed number is the pseudo key `#cl`) -/
def reqContentLength (a : AppId) (o : Obj) (d : Nat) (k : PVal → Prog) : Prog :=
  cacheIn a o d "ombott.request.content_length"
    (fun ret => environGet a o "CONTENT_LENGTH" fun v => ret v) k

/-- `request.content_type` -/
def reqContentType (a : AppId) (o : Obj) (d : Nat) (k : PVal → Prog) : Prog :=
  cacheIn a o d "ombott.request.content_type"
    (fun ret => environGet a o "CONTENT_TYPE" fun v => ret v) k

/-- `request._body`: reads `wsgi.input` once and replaces it; the bytes are the pseudo key `#body` -/
def reqBodyObj (a : AppId) (o : Obj) (d : Nat) (k : PVal → Prog) : Prog :=
  cacheIn a o d "ombott.request.body"
    (fun ret =>
      environGet a o "ombott.request.body.error" fun _ =>   -- a failed read stays failed
      environGet a o "CONTENT_TYPE" fun _ =>            -- MULTIPART_BOUNDARY_PATT.match(...)
      environGet a o "wsgi.input" fun _ =>              -- self.environ['wsgi.input'].read
      reqContentLength a o (d + 1) fun _ =>
      environGet a o "HTTP_TRANSFER_ENCODING" fun _ =>  -- self.chunked
      -- self.environ['wsgi.input'] = body
      .step a (.fget o "environ" rTmp) fun _ =>
      .step a (.dOp rTmp (.set "wsgi.input" (.str "<body>"))) fun _ =>
      .step a (.dOp rTmp (.get "#body")) fun r => ret (resVal r))
    k

/-- `request.POST`: the multipart branch (the parts are parsed while `_body` reads the stream) or
the urlencoded one (`_get_body_string`); JSON bodies are read through `request.json` -/
def reqPost (a : AppId) (o : Obj) (d : Nat) (k : PVal → Prog) : Prog :=
  cacheIn a o d "ombott.request.post"
    (fun ret =>
      -- env = self.environ; files = env['ombott.request.files'] = ...
      .step a (.fget o "environ" rWsgiHd) fun _ =>
      .step a (.dOp rWsgiHd (.set "ombott.request.files" (.str "<files>"))) fun _ =>
      reqContentType a o (d + 1) fun ct =>
      if (strOf ct).startsWith "multipart/" then
        -- forms = env['ombott.request.forms'] = ...; body = self.body; self._collect_multipart(...)
        .step a (.dOp rWsgiHd (.set "ombott.request.forms" (.str "<forms>"))) fun _ =>
        reqBodyObj a o (d + 1) fun _ =>
        ret (.str "<post>")
      else
        -- self._get_body_string(): self._body.seek(0); read = self._body.read; self.content_length
        reqBodyObj a o (d + 1) fun _ =>
        reqBodyObj a o (d + 1) fun _ =>
        reqContentLength a o (d + 1) fun _ =>
        .step a (.dOp rWsgiHd (.set "ombott.request.forms" (.str "<forms>"))) fun _ =>
        ret (.str "<post>"))
    k

/-- `request.url` (the text is the pseudo key `#url`) -/
def reqUrl (a : AppId) (o : Obj) (d : Nat) (k : PVal → Prog) : Prog :=
  cacheIn a o d "ombott.request.url"
    (fun ret =>
      cacheIn a o (d + 1) "ombott.request.urlparts"
        (fun ret2 =>
          -- env_get = self._env_get, then five lookups on it
          .step a (.fget o "_env_get" rWsgiHd) fun _ =>
          .step a (.dOp rWsgiHd (.get "HTTP_X_FORWARDED_PROTO")) fun _ =>
          .step a (.dOp rWsgiHd (.get "HTTP_X_FORWARDED_HOST")) fun _ =>
          cacheIn a o (d + 2) "ombott.request.fullpath"
            (fun ret3 =>
              envGet a o "" fun _ =>                      -- self._env_get(self.config.app_name_header, '/')
              cacheIn a o (d + 3) "ombott.request.script_name"
                (fun ret4 =>
                  .step a (.fget o "_env_get" rTmp) fun _ =>
                  .step a (.dOp rTmp (.get "SCRIPT_NAME")) fun _ => ret4 (.str "/"))
                fun _ =>
              reqPath a o fun p => ret3 p)
            fun _ =>
          .step a (.dOp rWsgiHd (.get "#url")) fun r => ret2 (resVal r))
        fun v => ret v)
    k

/-! ## handler statements -/

def obsRead (a : AppId) (v : PVal) (k : Prog) : Prog := .emit a ("r:" ++ showPVal v) k
/-- a value read from a copy of the request (not from `app.request`) -/
def obsCopy (a : AppId) (v : PVal) (k : Prog) : Prog := .emit a ("c:" ++ showPVal v) k

/-- a `HeaderDict` method on `app.response.headers`: `d = self._ts.dict`, then one dict operation -/
def hdOp (a : AppId) (op : DictOp) (k : Res → Prog) : Prog :=
  .step a (.hdGet rHd) fun _ =>
  .step a (.dOp rHd op) k

/-- `response.status = code` -/
def setStatus (a : AppId) (code : Int) (line : String) (k : Prog) : Prog :=
  .step a (.fset .response "_status_code" (.lit (.int code))) fun _ =>
  .step a (.fset .response "_status_line" (.lit (.str line))) fun _ => k

def setItems (a : AppId) (r : Reg) : List (String × String) → Prog → Prog
  | [], k => k
  | (n, v) :: rest, k => .step a (.dOp r (.set n (.str v))) fun _ => setItems a r rest k

/-- `HTTPResponse.apply(response)` -/
def applyTo (a : AppId) (code : Int) (line body : String) (hdrs : List (String × String)) (k : Prog) : Prog :=
  .step a (.fset .response "_status_code" (.lit (.int code))) fun _ =>
  .step a (.fset .response "_status_line" (.lit (.str line))) fun _ =>
  -- response._headers.clear(); response._headers.update(self._headers)
  .step a (.fget .response "_headers" rTmp) fun _ =>
  .step a (.dOp rTmp .clear) fun _ =>
  .step a (.fget .response "_headers" rTmp) fun _ =>
  setItems a rTmp hdrs <|
  .step a (.fset .response "body" (.lit (.str body))) fun _ => k

/-- an `HTTPError` on its way through `_cast`: created for this request (its attributes are
literals) or one of the shared objects of `errors_map` (its attributes are read from the heap) -/
inductive ErrSrc
  | fresh (code : Int) (line text : String) (hdrs : List (String × String)) (exc tb : PVal)
  | shared (e : String)

/-- read attribute `f` of the error object -/
def errField (a : AppId) : ErrSrc → Attr → (Res → Prog) → Prog
  | .shared e, f, k => .step a (.errGet e f) k
  | .fresh code line text hdrs exc tb, f, k =>
    k (if f == "_status_code" then .val (.int code)
       else if f == "_status_line" then .val (.str line)
       else if f == "body" then .val (.str text)
       else if f == "_headers" then .items (hdrs.map fun kv => (kv.1, .str kv.2))
       else if f == "_cookies" then .val .none
       else if f == "exception" then .val exc
       else if f == "traceback" then .val tb
       else .err .attributeError)

def setItemsD (a : AppId) (r : Reg) : Dict → Prog → Prog
  | [], k => k
  | (n, v) :: rest, k => .step a (.dOp r (.set n v)) fun _ => setItemsD a r rest k

/-- `HTTPResponse.apply(response)` of an error object -/
def applyErr (a : AppId) (src : ErrSrc) (k : Prog) : Prog :=
  errField a src "_status_code" fun rc =>
  .step a (.fset .response "_status_code" (.lit (resVal rc))) fun _ =>
  errField a src "_status_line" fun rl =>
  .step a (.fset .response "_status_line" (.lit (resVal rl))) fun _ =>
  -- response._headers.clear(); response._headers.update(self._headers)
  .step a (.fget .response "_headers" rTmp) fun _ =>
  .step a (.dOp rTmp .clear) fun _ =>
  .step a (.fget .response "_headers" rTmp) fun _ =>
  errField a src "_headers" fun rh =>
  setItemsD a rTmp (match rh with | .items d => d | _ => []) <|
  -- if self._cookies: response._cookies = self._cookies   (no error object of the tree has cookies)
  errField a src "_cookies" fun _ =>
  errField a src "body" fun rb =>
  .step a (.fset .response "body" (.lit (resVal rb))) fun _ => k

/-- what `_cast` has to convert -/
inductive Out
  | text (s : String) | bytes (s : String) | empty
  | resp (code : Int) (line body : String) (hdrs : List (String × String))
  | err (src : ErrSrc)

def reprOf : PVal → String
  | .none => "None"
  | v => strOf v

def tbOf : PVal → String
  | .none => "~"
  | v => strOf v

/-- `request.is_json_requested` -/
def reqIsJson (a : AppId) (k : PVal → Prog) : Prog :=
  cacheIn a .request 0 "ombott.request.is_json_requested"
    (fun ret => envGet a .request "HTTP_ACCEPT" fun v =>
      ret (match v with
        | .str s => if s == "" then .none else .bool (s.startsWith "application/json")
        | _ => .none))
    k

/-- `default_error_handler(res)` -/
def defaultErrorHandler (a : AppId) (debug : Bool) (src : ErrSrc) (k : String → Prog) : Prog :=
  reqIsJson a fun j =>
  if j == .bool true then
    -- json.dumps(dict(body=res.body, exception=repr(res.exception), traceback=res.traceback))
    errField a src "body" fun rb =>
    errField a src "exception" fun re =>
    errField a src "traceback" fun rt =>
    hdOp a (.set "Content-Type" (.str "application/json")) fun _ =>
    k ("J(" ++ strOf (resVal rb) ++ "|" ++ reprOf (resVal re) ++ "|" ++ tbOf (resVal rt) ++ ")")
  else
    -- error_render.render(res, self.request.url, self.config.debug)
    reqUrl a .request 0 fun u =>
    if debug then
      errField a src "traceback" fun rt =>
      errField a src "exception" fun re =>
      .step a .tmplLoad fun _ =>          -- if not _html_lns: fill it; then format the lines
      errField a src "_status_line" fun rl =>
      errField a src "body" fun rb =>
      k ("D(" ++ strOf (resVal rl) ++ "|" ++ strOf u ++ "|" ++ strOf (resVal rb) ++ "|" ++
         reprOf (resVal re) ++ "|" ++ tbOf (resVal rt) ++ ")")
    else
      .step a .tmplLoad fun _ =>
      errField a src "_status_line" fun rl =>
      errField a src "body" fun rb =>
      k ("E(" ++ strOf (resVal rl) ++ "|" ++ strOf u ++ "|" ++ strOf (resVal rb) ++ ")")

/-- the `@app.error(code)` handler the harness installs: it looks at `app.response` and at the error
it was given -/
def customErrorHandler (a : AppId) (src : ErrSrc) (k : String → Prog) : Prog :=
  .step a (.fget .response "_status_line" rTmp) fun r1 => .emit a ("r:" ++ showPVal (resVal r1)) <|
  hdOp a (.get "Content-Type") fun r2 => .emit a ("r:" ++ showPVal (resVal r2)) <|
  hdOp a (.get "X-Own") fun r3 => .emit a ("r:" ++ showPVal (resVal r3)) <|
  errField a src "body" fun rb => k ("custom:" ++ strOf (resVal rb))

/-- the text branch of `_cast`: `out.encode(response.charset)`, `setdefault('Content-Length', len(out))` -/
def castText (a : AppId) (s : String) (isBytes : Bool) (k : String → Prog) : Prog :=
  let tail : Prog :=
    hdOp a (.setdefault "Content-Length" (.str (toString s.utf8ByteSize))) fun _ => k s
  if isBytes then tail
  else hdOp a (.get "Content-Type") fun _ => tail     -- response.charset -> content_type

def castEmpty (a : AppId) (k : String → Prog) : Prog :=
  hdOp a (.setdefault "Content-Length" (.str "0")) fun _ => k ""

/-- `_cast(out)`; returns the body text -/
def cast (a : AppId) (debug : Bool) (custom : List Int) : Out → (String → Prog) → Prog
  | .empty, k => castEmpty a k
  | .text s, k => if s == "" then castEmpty a k else castText a s false k
  | .bytes s, k => if s == "" then castEmpty a k else castText a s true k
  | .resp code line body hdrs, k =>
    applyTo a code line body hdrs <|
    if body == "" then castEmpty a k else castText a body false k
  | .err src, k =>
    applyErr a src <|
    -- self.error_handlers.get(out.status_code, self.default_error_handler)(out)
    errField a src "_status_code" fun rc =>
    let code : Int := match rc with | .val (.int i) => i | _ => 0
    let after (page : String) : Prog := if page == "" then castEmpty a k else castText a page false k
    if custom.contains code then customErrorHandler a src after
    else defaultErrorHandler a debug src after

def hdrLines (d : Dict) : List (String × String) :=
  d.flatMap fun kv =>
    match kv.2 with
    | .strs l => l.map fun v => (kv.1, v)
    | v => [(kv.1, strOf v)]

def insertSorted (x : String) : List String → List String
  | [] => [x]
  | y :: r => if x ≤ y then x :: y :: r else y :: insertSorted x r

def sortStrings (l : List String) : List String := l.foldr insertSorted []

def renderResp (status : String) (hdrs : List (String × String)) (body : String) : String :=
  let lines := sortStrings (hdrs.map fun kv => kv.1 ++ ": " ++ kv.2)
  status ++ "\n" ++ "\n".intercalate lines ++ "\n\n" ++ body

def emitResp (a : AppId) (status : String) (hl : List (String × String)) (body : String) (k : Prog) : Prog :=
  .emit a ("w:" ++ renderResp status hl body) k

/-- the cookie part of `headerlist`: `if self._cookies: for c in self._cookies.values(): ...` -/
def finishCookies (a : AppId) (status : String) (hl : List (String × String)) (body : String) (k : Prog) : Prog :=
  .step a (.fget .response "_cookies" rCookies) fun rk =>
    match rk with
    | .ref =>
      -- a non-empty jar is truthy; then `self._cookies.values()` reads the attribute again
      .step a (.dOp rCookies .items) fun rj =>
        let jar : Dict := match rj with | .items d => d | _ => []
        if jar.isEmpty then emitResp a status hl body k
        else
          .step a (.fget .response "_cookies" rCookies) fun _ =>
          emitResp a status (hl ++ jar.map fun kv => ("Set-Cookie", strOf kv.2)) body k
    | _ => emitResp a status hl body k

/-- `start_response(response._status_line, response.headerlist)` -/
def finishHeaders (a : AppId) (body : String) (k : Prog) : Prog :=
  .step a (.fget .response "_status_line" rTmp) fun rl =>
  let status := strOf (resVal rl)
  -- headerlist: headers = self._headers.items(); bad_headers = self.bad_headers.get(self._status_code)
  .step a (.fget .response "_headers" rCookies) fun _ =>
  .step a (.dOp rCookies .items) fun ri =>
  let items : Dict := match ri with | .items d => d | _ => []
  .step a (.fget .response "_status_code" rTmp) fun rc =>
  let code : Int := match rc with | .val (.int i) => i | _ => 0
  let bad := badHeaders code
  if bad.isEmpty then
    -- need_ctype = 'Content-Type' not in self._headers
    .step a (.fget .response "_headers" rTmp) fun _ =>
    .step a (.dOp rTmp (.has "Content-Type")) fun rh =>
      finishCookies a status
        (if rh == .val (.bool true) then hdrLines items
         else hdrLines items ++ [("Content-Type", defaultContentType)]) body k
  else
    finishCookies a status (hdrLines (items.filter fun kv => !bad.contains (titleCase kv.1))) body k

/-- the end of `wsgi`: body suppression, then `start_response` -/
def finish (a : AppId) (isHead : Bool) (body : String) (k : Prog) : Prog :=
  -- 100 <= response._status_code < 200 or response._status_code in {204, 304} or HEAD
  .step a (.fget .response "_status_code" rTmp) fun r1 =>
  let c1 : Int := match r1 with | .val (.int i) => i | _ => 0
  if 100 ≤ c1 && c1 < 200 then finishHeaders a "" k
  else
    .step a (.fget .response "_status_code" rTmp) fun r2 =>
    let noBody := match r2 with | .val (.int i) => i == 204 || i == 304 | _ => false
    finishHeaders a (if noBody || isHead then "" else body) k

/-- the caches `_on_env_changed` drops when `key` changes -/
def envChangedPops (key : String) : List String :=
  if key == "wsgi.input" then ["forms", "files", "params", "post", "json", "body"]
  else if key == "QUERY_STRING" then ["query", "params"]
  else if key.startsWith "HTTP_" then ["headers", "cookies"]
  else []

/-- obtain what the accessor `what` of `app.request` hands out (the cached view, in `rCache 0`'s environ) -/
def obtain (a : AppId) (what : String) (k : Prog) : Prog :=
  let queryGetter (ret : PVal → Prog) : Prog :=
    envGet a .request "QUERY_STRING" fun _ =>
    .step a (.fget .request "environ" rTmp) fun _ =>
    .step a (.dOp rTmp (.set "ombott.request.get" (.str "<query>"))) fun _ => ret (.str "<query>")
  let formsGetter (d : Nat) (ret : PVal → Prog) : Prog :=
    reqPost a .request (d + 1) fun _ => environGet a .request "ombott.request.forms" fun v => ret v
  if what == "query" then cacheIn a .request 0 "ombott.request.query" queryGetter fun _ => k
  else if what == "cookies" then
    cacheIn a .request 0 "ombott.request.cookies"
      (fun ret => envGet a .request "HTTP_COOKIE" fun _ => ret (.str "<cookies>")) fun _ => k
  else if what == "headers" then
    cacheIn a .request 0 "ombott.request.headers"
      (fun ret => .step a (.fget .request "environ" rWsgiHd) fun _ => ret (.str "<headers>")) fun _ => k
  else if what == "forms" then cacheIn a .request 0 "ombott.request.forms" (formsGetter 0) fun _ => k
  else if what == "post" then reqPost a .request 0 fun _ => k
  else if what == "files" then
    cacheIn a .request 0 "ombott.request.files"
      (fun ret => reqPost a .request 1 fun _ => environGet a .request "ombott.request.files" fun v => ret v)
      fun _ => k
  else if what == "params" then
    -- FormsDict(self.query, **self.forms)
    cacheIn a .request 0 "ombott.request.params"
      (fun ret =>
        cacheIn a .request 1 "ombott.request.query" queryGetter fun _ =>
        cacheIn a .request 1 "ombott.request.forms" (formsGetter 1) fun _ => ret (.str "<params>"))
      fun _ => k
  else if what == "urlargs" then
    cacheIn a .request 0 "route.url_args" (fun ret => ret (.str "!RuntimeError")) fun _ => k
  else k

/-- one handler statement; `nest` serves a nested request (one level less of nesting); `cs` are the
copies the handler has made so far (the handler's list `copies`) -/
def hop (nest : Req → Prog → Prog) (a : AppId) (cs : List Nat) : HOp → (List Nat → Prog) → Prog
  | .path, k => reqPath a .request fun v => obsRead a v (k cs)
  | .method, k => envGet a .request "REQUEST_METHOD" fun v => obsRead a v (k cs)
  | .query q, k =>
    cacheIn a .request 0 "ombott.request.query"
      (fun ret =>
        envGet a .request "QUERY_STRING" fun _ =>
        -- self.environ['ombott.request.get'] = ret
        .step a (.fget .request "environ" rTmp) fun _ =>
        .step a (.dOp rTmp (.set "ombott.request.get" (.str "<query>"))) fun _ => ret (.str "<query>"))
      fun _ => .step a (.dOp (rCache 0) (.get ("#q:" ++ q))) fun r => obsRead a (resVal r) (k cs)
  | .cookie c, k =>
    cacheIn a .request 0 "ombott.request.cookies"
      (fun ret => envGet a .request "HTTP_COOKIE" fun _ => ret (.str "<cookies>"))
      fun _ => .step a (.dOp (rCache 0) (.get ("#c:" ++ c))) fun r => obsRead a (resVal r) (k cs)
  | .header _ key, k =>
    cacheIn a .request 0 "ombott.request.headers"
      (fun ret =>
        -- WSGIHeaderDict(self.environ)
        .step a (.fget .request "environ" rWsgiHd) fun _ => ret (.str "<headers>"))
      fun _ => .step a (.dOp (rCache 0) (.get key)) fun r => obsRead a (resVal r) (k cs)
  | .envGet key, k => envGet a .request key fun v => obsRead a v (k cs)
  | .body, k => reqBodyObj a .request 0 fun _ =>
      .step a (.dOp (rCache 0) (.get "#body")) fun r => obsRead a (resVal r) (k cs)
  | .form f, k =>
    cacheIn a .request 0 "ombott.request.forms"
      (fun ret =>
        reqPost a .request 1 fun _ =>
        -- return self.environ['ombott.request.forms']
        environGet a .request "ombott.request.forms" fun v => ret v)
      fun _ => .step a (.dOp (rCache 0) (.get ("#f:" ++ f))) fun r => obsRead a (resVal r) (k cs)
  | .file name field, k =>
    cacheIn a .request 0 "ombott.request.files"
      (fun ret =>
        reqPost a .request 1 fun _ =>
        -- return self.environ['ombott.request.files']
        environGet a .request "ombott.request.files" fun v => ret v)
      fun _ => .step a (.dOp (rCache 0) (.get ("#file:" ++ name ++ ":" ++ field))) fun r =>
        obsRead a (resVal r) (k cs)
  | .kwargs, k =>
    -- the handler's own arguments: the dict `_handle` stored under route.url_args
    .step a (.dOp rEnviron (.get "route.url_args")) fun r => obsRead a (resVal r) (k cs)
  | .urlArgs, k =>
    cacheIn a .request 0 "route.url_args" (fun ret => ret (.str "!RuntimeError"))
      fun v => obsRead a v (k cs)
  | .scookie c, k =>
    -- self.cookies.get(key), then cookie_decode: a fresh object on every call (pseudo key `#sc:name`)
    cacheIn a .request 0 "ombott.request.cookies"
      (fun ret => envGet a .request "HTTP_COOKIE" fun _ => ret (.str "<cookies>"))
      fun _ => .step a (.dOp (rCache 0) (.get ("#sc:" ++ c))) fun r => obsRead a (resVal r) (k cs)
  | .dump what, k =>
    obtain a what <|
    -- what the view shows is a function of the request's own data (pseudo key `#dump:what` of the environ
    -- the view was found in)
    .step a (.dOp (rCache 0) (.get ("#dump:" ++ what))) fun r => obsRead a (resVal r) (k cs)
  | .mutate what, k => obtain a what (k cs)
  | .envSet key v, k =>
    .step a (.fget .request "environ" rTmp) fun _ =>
    .step a (.dOp rTmp (.set key (.str v))) fun _ => k cs
  | .extSet name v, k =>
    .step a (.fget .request "environ" rTmp) fun _ =>
    .step a (.dOp rTmp (.set ("ombott.request.ext." ++ name) (.str v))) fun _ => k cs
  | .extGet name, k =>
    .step a (.fget .request "environ" rTmp) fun _ =>
    .step a (.dOp rTmp (.get ("ombott.request.ext." ++ name))) fun r => obsRead a (resVal r) (k cs)
  | .reqSet key v, k =>
    -- BaseRequest.__setitem__ on app.request
    envGet a .request "ombott.request.readonly" fun _ =>
    .step a (.fget .request "environ" rTmp) fun _ =>
    .step a (.dOp rTmp (.get key)) fun r =>
      if r == .val (.str v) then k cs
      else
        .step a (.dOp rTmp (.set key (.str v))) fun _ =>
        -- emit('env_changed') -> _on_env_changed: env = request.environ; [env.pop(...) for ...]
        .step a (.fget .request "environ" rTmp) fun _ =>
        (envChangedPops key).foldr (fun c k => .step a (.dOp rTmp (.pop ("ombott.request." ++ c))) fun _ => k) (k cs)
  | .whoami, k => .step a (.dOp rEnviron (.get "#rule")) fun r => obsRead a (resVal r) (k cs)
  | .url, k => reqUrl a .request 0 fun v => obsRead a v (k cs)
  | .status code line, k => setStatus a code line (k cs)
  | .rdStatus, k => .step a (.fget .response "_status_line" rTmp) fun r => obsRead a (resVal r) (k cs)
  | .setHdr n v, k => hdOp a (.set n (.str v)) fun _ => k cs
  | .addHdr n v, k => hdOp a (.append n v) fun _ => k cs
  | .rdHdr n, k => hdOp a (.get n) fun r => obsRead a (resVal r) (k cs)
  | .setCookie n rendered, k =>
    -- if not self._cookies: self._cookies = SimpleCookie()
    .step a (.fget .response "_cookies" rCookies) fun r =>
      let set : Prog :=
        -- self._cookies[name] = value
        .step a (.fget .response "_cookies" rCookies) fun _ =>
        .step a (.dOp rCookies (.set n (.str rendered))) fun _ => k cs
      match r with
      | .ref =>
        .step a (.dOp rCookies .items) fun ri =>
          match ri with
          | .items [] =>      -- an empty jar is falsy
            .step a (.dNew rCookies []) fun _ =>
            .step a (.fset .response "_cookies" (.reg rCookies)) fun _ => set
          | _ => set
      | _ =>
        .step a (.dNew rCookies []) fun _ =>
        .step a (.fset .response "_cookies" (.reg rCookies)) fun _ => set
  | .ctype v, k => hdOp a (.set "Content-Type" (.str v)) fun _ => k cs
  | .copy, k =>
    -- copy = self.__class__(self.environ.copy(), config=self.config)
    .step a (.fget .request "environ" rTmp) fun _ =>
    .step a (.dCopy rTmp rCopyEnv) fun _ =>
    .step a .newCopy fun r =>
      let n := match r with | .val (.int i) => i.toNat | _ => 0
      requestInit a (.copy n) rCopyEnv (k (cs ++ [n]))
  | .cpath i, k => reqPath a (.copy (cs.getD i 0)) fun v => obsCopy a v (k cs)
  | .cset i key v, k =>
    let n := cs.getD i 0
    -- BaseRequest.__setitem__
    envGet a (.copy n) "ombott.request.readonly" fun _ =>
    .step a (.fget (.copy n) "environ" rTmp) fun _ =>
    .step a (.dOp rTmp (.get key)) fun r =>
      if r == .val (.str v) then k cs
      else
        .step a (.dOp rTmp (.set key (.str v))) fun _ =>
        -- emit('env_changed') -> _on_env_changed: env = request.environ; [env.pop(...) for ...]
        .step a (.fget (.copy n) "environ" rTmp) fun _ =>
        (envChangedPops key).foldr (fun c k => .step a (.dOp rTmp (.pop ("ombott.request." ++ c))) fun _ => k) (k cs)
  | .cheader i _ key, k =>
    let n := cs.getD i 0
    cacheIn a (.copy n) 0 "ombott.request.headers"
      (fun ret => .step a (.fget (.copy n) "environ" rWsgiHd) fun _ => ret (.str "<headers>"))
      fun _ => .step a (.dOp (rCache 0) (.get key)) fun r => obsCopy a (resVal r) (k cs)
  | .nested r, k => nest r (k cs)
  | .construct b, k => constructApp b (k cs)

/-- the statements of a handler in order -/
def hops (nest : Req → Prog → Prog) (a : AppId) : List HOp → List Nat → Prog → Prog
  | [], _, k => k
  | op :: rest, cs, k => hop nest a cs op fun cs' => hops nest a rest cs' k

/-- `request.json` up to the point where `json.loads` fails -/
def failJsonProg (a : AppId) (k : Prog) : Prog :=
  .step a (.fget .request "environ" (rCache 0)) fun _ =>
  .step a (.dOp (rCache 0) (.has "ombott.request.json")) fun _ =>
  -- self.ctype[0]
  cacheIn a .request 1 "ombott.request.ctype"
    (fun ret => reqContentType a .request 2 fun v => ret v) fun _ =>
  -- self._get_body_string()
  reqBodyObj a .request 1 fun _ =>
  reqBodyObj a .request 1 fun _ =>
  reqContentLength a .request 1 fun _ => k

/-- `request.forms` up to the point where `_get_body_string` finds the body too large -/
def failFormProg (a : AppId) (k : Prog) : Prog :=
  .step a (.fget .request "environ" (rCache 0)) fun _ =>
  .step a (.dOp (rCache 0) (.has "ombott.request.forms")) fun _ =>
  .step a (.fget .request "environ" (rCache 1)) fun _ =>
  .step a (.dOp (rCache 1) (.has "ombott.request.post")) fun _ =>
  .step a (.fget .request "environ" rWsgiHd) fun _ =>
  .step a (.dOp rWsgiHd (.set "ombott.request.files" (.str "<files>"))) fun _ =>
  reqContentType a .request 2 fun _ =>
  reqBodyObj a .request 2 fun _ =>
  reqBodyObj a .request 2 fun _ =>
  reqContentLength a .request 2 fun _ => k

/-- `request.forms` on a multipart body up to the point where the recorded parse error is raised -/
def failMultipartProg (a : AppId) (k : Prog) : Prog :=
  .step a (.fget .request "environ" (rCache 0)) fun _ =>
  .step a (.dOp (rCache 0) (.has "ombott.request.forms")) fun _ =>
  .step a (.fget .request "environ" (rCache 1)) fun _ =>
  .step a (.dOp (rCache 1) (.has "ombott.request.post")) fun _ =>
  .step a (.fget .request "environ" rWsgiHd) fun _ =>
  .step a (.dOp rWsgiHd (.set "ombott.request.files" (.str "<files>"))) fun _ =>
  reqContentType a .request 2 fun _ =>
  .step a (.dOp rWsgiHd (.set "ombott.request.forms" (.str "<forms>"))) fun _ =>
  reqBodyObj a .request 2 fun _ => k

/-- the default application (`ombott.Globals.app`) -/
def defaultApp : AppId := 0

/-- `redirect(loc)`: `code = 303 if request.get('SERVER_PROTOCOL') == 'HTTP/1.1' else 302;
res = response.copy(cls=HTTPResponse); res.status = code; res.body = '';
res.headers['Location'] = urljoin(request.url, loc); raise res` with `request`, `response` the
default application's objects -/
def redirectProg (loc line : String) (k : Out → Prog) : Prog :=
  let g := defaultApp
  envGet g .request "SERVER_PROTOCOL" fun _ =>
  -- response.copy(): self.status, self.headers.copy().dict, self._cookies
  .step g (.fget .response "_status_line" rTmp) fun _ =>
  .step g (.hdGet rHd) fun _ =>
  .step g (.dOp rHd .items) fun ri =>
  .step g (.fget .response "_cookies" rCookies) fun _ =>
  reqUrl g .request 0 fun _ =>
  k (.resp 303 line "" (hdrLines (match ri with | .items d => d | _ => []) ++ [("Location", "http://h" ++ loc)]))

/-- the handler's last statement (a property read that raises) and what `_handle` returns -/
def outcome (a : AppId) : Outcome → (Out → Prog) → Prog
  | .ret s, k => k (.text s)
  | .retBytes s, k => k (.bytes s)
  | .empty, k => k .empty
  | .raise code line body hdrs, k => k (.resp code line body hdrs)
  | .error code line text, k => k (.err (.fresh code line text [] .none .none))
  | .crash line exc, k => k (.err (.fresh 500 line "Internal Server Error" [] (.str exc) (.str "<tb>")))
  | .failJson e, k => failJsonProg a (k (.err (.shared e)))
  | .failForm e, k => failFormProg a (k (.err (.shared e)))
  | .failMultipart e, k => failMultipartProg a (k (.err (.shared e)))
  | .redirect loc line, k => redirectProg loc line k

/-- `app(environ, start_response)` for one request; `fuel` bounds the nesting depth -/
def serve : Nat → Req → Prog → Prog
  | 0, _, k => k
  | fuel + 1, .mk a env debug custom before after route, k =>
    let isHead := dictGet env "REQUEST_METHOD" == some (.str "HEAD")
    let reinit (k : Prog) : Prog :=
      -- environ['ombott.app'] = self; request.__init__(environ); response.__init__()
      .step a (.dOp rEnviron (.set "ombott.app" (.str "<app>"))) fun _ =>
      requestInit a .request rEnviron <| responseInit a k
    let castAndFinish (o : Out) : Prog := cast a debug custom o fun body => finish a isHead body k
    -- `finally: self.emit('after_request')`, then `_cast`
    let leave (o : Out) : Prog := hops (serve fuel) a after [] (castAndFinish o)
    -- the server hands over a fresh environ
    .step a (.dNew rEnviron env) fun _ =>
    -- path = environ['ombott.raw_path'] = environ['PATH_INFO']
    .step a (.dOp rEnviron (.getItem "PATH_INFO")) fun rp =>
    .step a (.dOp rEnviron (.set "ombott.raw_path" (resVal rp))) fun _ =>
    match route with
    | .badPath line =>
      reinit <| castAndFinish (.err (.fresh 400 line "Invalid path string. Expected UTF-8" [] .none .none))
    | _ =>
      .step a (.dOp rEnviron (.set "PATH_INFO" (resVal rp))) fun _ =>
      reinit <|
      -- self.emit('before_request')
      hops (serve fuel) a before [] <|
      -- self.to_route(request.path, request.method)
      reqPath a .request fun _ =>
      envGet a .request "REQUEST_METHOD" fun _ =>
      match route with
      | .handler ops out =>
        .step a (.dOp rEnviron (.set "ombott.route" (.str "<route>"))) fun _ =>
        -- environ['route.url_args'] = kwargs   (the router's answer: pseudo key `#kwargs`)
        .step a (.dOp rEnviron (.get "#kwargs")) fun rk =>
        .step a (.dOp rEnviron (.set "route.url_args" (resVal rk))) fun _ =>
        .step a (.dOp rEnviron (.set "route.hooks" (.str "<hooks>"))) fun _ =>
        hops (serve fuel) a ops [] (outcome a out leave)
      | .notFound line text => leave (.err (.fresh 404 line text [] .none .none))
      | .notAllowed line text allow => leave (.err (.fresh 405 line text [("Allow", allow)] .none .none))
      | .badPath _ => k

/-- a handler statement that stays inside its own application -/
def HOp.isLocal : HOp → Bool
  | .nested _ => false
  | .construct _ => false
  | _ => true

/-- an outcome that stays inside application `a` (`redirect()` works on the default application) -/
def Outcome.LocalTo (a : AppId) : Outcome → Prop
  | .redirect _ _ => a = defaultApp
  | _ => True

/-- a request of application `a` whose handler does not call into or construct another application -/
def Req.LocalTo (a : AppId) : Req → Prop
  | .mk b _ _ _ before after (.handler ops out) =>
    b = a ∧ (∀ op ∈ before, op.isLocal = true) ∧ (∀ op ∈ after, op.isLocal = true) ∧
      (∀ op ∈ ops, op.isLocal = true) ∧ out.LocalTo a
  | .mk b _ _ _ before after _ =>
    b = a ∧ (∀ op ∈ before, op.isLocal = true) ∧ (∀ op ∈ after, op.isLocal = true)

def maxNesting : Nat := 4

/-- `BaseRequest.__setitem__(key, value)` on `app.request` -/
def pokeProg (a : AppId) (key v : String) (k : Prog) : Prog :=
  envGet a .request "ombott.request.readonly" fun _ =>
  .step a (.fget .request "environ" rTmp) fun _ =>
  .step a (.dOp rTmp (.get key)) fun r =>
    if r == .val (.str v) then k
    else
      .step a (.dOp rTmp (.set key (.str v))) fun _ =>
      .step a (.fget .request "environ" rTmp) fun _ =>
      (envChangedPops key).foldr (fun c k => .step a (.dOp rTmp (.pop ("ombott.request." ++ c))) fun _ => k) k

/-- `BaseRequest.__setattr__(name, value)` for a name that is not a slot -/
def pokeAttrProg (a : AppId) (name v : String) (k : Prog) : Prog :=
  .step a (.fget .request "environ" rTmp) fun _ =>
  .step a (.dOp rTmp (.set ("ombott.request.ext." ++ name) (.str v))) fun _ => k

/-- `sorted(app.request.environ.items())` -/
def idleProg (a : AppId) (k : Prog) : Prog :=
  .step a (.fget .request "environ" rTmp) fun _ =>
  .step a (.dOp rTmp .items) fun r =>
    let items : Dict := match r with | .items d => d | _ => []
    .emit a ("i:" ++ ";".intercalate (sortStrings (items.map fun kv => kv.1 ++ "=" ++ showPVal kv.2))) k

def itemProg : Item → Prog → Prog
  | .serve r, k => serve maxNesting r k
  | .construct a, k => constructApp a k
  | .poke a key v, k => pokeProg a key v k
  | .pokeAttr a name v, k => pokeAttrProg a name v k
  | .idle a, k => idleProg a k

/-- the program of a thread -/
def threadProg (items : List Item) : Prog := items.foldr itemProg .done

/-! ## event-driven schedules

The scheduler of the harness records the thread-store traffic of the real run in global order.
`Access.visible` tells which steps of the model correspond to one recorded event (an accessor of
`ts_props`, an iteration of `init_wrapper`, an access of `HeaderDict._ts`); dict operations and
`emit`s have no event of their own and are executed together with the visible step that follows
them. -/

def visible : Access → Bool
  | .initHead _ | .initNone _ _ | .fget _ _ _ | .fset _ _ _ | .fdel _ _ | .hdGet _ | .hdSet _ => true
  | _ => false

/-- the fine-grained schedule (one entry per step) that lets thread `t` run up to and including its
next visible step; `fuel` bounds the silent steps -/
def advance (v : Variant) (t : ThreadId) : Nat → Machine → Machine × List ThreadId
  | 0, m => (m, [])
  | fuel + 1, m =>
    match (m.threads t).prog with
    | .done => (m, [])
    | .step _ acc _ =>
      let m' := run v m [t]
      if visible acc then (m', [t])
      else let (m'', s) := advance v t fuel m'; (m'', t :: s)
    | .emit _ _ _ =>
      let (m'', s) := advance v t fuel (run v m [t]); (m'', t :: s)

/-- run to completion (at most `fuel` steps) -/
def drain (v : Variant) (t : ThreadId) : Nat → Machine → Machine × List ThreadId
  | 0, m => (m, [])
  | fuel + 1, m =>
    match (m.threads t).prog with
    | .done => (m, [])
    | _ => let (m'', s) := drain v t fuel (run v m [t]); (m'', t :: s)

def silentFuel : Nat := 200
def drainFuel : Nat := 100000

/-- an entry of an event-level schedule: thread `t` makes its next recorded store access, or runs
to its end -/
inductive Ev
  | step (t : ThreadId)
  | finish (t : ThreadId)

def runEv (v : Variant) (m : Machine) : Ev → Machine × List ThreadId
  | .step t => advance v t silentFuel m
  | .finish t => drain v t drainFuel m

/-- replay an event-level schedule; returns the final machine and the fine-grained schedule (one
thread id per step) that was executed -/
def runEvents (v : Variant) (m : Machine) : List Ev → Machine × List ThreadId
  | [] => (m, [])
  | e :: es =>
    let (m1, s1) := runEv v m e
    let (m2, s2) := runEvents v m1 es
    (m2, s1 ++ s2)

/-- label of a visible step, as the harness' trace hook names it -/
def label (multi : Bool) (ev : Event) : String :=
  let pre := if multi then toString ev.app else ""
  let ob : Obj → String
    | .request => pre ++ "q" | .response => pre ++ "p" | .copy _ => pre ++ "c"
  match ev.acc with
  | .initHead o => "I" ++ ob o
  | .initNone o _ => "N" ++ ob o
  | .fget o k _ => "G" ++ ob o ++ "." ++ k
  | .fset o k _ => "S" ++ ob o ++ "." ++ k
  | .fdel o k => "D" ++ ob o ++ "." ++ k
  | .hdGet _ => pre ++ "H"
  | .hdSet _ => pre ++ "h"
  | _ => ""

end Ombott.WsgiConc
