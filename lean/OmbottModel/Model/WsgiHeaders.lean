import OmbottModel.Py
import OmbottModel.Py.Text
import OmbottModel.Py.CharLit
import OmbottModel.Gen.Helpers
/-
Model of `ombott/request_pkg/helpers.py:WSGIHeaderDict` — the read-only, case-insensitive view of the `HTTP_*`
entries of a WSGI environ that `Request.headers` returns (`PropsMixin.headers`; C15, and the "headers" observable of
C08/C14) — together with what it inherits from `collections.abc.MutableMapping` (`get`, `items`, `pop`, `popitem`,
`clear`, `update`, `setdefault`, written here as the mixin code of CPython 3.12 over the class's own
`__getitem__`/`__setitem__`/`__delitem__`/`__iter__`).

Header names are ASCII in this model: `str.upper` / `str.title` are the ASCII functions (`Py.title`).  A lookup
name holding a cased non-ASCII character (`'ß'.upper() == 'SS'`) is outside the model and outside the generators.
The set of keys shown without the `HTTP_` prefix is the GENERATED `Gen.hpCgikeys`.
-/
namespace Ombott.WsgiHeaders
open Py

/-- a value of the environ as far as the view looks at it: a native string or (a server handing over raw
bytes) a byte string; `touni(v, 'latin1')` is total on both -/
inductive HV
  | str (s : Str)
  | bytes (b : Bytes)
  deriving Repr, DecidableEq, Inhabited

/-- the environ a view wraps (`WSGIHeaderDict.__init__`: `self.environ = environ`, no copy): an insertion-ordered
`dict` with `str` keys (keys pairwise distinct) -/
abbrev Env := List (Str × HV)

def Env.get? : Env → Str → Option HV
  | [], _ => none
  | (k', v) :: r, k => if k' = k then some v else Env.get? r k

def Env.keys (e : Env) : List Str := e.map (·.1)

/-- `str.upper()` on ASCII text -/
def upper (s : Str) : Str := s.map fun c => if isAsciiLower c then c.toUpper else c

/-- `s.replace('-', '_')` -/
def undash (s : Str) : Str := s.map fun c => if c = '-' then '_' else c

/-- `s.replace('_', '-')` -/
def dash (s : Str) : Str := s.map fun c => if c = '_' then '-' else c

/-- `WSGIHeaderDict.cgikeys` as text (generated) -/
def cgikeys : List Str := Gen.hpCgikeys.map String.toList

/-- `'HTTP_'` -/
def httpPrefix : Str := cs!"HTTP_"

/-- `WSGIHeaderDict._ekey`
```
key = key.replace('-', '_').upper()
if key in self.cgikeys: return key
return 'HTTP_' + key
``` -/
def ekey (key : Str) : Str :=
  let k := upper (undash key)
  if k ∈ cgikeys then k else httpPrefix ++ k

/-- `touni(v, 'latin1')`: bytes are decoded as Latin-1 (total), a `str` is returned as it is -/
def touni : HV → Str
  | .str s => s
  | .bytes b => latin1Dec b

/-- `WSGIHeaderDict.raw(key, default)`: `self.environ.get(self._ekey(key), default)` -/
def raw (e : Env) (key : Str) : Option HV := e.get? (ekey key)

/-- `WSGIHeaderDict.__getitem__`: `touni(self.environ[self._ekey(key)], 'latin1')` -/
def getitem (e : Env) (key : Str) : Except Err Str :=
  match e.get? (ekey key) with
  | none => .error .keyError
  | some v => .ok (touni v)

/-- `WSGIHeaderDict.__contains__`: `self._ekey(key) in self.environ` -/
def contains (e : Env) (key : Str) : Bool := (e.get? (ekey key)).isSome

/-- one step of `WSGIHeaderDict.__iter__`
```
if key.startswith('HTTP_'): yield key[5:].replace('_', '-').title()
elif key in self.cgikeys:   yield key.replace('_', '-').title()
``` -/
def iterName (k : Str) : Option Str :=
  if httpPrefix.isPrefixOf k then some (title (dash (k.drop 5)))
  else if k ∈ cgikeys then some (title (dash k))
  else none

/-- the environ keys the view shows: `HTTP_*` and the CGI keys -/
def isHeaderKey (k : Str) : Bool := httpPrefix.isPrefixOf k || cgikeys.contains k

/-- `WSGIHeaderDict.keys()` = `[x for x in self]` -/
def keys (e : Env) : List Str := e.filterMap fun p => iterName p.1

/-- `WSGIHeaderDict.__len__`: `len(self.keys())` -/
def len (e : Env) : Nat := (keys e).length

/-- `Mapping.get`: `try: return self[key]` / `except KeyError: return default` -/
def get (e : Env) (key : Str) (default : Option Str) : Option Str :=
  match getitem e key with
  | .ok s => some s
  | .error .keyError => default
  | .error _ => default          -- `__getitem__` raises nothing else (`getitem_error`)

/-- `Mapping.items()` listed: `[(key, self[key]) for key in self]` — a listed name that cannot be read back raises
`KeyError` (only for environ keys no WSGI server produces, see `Props/C15.lean`) -/
def items (e : Env) : Except Err (List (Str × Str)) :=
  (keys e).mapM fun n => (getitem e n).map fun v => (n, v)

/-! ### the mutating half of `MutableMapping`: everything ends in `__setitem__` / `__delitem__` -/

/-- `WSGIHeaderDict.__setitem__`: `raise TypeError("%s is read-only." % self.__class__)`; the environ afterwards -/
def setitem (e : Env) (_key _value : Str) : Except Err Unit × Env := (.error .typeError, e)

/-- `WSGIHeaderDict.__delitem__`: `raise TypeError(…)` -/
def delitem (e : Env) (_key : Str) : Except Err Unit × Env := (.error .typeError, e)

inductive Op
  | setitem (key value : Str)                    -- `h[key] = value`
  | delitem (key : Str)                          -- `del h[key]`
  | pop (key : Str) (default : Option Str)       -- `h.pop(key)` / `h.pop(key, default)`
  | popitem                                      -- `h.popitem()`
  | clear                                        -- `h.clear()`
  | update (pairs : List (Str × Str))            -- `h.update(pairs)`
  | setdefault (key default : Str)               -- `h.setdefault(key, default)`
  deriving Repr

/-- what a mutator call returned -/
inductive Out
  | none
  | str (s : Str)
  | pair (k v : Str)
  deriving Repr, DecidableEq

/-- `MutableMapping.update` on a list of pairs: `for key, value in other: self[key] = value` -/
def updateGo (e : Env) : List (Str × Str) → Except Err Unit × Env
  | [] => (.ok (), e)
  | (k, v) :: r =>
    match setitem e k v with
    | (.ok _, e') => updateGo e' r
    | (.error x, e') => (.error x, e')

/-- `MutableMapping.popitem`
```
try: key = next(iter(self))
except StopIteration: raise KeyError from None
value = self[key]; del self[key]; return key, value
``` -/
def popitem (e : Env) : Except Err Out × Env :=
  match keys e with
  | [] => (.error .keyError, e)
  | k :: _ =>
    match getitem e k with
    | .error x => (.error x, e)
    | .ok v =>
      match delitem e k with
      | (.ok _, e') => (.ok (.pair k v), e')
      | (.error x, e') => (.error x, e')

/-- `MutableMapping.clear`: `try: while True: self.popitem()` / `except KeyError: pass`.  One round is enough to
describe it here: the first `popitem` either raises `KeyError` (nothing listed, or a listed name that cannot be read
back: the loop ends quietly) or `TypeError` from `__delitem__` (propagates). -/
def clear (e : Env) : Except Err Out × Env :=
  match popitem e with
  | (.error .keyError, e') => (.ok .none, e')
  | (.error x, e') => (.error x, e')
  | (.ok _, e') => (.ok .none, e')        -- not reachable: `popitem` never succeeds (`headers_view_readonly`)

/-- one mutator call: what it answers and the environ afterwards -/
def applyOp (e : Env) : Op → Except Err Out × Env
  | .setitem k v => ((setitem e k v).1.map fun _ => Out.none, (setitem e k v).2)
  | .delitem k => ((delitem e k).1.map fun _ => Out.none, (delitem e k).2)
  | .pop k d =>
    -- `try: value = self[key]` / `except KeyError: if default is self.__marker: raise; return default`
    -- `else: del self[key]; return value`
    match getitem e k with
    | .error .keyError => (match d with | some s => .ok (.str s) | Option.none => .error .keyError, e)
    | .error x => (.error x, e)
    | .ok v =>
      match delitem e k with
      | (.ok _, e') => (.ok (.str v), e')
      | (.error x, e') => (.error x, e')
  | .popitem => popitem e
  | .clear => clear e
  | .update ps => ((updateGo e ps).1.map fun _ => Out.none, (updateGo e ps).2)
  | .setdefault k d =>
    -- `try: return self[key]` / `except KeyError: self[key] = default; return default`
    match getitem e k with
    | .ok v => (.ok (.str v), e)
    | .error .keyError =>
      match setitem e k d with
      | (.ok _, e') => (.ok (.str d), e')
      | (.error x, e') => (.error x, e')
    | .error x => (.error x, e)

/-- a sequence of mutator calls on one view: the answers and the environ at the end -/
def applyOps (e : Env) : List Op → List (Except Err Out) × Env
  | [] => ([], e)
  | op :: ops =>
    let (r, e') := applyOp e op
    let (rs, e'') := applyOps e' ops
    (r :: rs, e'')

/-! ### what a WSGI server does with a request header (the client side of the statements) -/

/-- `'HTTP_' + name.upper().replace('-', '_')`, `Content-Type` / `Content-Length` without the prefix (PEP 3333) -/
def serverKey (name : Str) : Str := ekey name

/-- letters, digits and hyphens: the header names the round-trip statement quantifies over -/
def isNameChar (c : Char) : Bool := isAsciiLower c || isAsciiUpper c || c.isDigit || c = '-'

end Ombott.WsgiHeaders
