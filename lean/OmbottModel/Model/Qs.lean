import OmbottModel.Py
/-
Model of `ombott/request_pkg/helpers.py:parse_qsl` (the hand-written key/value scanner and its
`setitem` list-promotion closure), of `urllib.parse.unquote` as `parse_qsl` calls it
(percent decoding of the ASCII runs, UTF-8 with U+FFFD replacement, CPython's error spans), of the
encoder side (`urllib.parse.quote`, `quote_plus`, `urlencode`) and of the `query` / `forms` /
`params` construction of `body_mixin.py` / `props_mixin.py` (C18).

Text is `List Char` (Unicode scalar values: a Python `str` holding lone surrogates is outside the
model), byte strings are `List UInt8`; inside the decoders a byte is its `Nat` value.
-/
namespace Ombott.Qs
open Py

/-! ### UTF-8 -/

/-- `s.encode('utf8')` (core Lean's encoder, one character at a time) -/
def utf8Enc (s : Str) : Bytes := s.flatMap String.utf8EncodeChar

/-- U+FFFD, what `errors='replace'` puts in place of an undecodable span -/
def repl : Char := Char.ofNat 0xFFFD

/-- continuation byte `80..BF` -/
def isCont (b : Nat) : Bool := 0x80 ≤ b && b ≤ 0xBF

/-- lower / upper bound of the *second* byte after lead byte `w` (Unicode table 3-7; CPython
`stringlib/codecs.h`: `E0` needs `A0..`, `ED` stops at `9F`, `F0` needs `90..`, `F4` stops at `8F`) -/
def secondLo (w : Nat) : Nat := if w = 0xE0 then 0xA0 else if w = 0xF0 then 0x90 else 0x80
def secondHi (w : Nat) : Nat := if w = 0xED then 0x9F else if w = 0xF4 then 0x8F else 0xBF
def secondOK (w x : Nat) : Bool := secondLo w ≤ x && x ≤ secondHi w

/-- What CPython's UTF-8 decoder (`errors='replace'`) does at a sequence start `w` followed by
`r`: the character produced and the number of *further* bytes consumed.  One U+FFFD per error
span exactly as CPython delimits them: an invalid start byte (`80..C1`, `F5..FF`) is a span of one
byte; a lead byte followed by `k` valid continuation bytes and then by a byte that cannot continue
the sequence, or by the end of the data, is a span of `1 + k` bytes. -/
def decodeAt (w : Nat) (r : List Nat) : Char × Nat :=
  if w < 0x80 then (Char.ofNat w, 0)
  else if w < 0xC2 ∨ 0xF4 < w then (repl, 0)                 -- invalid start byte
  else match r with
    | [] => (repl, 0)                                         -- unexpected end of data
    | x :: r1 =>
      if ¬ secondOK w x then (repl, 0)                        -- invalid continuation byte, span 1
      else if w < 0xE0 then (Char.ofNat (w % 32 * 64 + x % 64), 1)
      else match r1 with
        | [] => (repl, 1)
        | y :: r2 =>
          if ¬ isCont y then (repl, 1)                        -- span 2
          else if w < 0xF0 then (Char.ofNat (w % 16 * 4096 + x % 64 * 64 + y % 64), 2)
          else match r2 with
            | [] => (repl, 2)
            | z :: _ =>
              if ¬ isCont z then (repl, 2)                    -- span 3
              else (Char.ofNat (w % 8 * 262144 + x % 64 * 4096 + y % 64 * 64 + z % 64), 3)

/-- the decoding loop; `skip` = bytes still belonging to the span just handled -/
def decGo : List Nat → Nat → Str
  | [], _ => []
  | _ :: r, skip + 1 => decGo r skip
  | w :: r, 0 => (decodeAt w r).1 :: decGo r (decodeAt w r).2

/-- `bytes.decode('utf-8', 'replace')` on byte values -/
def decN (l : List Nat) : Str := decGo l 0

/-- `b.decode('utf-8', 'replace')` -/
def utf8DecReplace (b : Bytes) : Str := decN (b.map (·.toNat))

/-! ### `urllib.parse.unquote` -/

/-- after a `%`: the byte to emit and how many following bytes it swallows
(`_hextobyte[item[:2]]` when the two bytes after the `%` are hex digits of either case, else the
`%` itself) -/
def pctAt (r : List Nat) : Nat × Nat :=
  match r with
  | a :: b :: _ =>
    match hexDigitVal a, hexDigitVal b with
    | some x, some y => (x * 16 + y, 2)
    | _, _ => (37, 0)
  | _ => (37, 0)

def pctGo : List Nat → Nat → List Nat
  | [], _ => []
  | _ :: r, skip + 1 => pctGo r skip
  | c :: r, 0 => if c = 37 then (pctAt r).1 :: pctGo r (pctAt r).2 else c :: pctGo r 0

/-- `_unquote_impl` on the byte values of an ASCII run: `bits = s.split(b'%')`, every item after the
first becomes `_hextobyte[item[:2]] + item[2:]` when its first two bytes are hex digits and
`b'%' + item` otherwise.  Written as one left-to-right scan (an item never contains `%`, so "the
two bytes after this `%` are hex digits" is the same test). -/
def pctDecode (l : List Nat) : List Nat := pctGo l 0

/-- one ASCII run (collected in reverse) through `_unquote_impl(...).decode('utf-8', 'replace')` -/
def flushRun (acc : List Nat) : Str := decN (pctDecode acc.reverse)

/-- `_generate_unquoted_parts`: maximal ASCII runs (`[\x00-\x7f]+`) are percent-decoded and then
UTF-8-decoded with replacement, everything else is copied. -/
def unqGo : Str → List Nat → Str
  | [], acc => flushRun acc
  | c :: r, acc =>
    if c.toNat < 128 then unqGo r (c.toNat :: acc)
    else flushRun acc ++ c :: unqGo r []

/-- `urllib.parse.unquote(s)` with its defaults `encoding='utf-8', errors='replace'`
(`if '%' not in string: return string`) -/
def unquote (s : Str) : Str := if '%' ∈ s then unqGo s [] else s

/-- `s.replace('+', ' ')` -/
def plusToSpace (s : Str) : Str := s.map fun c => if c = '+' then ' ' else c

/-! ### the encoder side (what a client does; used by the round-trip statements) -/

/-- `_ALWAYS_SAFE`: ASCII letters, digits and `_.-~` -/
def alwaysSafe (b : Nat) : Bool :=
  (65 ≤ b && b ≤ 90) || (97 ≤ b && b ≤ 122) || (48 ≤ b && b ≤ 57) ||
  b == 95 || b == 46 || b == 45 || b == 126

/-- upper-case hex digit, as `'%{:02X}'` prints it -/
def hexUp (n : Nat) : Char := if n < 10 then Char.ofNat (48 + n) else Char.ofNat (55 + n)

/-- `quote_from_bytes` for one byte; `plus` = the `quote_plus` treatment of the space -/
def quoteByte (plus : Bool) (b : Nat) : Str :=
  if alwaysSafe b then [Char.ofNat b]
  else if plus && b == 32 then ['+']
  else ['%', hexUp (b / 16), hexUp (b % 16)]

/-- `quote` (`plus = false`) / `quote_plus` (`plus = true`) with `safe=''` -/
def quoteWith (plus : Bool) (s : Str) : Str := (utf8Enc s).flatMap fun b => quoteByte plus b.toNat
/-- `urllib.parse.quote(s, safe='')` -/
def quote (s : Str) : Str := quoteWith false s
/-- `urllib.parse.quote_plus(s)` -/
def quotePlus (s : Str) : Str := quoteWith true s

/-- `'&'.join(...)` -/
def joinAmp : List Str → Str
  | [] => []
  | [a] => a
  | a :: b :: r => a ++ '&' :: joinAmp (b :: r)

/-- `urllib.parse.urlencode(pairs, quote_via=…)` for text pairs: `quote_plus` (the default,
`plus = true`) or `quote` -/
def urlencodeWith (plus : Bool) (ps : List (Str × Str)) : Str :=
  joinAmp (ps.map fun p => quoteWith plus p.1 ++ '=' :: quoteWith plus p.2)

/-- `urllib.parse.urlencode(pairs)` -/
def urlencode (ps : List (Str × Str)) : Str := urlencodeWith true ps

/-! ### `parse_qsl`: the scanner -/

/-- ```
idx = 0; c = None
for idx, c in enumerate(s):
    if stop(c): break
else:
    idx += 1
```
`forElse stop rest k idx c`: `k` is the index the next item gets, `idx`/`c` the current bindings.
Result: the final `(idx, c)`. -/
def forElse (stop : Char → Bool) : Str → Nat → Nat → Option Char → Nat × Option Char
  | [], _, idx, c => (idx + 1, c)                      -- loop ran out: the `else` clause
  | ch :: r, k, _, _ => if stop ch then (k, some ch) else forElse stop r (k + 1) k (some ch)

def scan (stop : Char → Bool) (s : Str) : Nat × Option Char := forElse stop s 0 0 none

def keyStop (c : Char) : Bool := c == '=' || c == '&'
def valStop (c : Char) : Bool := c == '&'

/-- One iteration of `while i < L:`; returns the new `i` and the `add(key, value)` call, if any. -/
def step (qs : Str) (i : Nat) : Nat × Option (Str × Str) :=
  let sc := scan keyStop (qs.drop i)               -- for idx, c in enumerate(qs[i:])
  let j := i + sc.1                                -- j = i + idx
  let key := slice qs i j                          -- key = qs[i:j]
  let i := j + 1                                   -- i = j + 1
  if key.isEmpty then (i, none)                    -- if not key: continue
  else
    let key := unquote (plusToSpace key)
    if sc.2 = some '&' then (i, some (key, []))    -- if c == '&': value = ''
    else
      let sc := scan valStop (qs.drop i)
      let j := i + sc.1
      let value := unquote (plusToSpace (slice qs i j))
      (j + 1, some (key, value))                   -- i = j + 1

/-- every iteration moves `i` forward: this is what makes `while i < L` terminate -/
theorem step_advances (qs : Str) (i : Nat) : i < (step qs i).1 := by
  unfold step
  simp only
  split
  · simp only; omega
  · split <;> (simp only; omega)

/-- the `while i < L` loop; the list of `add(key, value)` calls in order -/
def loop (qs : Str) (i : Nat) : List (Str × Str) :=
  if i < qs.length then
    match (step qs i).2 with
    | none => loop qs (step qs i).1
    | some p => p :: loop qs (step qs i).1
  else []
termination_by qs.length - i
decreasing_by
  all_goals (have := step_advances qs i; omega)

/-- `parse_qsl(qs)` without `append`/`setitem`: the list of pairs -/
def parseQsl (qs : Str) : List (Str × Str) := loop qs 0

/-! ### `parse_qsl(qs, setitem=d.__setitem__)`: list promotion -/

/-- a form value: a string, or the list a repeated key is promoted to -/
inductive Val
  | one (s : Str)
  | many (l : List Str)
  deriving Repr, DecidableEq, Inhabited

/-- a Python `dict` with `str` keys: insertion-ordered; assignment to an existing key keeps its
position -/
abbrev Dict (β : Type) := List (Str × β)

def Dict.get? {β} (d : Dict β) (k : Str) : Option β := (d.find? fun p => p.1 = k).map (·.2)

def Dict.set {β} : Dict β → Str → β → Dict β
  | [], k, v => [(k, v)]
  | (k', v') :: r, k, v => if k' = k then (k, v) :: r else (k', v') :: Dict.set r k v

/-- the closure state of `add`: `_seen`, `_lists` and the dictionary behind `setitem` -/
structure AddSt where
  seen : Dict Str := []
  lists : Dict (List Str) := []
  out : Dict Val := []
  deriving Repr

/-- ```
def add(k, v):
    vlist = _lists.get(k)
    if vlist: vlist.append(v)
    elif k in _seen:
        tmp = _lists[k] = [_seen[k], v]; setitem(k, tmp)
    else: setitem(k, _seen.setdefault(k, v))
```
`vlist.append` mutates the very list object that `setitem` stored, so the dictionary entry changes
with it.  `_seen[k]` is a plain subscript: `KeyError` when absent (not totalised). -/
def add (st : AddSt) (k v : Str) : Except Err AddSt :=
  match st.lists.get? k with
  | some (x :: xs) =>                                    -- `if vlist:` (non-empty list)
    let l := (x :: xs) ++ [v]
    .ok { st with lists := st.lists.set k l, out := st.out.set k (.many l) }
  | _ =>
    if (st.seen.get? k).isSome then                      -- `elif k in _seen:`
      match st.seen.get? k with
      | none => .error .keyError                         -- `_seen[k]`
      | some s =>
        let tmp := [s, v]
        .ok { st with lists := st.lists.set k tmp, out := st.out.set k (.many tmp) }
    else
      -- `_seen.setdefault(k, v)` stores and returns `v` (the key is absent here)
      .ok { st with seen := st.seen.set k v, out := st.out.set k (.one v) }

def addAll (st : AddSt) : List (Str × Str) → Except Err AddSt
  | [] => .ok st
  | (k, v) :: r => match add st k v with
    | .error e => .error e
    | .ok st' => addAll st' r

/-- `parse_qsl(qs, setitem=d.__setitem__)` on a dictionary `d`: the dictionary afterwards -/
def parseInto (d : Dict Val) (qs : Str) : Except Err (Dict Val) :=
  (addAll { out := d } (parseQsl qs)).map (·.out)

/-! ### `Request.query`, `.forms` (urlencoded body), `.params` -/

/-- `BodyMixin.query`: `ret = FormsDict(); if qs: parse_qsl(qs, setitem=ret.__setitem__)` -/
def query (qs : Str) : Except Err (Dict Val) :=
  if qs.isEmpty then .ok [] else parseInto [] qs

/-- `touni(body, 'latin1')` -/
def latin1 (b : Bytes) : Str := b.map fun x => Char.ofNat x.toNat

/-- `BodyMixin.POST`/`forms` for a body that is neither multipart nor JSON:
`parse_qsl(touni(self._get_body_string(), 'latin1'), setitem=post.__setitem__)` -/
def forms (body : Bytes) : Except Err (Dict Val) := parseInto [] (latin1 body)

/-- `PropsMixin.params`: `FormsDict(self.query, **self.forms)` -/
def params (qs : Str) (body : Bytes) : Except Err (Dict Val) := do
  let q ← query qs
  let f ← forms body
  pure (f.foldl (fun d p => d.set p.1 p.2) q)

/-! ### the `Content-Type` of the request in front of `forms`

`BodyMixin.POST` looks at the header once, to pick a branch; the urlencoded branch reads the body
the same way whatever else the header says (media type, `charset=` or any other parameter): the
escapes of an urlencoded body are UTF-8 by definition, a label does not change that. -/

/-- `str.lower()` on ASCII and Latin-1 capitals (all the dispatch of `POST` can see: it compares with
two ASCII prefixes, and no other character lowers to a letter of those) -/
def lowerCh (c : Char) : Char :=
  let n := c.toNat
  if (65 ≤ n && n ≤ 90) || (0xc0 ≤ n && n ≤ 0xde && n != 0xd7) then Char.ofNat (n + 32) else c

/-- the branch `POST` takes -/
inductive FormKind where
  | multipart | json | urlencoded
  deriving Repr, DecidableEq

/-- `ctype = self.content_type` (`environ.get('CONTENT_TYPE', '').lower()`);
`ctype.startswith('multipart/')`, `ctype.startswith('application/json')`, else the fast path -/
def formKind (ct : Option Str) : FormKind :=
  let c := (ct.getD []).map lowerCh
  if "multipart/".toList.isPrefixOf c then .multipart
  else if "application/json".toList.isPrefixOf c then .json
  else .urlencoded

/-- `Request.forms` / `.POST` as a function of the Content-Type header and the body; `none` = the
multipart / JSON branches (models of C07 / C12) -/
def formsCt (ct : Option Str) (body : Bytes) : Option (Except Err (Dict Val)) :=
  match formKind ct with
  | .urlencoded => some (forms body)
  | _ => none

/-- `PropsMixin.params` under that header -/
def paramsCt (ct : Option Str) (qs : Str) (body : Bytes) : Option (Except Err (Dict Val)) :=
  match formKind ct with
  | .urlencoded => some (params qs body)
  | _ => none

end Ombott.Qs
