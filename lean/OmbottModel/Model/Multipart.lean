import OmbottModel.Py
/-!
Model of `ombott/request_pkg/multipart.py`: `MatchTail`, `HeadersEaeter`, `BodyMarkuper`,
`MultipartMarkup` (the section markup of a multipart/form-data body that is produced while
the body is being read chunk by chunk by `_body_read`).

Python objects with mutable attributes become records that are passed through; a method that
may raise returns `Except Err _`.  Positions inside a chunk are `Nat` (the code never uses a
negative index: the section ends every method returns lie inside the chunk, `eat_total`, `scan_found_bounds` in `Lemmas/`), section ends relative to a chunk are `Int`
because a delimiter or a `CRLFCRLF` may have started in an earlier chunk.

`trest_len` of the source is always `len(trest)`; only `trest` is kept.
-/
namespace Ombott.Multipart
open Py

def CR : UInt8 := 13
def LF : UInt8 := 10
def HYPHEN : UInt8 := 45
def CRLF : Bytes := [13, 10]
def HYPHENx2 : Bytes := [45, 45]
def CRLFx2 : Bytes := [13, 10, 13, 10]

/-- `s.startswith(p)` -/
def startsWith (s p : Bytes) : Bool := p.isPrefixOf s

/-! ### MatchTail -/

/-- the `for i, thead in idxs` loop of `match_tail`; the candidates `i` (1-based) are walked in
increasing order, those with `token[i-1] ≠ s[end-1]` are the ones *not* in `idx[s[end-1]]`. -/
def matchTailGo (tok s : Bytes) (start end_ : Nat) (last : UInt8) : List Nat → Option Nat
  | [] => none
  | i :: is =>
    if tok[i - 1]? ≠ some last then matchTailGo tok s start end_ last is
    else if end_ - start < i then none                    -- search_pos < 0: return
    else if slice s (start + (end_ - start - i)) end_ == tok.take i then some i
    else matchTailGo tok s start end_ last is

/-- `MatchTail.match_tail(s, start, end)`: the smallest `i ≥ 1` such that the last `i` bytes of
`s[start:end]` are the first `i` bytes of the token.  `s[end-1]` with `end = 0` is not used by
the callers (`IndexError` here); `assert slen <= self.len`. -/
def matchTail (tok s : Bytes) (start end_ : Nat) : Except Err (Option Nat) :=
  if end_ = 0 then .error .indexError else
  match s[end_ - 1]? with
  | none => .error .indexError
  | some last =>
    if tok.length < end_ - start then .error .assertionError
    else .ok (matchTailGo tok s start end_ last (List.range' 1 tok.length))

/-! ### BodyMarkuper._eat_data -/

/-- what `_eat_data` leaves behind: the returned section end (relative to the chunk) and the new
`self.trest` -/
structure EatOut where
  res : Option Int
  trest : Option Bytes
  deriving Repr, DecidableEq

/-- `# process the tail of the chunk` (the part shorter than the token) -/
def eatTail (tok chunk : Bytes) (start : Nat) (trest : Option Bytes) : Except Err EatOut :=
  let part := chunk.drop start
  if part.isEmpty then .ok ⟨none, trest⟩ else
  let plen := part.length
  let fresh : Except Err EatOut :=
    match matchTail tok part 0 plen with
    | .error e => .error e
    | .ok (some m) => .ok ⟨none, some (tok.drop m)⟩
    | .ok none => .ok ⟨none, none⟩
  match trest with
  | some tr =>
    if plen < tr.length then
      if startsWith tr part then .ok ⟨none, some (tr.drop plen)⟩ else fresh
    else if startsWith part tr then .ok ⟨some (((start + tr.length : Nat) : Int) - tok.length), none⟩
    else fresh
  | none => fresh

/-- the `while True` block loop of `_eat_data`, one token length per round.  The first argument
bounds the number of rounds; running out of it stands for a loop that does not end
(`RuntimeError` is not raised by the source; never reached: `eatData_refines`). -/
def eatBlocks (tok chunk : Bytes) : Nat → Nat → Option Bytes → Except Err EatOut
  | 0, _, _ => .error .runtimeError
  | fuel + 1, start, trest =>
    let tlen := tok.length
    let end_ := start + tlen
    if end_ > chunk.length then eatTail tok chunk start trest
    else
      let go : Except Err EatOut :=
        match matchTail tok chunk start end_ with
        | .error e => .error e
        | .ok (some m) =>
          if m = tlen then .ok ⟨some (start : Int), none⟩
          else eatBlocks tok chunk fuel (start + tlen) (some (tok.drop m))
        | .ok none => eatBlocks tok chunk fuel (start + tlen) none
      match trest with
      | some tr =>
        if slice chunk start (start + tr.length) == tr then
          .ok ⟨some (((start + tr.length : Nat) : Int) - tlen), none⟩
        else go
      | none => go

/-- `BodyMarkuper._eat_data(chunk, base)` -/
def eatData (tok chunk : Bytes) (base : Nat) (trest : Option Bytes) : Except Err EatOut :=
  eatBlocks tok chunk (chunk.length + 1) base trest

/-! ### HeadersEaeter -/

inductive EatMeth
  | firstCrlfOrLastHyphens | lf | lastHyphen | headers
  | none                         -- `self._meth_map.get(...)` returned `None`
  deriving Repr, DecidableEq, Inhabited

structure Eater where
  headersEndExpected : Option Bytes := none
  eatMeth : EatMeth := .firstCrlfOrLastHyphens
  stopped : Bool := false
  deriving Repr, DecidableEq

/-- result of `end_headers_patt.search(chunk, base)` for
`(\r\n\r\n)|(\r(\n\r?)?)$`: group 1 at a position, or the length of group 2 -/
inductive EndSearch
  | none | found (pos : Nat) | tail (len : Nat)
  deriving Repr, DecidableEq

/-- Python's `$`: at the end, or just before a final `\n` -/
def dollar (s : Bytes) (p : Nat) : Bool :=
  p == s.length || (p + 1 == s.length && s[p]? == some LF)

/-- leftmost match from `i`; at each position the first alternative is tried first, then the
second one greedily (`\r\n\r`, `\r\n`, `\r`).  `rest = s.drop i`. -/
def endHeadersGo (s : Bytes) : Nat → Bytes → EndSearch
  | _, [] => .none
  | i, c :: rest =>
    if c = CR then
      if CRLFx2.isPrefixOf (c :: rest) then .found i
      else if [CR, LF, CR].isPrefixOf (c :: rest) && dollar s (i + 3) then .tail 3
      else if CRLF.isPrefixOf (c :: rest) && dollar s (i + 2) then .tail 2
      else if dollar s (i + 1) then .tail 1
      else endHeadersGo s (i + 1) rest
    else endHeadersGo s (i + 1) rest

def endHeadersSearch (s : Bytes) (base : Nat) : EndSearch := endHeadersGo s base (s.drop base)

/-- `_eat_last_hyphen` -/
def eatLastHyphen (e : Eater) (chunk : Bytes) (base : Nat) : Except Err (Eater × Option Int) :=
  match chunk[base]? with
  | none => .ok (e, none)
  | some c =>
    if c = HYPHEN then .ok ({ e with stopped := true }, some ((base + 1 : Nat) : Int))
    else .error .unexpectedBodyEnd

/-- `_eat_lf` -/
def eatLf (e : Eater) (chunk : Bytes) (base : Nat) : Except Err (Eater × Option Int) :=
  match chunk[base]? with
  | none => .ok (e, none)
  | some c =>
    if c = LF then .ok (e, some ((base + 1 : Nat) : Int))
    else .error .malformedHeaders

/-- `_eat_first_crlf_or_last_hyphens` -/
def eatFirst (e : Eater) (chunk : Bytes) (base : Nat) : Except Err (Eater × Option Int) :=
  let cs := slice chunk base (base + 2)
  if cs.isEmpty then .ok (e, none)
  else if cs = CRLF then .ok (e, some ((base + 2 : Nat) : Int))
  else if cs.length = 1 then
    -- self.eat_meth = self._meth_map.get(chunk_start); if it is None: raise
    if cs = [CR] then .ok ({ e with eatMeth := .lf }, none)
    else if cs = [HYPHEN] then .ok ({ e with eatMeth := .lastHyphen }, none)
    else .error .malformedHeaders
  else if cs = HYPHENx2 then .ok ({ e with stopped := true }, some ((base + 2 : Nat) : Int))
  else .ok (e, none)      -- two other bytes: `self.eat_meth` is not None, falls through

/-- `_eat_headers`; note `chunk[base:expected_len]` (not `base + expected_len`) -/
def eatHeaders (e : Eater) (chunk : Bytes) (base : Nat) : Except Err (Eater × Option Int) :=
  let search (e : Eater) : Except Err (Eater × Option Int) :=
    match endHeadersSearch chunk base with
    | .none => .ok (e, none)
    | .found p => .ok (e, some (p : Int))
    | .tail n => .ok ({ e with headersEndExpected := some (CRLFx2.drop n) }, none)
  match e.headersEndExpected with
  | none => search e
  | some expected =>
    let cs := slice chunk base expected.length
    if cs = expected then
      .ok ({ e with headersEndExpected := none },
           some (((base + expected.length : Nat) : Int) - 4))
    else if cs.isEmpty then .ok (e, none)
    else if cs.length < expected.length ∧ startsWith expected cs then
      .ok ({ e with headersEndExpected := some (expected.drop cs.length) }, none)
    else if expected = [LF] then .error .malformedHeaders
    else if expected.length < 2 then .error .assertionError
    else search { e with headersEndExpected := none }

/-- `HeadersEaeter.eat`: the pre-header method, then (same call) `_eat_headers` -/
def eat (e : Eater) (chunk : Bytes) (base : Nat) : Except Err (Eater × Option Int) :=
  let finish (r : Except Err (Eater × Option Int)) : Except Err (Eater × Option Int) :=
    match r with
    | .error x => .error x
    | .ok (e', none) => .ok (e', none)
    | .ok (e', some pos) => .ok ({ e' with eatMeth := .firstCrlfOrLastHyphens }, some pos)
  let pre (r : Except Err (Eater × Option Int)) : Except Err (Eater × Option Int) :=
    match r with
    | .error x => .error x
    | .ok (e', none) => .ok (e', none)
    | .ok (e', some pos) =>
      if e'.stopped then .error .stopMarkup
      else finish (eatHeaders { e' with eatMeth := .headers } chunk pos.toNat)
  match e.eatMeth with
  | .headers => finish (eatHeaders e chunk base)
  | .firstCrlfOrLastHyphens => pre (eatFirst e chunk base)
  | .lf => pre (eatLf e chunk base)
  | .lastHyphen => pre (eatLastHyphen e chunk base)
  | .none => .error .typeError

/-! ### BodyMarkuper -/

inductive CurMeth
  | startBoundary | data | headers
  deriving Repr, DecidableEq, Inhabited

inductive SecName
  | data | headers
  deriving Repr, DecidableEq, Inhabited

structure Markup where
  name : SecName
  start : Int
  stop : Int
  deriving Repr, DecidableEq

structure Markuper where
  boundary : Bytes            -- `--` + boundary
  token : Bytes               -- CRLF + `--` + boundary
  trest : Option Bytes := none
  abspos : Int := 0
  absStartSection : Int := 0
  eater : Eater := {}
  curMeth : CurMeth := .startBoundary
  stopped : Bool := false
  deriving Repr, DecidableEq

/-- `BodyMarkuper.__init__` -/
def Markuper.init (boundary : Bytes) : Except Err Markuper :=
  if CR ∈ boundary then .error .invalidBoundaryError
  else .ok { boundary := HYPHENx2 ++ boundary, token := CRLF ++ (HYPHENx2 ++ boundary) }

def Markuper.eatDataM (mk : Markuper) (chunk : Bytes) (base : Nat) :
    Except Err (Markuper × Option Int) :=
  match eatData mk.token chunk base mk.trest with
  | .error e => .error e
  | .ok o => .ok ({ mk with trest := o.trest }, o.res)

/-- `_eat_start_boundary` -/
def Markuper.eatStartBoundary (mk : Markuper) (chunk : Bytes) (base : Nat) :
    Except Err (Markuper × Option Int) :=
  match mk.trest with
  | some _ => mk.eatDataM chunk base
  | none =>
    match chunk[base]? with
    | none => .ok (mk, none)
    | some c =>
      if c = CR then mk.eatDataM chunk base
      else if startsWith chunk mk.boundary then .ok (mk, some ((base : Int) - 2))
      else if [c] ≠ mk.boundary.take 1 then .error .invalidBoundaryError
      else { mk with trest := some mk.boundary }.eatDataM chunk base

def Markuper.call (mk : Markuper) (cur : CurMeth) (chunk : Bytes) (base : Nat) :
    Except Err (Markuper × Option Int) :=
  match cur with
  | .startBoundary => mk.eatStartBoundary chunk base
  | .data => mk.eatDataM chunk base
  | .headers =>
    match eat mk.eater chunk base with
    | .error e => .error e
    | .ok (e', r) => .ok ({ mk with eater := e' }, r)

/-- what one `iter_markup(chunk)` run does: new object state, the sections yielded (in order),
the exception that ended it (if any) -/
structure IterOut where
  mkr : Markuper
  out : List Markup
  exc : Option Err
  deriving Repr, DecidableEq

/-- the `while True` loop of `iter_markup`.  `cur`, `ass` (= `abs_start_section`) and `sns`
(= `start_next_sec`) are the loop's local variables; `acc` the sections yielded so far. The first
argument bounds the rounds (never reached: `parseChunks_total`, `Props.C06.markup_total`). -/
def iterLoop (chunk : Bytes) : Nat → Markuper → CurMeth → Int → Nat → List Markup → IterOut
  | 0, mk, _, _, _, acc => ⟨mk, acc, some .runtimeError⟩
  | fuel + 1, mk, cur, ass, sns, acc =>
    match mk.call cur chunk sns with
    | .error .stopMarkup => ⟨{ mk with stopped := true }, acc, none⟩
    | .error e => ⟨mk, acc, some e⟩
    | .ok (mk', none) =>
      ⟨{ mk' with abspos := mk'.abspos + chunk.length, curMeth := cur, absStartSection := ass },
       acc, none⟩
    | .ok (mk', some endSec) =>
      let tlen : Int := mk'.token.length
      match cur with
      | .headers =>
        iterLoop chunk fuel mk' .data (mk'.abspos + (endSec + 4)) (endSec + 4).toNat
          (acc ++ [⟨.headers, ass, mk'.abspos + endSec⟩])
      | .data =>
        iterLoop chunk fuel mk' .headers (mk'.abspos + (endSec + tlen) + 2) (endSec + tlen).toNat
          (acc ++ [⟨.data, ass, mk'.abspos + endSec⟩])
      | .startBoundary =>
        -- a body that starts with the hyphens has its first (empty) section end at -2
        if mk'.abspos + endSec < 0 ∧ mk'.abspos + endSec ≠ -2 then ⟨mk', acc, some .assertionError⟩
        else
          let endSec' : Int := if mk'.abspos + endSec < 0 then -mk'.abspos else endSec
          iterLoop chunk fuel mk' .headers (mk'.abspos + (endSec + tlen) + 2) (endSec + tlen).toNat
            (acc ++ [⟨.data, ass, mk'.abspos + endSec'⟩])

/-- `BodyMarkuper.iter_markup(chunk)` consumed to the end -/
def Markuper.iterMarkup (mk : Markuper) (chunk : Bytes) : IterOut :=
  if mk.stopped then ⟨mk, [], some .stopMarkup⟩
  else iterLoop chunk (chunk.length + 2) mk mk.curMeth mk.absStartSection 0 []

/-! ### MultipartMarkup -/

structure St where
  markuper : Markuper
  markups : List Markup := []
  error : Option Err := none
  deriving Repr, DecidableEq

/-- `MultipartMarkup.__init__` (for a `bytes` boundary) -/
def St.init (boundary : Bytes) : Except Err St :=
  match Markuper.init boundary with
  | .error e => .error e
  | .ok m => .ok { markuper := m }

/-- `MultipartMarkup.parse(chunk)`: nothing after an error or after the closing delimiter;
sections yielded before an exception stay in `markups`, the exception is stored -/
def parse (s : St) (chunk : Bytes) : St :=
  if s.error.isSome || s.markuper.stopped then s
  else
    let r := s.markuper.iterMarkup chunk
    { markuper := r.mkr, markups := s.markups ++ r.out,
      error := match r.exc with | some e => some e | none => s.error }

/-- `feed`: the loop of `_body_read` — every part read is passed to `markup.parse` in order -/
def feed (s : St) (chunks : List Bytes) : St := chunks.foldl parse s

/-- what a client of the markup can see -/
structure Obs where
  markups : List Markup
  error : Option Err
  stopped : Bool
  deriving Repr, DecidableEq

def St.obs (s : St) : Obs := ⟨s.markups, s.error, s.markuper.stopped⟩

/-- parse a body delivered as the given chunks from a fresh `MultipartMarkup(boundary)` -/
def parseChunks (boundary : Bytes) (chunks : List Bytes) : Except Err Obs :=
  match St.init boundary with
  | .error e => .error e
  | .ok s => .ok (feed s chunks).obs

end Ombott.Multipart
