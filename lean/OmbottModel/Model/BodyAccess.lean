import OmbottModel.Py
import OmbottModel.Model.Multipart
import OmbottModel.Model.Forms
/-!
Model of the body accessors of a request (C12): `BodyMixin.body / _body / _get_body_string / json /
POST / forms / files`, `BodyMixin._raise_parsing_error`, `BaseRequest._raise` over the error map
and the top of `Ombott._handle` (a framework response keeps its status, every other exception is
a 500).

**Input of this model.**  The two body readers (`_iter_body`, `_iter_chunked`, the size limit and
the spooling of `_body_read`) are modelled in `Model/Body.lean` / `Model/Chunked.lean` (C04, C05,
C13).  Here their result is an input: `Req.framing` is either the list of parts the reader yielded
(each part is also what `MultipartMarkup.parse` was fed with, in this order; the buffered body is
their concatenation) or the class of the `RequestError` it raised.  `Req.contentLength` is the
value of the `content_length` property (`int(CONTENT_LENGTH or -1)`), which `_get_body_string`
reads again.  Nothing relates the two: the theorems hold for every combination.

`json.loads` is a parameter (`JLoads`); `parse_qsl` (C18) is total and its result is not part of
the observable of C12, so the urlencoded branch returns the text handed to it.
-/
namespace Ombott.BodyAccess
open Py Ombott.Multipart Ombott.Forms

/-- the `RequestError` classes the body readers raise -/
inductive FrErr
  | parsing      -- `BodyParsingError` (broken chunked framing)
  | size         -- `BodySizeError` (`max_body_size`)
  deriving Repr, DecidableEq

def FrErr.toErr : FrErr → Err
  | .parsing => .bodyParsingError
  | .size => .bodySizeError

structure Req where
  contentType : Option Str                    -- environ `CONTENT_TYPE`
  contentLength : Int                         -- `content_length`
  framing : Except FrErr (List Bytes)
  deriving Repr

structure Cfg where
  maxMemfile : Nat                            -- `max_memfile_size`
  errorsMap : List (String × Nat)             -- `errors_map`: class name → status of the mapped HTTPError
  deriving Repr

/-! ### `BaseRequest._raise` -/

def mapGet (m : List (String × Nat)) (cls : String) : Option Nat := (m.find? (·.1 == cls)).map (·.2)

/-- `_raise(err, except_class)`: the mapped `HTTPError` of the error's own class, else of
`except_class`, else the error itself.  (The lookup is by exact class, not `isinstance`.) -/
def raiseErr (m : List (String × Nat)) (e : Err) (exceptCls : Option Err) : Exc :=
  match mapGet m e.name with
  | some st => .py (.http st)
  | none =>
    match exceptCls.bind (fun c => mapGet m c.name) with
    | some st => .py (.http st)
    | none => .py e

/-- `isinstance(err, RequestError)` for the classes of the model -/
def isRequestError : Exc → Bool
  | .py .requestError | .py .bodyParsingError | .py .bodySizeError | .py .invalidBoundaryError
  | .py .stopMarkup | .py .malformedHeaders | .py .unexpectedBodyEnd => true
  | _ => false

/-- `_raise_parsing_error(err)`: anything that is not a `RequestError` is wrapped in a
`BodyParsingError` -/
def raiseParsingError (m : List (String × Nat)) (e : Exc) : Exc :=
  match e with
  | .py pe => if isRequestError e then raiseErr m pe (some .requestError)
              else raiseErr m .bodyParsingError (some .requestError)
  | .other _ => raiseErr m .bodyParsingError (some .requestError)

/-- `except (RequestError, ValueError, KeyError, RuntimeError)` around `_collect_multipart`
(`UnicodeDecodeError` is a `ValueError`) -/
def caughtByPost (e : Exc) : Bool :=
  isRequestError e || e == .py .valueError || e == .py .unicodeError || e == .py .keyError ||
  e == .py .runtimeError

/-! ### `_body` -/

/-- `_body`: the buffered body and the markup object (`None` when the content type carries no
boundary).  `MultipartMarkup(boundary)` (`InvalidBoundaryError` for a boundary with a CR) and the
reader run inside the `try`: a `RequestError` is translated by `_raise`, and (it is remembered in
the environ) every later access raises the same. -/
def bodyOf (cfg : Cfg) (req : Req) : Except Exc (Bytes × Option St) :=
  let markup : Except Exc (Option St) :=
    match boundaryOf (req.contentType.getD []) with
    | none => .ok none
    | some b =>
      match St.init (utf8Encode b) with
      | .error e => .error (raiseErr cfg.errorsMap e (some .requestError))
      | .ok s => .ok (some s)
  match markup with
  | .error e => .error e
  | .ok m =>
    match req.framing with
    | .error fe => .error (raiseErr cfg.errorsMap fe.toErr (some .requestError))
    | .ok chunks => .ok (chunks.flatten, m.map (feed · chunks))

/-- `_body_read` switches to a temporary file once more than `buff_size` bytes were written -/
def spooled (cfg : Cfg) (body : Bytes) : Bool := body.length > cfg.maxMemfile

/-- how many bytes `_get_body_string` asks for: `content_length`, or `max + 1` when it is negative -/
def bodyStringLen (cfg : Cfg) (cl : Int) : Nat :=
  (if cl < 0 then (cfg.maxMemfile : Int) + 1 else cl).toNat

/-- `_get_body_string` -/
def getBodyString (cfg : Cfg) (req : Req) : Except Exc Bytes :=
  match bodyOf cfg req with                       -- `self._body.seek(0)`
  | .error e => .error e
  | .ok (body, _) =>
    if req.contentLength > (cfg.maxMemfile : Int) then
      .error (raiseErr cfg.errorsMap .bodySizeError (some .requestError))
    else if (body.take (bodyStringLen cfg req.contentLength)).length > cfg.maxMemfile then
      .error (raiseErr cfg.errorsMap .bodySizeError (some .requestError))
    else .ok (body.take (bodyStringLen cfg req.contentLength))

/-! ### `json` -/

/-- what `json.loads` did: `null`, an object, another value, or an exception -/
inductive JRes
  | null | object | other
  | raises (e : Exc)
  deriving Repr, DecidableEq

abbrev JLoads := Bytes → JRes

/-- a decoded JSON value, as far as the code looks at it -/
inductive JVal
  | null | object | other
  deriving Repr, DecidableEq

def lowerCT (req : Req) : Str := lower (req.contentType.getD [])

/-- `self.ctype[0]`: `content_type.split(';')[0].strip()` -/
def ctype0 (req : Req) : Str := strip ((splitOn1 ';' (lowerCT req)).headD [])

/-- the `json` property -/
def jsonOf (cfg : Cfg) (jl : JLoads) (req : Req) : Except Exc JVal :=
  if ctype0 req = cs!"application/json" then
    match getBodyString cfg req with
    | .error e => .error e
    | .ok b =>
      if b.isEmpty then .ok .null
      else
        match jl b with
        | .null => .ok .null
        | .object => .ok .object
        | .other => .ok .other
        | .raises e =>
          -- `except (ValueError, RecursionError)` (`JSONDecodeError`, `UnicodeDecodeError` are `ValueError`s)
          if e = .py .valueError ∨ e = .py .unicodeError ∨ e = .other "RecursionError" then
            .error (raiseErr cfg.errorsMap .bodyParsingError (some .requestError))
          else .error e
  else .ok .null

/-! ### `POST`, `forms`, `files` -/

/-- a `FormsDict` as a handler sees it -/
inductive Dict
  | fields (d : FDict)                  -- multipart: keys in insertion order
  | urlencoded (text : Str)             -- filled by `parse_qsl` from this (Latin-1) text
  | jsonObject                          -- filled by `post.update(data)`
  | empty
  deriving Repr, DecidableEq

/-- the local `files` / `forms` mappings of one run of the `POST` getter when it ends, and how it
ends.  They are published in the environ (`ombott.request.files`, `ombott.request.forms`) only
when the whole body was processed (`runPost`): a failed run leaves nothing behind. -/
structure PostRun where
  files : Dict
  forms : Option Dict
  result : Except Exc Dict
  deriving Repr

def postOf (cfg : Cfg) (jl : JLoads) (req : Req) : PostRun :=
  let ct := lowerCT req
  let mapped (e : Err) : Exc := raiseErr cfg.errorsMap e (some .requestError)
  if ¬ startsWithS ct cs!"multipart/" then
    if startsWithS ct cs!"application/json" then
      match jsonOf cfg jl req with
      | .error e => ⟨.empty, none, .error e⟩
      | .ok .null => ⟨.empty, some .empty, .ok .empty⟩
      | .ok .object => ⟨.empty, some .jsonObject, .ok .jsonObject⟩
      | .ok .other => ⟨.empty, none, .error (mapped .bodyParsingError)⟩       -- `JSON object expected`
    else
      match getBodyString cfg req with
      | .error e => ⟨.empty, none, .error e⟩
      | .ok b =>
        let text : Str := b.map fun x => Char.ofNat x.toNat               -- `touni(…, 'latin1')`
        ⟨.empty, some (.urlencoded text), .ok (.urlencoded text)⟩
  else
    match bodyOf cfg req with
    | .error e => ⟨.fields [], some (.fields []), .error e⟩
    | .ok (_, none) => ⟨.fields [], some (.fields []), .error (mapped .bodyParsingError)⟩   -- boundary not found
    | .ok (body, some st) =>
      match st.error with
      | some e => ⟨.fields [], some (.fields []), .error (raiseParsingError cfg.errorsMap (.py e))⟩
      | none =>
        let y := iterItems body (spooled cfg body) st.markups cfg.maxMemfile
        let c := collect y.items
        let files := Dict.fields c.files
        let forms := Dict.fields c.forms
        match y.exc with
        | none => ⟨files, some forms, .ok (.fields c.post)⟩
        | some e =>
          ⟨files, some forms,
           .error (if caughtByPost e then raiseParsingError cfg.errorsMap e else e)⟩

/-! ### accessors on one request, with the caches of `cache_in` -/

inductive Accessor
  | body | json | post | forms | files
  deriving Repr, DecidableEq

inductive Val
  | body (b : Bytes)
  | json (j : JVal)
  | dict (d : Dict)
  deriving Repr, DecidableEq

/-- the `ombott.request.*` keys present in the environ -/
structure Cache where
  json : Option JVal := none
  post : Option Dict := none
  forms : Option Dict := none
  files : Option Dict := none
  deriving Repr

/-- run the `POST` getter (it is not cached yet) and record what it stored -/
def runPost (cfg : Cfg) (jl : JLoads) (req : Req) (c : Cache) : Cache × Except Exc Dict :=
  let r := postOf cfg jl req
  let ct := lowerCT req
  -- the JSON branch goes through the `json` property, which caches a successful result
  let jc : Option JVal :=
    if ¬ startsWithS ct cs!"multipart/" ∧ startsWithS ct cs!"application/json" then
      match jsonOf cfg jl req with
      | .ok j => some j
      | .error _ => c.json
    else c.json
  match r.result with
  | .ok d =>
    ({ c with json := jc, post := some d, files := some r.files,
              forms := match r.forms with | some f => some f | none => c.forms }, .ok d)
  | .error e => ({ c with json := jc }, .error e)

/-- `self.POST` inside `forms` / `files`: the cached mapping, or a run of the getter -/
def ensurePost (cfg : Cfg) (jl : JLoads) (req : Req) (c : Cache) : Cache × Except Exc Dict :=
  match c.post with
  | some d => (c, .ok d)
  | none => runPost cfg jl req c

/-- `return self.environ['ombott.request.forms']` (resp. `files`) after `self.POST` -/
def readKey (p : Cache × Except Exc Dict) (get : Cache → Option Dict) : Cache × Except Exc Val :=
  match p.2 with
  | .error e => (p.1, .error e)
  | .ok _ =>
    match get p.1 with
    | some d => (p.1, .ok (.dict d))
    | none => (p.1, .error (.py .keyError))

def access (cfg : Cfg) (jl : JLoads) (req : Req) (c : Cache) : Accessor → Cache × Except Exc Val
  | .body =>
    match bodyOf cfg req with
    | .error e => (c, .error e)
    | .ok (b, _) => (c, .ok (.body b))
  | .json =>
    match c.json with
    | some j => (c, .ok (.json j))
    | none =>
      match jsonOf cfg jl req with
      | .error e => (c, .error e)
      | .ok j => ({ c with json := some j }, .ok (.json j))
  | .post =>
    match c.post with
    | some d => (c, .ok (.dict d))
    | none => ((runPost cfg jl req c).1, (runPost cfg jl req c).2.map Val.dict)
  | .forms =>
    match c.forms with
    | some d => (c, .ok (.dict d))
    | none => readKey (ensurePost cfg jl req c) (·.forms)
  | .files =>
    match c.files with
    | some d => (c, .ok (.dict d))
    | none => readKey (ensurePost cfg jl req c) (·.files)

/-- a handler that reads the accessors in this order, catching what each raises -/
def accessSeq (cfg : Cfg) (jl : JLoads) (req : Req) : Cache → List Accessor → List (Except Exc Val)
  | _, [] => []
  | c, a :: as => (access cfg jl req c a).2 :: accessSeq cfg jl req (access cfg jl req c a).1 as

/-- the status `Ombott._handle` answers with when the handler lets the outcome of an access
through: a framework response keeps its status, any other exception is the catch-all 500 (with a
traceback on `wsgi.errors`) -/
def statusOf : Except Exc Val → Nat
  | .ok _ => 200
  | .error (.py (.http st)) => st
  | .error _ => 500

end Ombott.BodyAccess
