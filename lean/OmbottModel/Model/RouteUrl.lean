import OmbottModel.Py
import OmbottModel.Model.Router
import OmbottModel.Model.RouterSpec
import OmbottModel.Gen.Routeurl
import OmbottModel.Py.IntLim
/-!
Executable model of URL building (`ombott/router/radirouter.py: Route.url`,
`ombott/router/filter_factory.py`: the formatters of the `int`/`float` filters) and the small
rule-by-rule matcher the C19 theorems refer to.

Sections
  1. the `int` filter and its formatter, concretely (mask `-?\d+`, converter `int`,
     formatter `str(int(x))`)
  2. output formatters and the sanity check of `url`
  3. `Route.url`: the marker-by-marker loop with its slice bookkeeping, as written
  4. Spec: `urlSpec` (what `url` amounts to: literal characters copied, one formatted value per
     wildcard); the matcher is `Router.matchRule` of `Model/RouterSpec.lean`

Regular expressions stay in Python: every filter other than `int` is a parameter
(`FilterEnv`: the handler `f_in`; `FormatEnv`: the formatter `f_out`).
-/
namespace Ombott.RouteUrl
open Py Ombott.Router

/-! ## 1. the `int` filter -/

/-- value of a character of the `\d` class of `re` (`Gen.digitZeros`: every decimal digit block
of the running interpreter), as `int()` reads it -/
def decDigit? (c : Char) : Option Nat :=
  (Gen.digitZeros.find? fun z => z ≤ c.toNat && c.toNat < z + 10).map fun z => c.toNat - z

def isDecDigit (c : Char) : Bool := (decDigit? c).isSome

/-- `int(ds)` for a run of `\d` characters -/
def digitsValue (ds : Str) : Nat := ds.foldl (fun acc c => acc * 10 + (decDigit? c).getD 0) 0

/-- how the harness ships an `int` value: `'%s:%r' % (type(v).__name__, v)` -/
def intVal (z : Int) : Val := .conv ("int:".toList ++ intStr z)

/-- the handler `make_filter('int', …)` builds: `tmp = re.compile(r'-?\d+').match(param)`;
no match ⇒ `(None, 0, None)`; `try: value = int(tmp.group())`, `except ValueError` — the matched run
has more digits than the interpreter converts (`Gen.intMaxStrDigits`; every `\d` character counts,
leading zeros included, the sign does not) ⇒ `(None, 0, None)` as well; else
`(value, tmp.end(), None)` -/
def intFilter (s : Str) : Option FilterRes :=
  let neg := s.head? == some '-'
  let ds := (if neg then s.drop 1 else s).takeWhile isDecDigit
  if ds.isEmpty then none
  else if Gen.intMaxStrDigits < ds.length then none
  else some ⟨intVal (if neg then -(digitsValue ds : Int) else (digitsValue ds : Int)),
             ds.length + (if neg then 1 else 0), none⟩

/-- filter name inside a handler identity `name(args)` -/
def fidName (f : Fid) : Str := f.takeWhile (· != '(')

def isIntFid (f : Fid) : Bool := fidName f == "int".toList

/-- the filter environment with the `int` handler computed by the model instead of shipped -/
def withInt (env : FilterEnv) : FilterEnv := fun f s => if isIntFid f then intFilter s else env f s

/-- `lambda x: str(int(x))` on a value that is an `int` (as shipped: `int:<repr>`) of at most
`Gen.intMaxStrDigits` digits; `str` of a longer one raises `ValueError` (`none`: the real formatter's
answer is looked up in `FormatEnv`).  Values obtained by matching are never that long
(`intFilter_spec_lim`). -/
def intFmt : Val → Option Str
  | .conv r =>
    if "int:".toList.isPrefixOf r then
      (if Gen.intMaxStrDigits < intDigitCount (r.drop 4) then none else some (r.drop 4))
    else none
  | .str _ => none

/-! ## 2. output formatters, sanity check -/

/-- `f_out(prt)` for the cases the model does not compute itself (the `float` formatter; the
`int` formatter on something that is not an `int`): the text, or the exception's class name -/
abbrev FormatEnv := Fid → Val → Except ErrName Str

/-- `make_filter(filter, args)[1] is not None` (generated from the live `FilterFactory`) -/
def hasFormatter (f : Fid) : Bool :=
  Gen.filterHasFormatter.any fun (n, b) => b && n.toList == fidName f

/-- `if f_out: prt = f_out(prt)` -/
def fmtOut (fenv : FormatEnv) (f : Option Fid) (v : Val) : Except ErrName Val :=
  match f with
  | none => pure v
  | some g =>
    if !hasFormatter g then pure v
    else if isIntFid g then
      match intFmt v with
      | some s => pure (.str s)
      | none => (fenv g v).map .str
    else (fenv g v).map .str

/-- the sanity check of `url`:
`value, pos, _ = f_in(prt + nxt); assert value is not None and pos == len(prt)` where `nxt` is the
literal text of the rule up to the next wildcard: the handler must accept the formatted value
where it will stand and consume exactly the value (which may be empty).  A value that is not a
`str` makes `prt + nxt` raise. -/
def sanity (env : FilterEnv) (f : Option Fid) (prt : Val) (nxt : Str) : Except ErrName Unit :=
  match f with
  | none => pure ()
  | some g =>
    match prt with
    | .conv _ => throw "TypeError"
    | .str s =>
      match env g (s ++ nxt) with
      | some r => if r.n == s.length then pure () else throw "AssertionError"
      | none => throw "AssertionError"

/-- format, then check: what one wildcard contributes to the URL -/
def piece (env : FilterEnv) (fenv : FormatEnv) (f : Option Fid) (nxt : Str) (v : Val) : Except ErrName Val := do
  let prt ← fmtOut fenv f v
  sanity env f prt nxt
  pure prt

/-! ## 3. `Route.url` -/

/-- the marker `url` looks for in `pattern_out` (a literal `'\r'` in the source, which is also
`RadiDict.param_token`; `Props/C19.lean` checks the two agree on the generated table) -/
def marker : Char := '\r'

/-- local variables of the loop of `url` -/
structure UrlSt where
  ret : List Val := []
  pidx : Nat := 0
  argsIdx : Nat := 0
  cidx : Nat := 0
  clen : Nat := 0
  endv : Nat := 0
  deriving Repr

/-- `pattern_out[a:b]` -/
def sliceVal (patOut : Str) (a b : Nat) : Val := .str (slice patOut a b)

/-- arguments of `url(*args, **kw)` together with what `Route` holds -/
structure UrlArgs where
  patOut : Str                      -- `pattern_out`
  params : List Str
  filters : List (Option Fid)       -- `filters` and `filters_out` (same index, same filter)
  args : List Val
  kw : List (Str × Val)

def isAnon (pname : Str) : Bool := Gen.anonPrefix.toList.isPrefixOf pname

/-- the part of the loop body that picks the argument and turns it into text:
`pname = params[pidx]; f_out = filters_out[pidx]; f_in = filters[pidx]`; positional for an
anonymous wildcard (`args[args_idx]; args_idx += 1`), `kw[pname]` otherwise; format; check in
front of `nxt`.  Returns the piece and the new `args_idx`. -/
def pickPiece (env : FilterEnv) (fenv : FormatEnv) (a : UrlArgs) (pidx argsIdx : Nat) (nxt : Str) :
    Except ErrName (Val × Nat) := do
  let pname ← match a.params[pidx]? with
    | some n => pure n
    | none => throw "IndexError"
  let f ← match a.filters[pidx]? with
    | some f => pure f
    | none => throw "IndexError"
  let (v, k) ← (if isAnon pname then
      match a.args[argsIdx]? with
      | some v => pure (v, argsIdx + 1)
      | none => throw "IndexError"
    else
      match dictGet a.kw pname with
      | some v => pure (v, argsIdx)
      | none => throw "KeyError" : Except ErrName (Val × Nat))
  let prt ← fmtOut fenv f v
  sanity env f prt nxt
  pure (prt, k)

/-- `end = cidx; if clen: end += clen; clen = 0; ret.append(pattern_out[cidx:end])`, then
`cidx = end + 1` -/
def flushRun (a : UrlArgs) (st : UrlSt) : UrlSt :=
  let st : UrlSt :=
    if st.clen != 0 then
      { st with endv := st.cidx + st.clen, clen := 0,
                ret := st.ret ++ [sliceVal a.patOut st.cidx (st.cidx + st.clen)] }
    else { st with endv := st.cidx }
  { st with cidx := st.endv + 1 }

/-- `nxt_end = pattern_out.find('\r', cidx); nxt = pattern_out[cidx:nxt_end]` (to the end when
there is no further marker) -/
def nextRun (a : UrlArgs) (cidx : Nat) : Str := (a.patOut.drop cidx).takeWhile (· != marker)

/-- loop body for a marker character -/
def urlMarker (env : FilterEnv) (fenv : FormatEnv) (a : UrlArgs) (st : UrlSt) : Except ErrName UrlSt :=
  let st := flushRun a st
  match pickPiece env fenv a st.pidx st.argsIdx (nextRun a st.cidx) with
  | .error e => .error e
  | .ok (prt, k) => .ok { st with pidx := st.pidx + 1, argsIdx := k, ret := st.ret ++ [prt] }

/-- `for c in pattern_out:` -/
def urlLoop (env : FilterEnv) (fenv : FormatEnv) (a : UrlArgs) : Str → UrlSt → Except ErrName UrlSt
  | [], st => .ok st
  | c :: cs, st =>
    if c != marker then urlLoop env fenv a cs { st with clen := st.clen + 1 }
    else
      match urlMarker env fenv a st with
      | .error e => .error e
      | .ok st' => urlLoop env fenv a cs st'

/-- `''.join(ret)`: every piece must be a `str` -/
def joinVals : List Val → Except ErrName Str
  | [] => pure []
  | .str s :: r => (s ++ ·) <$> joinVals r
  | .conv _ :: _ => throw "TypeError"

/-- after the loop: `if clen: end = cidx + clen; ret.append(pattern_out[cidx:end])`, then
`return ''.join(ret)` -/
def urlFinish (a : UrlArgs) (st : UrlSt) : Except ErrName Str :=
  joinVals (if st.clen != 0 then st.ret ++ [sliceVal a.patOut st.cidx (st.cidx + st.clen)] else st.ret)

/-- `Route.url(*args, **kw)` -/
def urlOf (env : FilterEnv) (fenv : FormatEnv) (a : UrlArgs) : Except ErrName Str :=
  -- if not params: return self.pattern_out
  if a.params.isEmpty then .ok a.patOut else
  match urlLoop env fenv a a.patOut {} with
  | .error e => .error e
  | .ok st => urlFinish a st

/-- the filters of a pattern in marker order (`Route.filters`) -/
def tokFilters : List Sym → List (Option Fid)
  | [] => []
  | .lit _ :: p => tokFilters p
  | .tok f :: p => f :: tokFilters p

def urlArgsOf (r : Route) (args : List Val) (kw : List (Str × Val)) : UrlArgs :=
  { patOut := patStr r.symsOut, params := r.params, filters := tokFilters r.syms, args := args, kw := kw }

/-- `Route.url(*args, **kw)` on a route object -/
def routeUrl (env : FilterEnv) (fenv : FormatEnv) (r : Route) (args : List Val) (kw : List (Str × Val)) :
    Except ErrName Str :=
  urlOf env fenv (urlArgsOf r args kw)

/-- the call the property describes: matched values handed back, anonymous ones positionally
(in order), the others by name -/
def splitArgs : List Str → List Val → List Val × List (Str × Val)
  | n :: ns, v :: vs =>
    let (a, k) := splitArgs ns vs
    if isAnon n then (v :: a, k) else (a, (n, v) :: k)
  | _, _ => ([], [])

/-! ## 4. Spec -/

/- The rule-by-rule matcher the theorems refer to is `Ombott.Router.matchRule` of
`Model/RouterSpec.lean` (C01's specification: left to right, literal text must be next, a
wildcard is tried only if something is left and takes what its filter says, once; success iff
nothing is left; `rex` selectors are outside it). -/

/-- what `url` amounts to: the pieces of the URL in order, one per literal character and one
formatted value per wildcard (values consumed left to right), sanity-checked in front of the
literal run that follows it -/
def urlSpec (env : FilterEnv) (fenv : FormatEnv) : List Sym → List Val → Except ErrName (List Val)
  | [], _ => pure []
  | .lit c :: p, vs => (Val.str [c] :: ·) <$> urlSpec env fenv p vs
  | .tok _ :: _, [] => throw "IndexError"
  | .tok f :: p, v :: vs => do
    let prt ← piece env fenv f (litRun p) v
    let rest ← urlSpec env fenv p vs
    pure (prt :: rest)

/-- the built URL according to the spec -/
def buildUrl (env : FilterEnv) (fenv : FormatEnv) (p : List Sym) (vs : List Val) : Except ErrName Str :=
  urlSpec env fenv p vs >>= joinVals

/-- literal runs copied, the `i`-th wildcard replaced by the `i`-th text -/
def interleave : List Sym → List Str → Str
  | [], _ => []
  | .lit c :: p, ts => c :: interleave p ts
  | .tok _ :: p, t :: ts => t ++ interleave p ts
  | .tok _ :: p, [] => interleave p []

def tokCount : List Sym → Nat
  | [] => 0
  | .lit _ :: p => tokCount p
  | .tok _ :: p => tokCount p + 1

/-- follow-up context of every wildcard: its filter and the literal run after it -/
def tokCtx : List Sym → List (Option Fid × Str)
  | [] => []
  | .lit _ :: p => tokCtx p
  | .tok f :: p => (f, litRun p) :: tokCtx p

/-! ### the domain the C19 theorems speak about (decidable; the driver evaluates it on every
rule it is given and reports it) -/

/-- no literal character of the pattern is the marker -/
def noMarkerLitB (q : List Sym) : Bool :=
  q.all fun | .lit c => c != marker | .tok _ => true

def nodupB : List Str → Bool
  | [] => true
  | a :: l => !l.contains a && nodupB l

/-- what `inDomain` of the router model guarantees for a parsed rule, spelled out: literal text
free of the marker, one distinct name per wildcard, and (`selFree`) no `rex` selector text in
the pattern -/
def urlDomain (r : Route) : Bool :=
  noMarkerLitB r.symsOut && nodupB r.params && r.params.length == tokCount r.symsOut &&
    tokFilters r.symsOut == tokFilters r.syms

def selFree (r : Route) : Bool := r.symsOut == r.syms

end Ombott.RouteUrl
