import OmbottModel.Py
/-
The input-stream model shared by C04, C05, C13, C17: a byte string together with a read
schedule.  `read n` returns at most `n` bytes; the next schedule entry `k` caps the read at
`max k 1` bytes (a short read never returns nothing unless the data is exhausted); an exhausted
schedule means full reads.  Quantifying a theorem over all schedules quantifies over every
read-fragmentation pattern, short reads and early EOF (= short data) included.
-/
namespace Py

structure Stream where
  data : Bytes
  sched : List Nat
  deriving Repr

def Stream.read (s : Stream) (n : Nat) : Bytes × Stream :=
  let k := match s.sched with
    | [] => n
    | x :: _ => min n (max x 1)
  (s.data.take k, { data := s.data.drop k, sched := s.sched.tail })

theorem Stream.read_length_le (s : Stream) (n : Nat) : (s.read n).1.length ≤ n := by
  unfold Stream.read
  cases s.sched <;> simp [List.length_take] <;> omega

theorem Stream.read_append (s : Stream) (n : Nat) : (s.read n).1 ++ (s.read n).2.data = s.data := by
  unfold Stream.read; simp

theorem Stream.read_nil_iff (s : Stream) (n : Nat) (hn : 0 < n) :
    (s.read n).1 = [] ↔ s.data = [] := by
  unfold Stream.read
  cases hs : s.sched with
  | nil => simp [List.take_eq_nil_iff]; omega
  | cons x xs =>
    simp [List.take_eq_nil_iff]
    omega

end Py
