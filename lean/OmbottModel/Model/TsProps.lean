import OmbottModel.Py
import OmbottModel.Gen.Tsprops
/-!
# `ts_props`, `HeaderDict._ts` and the objects behind `app.request` / `app.response`

Mirrors `ombott/common_helpers.py` (`ts_props`: `init_wrapper`, `make_prop`; `HeaderDict._ts`).

```python
def ts_props(*props, store_name=None):
    def wrapper(cls):
        cls_init = cls.__init__
        def init_wrapper(self, *a, **kw):
            local_store = getattr(self, store_name, None)           # initHead
            if local_store is None:                                 #   "
                local_store = threading.local()                     #   "
                setattr(self, store_name, local_store)              #   "
            [setattr(local_store, k, None) for k in props]          # initNone, once per k
            cls_init(self, *a, **kw)
        def make_prop(k):
            def fget(s):    return getattr(getattr(s, store_name), k)       # fget
            def fset(s, v): return setattr(getattr(s, store_name), k, v)    # fset
            def fdel(s):    return delattr(getattr(s, store_name), k)       # fdel
```

A `threading.local` is `ThreadId → Attr → Option Val` (`none` = attribute not set in that thread's
view ⇒ `AttributeError`).  Every instance of a decorated class has at most one store (created by
its first `__init__`), so the store is named by its instance and the slot `_ts_props` is the
boolean `hasStore`.

Two variants of the decorator are modelled:

* `Variant.perInstance` — the code as it is now (commit 79b4118): the accessors go through
  `getattr(s, store_name)`;
* `Variant.shared` (`tsPropsShared`) — the code before that commit: `local_store` is a `nonlocal`
  closure variable, one per decorated **class**, re-pointed by every `__init__` and read by the
  accessors of every instance.

The machine is a small register VM: an atomic step (`Access`) is one attribute access on
`app.request` / `app.response` (or on a `Request.copy()`), one access of `HeaderDict._ts.dict`, or
one operation on a `dict` the thread holds in a local variable.  References to dicts live in
per-(thread, application) registers (Python locals) and never reach the program as data, so a
program cannot forge a reference.  Objects are named `(thread, app, serial)` after the context that
created them: the only property of CPython's allocator that is used is that a new object differs
from all others.
-/
namespace Ombott.TsProps
open Py

abbrev ThreadId := Nat
abbrev AppId := Nat
abbrev Attr := String
abbrev Reg := Nat

/-- plain Python values that programs see -/
inductive PVal
  | none
  | bool (b : Bool)
  | int (i : Int)
  | str (s : String)
  | strs (l : List String)      -- a header with several values
  deriving DecidableEq, Repr, Inhabited

/-- a `dict` with string keys, insertion ordered -/
abbrev Dict := List (String × PVal)

/-- name of a heap-allocated dict: the (thread, app) context that created it and a serial -/
structure Oid where
  thread : ThreadId
  app : AppId
  serial : Nat
  deriving DecidableEq, Repr

/-- what an attribute / register can hold -/
inductive Val
  | plain (v : PVal)
  | dict (o : Oid)
  deriving DecidableEq, Repr

/-- the two classes decorated with `ts_props` -/
inductive Cls
  | request | response
  deriving DecidableEq, Repr

/-- instances of the decorated classes: `app.request`, `app.response`, and the `n`-th
`Request.copy()` made by thread `t` inside a handler of `app` -/
inductive Inst
  | req (a : AppId)
  | resp (a : AppId)
  | copy (t : ThreadId) (a : AppId) (n : Nat)
  deriving DecidableEq, Repr

def Inst.cls : Inst → Cls
  | .resp _ => .response
  | _ => .request

def Inst.app : Inst → AppId
  | .req a => a
  | .resp a => a
  | .copy _ a _ => a

/-- how a program designates an object, relative to its (thread, app) context -/
inductive Obj
  | request | response | copy (n : Nat)
  deriving DecidableEq, Repr

def Obj.inst (t : ThreadId) (a : AppId) : Obj → Inst
  | .request => .req a
  | .response => .resp a
  | .copy n => .copy t a n

/-- the attribute lists the decorator was applied with (generated from the live classes) -/
def propsOf : Cls → List Attr
  | .request => Gen.tsRequestProps
  | .response => Gen.tsResponseProps

inductive Variant
  | perInstance     -- current code: `getattr(getattr(s, store_name), k)`
  | shared          -- before 79b4118: `getattr(local_store, k)` with `nonlocal local_store`
  deriving DecidableEq, Repr

/-- the pre-fix decorator -/
abbrev tsPropsShared : Variant := .shared

/-- what an attribute of a shared `HTTPError` object of `errors_map` holds: a plain value or the
items of its header dict -/
inductive SVal
  | val (v : PVal)
  | items (d : Dict)
  deriving DecidableEq, Repr

/-! ## heap -/

structure Heap where
  /-- the stores: per instance, per thread, the attributes set in that thread's view -/
  tls : Inst → ThreadId → Attr → Option Val
  /-- slot `_ts_props` of the instance is set -/
  hasStore : Inst → Bool
  /-- ordinary (not thread-local) slots of an instance: shared by all threads -/
  slots : Inst → Attr → Option Val
  /-- `app.response.headers._ts.dict`, per thread (key `0` for every thread if `_ts` were a plain
  namespace: see `hdKey`) -/
  hd : AppId → ThreadId → Option Val
  dicts : Oid → Option Dict
  next : ThreadId → AppId → Nat
  ncopies : ThreadId → AppId → Nat
  /-- local variables of the (thread, app) context -/
  regs : ThreadId → AppId → Reg → Option Val
  /-- the closure variable `local_store` of `ts_props.wrapper`, one per decorated class
  (`Variant.shared` only); `none` = Python `None` -/
  cell : Cls → Option Inst
  /-- objects shared by ALL applications and threads: the `HTTPError` instances of
  `DefaultConfig.errors_map`, by exception class name, attribute by attribute (`_status_code`,
  `_status_line`, `body`, `_headers`, `_cookies`, `exception`, `traceback`) -/
  errs : String → Attr → Option SVal
  /-- the lazily filled module-level cache `error_render._html_lns` (the template lines) has been
  filled; shared by every application and thread -/
  tmplLoaded : Bool

/-- process start: nothing constructed -/
def Heap.empty : Heap where
  tls := fun _ _ _ => none
  hasStore := fun _ => false
  slots := fun _ _ => none
  hd := fun _ _ => none
  dicts := fun _ => none
  next := fun _ _ => 0
  ncopies := fun _ _ => 0
  regs := fun _ _ _ => none
  cell := fun _ => none
  errs := fun _ _ => none
  tmplLoaded := false

/-- the attributes of a shared error object, from its row of the generated table -/
def errAttr (row : String × Int × String × String × List (String × String) × Bool) (k : Attr) : Option SVal :=
  if k = "_status_code" then some (.val (.int row.2.1))
  else if k = "_status_line" then some (.val (.str row.2.2.1))
  else if k = "body" then some (.val (.str row.2.2.2.1))
  else if k = "_headers" then some (.items (row.2.2.2.2.1.map fun kv => (kv.1, .str kv.2)))
  else if k = "_cookies" ∨ k = "exception" ∨ k = "traceback" then some (.val .none)
  else none

/-- after `import ombott`: the shared error objects of `errors_map` exist (generated table) -/
def Heap.boot : Heap :=
  { Heap.empty with
    errs := fun e k => (Gen.tsErrorsMap.find? (·.1 = e)).bind fun row => errAttr row k }

def upd {α β} [DecidableEq α] (f : α → β) (a : α) (b : β) : α → β :=
  fun x => if x = a then b else f x

def upd2 {α β γ} [DecidableEq α] [DecidableEq β] (f : α → β → γ) (a : α) (b : β) (c : γ) : α → β → γ :=
  fun x y => if x = a ∧ y = b then c else f x y

def upd3 {α β γ δ} [DecidableEq α] [DecidableEq β] [DecidableEq γ] (f : α → β → γ → δ)
    (a : α) (b : β) (c : γ) (d : δ) : α → β → γ → δ :=
  fun x y z => if x = a ∧ y = b ∧ z = c then d else f x y z

/-- the view of `HeaderDict._ts` a thread uses: its own, because `_ts` is a `threading.local`
(generated constant; with a plain namespace every thread would use the same view) -/
def hdKey (t : ThreadId) : ThreadId := if Gen.tsHeaderDictThreadLocal then t else 0

/-- primitive heap updates; an access is a list of them computed from reads -/
inductive Upd
  | tls (i : Inst) (t : ThreadId) (k : Attr) (v : Option Val)
  | store (i : Inst)
  | slot (i : Inst) (k : Attr) (v : Option Val)
  | cell (c : Cls) (i : Inst)
  | hd (a : AppId) (t : ThreadId) (v : Val)
  | dict (o : Oid) (d : Dict)
  | next (t : ThreadId) (a : AppId)
  | ncopies (t : ThreadId) (a : AppId)
  | reg (t : ThreadId) (a : AppId) (r : Reg) (v : Val)
  | err (e : String) (k : Attr) (v : SVal)
  | tmpl

def Upd.apply (h : Heap) : Upd → Heap
  | .tls i t k v => { h with tls := upd3 h.tls i t k v }
  | .store i => { h with hasStore := upd h.hasStore i true }
  | .slot i k v => { h with slots := upd2 h.slots i k v }
  | .cell c i => { h with cell := upd h.cell c (some i) }
  | .hd a t v => { h with hd := upd2 h.hd a t (some v) }
  | .dict o d => { h with dicts := upd h.dicts o (some d) }
  | .next t a => { h with next := upd2 h.next t a (h.next t a + 1) }
  | .ncopies t a => { h with ncopies := upd2 h.ncopies t a (h.ncopies t a + 1) }
  | .reg t a r v => { h with regs := upd3 h.regs t a r (some v) }
  | .err e k v => { h with errs := upd2 h.errs e k (some v) }
  | .tmpl => { h with tmplLoaded := true }

def applyAll (h : Heap) (us : List Upd) : Heap := us.foldl Upd.apply h

/-! ## dict operations (pure) -/

inductive DictOp
  | get (k : String)                  -- `d.get(k)`
  | getItem (k : String)              -- `d[k]`
  | has (k : String)                  -- `k in d`
  | set (k : String) (v : PVal)       -- `d[k] = v`
  | setdefault (k : String) (v : PVal)
  | pop (k : String)                  -- `d.pop(k, None)`
  | clear
  | items                             -- `list(d.items())`
  | append (k : String) (v : String)  -- `HeaderDict.append` on the underlying dict
  deriving DecidableEq, Repr

/-- what a step returns to the program -/
inductive Res
  | val (v : PVal)
  | ref                               -- a dict (now held in the destination register)
  | items (d : Dict)
  | err (e : Err)
  deriving DecidableEq, Repr

def dictGet (d : Dict) (k : String) : Option PVal := (d.find? (·.1 = k)).map (·.2)

def dictSet : Dict → String → PVal → Dict
  | [], k, v => [(k, v)]
  | (k', v') :: r, k, v => if k' = k then (k', v) :: r else (k', v') :: dictSet r k v

def dictDel (d : Dict) (k : String) : Dict := d.filter (·.1 ≠ k)

def DictOp.run (d : Dict) : DictOp → Dict × Res
  | .get k => (d, .val ((dictGet d k).getD .none))
  | .getItem k => (d, match dictGet d k with | some v => .val v | none => .err .keyError)
  | .has k => (d, .val (.bool (dictGet d k).isSome))
  | .set k v => (dictSet d k v, .val .none)
  | .setdefault k v =>
    match dictGet d k with
    | some v' => (d, .val v')
    | none => (dictSet d k v, .val v)
  | .pop k => (dictDel d k, .val ((dictGet d k).getD .none))
  | .clear => ([], .val .none)
  | .items => (d, .items d)
  | .append k v =>
    -- `v0 = d.get(key); None -> d[key] = value; list -> v0.append(value); else d[key] = [v0, value]`
    match dictGet d k with
    | none | some .none => (dictSet d k (.str v), .val .none)
    | some (.strs l) => (dictSet d k (.strs (l ++ [v])), .val .none)
    | some (.str s) => (dictSet d k (.strs [s, v]), .val .none)
    | some _ => (d, .err .typeError)

/-- `d.update(e)` -/
def dictUpdate (d e : Dict) : Dict := e.foldl (fun acc kv => dictSet acc kv.1 kv.2) d

/-! ## atomic steps -/

inductive Src
  | lit (v : PVal)
  | reg (r : Reg)
  deriving DecidableEq, Repr

inductive Access
  /-- `init_wrapper`, first four lines: look the store up, create it when missing -/
  | initHead (o : Obj)
  /-- one iteration of `[setattr(local_store, k, None) for k in props]` -/
  | initNone (o : Obj) (k : Attr)
  /-- `x = o.k` -/
  | fget (o : Obj) (k : Attr) (dst : Reg)
  /-- `o.k = v` -/
  | fset (o : Obj) (k : Attr) (src : Src)
  /-- `del o.k` -/
  | fdel (o : Obj) (k : Attr)
  /-- `x = app.response.headers._ts.dict` -/
  | hdGet (dst : Reg)
  /-- `app.response.headers._ts.dict = v` -/
  | hdSet (src : Src)
  /-- `x = {...}` -/
  | dNew (dst : Reg) (d : Dict)
  /-- an operation on the dict held in a local variable -/
  | dOp (r : Reg) (op : DictOp)
  /-- `x.update(y)` -/
  | dUpdate (r src : Reg)
  /-- `y = x.copy()` -/
  | dCopy (r dst : Reg)
  /-- `cls.__new__` of `Request.copy()`: a new instance, no store yet; returns its index -/
  | newCopy
  /-- read an attribute of the shared `HTTPError` object `errors_map[e]` -/
  | errGet (e : String) (k : Attr)
  /-- write an attribute of a shared `HTTPError` object.  No code path of the tree as it is does
  this; the step exists so that the theorems can name what they exclude (`Access.sharedOk`) -/
  | errSet (e : String) (k : Attr) (v : SVal)
  /-- `if not _html_lns: _html_lns[:] = [...]` then read the lines (error_render.render): the cache is
  filled by whoever comes first; what is read is the template of the tree (generated digest) either way -/
  | tmplLoad
  deriving DecidableEq, Repr

def resOf : Val → Res
  | .plain v => .val v
  | .dict _ => .ref

/-- the store object the generated accessors of instance `i` use -/
def storeOf (v : Variant) (h : Heap) (i : Inst) : Option Inst :=
  match v with
  | .perInstance => if h.hasStore i then some i else none    -- `getattr(s, store_name)`
  | .shared => h.cell i.cls                                 -- the closure variable

def srcVal (h : Heap) (t : ThreadId) (a : AppId) : Src → Option Val
  | .lit v => some (.plain v)
  | .reg r => h.regs t a r

/-- the dict a register refers to -/
def regDict (h : Heap) (t : ThreadId) (a : AppId) (r : Reg) : Except Err (Oid × Dict) :=
  match h.regs t a r with
  | some (.dict o) =>
    match h.dicts o with
    | some d => .ok (o, d)
    | none => .error .runtimeError
  | some (.plain _) => .error .typeError
  | none => .error .runtimeError          -- unbound local

/-- reads of one step and the updates it decides on -/
def plan (v : Variant) (t : ThreadId) (a : AppId) (h : Heap) : Access → List Upd × Res
  | .initHead o =>
    let i := o.inst t a
    let mk := if h.hasStore i then [] else [Upd.store i]
    match v with
    | .perInstance => (mk, .val .none)
    | .shared => (mk ++ [.cell i.cls i], .val .none)     -- `nonlocal local_store` is assigned
  | .initNone o k =>
    let i := o.inst t a
    -- `local_store` is a local of `init_wrapper` (this instance's store) / the closure variable
    match storeOf v h i with
    | some s => ([.tls s t k (some (.plain .none))], .val .none)
    | none => ([], .err .attributeError)
  | .fget o k dst =>
    let i := o.inst t a
    if k ∈ propsOf i.cls then
      match storeOf v h i with
      | some s =>
        match h.tls s t k with
        | some x => ([.reg t a dst x], resOf x)
        | none => ([], .err .attributeError)
      | none => ([], .err .attributeError)
    else
      match h.slots i k with
      | some x => ([.reg t a dst x], resOf x)
      | none => ([], .err .attributeError)
  | .fset o k src =>
    let i := o.inst t a
    match srcVal h t a src with
    | none => ([], .err .runtimeError)
    | some x =>
      if k ∈ propsOf i.cls then
        match storeOf v h i with
        | some s => ([.tls s t k (some x)], .val .none)
        | none => ([], .err .attributeError)
      else ([.slot i k (some x)], .val .none)
  | .fdel o k =>
    let i := o.inst t a
    if k ∈ propsOf i.cls then
      match storeOf v h i with
      | some s =>
        match h.tls s t k with
        | some _ => ([.tls s t k none], .val .none)
        | none => ([], .err .attributeError)
      | none => ([], .err .attributeError)
    else
      match h.slots i k with
      | some _ => ([.slot i k none], .val .none)
      | none => ([], .err .attributeError)
  | .hdGet dst =>
    match h.hd a (hdKey t) with
    | some x => ([.reg t a dst x], resOf x)
    | none => ([], .err .attributeError)
  | .hdSet src =>
    match srcVal h t a src with
    | some x => ([.hd a (hdKey t) x], .val .none)
    | none => ([], .err .runtimeError)
  | .dNew dst d =>
    let o : Oid := ⟨t, a, h.next t a⟩
    ([.dict o d, .next t a, .reg t a dst (.dict o)], .ref)
  | .dOp r op =>
    match regDict h t a r with
    | .ok (o, d) => let (d', res) := op.run d; ([.dict o d'], res)
    | .error e => ([], .err e)
  | .dUpdate r src =>
    match regDict h t a r, regDict h t a src with
    | .ok (o, d), .ok (_, e) => ([.dict o (dictUpdate d e)], .val .none)
    | .error e, _ => ([], .err e)
    | _, .error e => ([], .err e)
  | .dCopy r dst =>
    match regDict h t a r with
    | .ok (_, d) =>
      let o : Oid := ⟨t, a, h.next t a⟩
      ([.dict o d, .next t a, .reg t a dst (.dict o)], .ref)
    | .error e => ([], .err e)
  | .newCopy => ([.ncopies t a], .val (.int (h.ncopies t a)))
  | .errGet e k =>
    match h.errs e k with
    | some (.val x) => ([], .val x)
    | some (.items d) => ([], .items d)
    | none => ([], .err .attributeError)
  | .errSet e k x => ([.err e k x], .val .none)
  | .tmplLoad => ([.tmpl], .val (.str Gen.tsTemplateDigest))

/-- one atomic step of thread `t` in a handler / the serving code of application `a` -/
def exec (v : Variant) (t : ThreadId) (a : AppId) (acc : Access) (h : Heap) : Heap × Res :=
  let p := plan v t a h acc
  (applyAll h p.1, p.2)

/-! ## programs and the interleaving machine -/

/-- what a served request hands to `start_response` plus the body -/
structure Resp where
  status : String
  headers : List (String × String)
  body : String
  deriving DecidableEq, Repr, Inhabited

/-- a thread's program: adaptive (the continuation sees the result of every step), each step
tagged with the application whose code performs it.  `emit` records an observation (a value a
handler read, a finished response; already rendered as text) without touching the heap. -/
inductive Prog
  | done
  | step (a : AppId) (acc : Access) (k : Res → Prog)
  | emit (a : AppId) (obs : String) (k : Prog)

/-- one entry of the global log -/
structure Event where
  thread : ThreadId
  app : AppId
  acc : Access
  res : Res

structure Thread where
  prog : Prog
  /-- results of the steps this thread made, oldest first -/
  trace : List Res
  /-- observations emitted, oldest first -/
  out : List (AppId × String)

def Thread.init (p : Prog) : Thread := ⟨p, [], []⟩

/-- run one step of a thread (an `emit` is a step of its own that leaves the heap alone) -/
def stepThread (v : Variant) (t : ThreadId) (h : Heap) (th : Thread) : Heap × Thread × Option Event :=
  match th.prog with
  | .done => (h, th, none)
  | .step a acc k =>
    let (h', r) := exec v t a acc h
    (h', ⟨k r, th.trace ++ [r], th.out⟩, some ⟨t, a, acc, r⟩)
  | .emit a o k => (h, ⟨k, th.trace, th.out ++ [(a, o)]⟩, none)

structure Machine where
  heap : Heap
  threads : ThreadId → Thread
  log : List Event

/-- the initial machine on heap `h`: thread `t` runs `progs t` -/
def Machine.on (h : Heap) (progs : ThreadId → Prog) : Machine :=
  ⟨h, fun t => Thread.init (progs t), []⟩

/-- process start: the module is imported, no application constructed -/
def Machine.start (progs : ThreadId → Prog) : Machine := Machine.on Heap.boot progs

/-- the interleaved run: the schedule is the list of thread ids, one entry per step -/
def run (v : Variant) (m : Machine) : List ThreadId → Machine
  | [] => m
  | t :: s =>
    let (h', th', ev) := stepThread v t m.heap (m.threads t)
    run v ⟨h', upd m.threads t th', m.log ++ ev.toList⟩ s

/-- a thread running alone for `n` steps -/
def solo (v : Variant) (t : ThreadId) (h : Heap) (th : Thread) : Nat → Heap × Thread
  | 0 => (h, th)
  | n + 1 =>
    let (h', th', _) := stepThread v t h th
    solo v t h' th' n

/-- a straight-line operation: who, in which application, what -/
structure Op where
  thread : ThreadId
  app : AppId
  acc : Access

/-- run a sequence of operations, collecting their results -/
def runOps (v : Variant) (h : Heap) : List Op → Heap × List Res
  | [] => (h, [])
  | op :: r =>
    let (h', x) := exec v op.thread op.app op.acc h
    let (h'', xs) := runOps v h' r
    (h'', x :: xs)

/-- the results of the operations of application `a`, in order, while *all* operations run -/
def readsOf (v : Variant) (a : AppId) (h : Heap) : List Op → List Res
  | [] => []
  | op :: r =>
    let (h', x) := exec v op.thread op.app op.acc h
    if op.app = a then x :: readsOf v a h' r else readsOf v a h' r

def Event.op (e : Event) : Op := ⟨e.thread, e.app, e.acc⟩

/-! ## the vocabulary of the property statements -/

def Obj.cls : Obj → Cls
  | .response => .response
  | _ => .request

/-- the attribute an access names is one of those `ts_props` made thread-local (generated lists) -/
def Access.attrOk : Access → Prop
  | .fget o k _ => k ∈ propsOf o.cls
  | .fset o k _ => k ∈ propsOf o.cls
  | .fdel o k => k ∈ propsOf o.cls
  | .errSet _ _ _ => False          -- the shared error objects are never written
  | _ => True

/-- the step does not write an object shared by all applications -/
def Access.sharedOk : Access → Prop
  | .errSet _ _ _ => False
  | _ => True

instance (acc : Access) : Decidable acc.sharedOk := by
  cases acc <;> simp only [Access.sharedOk] <;> infer_instance

instance (acc : Access) : Decidable acc.attrOk := by
  cases acc <;> simp only [Access.attrOk] <;> infer_instance

/-- a program that works on application `a` only and reaches `app.request` / `app.response` state
through the thread-local attributes only (what serving a request and any handler of `a` does) -/
inductive Prog.Serves (a : AppId) : Prog → Prop
  | done : Prog.Serves a .done
  | step (acc : Access) (k : Res → Prog) : acc.attrOk → (∀ r, Prog.Serves a (k r)) →
      Prog.Serves a (.step a acc k)
  | emit (o : String) (k : Prog) : Prog.Serves a k → Prog.Serves a (.emit a o k)

/-- application `a` has been constructed: its request and response objects have their stores -/
def Ready (a : AppId) (h : Heap) : Prop :=
  h.hasStore (.req a) = true ∧ h.hasStore (.resp a) = true

/-- no plain slot holds a dict and every dict reference sits in a cell of the thread that created
the dict (true at process start and kept by every step that uses thread-local attributes only) -/
structure ThreadOwned (h : Heap) : Prop where
  regs : ∀ t a r o, h.regs t a r = some (.dict o) → o.thread = t
  tls : ∀ i u k o, h.tls i u k = some (.dict o) → o.thread = u
  hd : ∀ a u o, h.hd a u = some (.dict o) → o.thread = u
  slots : ∀ i k o, h.slots i k ≠ some (.dict o)

end Ombott.TsProps
