import OmbottModel.Py.Crypto
import OmbottModel.Model.Cookies
/-
The library parameter of the cookie model as the driver instantiates it: HMAC-MD5 and base64
from `Py.Crypto`, `pickle` as the finite table shipped on the protocol line (its inverse is
`pickle.loads`, failing elsewhere), the `http.cookies` tokeniser of `Model/Cookies.lean`.
-/
namespace Ombott.Cookies
open Py

abbrev PkTable := List ((Str × CVal) × Bytes)

def concreteLib (pk : PkTable) : Lib where
  hmac := Crypto.hmacMd5
  b64 := Crypto.b64encode
  unb64 := Crypto.b64decode
  pickle := fun x => ((pk.find? (·.1 == x)).map (·.2)).getD []
  unpickle := fun b => (pk.find? (·.2 == b)).map (·.1)
  load := parseCookies

end Ombott.Cookies
