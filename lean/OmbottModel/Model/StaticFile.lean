import OmbottModel.Py
/-
Model of the path handling of `ombott/static_stream.py:static_file` (C16): POSIX
`os.path.normpath` / `join` / `abspath`, `filename.strip('/\\')`, the prefix test against the root
with its trailing separator, the `exists` / `isfile` / `access` checks (file-system predicates are
parameters) and the decision `403 | 404 | open p`.  What happens after the decision (headers,
ranges, the body) is C17's model; here only whether and which path reaches `open`.
-/
namespace Ombott.StaticFile
open Py

def dot : Str := ['.']
def dotdot : Str := ['.', '.']

/-- `sep.join(comps)` -/
def joinSlash : List Str → Str
  | [] => []
  | [a] => a
  | a :: r => a ++ '/' :: joinSlash r

/-- number of leading slashes `normpath` keeps: POSIX allows exactly two to be special, three or
more collapse to one -/
def initialSlashes (path : Str) : Nat :=
  match path with
  | '/' :: '/' :: '/' :: _ => 1
  | '/' :: '/' :: _ => 2
  | '/' :: _ => 1
  | _ => 0

/-- one round of `for comp in comps:`; `st` is `new_comps` kept in reverse (last element first) -/
def normStep (initial : Nat) (st : List Str) (comp : Str) : List Str :=
  if comp = [] ∨ comp = dot then st                                  -- if comp in ('', '.'): continue
  else if comp ≠ dotdot ∨ (initial = 0 ∧ st = []) ∨ st.head? = some dotdot then
    comp :: st                                                       -- new_comps.append(comp)
  else st.tail                                                       -- elif new_comps: new_comps.pop()

/-- `os.path.normpath(path)` (posixpath) -/
def normpath (path : Str) : Str :=
  if path = [] then dot else
  let initial := initialSlashes path
  let comps := (splitOn1 '/' path).foldl (normStep initial) []
  let out := List.replicate initial '/' ++ joinSlash comps.reverse
  if out = [] then dot else out

/-- `os.path.join(a, b)` (posixpath, two arguments) -/
def join (a b : Str) : Str :=
  if b.head? = some '/' then b                   -- if b.startswith(sep): path = b
  else if a = [] ∨ a.getLast? = some '/' then a ++ b
  else a ++ '/' :: b

/-- `os.path.abspath(path)` with `os.getcwd() = cwd` -/
def abspath (cwd path : Str) : Str :=
  normpath (if path.head? = some '/' then path else join cwd path)

/-- `filename.strip('/\\')` -/
def stripSeps (s : Str) : Str := stripBy (fun c => c == '/' || c == '\\') s

/-- the file-system predicates `static_file` consults -/
structure Fs where
  exists_ : Str → Bool      -- os.path.exists
  isfile : Str → Bool       -- os.path.isfile
  access : Str → Bool       -- os.access(p, os.R_OK)

inductive Decision
  | deny403
  | deny404
  | open_ (p : Str)
  deriving Repr, DecidableEq

/-- `root = os.path.abspath(root) + os.sep` -/
def rootDir (cwd root : Str) : Str := abspath cwd root ++ ['/']

/-- `os.path.abspath(os.path.join(root, filename.strip('/\\')))` -/
def target (cwd root filename : Str) : Str :=
  abspath cwd (join (rootDir cwd root) (stripSeps filename))

/-- the access decision of `static_file` -/
def staticDecide (fs : Fs) (cwd root filename : Str) : Decision :=
  let r := rootDir cwd root
  let p := target cwd root filename
  if ¬ r.isPrefixOf p then .deny403                               -- not filename.startswith(root)
  else if ¬ fs.exists_ p ∨ ¬ fs.isfile p then .deny404
  else if ¬ fs.access p then .deny403
  else .open_ p

/-- what the caller observes of the access control: the status class and every path handed to
`open`.  After a positive decision `static_file` answers 304 without opening when the
`If-Modified-Since` test succeeds (`notMod`), does not open for `HEAD`, and opens `p` (once)
otherwise; the remaining statuses (200/206/416) are C17's. -/
structure Outcome where
  status : Nat
  opened : List Str
  deriving Repr, DecidableEq

def serve (fs : Fs) (cwd root filename : Str) (isHead notMod : Bool) : Outcome :=
  match staticDecide fs cwd root filename with
  | .deny403 => ⟨403, []⟩
  | .deny404 => ⟨404, []⟩
  | .open_ p =>
    if notMod then ⟨304, []⟩
    else if isHead then ⟨200, []⟩
    else ⟨200, [p]⟩

/-- path segments: the non-empty pieces between separators -/
def segments (p : Str) : List Str := (splitOn1 '/' p).filter (· ≠ [])

end Ombott.StaticFile
