import OmbottModel.Py
import OmbottModel.Py.CharLit
import OmbottModel.Py.Text
import OmbottModel.Model.BodyMixin
import OmbottModel.Model.Qs
import OmbottModel.Model.BodyAccess
import OmbottModel.Gen.Envcache
/-!
The cache layer of the request object: `cache_in('environ[ key ]')` (`request_pkg/helpers.py`),
`BaseRequest.__setitem__ / __delitem__ / _on_env_changed / copy` (`request_pkg/request.py`) and
every cached property of `PropsMixin` / `BodyMixin` written on top of them.

* The environ is an association list `Env` of typed entries `Val`: WSGI strings, a reference to an
  input stream object, and the values the properties cache under `ombott.request.*`.
* Objects that are shared by reference and change under use live outside the environ: input
  streams in `RS.heap` (`request.copy()` copies the environ dict, not the stream: both requests
  then read from one stream), the environ a `WSGIHeaderDict` was built on in `Val.view` (the
  cached header view of a copy is a view of the ORIGINAL's environ).  Every other cached value is
  immutable as far as the operations below go, so sharing it is sharing a value.
* A getter is a function `RS → Except Exc α × RS` (`M α`): exceptions do not undo what was stored
  before they were raised.  `cacheIn key getter` is the decorator.
* What `request[K] = v` drops is looked up in the GENERATED table (`Gen.ecArms`, `ecArmHttp`,
  `ecArmOther`, obtained by probing the live `_on_env_changed`), not restated here.
* Library calls are parameters (`Lib`): the `SimpleCookie` tokeniser, `urljoin`, `quote`,
  `SplitResult.geturl`, `json.loads`, and the multipart collector (C06/C07/C12 are about those).
-/
namespace Ombott.EnvCache
open Py Ombott.Body Ombott.Forms Ombott.BodyAccess

abbrev Key := Str

/-- a value held by a `FormsDict` -/
inductive DV
  | one (s : Str)                      -- a `str` (`parse_qsl`: a single value; a multipart text field)
  | many (l : List Str)                -- a list of `str` (a repeated key)
  | other (text : Str)                 -- anything else (an upload, a JSON number, …) by its canonical text
  deriving Repr, DecidableEq

abbrev FD := List (Str × DV)

/-- a JSON value as far as the code looks at it -/
inductive JVal
  | obj (items : FD)                   -- a `dict`
  | other (text : Str)                 -- any other non-null value
  deriving Repr, DecidableEq

/-- an entry of the environ -/
inductive Val
  | str (s : Str)                      -- a WSGI string; also the text a property caches
  | stream (id : Nat)                  -- `wsgi.input`: reference to a stream object
  | none
  | bool (b : Bool)
  | int (i : Int)
  | strs (l : List Str)
  | pairs (d : List (Str × Str))       -- `CookieDict`
  | dict (d : FD)                      -- `FormsDict`
  | tuple (l : List (Option Str))      -- `SplitResult`
  | json (j : JVal)
  | body (sk : Sink) (ct : Str)        -- the buffered body and the `CONTENT_TYPE` its multipart markup was built from
  | err (e : Err)                      -- `ombott.request.body.error`
  | bytes (b : Bytes)                  -- what `request.body.read()` returned
  | view (i : Nat)                     -- `WSGIHeaderDict(environ of request i)`
  deriving Repr, DecidableEq

abbrev Env := List (Key × Val)

def Env.get? : Env → Key → Option Val
  | [], _ => Option.none
  | (k', v) :: r, k => if k' = k then some v else Env.get? r k

/-- `environ[k] = v`: an existing key keeps its place -/
def Env.set : Env → Key → Val → Env
  | [], k, v => [(k, v)]
  | (k', v') :: r, k, v => if k' = k then (k, v) :: r else (k', v') :: Env.set r k v

/-- `environ.pop(k, None)` -/
def Env.del (e : Env) (k : Key) : Env := e.filter fun p => p.1 ≠ k

/-- `env_get(k)` for the keys that hold WSGI strings -/
def Env.str? (e : Env) (k : Key) : Option Str :=
  match e.get? k with
  | some (.str s) => some s
  | _ => Option.none

/-! ### keys -/

def ck (name : String) : Key := cs!"ombott.request." ++ name.toList

def kBody : Key := cs!"ombott.request.body"
def kBodyError : Key := cs!"ombott.request.body.error"
def kContentLength : Key := cs!"ombott.request.content_length"
def kContentType : Key := cs!"ombott.request.content_type"
def kCtype : Key := cs!"ombott.request.ctype"
def kCookies : Key := cs!"ombott.request.cookies"
def kQuery : Key := cs!"ombott.request.query"
def kGet : Key := cs!"ombott.request.get"
def kScriptName : Key := cs!"ombott.request.script_name"
def kFullpath : Key := cs!"ombott.request.fullpath"
def kUrlparts : Key := cs!"ombott.request.urlparts"
def kUrl : Key := cs!"ombott.request.url"
def kIsJson : Key := cs!"ombott.request.is_json_requested"
def kRemoteRoute : Key := cs!"ombott.request.remote_route"
def kHeaders : Key := cs!"ombott.request.headers"
def kJson : Key := cs!"ombott.request.json"
def kPost : Key := cs!"ombott.request.post"
def kForms : Key := cs!"ombott.request.forms"
def kFiles : Key := cs!"ombott.request.files"
def kParams : Key := cs!"ombott.request.params"
def kApp : Key := cs!"ombott.app"
def kRoute : Key := cs!"ombott.route"
def kUrlArgs : Key := cs!"route.url_args"
def kInput : Key := cs!"wsgi.input"

/-- keys an application may assign through the request object in this model: not the framework's
own (`ombott.*`, `route.*`) -/
def userKey (k : Key) : Bool := !(cs!"ombott.".isPrefixOf k) && !(cs!"route.".isPrefixOf k)

/-! ### configuration, library, state -/

structure Cfg where
  maxBody : Option Nat := Option.none       -- `max_body_size`
  memfile : Nat := 102400                   -- `max_memfile_size`
  errorsMap : List (String × Nat) := []     -- `errors_map`: class name → status of the mapped `HTTPError`
  allowXScriptName : Bool := false          -- `allow_x_script_name`
  deriving Repr

/-- what `json.loads` does -/
inductive JOut
  | null
  | val (j : JVal)
  | raises (e : Exc)
  deriving Repr, DecidableEq

/-- the multipart branch of `POST` from `markup = body.ombott_markup` on -/
inductive MpOut
  | noMarkup                                            -- `markup is None`
  | markupError (e : Err)                               -- `markup.error is not None`
  | collected (forms files post : FD) (exc : Option Exc) -- `_collect_multipart` ran; the exception that ended it
  deriving Repr, DecidableEq

structure Lib where
  cookies : Str → Except Exc (List (Str × Str))   -- `[(c.key, c.value) for c in SimpleCookie(h).values()]`
  urljoin : Str → Str → Str
  urlquote : Str → Str
  geturl : List (Option Str) → Str                -- `SplitResult.geturl()`
  jsonLoads : Bytes → JOut
  multipart : Str → Bytes → Nat → MpOut           -- boundary (as `_body` handed it to `MultipartMarkup`), buffered body, `max_memfile_size`

abbrev Heap := List Rec

def emptyRec : Rec := { st := ⟨[], []⟩ }

structure RS where
  heap : Heap
  env : Env
  self : Nat            -- which request this environ belongs to (what a new header view points at)

abbrev M (α : Type) := RS → Except Exc α × RS

def M.ret {α} (a : α) : M α := fun s => (.ok a, s)
def M.fail {α} (e : Exc) : M α := fun s => (.error e, s)
def M.bind {α β} (m : M α) (f : α → M β) : M β := fun s =>
  match m s with
  | (.ok a, s') => f a s'
  | (.error e, s') => (.error e, s')

instance : Monad M where
  pure := M.ret
  bind := M.bind

/-- `environ[k] = v` -/
def store (k : Key) (v : Val) : M Unit := fun s => (.ok (), { s with env := s.env.set k v })
/-- `env_get(k)` -/
def envStr (k : Key) : M (Option Str) := fun s => (.ok (s.env.str? k), s)
def liftE {α} (r : Except Exc α) : M α := fun s => (r, s)

/-- `cache_in('environ[ key ]')`:
```
def fget(self):
    storage = getattr(self, attr)
    if key not in storage: storage[key] = getter(self)
    return storage[key]
``` -/
def cacheIn (key : Key) (getter : M Val) : M Val := fun s =>
  match s.env.get? key with
  | some v => (.ok v, s)
  | Option.none =>
    match getter s with
    | (.ok v, s') => (.ok v, { s' with env := s'.env.set key v })
    | (.error e, s') => (.error e, s')

/-! ### text helpers -/

def stripCh (c : Char) (s : Str) : Str := stripBy (· == c) s
def lstripCh (c : Char) (s : Str) : Str := lstripBy (· == c) s
/-- Python truthiness of `env_get(k)` -/
def truthy (o : Option Str) : Option Str :=
  match o with
  | some s => if s.isEmpty then Option.none else some s
  | Option.none => Option.none

/-! ### the properties of `PropsMixin` -/

/-- `app`, `route`, `url_args`: set by the framework at dispatch; the getter itself raises -/
def rdExternal (key : Key) : M Val := cacheIn key (M.fail (.py .runtimeError))

/-- `path` (not cached): `'/' + env_get('PATH_INFO', '').lstrip('/')` -/
def pathOf (e : Env) : Str := '/' :: lstripCh '/' ((e.str? cs!"PATH_INFO").getD [])

/-- `headers`: `WSGIHeaderDict(self.environ)` — a view, not a copy -/
def rdHeaders : M Val := cacheIn kHeaders fun s => (.ok (.view s.self), s)

/-- `cookies`: `CookieDict((c.key, c.value) for c in SimpleCookie(env_get('HTTP_COOKIE', '')).values())` -/
def cookiesOf (L : Lib) (e : Env) : Except Exc Val :=
  (L.cookies ((e.str? cs!"HTTP_COOKIE").getD [])).map Val.pairs
def rdCookies (L : Lib) : M Val := cacheIn kCookies fun s => (cookiesOf L s.env, s)

/-- `script_name`
```
script_name = env_get('SCRIPT_NAME')
if not script_name and self.config.allow_x_script_name: script_name = env_get('HTTP_X_SCRIPT_NAME')
return '/' + script_name.strip('/') + '/' if script_name else '/'
``` -/
def scriptNameOf (cfg : Cfg) (e : Env) : Val :=
  let sn := match truthy (e.str? cs!"SCRIPT_NAME") with
    | some s => some s
    | Option.none => if cfg.allowXScriptName then truthy (e.str? cs!"HTTP_X_SCRIPT_NAME") else Option.none
  match sn with
  | some s => .str ('/' :: (stripCh '/' s ++ ['/']))
  | Option.none => .str ['/']
def rdScriptName (cfg : Cfg) : M Val := cacheIn kScriptName fun s => (.ok (scriptNameOf cfg s.env), s)

def asStr : Val → Except Exc Str
  | .str s => .ok s
  | _ => .error (.py .typeError)

/-- `fullpath` (`app_name_header` has its default `''`: the environ key read is the empty string)
```
appname = self._env_get(self.config.app_name_header, '/')
return urljoin(self.script_name, self.path[len(appname):].lstrip('/'))
``` -/
def fullpathFrom (_cfg : Cfg) (L : Lib) (e : Env) (scriptName : Str) : Val :=
  let appname := (e.str? []).getD ['/']
  .str (L.urljoin scriptName (lstripCh '/' ((pathOf e).drop appname.length)))
def rdFullpath (cfg : Cfg) (L : Lib) : M Val := cacheIn kFullpath do
  let sn ← rdScriptName cfg
  let sn ← liftE (asStr sn)
  fun s => (.ok (fullpathFrom cfg L s.env sn), s)

/-- `urlparts`
```
http = env_get('HTTP_X_FORWARDED_PROTO') or env_get('wsgi.url_scheme', 'http')
host = env_get('HTTP_X_FORWARDED_HOST') or env_get('HTTP_HOST')
if not host:
    host = env_get('SERVER_NAME', '127.0.0.1'); port = env_get('SERVER_PORT')
    if port and port != ('80' if http == 'http' else '443'): host += ':' + port
path = urlquote(self.fullpath)
return UrlSplitResult(http, host, path, env_get('QUERY_STRING'), '')
``` -/
def schemeOf (e : Env) : Str :=
  match truthy (e.str? cs!"HTTP_X_FORWARDED_PROTO") with
  | some s => s
  | Option.none => (e.str? cs!"wsgi.url_scheme").getD cs!"http"
def hostOf (e : Env) : Str :=
  let first := match truthy (e.str? cs!"HTTP_X_FORWARDED_HOST") with
    | some s => some s
    | Option.none => truthy (e.str? cs!"HTTP_HOST")
  match first with
  | some h => h
  | Option.none =>
    let host := (e.str? cs!"SERVER_NAME").getD cs!"127.0.0.1"
    match truthy (e.str? cs!"SERVER_PORT") with
    | some port =>
      if port ≠ (if schemeOf e = cs!"http" then cs!"80" else cs!"443") then host ++ ':' :: port else host
    | Option.none => host
def urlpartsFrom (L : Lib) (e : Env) (fullpath : Str) : Val :=
  .tuple [some (schemeOf e), some (hostOf e), some (L.urlquote fullpath), e.str? cs!"QUERY_STRING", some []]
def rdUrlparts (cfg : Cfg) (L : Lib) : M Val := cacheIn kUrlparts do
  -- `http`, `host` are computed before `self.fullpath` is read; they do not touch the state
  let fp ← rdFullpath cfg L
  let fp ← liftE (asStr fp)
  fun s => (.ok (urlpartsFrom L s.env fp), s)

/-- `url`: `self.urlparts.geturl()` -/
def urlFrom (L : Lib) : Val → Except Exc Val
  | .tuple l => .ok (.str (L.geturl l))
  | _ => .error (.py .typeError)
def rdUrl (cfg : Cfg) (L : Lib) : M Val := cacheIn kUrl do
  let p ← rdUrlparts cfg L
  liftE (urlFrom L p)

/-- `is_json_requested`
```
accept = self._env_get('HTTP_ACCEPT')
if accept: return accept.startswith('application/json')
``` -/
def isJsonOf (e : Env) : Val :=
  match truthy (e.str? cs!"HTTP_ACCEPT") with
  | some a => .bool (cs!"application/json".isPrefixOf a)
  | Option.none => .none
def rdIsJson : M Val := cacheIn kIsJson fun s => (.ok (isJsonOf s.env), s)

/-- `remote_route`
```
proxy = self._env_get('HTTP_X_FORWARDED_FOR')
if proxy: return [ip.strip() for ip in proxy.split(',')]
remote = self._env_get('REMOTE_ADDR')
return [remote] if remote else []
``` -/
def remoteRouteOf (e : Env) : Val :=
  match truthy (e.str? cs!"HTTP_X_FORWARDED_FOR") with
  | some p => .strs ((splitOn1 ',' p).map strip)
  | Option.none =>
    match truthy (e.str? cs!"REMOTE_ADDR") with
    | some r => .strs [r]
    | Option.none => .strs []
def rdRemoteRoute : M Val := cacheIn kRemoteRoute fun s => (.ok (remoteRouteOf s.env), s)

/-! ### the properties of `BodyMixin` that do not touch the body -/

/-- `content_length`: `int(self.environ.get('CONTENT_LENGTH') or -1)` -/
def contentLengthOf (e : Env) : Except Exc Val :=
  match contentLength (e.str? cs!"CONTENT_LENGTH") with
  | .ok n => .ok (.int n)
  | .error x => .error (.py x)
def rdContentLength : M Val := cacheIn kContentLength fun s => (contentLengthOf s.env, s)

/-- `content_type`: `self.environ.get('CONTENT_TYPE', '').lower()` -/
def contentTypeOf (e : Env) : Val := .str (lower ((e.str? cs!"CONTENT_TYPE").getD []))
def rdContentType : M Val := cacheIn kContentType fun s => (.ok (contentTypeOf s.env), s)

/-- `ctype`: `[t.strip() for t in self.content_type.split(';')]` -/
def ctypeFrom : Val → Except Exc Val
  | .str ct => .ok (.strs ((splitOn1 ';' ct).map strip))
  | _ => .error (.py .typeError)
def rdCtype : M Val := cacheIn kCtype do
  let ct ← rdContentType
  liftE (ctypeFrom ct)

def ofQsVal : Qs.Val → DV
  | .one s => .one s
  | .many l => .many l
def ofQsDict (d : Qs.Dict Qs.Val) : FD := d.map fun p => (p.1, ofQsVal p.2)

/-- `query`
```
ret = self._forms_factory(); qs = self._env_get('QUERY_STRING', '')
if qs: parse_qsl(qs, setitem=ret.__setitem__)
self.environ['ombott.request.get'] = ret
``` -/
def queryOf (e : Env) : Except Exc Val :=
  match Qs.query ((e.str? cs!"QUERY_STRING").getD []) with
  | .ok d => .ok (.dict (ofQsDict d))
  | .error x => .error (.py x)
def rdQuery : M Val := cacheIn kQuery fun s =>
  match queryOf s.env with
  | .ok v => (.ok v, { s with env := s.env.set kGet v })
  | .error e => (.error e, s)

/-! ### the body -/

/-- `chunked` (not cached): `'chunked' in environ.get('HTTP_TRANSFER_ENCODING', '').lower()` -/
def chunkedOf (e : Env) : Bool := isChunked (e.str? cs!"HTTP_TRANSFER_ENCODING")

/-- `MultipartMarkup(boundary)` for the boundary of this Content-Type: the error it raises, if any -/
def markupInitError (ct : Str) : Option Err :=
  match boundaryOf ct with
  | Option.none => Option.none
  | some b =>
    match Ombott.Multipart.St.init (utf8Encode b) with
    | .error e => some e
    | .ok _ => Option.none

def mapped (cfg : Cfg) (e : Err) : Exc := raiseErr cfg.errorsMap e (some .requestError)

def heapGet (h : Heap) (id : Nat) : Rec := h.getD id emptyRec

/-- the buffered copy as a stream object: `environ['wsgi.input'] = body; body.seek(0)` -/
def bufferRec (sk : Sink) : Rec := { st := ⟨sk.body, []⟩ }

/-- the part of `_body` that runs before `self.content_length` is evaluated
```
err = self.environ.get('ombott.request.body.error')
if err is not None: self._raise(err, RequestError)
mp = MULTIPART_BOUNDARY_PATT.match(self.environ.get('CONTENT_TYPE', ''))
try:
    if mp is not None: …; markup = MultipartMarkup(boundary)      # may raise InvalidBoundaryError
    body = _body_read(self.environ['wsgi.input'].read, …
```
`some` = the getter ended here (with what it raised); `none` = the stream `id` is about to be read -/
def bodyPre (cfg : Cfg) (s : RS) : (Except Exc Val × RS) ⊕ Nat :=
  match s.env.get? kBodyError with
  | some (.err e) => .inl (.error (mapped cfg e), s)
  | some _ => .inl (.error (.py .typeError), s)
  | Option.none =>
    match markupInitError ((s.env.str? cs!"CONTENT_TYPE").getD []) with
    | some e => .inl (.error (mapped cfg e), { s with env := s.env.set kBodyError (.err e) })
    | Option.none =>
      match s.env.get? kInput with
      | Option.none => .inl (.error (.py .keyError), s)
      | some (.stream id) => .inr id
      | some _ => .inl (.error (.py .attributeError), s)

/-- `_body_read(…, content_length=cl, chunked=self.chunked, …)` on stream `id` and what `_body`
does with the outcome
```
except RequestError as err:
    self.environ['ombott.request.body.error'] = err.with_traceback(None); self._raise(err, RequestError)
self.environ['wsgi.input'] = body; body.seek(0); return body
``` -/
def bodyPost (cfg : Cfg) (id : Nat) (cl : Int) (s : RS) : Except Exc Val × RS :=
  let ct := (s.env.str? cs!"CONTENT_TYPE").getD []
  match bodyRead cfg.memfile cl (chunkedOf s.env) cfg.maxBody (heapGet s.heap id) with
  | (.error e, r) =>
    let h := s.heap.set id r
    if Body.isRequestError e then
      (.error (mapped cfg e), { s with heap := h, env := s.env.set kBodyError (.err e) })
    else (.error (.py e), { s with heap := h })
  | (.ok sk, r) =>
    let h := s.heap.set id r
    (.ok (.body sk ct), { s with heap := h ++ [bufferRec sk], env := s.env.set kInput (.stream h.length) })

def asInt : Val → Except Exc Int
  | .int n => .ok n
  | _ => .error (.py .typeError)

/-- `_body` -/
def rdBody (cfg : Cfg) : M Val := cacheIn kBody fun s =>
  match bodyPre cfg s with
  | .inl r => r
  | .inr id =>
    match rdContentLength s with
    | (.error e, s') => (.error e, s')
    | (.ok v, s') =>
      match asInt v with
      | .error e => (.error e, s')
      | .ok cl => bodyPost cfg id cl s'

def asBody : Val → Except Exc (Sink × Str)
  | .body sk ct => .ok (sk, ct)
  | _ => .error (.py .typeError)

/-- what `_get_body_string` does once body and length are known
```
if content_length > max_content_length: raise self._raise(BodySizeError(), RequestError)
if content_length < 0: content_length = max_content_length + 1
data = read(content_length)
if len(data) > max_content_length: raise self._raise(BodySizeError(), RequestError)
``` -/
def bodyStringFrom (cfg : Cfg) (sk : Sink) (cl : Int) : Except Exc Bytes :=
  if cl > (cfg.memfile : Int) then .error (mapped cfg .bodySizeError)
  else
    let n : Nat := if cl < 0 then cfg.memfile + 1 else cl.toNat
    let data := sk.body.take n
    if data.length > cfg.memfile then .error (mapped cfg .bodySizeError) else .ok data

/-- `_get_body_string`: `self._body.seek(0); read = self._body.read; … content_length = self.content_length` -/
def getBodyString (cfg : Cfg) : M Bytes := do
  let b ← rdBody cfg
  let bd ← liftE (asBody b)
  let cl ← rdContentLength
  let cl ← liftE (asInt cl)
  liftE (bodyStringFrom cfg bd.1 cl)

def asStrs : Val → Except Exc (List Str)
  | .strs l => .ok l
  | _ => .error (.py .typeError)

/-- the JSON decoding of `json`
```
if not b: return None
try: return json_mod.loads(b)
except (ValueError, RecursionError): self._raise(BodyParsingError('Invalid JSON'), RequestError)
``` -/
def jsonFrom (cfg : Cfg) (L : Lib) (b : Bytes) : Except Exc Val :=
  if b.isEmpty then .ok .none
  else
    match L.jsonLoads b with
    | .null => .ok .none
    | .val j => .ok (.json j)
    | .raises e =>
      if e = .py .valueError ∨ e = .py .unicodeError ∨ e = .other "RecursionError" then
        .error (mapped cfg .bodyParsingError)
      else .error e

/-- `json` -/
def rdJson (cfg : Cfg) (L : Lib) : M Val := cacheIn kJson do
  let ct ← rdCtype
  let ct ← liftE (asStrs ct)
  if ct.head? = some cs!"application/json" then
    let b ← getBodyString cfg
    liftE (jsonFrom cfg L b)
  else pure .none

/-- `post.update(data)` for the decoded JSON -/
def postOfJson (cfg : Cfg) : Val → Except Exc FD
  | .none => .ok []
  | .json (.obj items) => .ok (items.foldl (fun d p => Qs.Dict.set d p.1 p.2) [])
  | _ => .error (mapped cfg .bodyParsingError)          -- `JSON object expected`

/-- `parse_qsl(touni(body_string, 'latin1'), setitem=post.__setitem__)` -/
def postOfUrlencoded (b : Bytes) : Except Exc FD :=
  match Qs.forms b with
  | .ok d => .ok (ofQsDict d)
  | .error x => .error (.py x)

/-- `_raise_parsing_error(err)` -/
def parsingError (cfg : Cfg) (e : Exc) : Exc := raiseParsingError cfg.errorsMap e

/-- `POST` (since 9db424c `forms` / `files` are published only when the whole body was processed)
```
env = self.environ
files = self._forms_factory(); post = self._forms_factory()
ctype = self.content_type
if not ctype.startswith('multipart/'):
    if ctype.startswith('application/json'):
        data = self.json
        if data is not None:
            if not isinstance(data, dict): self._raise(BodyParsingError('JSON object expected'), RequestError)
            post.update(data)
    else:
        parse_qsl(touni(self._get_body_string(), 'latin1'), setitem=post.__setitem__)
    env['ombott.request.files'] = files; env['ombott.request.forms'] = post
    return post
forms = self._forms_factory()
body = self.body
markup = body.ombott_markup
if markup is None: self._raise(BodyParsingError('multipart boundary not found'), RequestError)
elif markup.error is not None: self._raise_parsing_error(markup.error)
try: self._collect_multipart(body, markup, post, forms, files)
except (RequestError, ValueError, KeyError, RuntimeError) as err: self._raise_parsing_error(err)
env['ombott.request.files'] = files; env['ombott.request.forms'] = forms
return post
``` -/
def collectMultipart (cfg : Cfg) (L : Lib) (sk : Sink) (ctLoad : Str) : Except Exc (FD × FD × FD) :=
  match (match boundaryOf ctLoad with
         | Option.none => MpOut.noMarkup
         | some bnd => L.multipart bnd sk.body cfg.memfile) with
  | .noMarkup => .error (mapped cfg .bodyParsingError)
  | .markupError e => .error (parsingError cfg (.py e))
  | .collected forms files post exc =>
    match exc with
    | Option.none => .ok (post, forms, files)
    | some e => .error (if caughtByPost e then parsingError cfg e else e)

/-- `POST` up to the point where it publishes `forms` / `files`: `(post, forms, files)` -/
def postCompute (cfg : Cfg) (L : Lib) : M (FD × FD × FD) := do      -- `(post, forms, files)` as they are when `POST` publishes them
  let ct ← rdContentType
  let ct ← liftE (asStr ct)
  if ¬ startsWithS ct cs!"multipart/" then
    let post ←
      if startsWithS ct cs!"application/json" then do
        let data ← rdJson cfg L
        liftE (postOfJson cfg data)
      else do
        let b ← getBodyString cfg
        liftE (postOfUrlencoded b)
    pure (post, post, [])
  else
    let b ← rdBody cfg                        -- `body = self.body` (the markup was built when the body was buffered)
    let bd ← liftE (asBody b)
    liftE (collectMultipart cfg L bd.1 bd.2)

def rdPost (cfg : Cfg) (L : Lib) : M Val := cacheIn kPost do
  let t ← postCompute cfg L
  store kFiles (.dict t.2.2)
  store kForms (.dict t.2.1)
  pure (.dict t.1)

/-- `return self.environ[key]` -/
def envItem (k : Key) : M Val := fun s =>
  match s.env.get? k with
  | some v => (.ok v, s)
  | Option.none => (.error (.py .keyError), s)

/-- `forms`: `self.POST; return self.environ['ombott.request.forms']` -/
def rdForms (cfg : Cfg) (L : Lib) : M Val := cacheIn kForms do
  let _ ← rdPost cfg L
  envItem kForms

/-- `files`: `self.POST; return self.environ['ombott.request.files']` -/
def rdFiles (cfg : Cfg) (L : Lib) : M Val := cacheIn kFiles do
  let _ ← rdPost cfg L
  envItem kFiles

def asDict : Val → Except Exc FD
  | .dict d => .ok d
  | _ => .error (.py .typeError)

/-- `FormsDict(self.query, **self.forms)` -/
def mergeDicts (q f : FD) : FD := f.foldl (fun d p => Qs.Dict.set d p.1 p.2) q

/-- `params` -/
def rdParams (cfg : Cfg) (L : Lib) : M Val := cacheIn kParams do
  let q ← rdQuery
  let q ← liftE (asDict q)
  let f ← rdForms cfg L
  let f ← liftE (asDict f)
  pure (.dict (mergeDicts q f))

/-! ### the properties by attribute name -/

/-- the attributes a handler reads: every `cache_in` property (`Gen.ecProps`; `GET` is `query`,
`_body` is read through `body`) -/
inductive Prop'
  | app | route | urlArgs | headers | cookies | params | url | urlparts | fullpath | scriptName
  | isJsonRequested | remoteRoute | contentLength | contentType | ctype | query | json | post
  | forms | files | body
  deriving Repr, DecidableEq

def Prop'.attr : Prop' → String
  | .app => "app" | .route => "route" | .urlArgs => "url_args" | .headers => "headers"
  | .cookies => "cookies" | .params => "params" | .url => "url" | .urlparts => "urlparts"
  | .fullpath => "fullpath" | .scriptName => "script_name" | .isJsonRequested => "is_json_requested"
  | .remoteRoute => "remote_route" | .contentLength => "content_length" | .contentType => "content_type"
  | .ctype => "ctype" | .query => "query" | .json => "json" | .post => "POST" | .forms => "forms"
  | .files => "files" | .body => "_body"

def Prop'.all : List Prop' :=
  [.app, .route, .urlArgs, .headers, .cookies, .params, .url, .urlparts, .fullpath, .scriptName,
   .isJsonRequested, .remoteRoute, .contentLength, .contentType, .ctype, .query, .json, .post,
   .forms, .files, .body]

/-- the environ key the property caches under -/
def Prop'.key : Prop' → Key
  | .app => kApp | .route => kRoute | .urlArgs => kUrlArgs | .headers => kHeaders
  | .cookies => kCookies | .params => kParams | .url => kUrl | .urlparts => kUrlparts
  | .fullpath => kFullpath | .scriptName => kScriptName | .isJsonRequested => kIsJson
  | .remoteRoute => kRemoteRoute | .contentLength => kContentLength | .contentType => kContentType
  | .ctype => kCtype | .query => kQuery | .json => kJson | .post => kPost | .forms => kForms
  | .files => kFiles | .body => kBody

/-- reading attribute `p` of the request (for `body`: `request.body.read()`, as bytes) -/
def readProp (cfg : Cfg) (L : Lib) : Prop' → M Val
  | .app => rdExternal kApp
  | .route => rdExternal kRoute
  | .urlArgs => rdExternal kUrlArgs
  | .headers => rdHeaders
  | .cookies => rdCookies L
  | .params => rdParams cfg L
  | .url => rdUrl cfg L
  | .urlparts => rdUrlparts cfg L
  | .fullpath => rdFullpath cfg L
  | .scriptName => rdScriptName cfg
  | .isJsonRequested => rdIsJson
  | .remoteRoute => rdRemoteRoute
  | .contentLength => rdContentLength
  | .contentType => rdContentType
  | .ctype => rdCtype
  | .query => rdQuery
  | .json => rdJson cfg L
  | .post => rdPost cfg L
  | .forms => rdForms cfg L
  | .files => rdFiles cfg L
  | .body => rdBody cfg

/-! ### `__setitem__`, `__delitem__`, `_on_env_changed`, `copy` -/

/-- `_on_env_changed(request, key, v)`: the cache keys dropped when `key` was assigned, from the
table probed on the live method (`Gen.ecArms` for the keys some property reads, the common row of
the `HTTP_*` probes, the common row of all other probes) -/
def todelete (k : Key) : List Key :=
  match Gen.ecArms.find? (fun p => p.1.toList = k) with
  | some p => p.2.map String.toList
  | Option.none =>
    if cs!"HTTP_".isPrefixOf k then Gen.ecArmHttp.map String.toList else Gen.ecArmOther.map String.toList

def dropAll (e : Env) (ks : List Key) : Env := ks.foldl Env.del e

/-- `request[key] = value`
```
env = self.environ
if key in env and env[key] in [value]: return
env[key] = value
self.emit('env_changed', key, value)
``` -/
def setItem (e : Env) (k : Key) (v : Val) : Env :=
  if e.get? k = some v then e else dropAll (e.set k v) (todelete k)

/-- `del request[key]`: `self[key] = ""; del self.environ[key]` -/
def delItem (e : Env) (k : Key) : Env := (setItem e k (.str [])).del k

/-- `request.copy()`: `self.__class__(self.environ.copy(), config=self.config)` — a new dict with
the same entries: strings, the reference to the same stream object, and every cached value
(the header view still wraps the environ it was built on) -/
def copyEnv (e : Env) : Env := e

/-! ### a handler at work on a request and its copies -/

structure World where
  heap : Heap
  envs : List Env

inductive Op
  | read (i : Nat) (p : Prop')             -- `request_i.<p>`
  | setStr (i : Nat) (k : Key) (v : Str)   -- `request_i[k] = v`
  | setInput (i : Nat) (r : Rec)           -- `request_i['wsgi.input'] = <a new stream object>`
  | del (i : Nat) (k : Key)                -- `del request_i[k]`
  | copy (i : Nat)                         -- a new request `request_i.copy()` (numbered next)

/-- `WSGIHeaderDict.__iter__`: `key[5:].replace('_', '-').title()` for `HTTP_*` keys,
`key.replace('_', '-').title()` for `CONTENT_TYPE` / `CONTENT_LENGTH` -/
def headerName (k : Key) : Option Str :=
  let dash (s : Str) : Str := s.map fun c => if c = '_' then '-' else c
  if cs!"HTTP_".isPrefixOf k then some (title (dash (k.drop 5)))
  else if k = cs!"CONTENT_TYPE" ∨ k = cs!"CONTENT_LENGTH" then some (title (dash k))
  else Option.none

/-- `[(name, headers[name]) for name in headers]` on a header view: the string entries of the
environ it wraps -/
def headerItems (e : Env) : List (Str × Str) :=
  e.filterMap fun p =>
    match headerName p.1, p.2 with
    | some n, .str s => some (n, s)
    | _, _ => Option.none

/-- what the handler sees of a value it read -/
def observe (w : World) : Val → Val
  | .view j => .pairs (headerItems (w.envs.getD j []))
  | .body sk _ => .bytes sk.body                                  -- `request.body.read()`
  | v => v

def World.setEnv (w : World) (i : Nat) (e : Env) : World := { w with envs := w.envs.set i e }

/-- one operation: the world afterwards and, for a read, what the handler got -/
def step (cfg : Cfg) (L : Lib) (w : World) : Op → World × Option (Except Exc Val)
  | .read i p =>
    match w.envs[i]? with
    | Option.none => (w, Option.none)
    | some e =>
      let (r, s) := readProp cfg L p ⟨w.heap, e, i⟩
      let w' : World := { heap := s.heap, envs := w.envs.set i s.env }
      (w', some (r.map (observe w')))
  | .setStr i k v =>
    match w.envs[i]? with
    | Option.none => (w, Option.none)
    | some e => (w.setEnv i (setItem e k (.str v)), Option.none)
  | .setInput i r =>
    match w.envs[i]? with
    | Option.none => (w, Option.none)
    | some e => ({ heap := w.heap ++ [r], envs := w.envs.set i (setItem e kInput (.stream w.heap.length)) }, Option.none)
  | .del i k =>
    match w.envs[i]? with
    | Option.none => (w, Option.none)
    | some e => (w.setEnv i (delItem e k), Option.none)
  | .copy i =>
    match w.envs[i]? with
    | Option.none => (w, Option.none)
    | some e => ({ w with envs := w.envs ++ [copyEnv e] }, Option.none)

/-- the answers of the reads of an operation sequence, in order -/
def run (cfg : Cfg) (L : Lib) : World → List Op → List (Except Exc Val)
  | _, [] => []
  | w, op :: ops =>
    match step cfg L w op with
    | (w', some r) => r :: run cfg L w' ops
    | (w', Option.none) => run cfg L w' ops

end Ombott.EnvCache
