import OmbottModel.Model.RouterEdit
import OmbottModel.Model.RouterSpec
/-!
The specification C11 refers to: what a router stands for is three finite maps read off its
indexes (pattern string ↦ route with its method table, name ↦ route, pattern string ↦ hook pair);
which hooks a match delivers is a function of the hook map, the matched pattern and the path
(`specHooks`).  No tree here.
-/
namespace Ombott.Router
open Py

/-- what a route amounts to for an observer: pattern, the names stored with it, method table -/
structure RouteView where
  syms : List Sym
  params : List Str
  methods : List (Str × RouteMethod)
  deriving Repr

def Route.view (r : Route) : RouteView := ⟨r.syms, r.params, r.methods⟩

/-- `routes`: pattern string ↦ route -/
def Router.routeAt (R : Router) (ps : Str) : Option RouteView :=
  ((dictGet R.routes ps).bind R.obj?).map Route.view

/-- `named_routes`: name ↦ route -/
def Router.nameAt (R : Router) (nm : Str) : Option RouteView :=
  ((dictGet R.named nm).bind R.obj?).map Route.view

/-- `hooks`: pattern string ↦ hook pair -/
def Router.hookAt (R : Router) (ps : Str) : Option HookPair := dictGet R.hookIdx ps

/-- the survivors of two routers are the same: same three maps -/
def SameSurvivors (R F : Router) : Prop :=
  (∀ ps, R.routeAt ps = F.routeAt ps) ∧ (∀ nm, R.nameAt nm = F.nameAt nm) ∧ (∀ ps, R.hookAt ps = F.hookAt ps)

/-- the three finite maps a router stands for -/
structure Maps where
  routes : Str → Option RouteView
  names : Str → Option RouteView
  hooks : Str → Option HookPair

def Router.maps (R : Router) : Maps := ⟨R.routeAt, R.nameAt, R.hookAt⟩

/-- the routes whose pattern string satisfies `gone` leave the map, and their names with them -/
def Maps.dropRoutes (M : Maps) (gone : Str → Bool) : Maps :=
  { routes := fun ps => if gone ps then none else M.routes ps
    names := fun nm => (M.names nm).bind fun v => if gone (patStr v.syms) then none else some v
    hooks := M.hooks }

/-- the hook map with the entry at `ps` set / erased -/
def Maps.setHook (M : Maps) (ps : Str) (o : Option HookPair) : Maps :=
  { M with hooks := fun x => if x = ps then o else M.hooks x }

/-! ### which hooks a match delivers -/

def emitHook (o : Option HookPair) (pos : Nat) : List (Nat × HookPair) :=
  match o with
  | some hp => [(pos, hp)]
  | none => []

/-- walk the matched pattern over the path as the plain matcher does; after every symbol, if the
pattern read so far (`done`) holds a hook pair, deliver it with the number of path characters
consumed up to there -/
def specHooksFrom (env : FilterEnv) (H : List Sym → Option HookPair) :
    List Sym → List Sym → Str → Nat → List (Nat × HookPair)
  | _, [], _, _ => []
  | done, .lit c :: rest, path, pos =>
    match path with
    | [] => []
    | _ :: path' =>
      emitHook (H (done ++ [.lit c])) (pos + 1) ++
        specHooksFrom env H (done ++ [.lit c]) rest path' (pos + 1)
  | done, .tok f :: rest, path, pos =>
    match tokRes env f path with
    | none => []
    | some r =>
      emitHook (H (done ++ [.tok f])) (pos + (path.take r.n).length) ++
        specHooksFrom env H (done ++ [.tok f]) rest (path.drop r.n) (pos + (path.take r.n).length)

/-- **the hooks of a match**: the hook pairs whose pattern is a symbol-prefix of the matched
pattern, shortest first (outermost first), each with the length of the path prefix matched by it -/
def specHooks (env : FilterEnv) (H : List Sym → Option HookPair) (pat : List Sym) (path : Str) :
    List (Nat × HookPair) :=
  emitHook (H []) 0 ++ specHooksFrom env H [] pat path 0

end Ombott.Router
