import OmbottModel.Py
import OmbottModel.Py.IntLim
import OmbottModel.Py.CharLit
import OmbottModel.Model.Forms
import OmbottModel.Model.StaticFile
import OmbottModel.Gen.Upload
/-!
Model of the upload object and of the file proxies beyond `Model/Forms.lean` (C07):

* `ombott/request_pkg/helpers.py`: `FileUpload.__init__`, `FileUpload.get_header`, the `HeaderProperty`
  attributes `FileUpload.content_type` / `FileUpload.content_length`, `FileUpload.filename` (a
  `cached_property`; every step of the sanitiser as a concrete function over `List Char`),
  `FileUpload._copy_file`, `FileUpload.save` (the file system is a parameter structure),
* `ombott/request_pkg/multipart.py`: `BytesIOProxy` in full (`__init__`, `tell`, `seek`, `read` are
  `Forms.Proxy`; here the closed source, `isatty/seekable/readable/writable/fileno/closed/close/flush`
  and operation sequences), `FieldStorage.__init__`,
* `ombott/request_pkg/body_mixin.py`: how `BodyMixin._collect_multipart` builds
  `FileUpload(item.file, item.name, item.filename, item.headers)`.

`unicodedata.normalize('NFKD', ·)` followed by `.encode('ASCII', 'ignore')` is modelled with the
per-character decomposition as a parameter `nf : Char → List Char`: canonical reordering only
permutes combining marks, which are not ASCII, so the ASCII projection of the NFKD form is the
concatenation of the ASCII projections of the per-character decompositions.  `nfkdTable` is the
instance the driver runs (table probed from the live `normalize` over the generator's alphabet).
-/
namespace Ombott.Upload
open Py Ombott.Forms

/-! ### `bytes.decode('utf8', 'ignore')` -/

/-- `(b & 0xC0) == 0x80` -/
def isCont (b : UInt8) : Bool := 0x80 ≤ b.toNat && b.toNat < 0xC0

def cpOf2 (a b : UInt8) : Nat := (a.toNat - 0xC0) * 64 + (b.toNat - 0x80)
def cpOf3 (a b c : UInt8) : Nat := (a.toNat - 0xE0) * 4096 + (b.toNat - 0x80) * 64 + (c.toNat - 0x80)
def cpOf4 (a b c d : UInt8) : Nat :=
  (a.toNat - 0xF0) * 262144 + (b.toNat - 0x80) * 4096 + (c.toNat - 0x80) * 64 + (d.toNat - 0x80)

/-- one round of CPython's UTF-8 decoder with the `ignore` handler: the character decoded (if any)
and the number of bytes consumed (≥ 1).  An invalid start byte or an invalid first continuation
skips 1 byte, an invalid second / third continuation skips 2 / 3, a truncated sequence at the end
of the data skips what is left. -/
def decStep : Bytes → Option Char × Nat
  | [] => (none, 1)
  | a :: r =>
    let x := a.toNat
    if x < 0x80 then (some (Char.ofNat x), 1)
    else if x < 0xC2 then (none, 1)                                  -- invalid start byte
    else if x < 0xE0 then
      match r with
      | [] => (none, 1)                                              -- unexpected end of data
      | b :: _ => if isCont b then (some (Char.ofNat (cpOf2 a b)), 2) else (none, 1)
    else if x < 0xF0 then
      match r with
      | [] => (none, 1)
      | b :: r1 =>
        if !isCont b || (if b.toNat < 0xA0 then x == 0xE0 else x == 0xED) then (none, 1)
        else match r1 with
          | [] => (none, 2)
          | c :: _ => if isCont c then (some (Char.ofNat (cpOf3 a b c)), 3) else (none, 2)
    else if x < 0xF5 then
      match r with
      | [] => (none, 1)
      | b :: r1 =>
        if !isCont b || (if b.toNat < 0x90 then x == 0xF0 else x == 0xF4) then (none, 1)
        else match r1 with
          | [] => (none, 2)
          | c :: r2 =>
            if !isCont c then (none, 2)
            else match r2 with
              | [] => (none, 3)
              | d :: _ => if isCont d then (some (Char.ofNat (cpOf4 a b c d)), 4) else (none, 3)
    else (none, 1)                                                   -- 0xF5..0xFF

/-- the decoder loop; the fuel is the number of bytes (every round consumes at least one) -/
def decLoop : Nat → Bytes → Str
  | 0, _ => []
  | _ + 1, [] => []
  | fuel + 1, bs =>
    let (c, k) := decStep bs
    c.toList ++ decLoop fuel (bs.drop k)

/-- `fname.decode('utf8', 'ignore')` -/
def utf8DecodeIgnore (b : Bytes) : Str := decLoop b.length b

/-! ### `FileUpload.filename`: the sanitiser, step by step -/

/-- `raw_filename`: `str`, `bytes`, or something without `.decode` (`None`, an `int`, …) -/
inductive RawName
  | str (s : Str)
  | bytes (b : Bytes)
  | other
  deriving Repr, DecidableEq

/-- `.encode('ASCII', 'ignore').decode('ASCII')` -/
def asciiIgnore (s : Str) : Str := s.filter (fun c => c.toNat < 128)

/-- `normalize('NFKD', fname).encode('ASCII', 'ignore').decode('ASCII')` -/
def nfkdAscii (nf : Char → List Char) (s : Str) : Str := asciiIgnore (s.flatMap nf)

/-- the probed table as a normaliser: a character of the generator's alphabet decomposes to its
table entry; outside the table ASCII is fixed and everything else has no ASCII part -/
def nfkdTable (c : Char) : List Char :=
  match Gen.upNfkd.lookup c.toNat with
  | some l => l.map Char.ofNat
  | none => if c.toNat < 128 then [c] else []

def sepChar : Char := Char.ofNat Gen.upSep

/-- `fname.replace('\\', os.path.sep)` -/
def replaceBackslash (s : Str) : Str := s.map (fun c => if c = '\\' then sepChar else c)

/-- `os.path.basename(p)` (posixpath): what follows the last separator -/
def basename (s : Str) : Str := (s.reverse.takeWhile (fun c => c != sepChar)).reverse

def inTable (t : List Nat) (c : Char) : Bool := t.contains c.toNat

/-- `re.sub(r'[^a-zA-Z0-9-_.\s]', '', fname)` -/
def keep1 (s : Str) : Str := s.filter (inTable Gen.upKeep1)

/-- `str.strip()` -/
def stripWs (s : Str) : Str := stripBy (inTable Gen.upStripWs) s

/-- `re.sub(r'[-\s]+', '-', fname)`: every maximal run of class members becomes one dash; the flag
says that the previous character belonged to a run -/
def collapseGo : Bool → Str → Str
  | _, [] => []
  | inRun, c :: cs =>
    if inTable Gen.upDashWs c then (if inRun then collapseGo true cs else '-' :: collapseGo true cs)
    else c :: collapseGo false cs

def collapse (s : Str) : Str := collapseGo false s

/-- `.strip('.-')` -/
def stripDD (s : Str) : Str := stripBy (inTable Gen.upStripChars) s

def emptyName : Str := Gen.upEmpty.map Char.ofNat

/-- the name before `[:255] or 'empty'` -/
def preTrunc (nf : Char → List Char) (fname : Str) : Str :=
  let fname := nfkdAscii nf fname
  let fname := basename (replaceBackslash fname)
  let fname := stripWs (keep1 fname)
  stripDD (collapse fname)

/-- `fname[:255] or 'empty'` -/
def truncOrEmpty (fname : Str) : Str :=
  let t := fname.take Gen.upMaxLen
  if t.isEmpty then emptyName else t

/-- the text the getter works on; `none`: `fname.decode` does not exist (`AttributeError`) -/
def rawText : RawName → Option Str
  | .str s => some s
  | .bytes b => some (utf8DecodeIgnore b)
  | .other => none

/-- the body of the getter `FileUpload.filename` on a text -/
def sanitizeStr (nf : Char → List Char) (fname : Str) : Str := truncOrEmpty (preTrunc nf fname)

/-- the getter `FileUpload.filename`; `none` = `AttributeError` inside the getter, which
`cached_property.__get__` turns into `PropertyGetterError` -/
def sanitize (nf : Char → List Char) (raw : RawName) : Option Str := (rawText raw).map (sanitizeStr nf)

/-! ### the upload object -/

/-- a value of the part's header mapping: `_collect_multipart` passes `FieldStorage.headers`, whose
values are `Header` namespaces; a handler that builds a `FileUpload` itself passes strings -/
inductive HVal
  | str (s : Str)
  | hdr (h : Header)
  deriving Repr, DecidableEq

/-- exceptions of this layer: the classes of `Forms.Exc` plus `PropertyGetterError` and the
`OSError` family as class names -/
abbrev Exc := Forms.Exc

/-- `FileUpload`: the four slots, and `__dict__['filename']` (the `cached_property` store).
`computed` is a ghost counter: how often the getter body ran. -/
structure FileUpload where
  file : Proxy
  name : Str
  rawFilename : RawName
  headers : List (Str × HVal)
  cached : Option Str := none
  computed : Nat := 0
  deriving Repr, DecidableEq

/-- `FileUpload.__init__(fileobj, name, filename, headers=None)`:
`self.headers = HeaderDict(headers) if headers else HeaderDict()` -/
def FileUpload.init (file : Proxy) (name : Str) (filename : RawName) (headers : Option (List (Str × HVal))) :
    FileUpload :=
  { file := file, name := name, rawFilename := filename,
    headers := match headers with
      | some h => if h.isEmpty then [] else h.foldl (fun d kv => dictSet d kv.1 kv.2) []
      | none => [] }

/-- `FieldStorage.__init__`: every attribute `None`, `headers = {}` -/
def fieldInit : FieldS := ⟨[], none, none, none, none, []⟩

/-- `BodyMixin._collect_multipart`: `FileUpload(item.file, item.name, item.filename, item.headers)`
for an item of `Forms.itemOf` (window, name, raw file name, the `Header` objects) -/
def ofCollected (u : Forms.Upload) : FileUpload :=
  FileUpload.init (Proxy.new u.file.1 u.file.2) u.name (.str u.rawFilename)
    (some (u.headers.map fun kv => (kv.1, HVal.hdr kv.2)))

/-- `FileUpload.get_header(name, default=None)`: `self.headers.get(name, default)` — the mapping is a
plain `dict` copy, keys are compared exactly -/
def FileUpload.getHeader (u : FileUpload) (name : Str) (default : Option HVal) : Option HVal :=
  match dictGet u.headers name with
  | some v => some v
  | none => default

def ctHeader : Str := cs!"Content-Type"
def clHeader : Str := cs!"Content-Length"

/-- `FileUpload.content_type` = `HeaderProperty('Content-Type')`: `headers.get(name, '')`, no reader -/
def FileUpload.contentType (u : FileUpload) : HVal := (dictGet u.headers ctHeader).getD (.str [])

/-- `FileUpload.content_length` = `HeaderProperty('Content-Length', reader=int, default=-1)`:
`int(headers.get(name, -1))`; a non-numeric text is `ValueError`, a `Header` namespace `TypeError` -/
def FileUpload.contentLength (u : FileUpload) : Except Exc Int :=
  match dictGet u.headers clHeader with
  | none => .ok (-1)
  | some (.str s) =>
    match pyIntLim s with
    | some n => .ok n
    | none => .error (.py .valueError)
  | some (.hdr _) => .error (.py .typeError)

/-- reading `upload.filename`: `cached_property.__get__` runs the getter and stores the value in the
instance `__dict__`; from then on normal attribute lookup finds the stored value first -/
def FileUpload.filenameGet (nf : Char → List Char) (u : FileUpload) : Except Exc Str × FileUpload :=
  match u.cached with
  | some v => (.ok v, u)
  | none =>
    match sanitize nf u.rawFilename with
    | some v => (.ok v, { u with cached := some v, computed := u.computed + 1 })
    | none => (.error (.other "PropertyGetterError"), { u with computed := u.computed + 1 })

/-- `del upload.filename`: removes the stored value (`AttributeError` when there is none) -/
def FileUpload.filenameDel (u : FileUpload) : Except Exc Unit × FileUpload :=
  match u.cached with
  | some _ => (.ok (), { u with cached := none })
  | none => (.error (.py .attributeError), u)

/-- `upload.filename = v`: `cached_property` has no `__set__`, the value goes to `__dict__` -/
def FileUpload.filenameSet (u : FileUpload) (v : Str) : FileUpload := { u with cached := some v }

/-! ### file objects: what `_copy_file` needs -/

/-- the file interface `_copy_file` uses: `read(n)`, `tell()`, `seek(offset)` -/
structure FileOps (σ : Type) where
  read : σ → Int → Except Exc (Bytes × σ)
  tell : σ → Int
  seek : σ → Int → Except Exc σ

/-- `BytesIOProxy.read` with the source's `closed` flag: `self._src.seek` on a closed buffer / file
is `ValueError`; an exhausted window answers `b''` without touching the source -/
def proxyRead (closed : Bool) (p : Proxy) (body : Bytes) (sp : Bool) (sz : Option Int) :
    Except Exc (Bytes × Proxy) :=
  if p.en - p.pos ≤ 0 then .ok ([], p)
  else if closed then .error (.py .valueError)
  else p.read body sp sz

/-- `BytesIOProxy.seek(pos, whence)` for any integer `whence` -/
def proxySeek (p : Proxy) (pos whence : Int) : Except Exc Proxy :=
  if whence < 0 then .error (.py .valueError) else p.seek pos whence.toNat

/-- a `BytesIOProxy` over the buffered body as a file object -/
def proxyOps (body : Bytes) (sp closed : Bool) : FileOps Proxy where
  read := fun p n => proxyRead closed p body sp (some n)
  tell := Proxy.tell
  seek := fun p o => proxySeek p o 0

/-- an ordinary binary file with a read schedule (raw streams may return fewer bytes than asked
for, never none before the end): `data`, position, remaining schedule.  `read(n)`: `n < 0` reads
to the end, `n = 0` returns `b''`. -/
structure SFile where
  data : Bytes
  pos : Nat
  sched : List Nat
  deriving Repr, DecidableEq

def SFile.read (f : SFile) (n : Int) : Bytes × SFile :=
  let rest := f.data.drop f.pos
  let want := if n < 0 then rest.length else n.toNat
  let k := match f.sched with
    | [] => want
    | x :: _ => min want (max x 1)
  let out := rest.take k
  (out, { f with pos := f.pos + out.length, sched := f.sched.tail })

/-- `seek(offset)` of a regular file / `BytesIO`: negative is an error (`ValueError` for `BytesIO`,
`OSError` for a real file; the scheduled file object of the harness raises `ValueError`) -/
def SFile.seek (f : SFile) (o : Int) : Except Exc SFile :=
  if o < 0 then .error (.py .valueError) else .ok { f with pos := o.toNat }

def sfileOps : FileOps SFile where
  read := fun f n => .ok (f.read n)
  tell := fun f => (f.pos : Int)
  seek := SFile.seek

/-! ### `FileUpload._copy_file` -/

/-- the `while True:` loop of `_copy_file`: `buf = read(chunk_size); if not buf: break; write(buf)`.
The pieces are what `write` received, in order.  `none` = the fuel ran out (never happens with
the fuel `copyFile` passes: see `copy_file_exact`). -/
def copyLoop {σ} (ops : FileOps σ) (chunk : Int) : Nat → σ → Option (Except Exc (List Bytes × σ))
  | 0, _ => none
  | fuel + 1, f =>
    match ops.read f chunk with
    | .error e => some (.error e)
    | .ok (buf, f') =>
      if buf.isEmpty then some (.ok ([], f'))
      else
        match copyLoop ops chunk fuel f' with
        | none => none
        | some (.error e) => some (.error e)
        | some (.ok (ps, f'')) => some (.ok (buf :: ps, f''))

/-- `FileUpload._copy_file(fp, chunk_size)`: `offset = self.file.tell()`, the loop, then
`self.file.seek(offset)` -/
def copyFileFuel {σ} (ops : FileOps σ) (chunk : Int) (fuel : Nat) (f : σ) :
    Option (Except Exc (List Bytes × σ)) :=
  let offset := ops.tell f
  match copyLoop ops chunk fuel f with
  | none => none
  | some (.error e) => some (.error e)
  | some (.ok (ps, f')) =>
    match ops.seek f' offset with
    | .error e => some (.error e)
    | .ok f'' => some (.ok (ps, f''))

/-- fuel for a proxy: the bytes left in the window, plus the final empty read -/
def proxyFuel (p : Proxy) : Nat := (p.en - p.pos).toNat + 1

/-- fuel for a scheduled file -/
def sfileFuel (f : SFile) : Nat := (f.data.length - f.pos) + 1

/-- `_copy_file` of an upload whose `file` is a `BytesIOProxy` -/
def copyProxy (body : Bytes) (sp closed : Bool) (chunk : Int) (p : Proxy) :
    Option (Except Exc (List Bytes × Proxy)) :=
  copyFileFuel (proxyOps body sp closed) chunk (proxyFuel p) p

/-- `_copy_file` of an upload whose `file` is an ordinary (scheduled) file object -/
def copySFile (chunk : Int) (f : SFile) : Option (Except Exc (List Bytes × SFile)) :=
  copyFileFuel sfileOps chunk (sfileFuel f) f

/-! ### `FileUpload.save` -/

/-- the file system as `save` sees it.  `openErr p` is the `OSError` subclass `open(p, 'wb')` raises
(`none`: the file is created / truncated and everything written lands in it). -/
structure Fs where
  isdir : Str → Bool
  exists_ : Str → Bool
  openErr : Str → Option String

inductive Dest
  | path (p : Str)           -- `isinstance(destination, str)`
  | filelike                 -- anything else: its `write` is the sink
  deriving Repr, DecidableEq

/-- what `save` did: the path handed to `open` (`none` for a file-like destination) and the
pieces written to the sink, in order -/
structure Saved where
  opened : Option Str
  pieces : List Bytes
  deriving Repr, DecidableEq

/-- `FileUpload.save(destination, overwrite=False, chunk_size=2**16)` for an upload over a proxy.
Returns the outcome and the upload afterwards (the cached file name, the proxy position).
When `_copy_file` raises inside `with open(...)` the file has been created already: the outcome
carries the path in the error case too. -/
def FileUpload.save (nf : Char → List Char) (fs : Fs) (body : Bytes) (sp closed : Bool)
    (u : FileUpload) (dest : Dest) (overwrite : Bool) (chunk : Int) :
    Option (Except (Exc × Option Str) Saved × FileUpload) :=
  match dest with
  | .path d =>
    -- if os.path.isdir(destination): destination = os.path.join(destination, self.filename)
    let (r, u) := if fs.isdir d then
        (match u.filenameGet nf with
         | (.ok fname, u') => (Except.ok (StaticFile.join d fname), u')
         | (.error e, u') => (Except.error e, u'))
      else (Except.ok d, u)
    match r with
    | .error e => some (.error (e, none), u)
    | .ok d =>
      if !overwrite && fs.exists_ d then some (.error (.other "OSError", none), u)     -- IOError('File exists.')
      else
        match fs.openErr d with
        | some cls => some (.error (.other cls, none), u)
        | none =>
          match copyProxy body sp closed chunk u.file with
          | none => none
          | some (.error e) => some (.error (e, some d), u)
          | some (.ok (ps, p')) => some (.ok ⟨some d, ps⟩, { u with file := p' })
  | .filelike =>
    match copyProxy body sp closed chunk u.file with
    | none => none
    | some (.error e) => some (.error (e, none), u)
    | some (.ok (ps, p')) => some (.ok ⟨none, ps⟩, { u with file := p' })

/-! ### `BytesIOProxy`: every method, as operations on one object -/

inductive POp
  | read (sz : Option Int)
  | seek (pos whence : Int)
  | tell | isatty | seekable | readable | writable | fileno | closed | close | flush
  | closeSrc                 -- `proxy._src.close()` (what the request does when it ends)
  deriving Repr, DecidableEq

inductive PRes
  | bytes (b : Bytes)
  | int (i : Int)
  | bool (b : Bool)
  | none
  | err (e : Exc)
  deriving Repr, DecidableEq

/-- proxy + the `closed` flag of its source -/
structure PSt where
  p : Proxy
  closed : Bool := false
  deriving Repr, DecidableEq

/-- one method call; an exception leaves the object as it was -/
def proxyOp (body : Bytes) (sp : Bool) (s : PSt) : POp → PRes × PSt
  | .read sz =>
    match proxyRead s.closed s.p body sp sz with
    | .ok (b, p') => (.bytes b, { s with p := p' })
    | .error e => (.err e, s)
  | .seek pos w =>
    match proxySeek s.p pos w with
    | .ok p' => (.int p'.tell, { s with p := p' })
    | .error e => (.err e, s)
  | .tell => (.int s.p.tell, s)
  | .isatty => (.bool false, s)
  | .seekable => (.bool true, s)
  | .readable => (.bool true, s)
  | .writable => (.bool false, s)
  | .fileno => (.err (.other "OSError"), s)
  | .closed => (.bool s.closed, s)
  | .close => (.none, s)
  | .flush => (.none, s)
  | .closeSrc => (.none, { s with closed := true })

/-- a whole operation sequence: the answers, and the final state -/
def runProxy (body : Bytes) (sp : Bool) : PSt → List POp → List PRes × PSt
  | s, [] => ([], s)
  | s, op :: ops =>
    let (r, s') := proxyOp body sp s op
    let (rs, s'') := runProxy body sp s' ops
    (r :: rs, s'')

/-! ### the reference: `io.BytesIO(src[st:end])` -/

/-- `io.BytesIO`: buffer and position (the position may lie beyond the end) -/
structure Bio where
  data : Bytes
  pos : Nat := 0
  deriving Repr, DecidableEq

/-- `BytesIO.read(sz)`: `None` / negative = to the end -/
def Bio.read (b : Bio) (sz : Option Int) : Bytes × Bio :=
  let rest := b.data.drop b.pos
  let out := match sz with
    | some k => if k < 0 then rest else rest.take k.toNat
    | none => rest
  (out, { b with pos := b.pos + out.length })

/-- `BytesIO.seek(pos, whence)`: a negative absolute position and an unknown `whence` are
`ValueError`; relative seeks clamp at 0; nothing clamps at the end -/
def Bio.seek (b : Bio) (pos whence : Int) : Except Exc Bio :=
  if whence = 0 then (if pos < 0 then .error (.py .valueError) else .ok { b with pos := pos.toNat })
  else if whence = 1 then .ok { b with pos := ((b.pos : Int) + pos).toNat }
  else if whence = 2 then .ok { b with pos := ((b.data.length : Int) + pos).toNat }
  else .error (.py .valueError)

def bioOp (b : Bio) : POp → PRes × Bio
  | .read sz => let (o, b') := b.read sz; (.bytes o, b')
  | .seek pos w =>
    match b.seek pos w with
    | .ok b' => (.int b'.pos, b')
    | .error e => (.err e, b)
  | .tell => (.int b.pos, b)
  | .isatty => (.bool false, b)
  | .seekable => (.bool true, b)
  | .readable => (.bool true, b)
  | .writable => (.bool true, b)          -- the one constant answer that differs from the proxy (see `proxy_window`)
  | .fileno => (.err (.other "OSError"), b)   -- `io.UnsupportedOperation` is an `OSError`
  | .closed => (.bool false, b)
  | .close => (.none, b)
  | .flush => (.none, b)
  | .closeSrc => (.none, b)

def runBio : Bio → List POp → List PRes × Bio
  | b, [] => ([], b)
  | b, op :: ops =>
    let (r, b') := bioOp b op
    let (rs, b'') := runBio b' ops
    (r :: rs, b'')

end Ombott.Upload
