import OmbottModel.Model.Wsgi
import OmbottModel.Model.WsgiSpec
/-
C09: one application serving a history of requests on one (reused) worker thread.

`AppState` = the per-thread slots of the reused request / response objects (`Wsgi.Slots`) and
the mutable parts of the shared `HTTPError` objects of `DefaultConfig.errors_map` (status,
headers, cookies, and the `__traceback__` chain as the list of requests whose frames it
references).  `serve` is `Wsgi.wsgi` with that state threaded; a request whose handler reads a
malformed / oversized body raises the *shared* error object through `BaseRequest._raise`.
-/
namespace Ombott.History
open Py Ombott.Wsgi

/-- one `HTTPError` instance stored in `errors_map` -/
structure SharedErr where
  cls : String            -- the exception class it is mapped from
  resp : RState           -- its status / headers / cookies (mutable on the live object)
  body : Str
  tb : List Nat           -- requests whose frames (and environ) its traceback keeps alive
  deriving Repr, DecidableEq

structure AppState where
  slots : Slots
  shared : List SharedErr
  appTb : List (Nat × List Nat) := []
    -- traceback chains of the application's own module-level `HTTPError` / `HTTPResponse` objects
    -- (key of the object, requests whose frames it references)
  deriving Repr, DecidableEq

def sharedInit : List SharedErr :=
  Gen.wsgiErrorsMap.map fun (cls, code, line, body) =>
    { cls := cls, resp := { code := code, line := line.toList, headers := [], cookies := [] },
      body := body.toList, tb := [] }

/-- a fresh `Ombott()` -/
def AppState.init : AppState := { slots := Slots.fresh, shared := sharedInit }

/-- a fresh `Ombott(config)` whose configuration replaces `errors_map` (entries: class, status
code, status line, body) -/
def AppState.initWith (m : List (String × Nat × Str × Str)) : AppState :=
  { slots := Slots.fresh,
    shared := m.map fun (cls, code, line, body) =>
      { cls := cls, resp := { code := code, line := line, headers := [], cookies := [] }, body := body, tb := [] } }

/-- a request of a history: the WSGI-level description plus the class of the request error that
reading the body in the handler raises (`none`: the body is fine / not read) -/
structure HReq where
  req : Req
  bodyErr : Option String
  direct : Bool := false
    -- the exception is raised by the framework code itself and not through `BaseRequest._raise`
    -- (`int(environ['CONTENT_LENGTH'])` of a Content-Length that is not a number: a plain
    -- `ValueError`): no `errors_map` lookup, the handler crashes
  ctxKeeps : Bool := false
    -- the request error is raised while a built-in exception with a live traceback is being handled
    -- (`except ValueError:` around `int()` / `json.loads`): the shared error's `__context__` then
    -- references this request's frames until the next raise replaces it
  singleton : Option Nat := none
    -- `some k`: the object the handler returns / raises is the application's module-level object `k`
    -- (the same Python object for every request)
  ext : Option (List (Str × Str)) := none
    -- `some sets`: the handler stores these extension attributes / items on `app.request`
    -- (`request.user = v`, `request._token = v`, `request['app.key'] = v`; the login-then-anonymous
    -- pattern) and answers with what it then reads back for all probe names
deriving Inhabited

/-- the names the probing handler reads: a public and an underscore-prefixed extension attribute
and a plain environ item -/
def probeNames : List String := ["user", "_token", "app.key"]

def lookupLast (k : Str) : List (Str × Str) → Option Str
  | [] => none
  | (k', v) :: r =>
    match lookupLast k r with
    | some x => some x
    | none => if k' == k then some v else none

/-- what the probing handler answers: `name=value` or `name=-` (attribute / item absent) -/
def renderExt (ext : List (Str × Str)) : Str :=
  ";".toList.intercalate (probeNames.map fun n =>
    n.toList ++ '=' :: ((lookupLast n.toList ext).getD "-".toList))

/-- what `request` holds when the handler runs: `_handle` has re-initialised it with the new
environ, then the handler's own assignments -/
def extAtHandler (s : Slots) (r : Req) (sets : List (Str × Str)) : List (Str × Str) :=
  (match (s.initRequest r).req with
   | some q => q.ext
   | none => []) ++ sets

/-- the probing handler's outcome -/
def withProbe (s : Slots) (hr : HReq) (req : Req) : Req :=
  match hr.ext, req.route with
  | some sets, .found h =>
    (match h.res with
     | .returns _ => { req with route := .found { h with res := .returns (.text (renderExt (extAtHandler s req sets))) } }
     | _ => req)
  | _, _ => req

/-- the complete response as the server sees it -/
structure Response where
  line : Str
  hdrs : List (Str × Str)
  body : Bytes
  deriving Repr, DecidableEq

/-- `errors_map.get(err.__class__) or errors_map.get(RequestError)` -/
def mapped (shared : List SharedErr) (cls : String) : Option SharedErr :=
  match shared.find? (·.cls == cls) with
  | some e => some e
  | none => shared.find? (·.cls == "RequestError")

/-- `BaseRequest._raise`: `err = out_err.with_traceback(None); raise err` — the traceback of
the shared object is reset and then grows by the frames of this request only -/
def raiseShared (shared : List SharedErr) (e : SharedErr) (id : Nat) : List SharedErr :=
  shared.map fun x => if x.cls == e.cls then { x with tb := [id] } else x

/-- `except HTTPResponse as resp: return resp.with_traceback(None)` in `_handle`: the raised
response that reaches the clause loses its traceback -/
def clearShared (shared : List SharedErr) (e : SharedErr) : List SharedErr :=
  shared.map fun x => if x.cls == e.cls then { x with tb := [] } else x

/-- does the response the handler raised reach the `except HTTPResponse` clause of `_handle`?
(a failing after-hook replaces it while it propagates through the `finally`) -/
def reachesExcept (app : App) : Bool := app.after.all fun h => !h.fails

def tbOf (k : Nat) (l : List (Nat × List Nat)) : List Nat :=
  ((l.find? (·.1 == k)).map (·.2)).getD []

def setTb (k : Nat) (tb : List Nat) : List (Nat × List Nat) → List (Nat × List Nat)
  | [] => [(k, tb)]
  | (k', t) :: r => if k' == k then (k, tb) :: r else (k', t) :: setTb k tb r

def raisesResp? (r : Req) : Bool :=
  match r.route with
  | .found h => (match h.res with | .raisesResp _ => true | _ => false)
  | _ => false

def bodyOf : List BodyItem → Bytes
  | [] => []
  | .chunk b :: r => b ++ bodyOf r
  | .str s :: r => utf8 s ++ bodyOf r
  | .raises :: _ => []

def responseOf (res : Result) : Response :=
  match res.events.filterMap (fun e => match e with
      | .startResponse l h _ => some (l, h)
      | _ => none) with
  | (l, h) :: _ => { line := l, hdrs := h, body := bodyOf res.body }
  | [] => { line := [], hdrs := [], body := bodyOf res.body }

/-- the request with the handler outcome that reading the body produces -/
def resolve (shared : List SharedErr) (hr : HReq) : Req × Option SharedErr :=
  match hr.bodyErr, hr.req.route with
  | some cls, .found h =>
    match (if hr.direct then none else mapped shared cls) with
    | some e => ({ hr.req with route := .found { h with res := .raisesResp (.resp true e.resp (.text e.body)) } }, some e)
    | none => ({ hr.req with route := .found { h with res := .raises } }, none)
  | _, _ => (hr.req, none)

/-- did the handler get as far as reading the body? -/
def handlerReached (res : Result) (r : Req) : Bool :=
  match r.route with
  | .found h => res.events.contains .handler && !effsFail h.effs
  | _ => false

/-- one request served by the application in state `st` -/
def serve (app : App) (st : AppState) (hr : HReq) : AppState × Response :=
  let (req0, raised) := resolve st.shared hr
  let req := withProbe st.slots hr req0
  let res := wsgi app st.slots req
  -- `_raise` raises a per-request copy of the mapped template (`_copy_error`): the entries of
  -- `errors_map` are never raised, handed to an error handler or given a traceback
  let shared' := st.shared
  -- `raise SINGLETON` in application code: nothing resets the traceback before the raise, so it
  -- grows by this request's frames unless the object reaches the `except` clause of `_handle`
  let appTb' :=
    match hr.singleton with
    | some k =>
      if handlerReached res req && raisesResp? req then
        (if reachesExcept app then setTb k [] st.appTb else setTb k (req.id :: tbOf k st.appTb) st.appTb)
      else st.appTb
    | none => st.appTb
  -- the extension attributes stay in the environ the request object points at
  let slots' :=
    match hr.ext, res.slots.req with
    | some sets, some q => if handlerReached res req then { res.slots with req := some { q with ext := sets } } else res.slots
    | _, _ => res.slots
  ({ slots := slots', shared := shared', appTb := appTb' }, responseOf res)

def serve₁ (app : App) (st : AppState) (hr : HReq) : AppState := (serve app st hr).1

def serveAll (app : App) : AppState → List HReq → AppState × List Response
  | st, [] => (st, [])
  | st, r :: rs =>
    let (st', o) := serve app st r
    let (st'', os) := serveAll app st' rs
    (st'', o :: os)

/-- drop repeated ids (keeps the last occurrence) -/
def dedup : List Nat → List Nat
  | [] => []
  | a :: r => if (dedup r).contains a then dedup r else a :: dedup r

/-- the requests whose per-request objects (environ, input stream) are still reachable from the
application: the environ held by the request object and the frames held by the traceback chains
of the shared error objects -/
def retained (st : AppState) : List Nat :=
  dedup ((match st.slots.req with
    | some q => [q.id]
    | none => []) ++ st.shared.flatMap (·.tb) ++ st.appTb.flatMap (·.2))

end Ombott.History
