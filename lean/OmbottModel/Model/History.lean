import OmbottModel.Model.Wsgi
/-
C09: one application serving a history of requests on one (reused) worker thread.

`AppState` = the per-thread slots of the reused request / response objects (`Wsgi.Slots`) and
the mutable parts of the shared `HTTPError` objects of `DefaultConfig.errors_map` (status,
headers, cookies, and the `__traceback__` chain as the list of requests whose frames it
references).  `serve` is `Wsgi.wsgi` with that state threaded; a request whose handler reads a
malformed / oversized body raises the *shared* error object through `BaseRequest._raise`.
-/
namespace Ombott.History
open Py Ombott.Wsgi

/-- one `HTTPError` instance stored in `errors_map` -/
structure SharedErr where
  cls : String            -- the exception class it is mapped from
  resp : RState           -- its status / headers / cookies (mutable on the live object)
  body : Str
  tb : List Nat           -- requests whose frames (and environ) its traceback keeps alive
  deriving Repr, DecidableEq

structure AppState where
  slots : Slots
  shared : List SharedErr
  deriving Repr, DecidableEq

def sharedInit : List SharedErr :=
  Gen.wsgiErrorsMap.map fun (cls, code, line, body) =>
    { cls := cls, resp := { code := code, line := line.toList, headers := [], cookies := [] },
      body := body.toList, tb := [] }

/-- a fresh `Ombott()` -/
def AppState.init : AppState := { slots := Slots.fresh, shared := sharedInit }

/-- a request of a history: the WSGI-level description plus the class of the request error that
reading the body in the handler raises (`none`: the body is fine / not read) -/
structure HReq where
  req : Req
  bodyErr : Option String
deriving Inhabited

/-- the complete response as the server sees it -/
structure Response where
  line : Str
  hdrs : List (Str × Str)
  body : Bytes
  deriving Repr, DecidableEq

/-- `errors_map.get(err.__class__) or errors_map.get(RequestError)` -/
def mapped (shared : List SharedErr) (cls : String) : Option SharedErr :=
  match shared.find? (·.cls == cls) with
  | some e => some e
  | none => shared.find? (·.cls == "RequestError")

/-- `BaseRequest._raise`: `err = out_err.with_traceback(None); raise err` — the traceback of
the shared object is reset and then grows by the frames of this request only -/
def raiseShared (shared : List SharedErr) (e : SharedErr) (id : Nat) : List SharedErr :=
  shared.map fun x => if x.cls == e.cls then { x with tb := [id] } else x

def bodyOf : List BodyItem → Bytes
  | [] => []
  | .chunk b :: r => b ++ bodyOf r
  | .str s :: r => utf8 s ++ bodyOf r
  | .raises :: _ => []

def responseOf (res : Result) : Response :=
  match res.events.filterMap (fun e => match e with
      | .startResponse l h _ => some (l, h)
      | _ => none) with
  | (l, h) :: _ => { line := l, hdrs := h, body := bodyOf res.body }
  | [] => { line := [], hdrs := [], body := bodyOf res.body }

/-- the request with the handler outcome that reading the body produces -/
def resolve (shared : List SharedErr) (hr : HReq) : Req × Option SharedErr :=
  match hr.bodyErr, hr.req.route with
  | some cls, .found h =>
    match mapped shared cls with
    | some e => ({ hr.req with route := .found { h with res := .raisesResp (.resp true e.resp (.text e.body)) } }, some e)
    | none => ({ hr.req with route := .found { h with res := .raises } }, none)
  | _, _ => (hr.req, none)

/-- did the handler get as far as reading the body? -/
def handlerReached (res : Result) (r : Req) : Bool :=
  match r.route with
  | .found h => res.events.contains .handler && !effsFail h.effs
  | _ => false

/-- one request served by the application in state `st` -/
def serve (app : App) (st : AppState) (hr : HReq) : AppState × Response :=
  let (req, raised) := resolve st.shared hr
  let res := wsgi app st.slots req
  let shared' :=
    match raised with
    | some e => if handlerReached res req then raiseShared st.shared e req.id else st.shared
    | none => st.shared
  ({ slots := res.slots, shared := shared' }, responseOf res)

def serve₁ (app : App) (st : AppState) (hr : HReq) : AppState := (serve app st hr).1

def serveAll (app : App) : AppState → List HReq → AppState × List Response
  | st, [] => (st, [])
  | st, r :: rs =>
    let (st', o) := serve app st r
    let (st'', os) := serveAll app st' rs
    (st'', o :: os)

/-- drop repeated ids (keeps the last occurrence) -/
def dedup : List Nat → List Nat
  | [] => []
  | a :: r => if (dedup r).contains a then dedup r else a :: dedup r

/-- the requests whose per-request objects (environ, input stream) are still reachable from the
application: the environ held by the request object and the frames held by the traceback chains
of the shared error objects -/
def retained (st : AppState) : List Nat :=
  dedup ((match st.slots.req with
    | some q => [q.id]
    | none => []) ++ st.shared.flatMap (·.tb))

end Ombott.History
