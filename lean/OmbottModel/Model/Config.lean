import OmbottModel.Py
import OmbottModel.Gen.Config
/-!
The class / configuration machinery every application object is built on
(ombott/common_helpers.py: `_MetaSimpleConfig`, `SimpleConfig`, `NameSpace`, `cached_property`, `proxy`;
ombott/mixable.py: `MixableMeta`; ombott/ombott.py: `DefaultConfig`, `Ombott.__init__`, `Ombott.setup`, `Ombott._hooks`;
ombott/request_pkg/request.py: `RequestConfig`, `BaseRequest.__new__`, `BaseRequest.setup`, `BaseRequest.copy`).

Python's attribute lookup is modelled only as far as these classes need it: a class is an association list (its
`__dict__`) plus an MRO list of class names; an instance is an association list (its `__dict__`); mutable objects
(NameSpaces, dicts) live in a heap that only grows, an object reference is its index.  Names are `String`s.
Sets (`__keys__`, merged `__slots__`) are lists; the correspondence compares them sorted.
-/
namespace Ombott.Config
open Py

abbrev Name := String

/-- the exception classes this machinery raises -/
inductive CErr
  | keyError | typeError | runtimeError | assertionError | attributeError | propertyGetterError | valueError
  deriving Repr, DecidableEq, Inhabited

def CErr.name : CErr → String
  | .keyError => "KeyError" | .typeError => "TypeError" | .runtimeError => "RuntimeError"
  | .assertionError => "AssertionError" | .attributeError => "AttributeError"
  | .propertyGetterError => "PropertyGetterError" | .valueError => "ValueError"

/-! ### dicts with `str` keys (insertion ordered) -/

abbrev AList (β : Type) := List (Name × β)

/-- `d.get(k)` -/
def aget {β} : AList β → Name → Option β
  | [], _ => none
  | (k', v) :: r, k => if k' = k then some v else aget r k

/-- `d[k] = v` (an existing key keeps its position) -/
def aset {β} : AList β → Name → β → AList β
  | [], k, v => [(k, v)]
  | (k', v') :: r, k, v => if k' = k then (k', v) :: r else (k', v') :: aset r k v

/-- `d.pop(k, None)` -/
def adel {β} : AList β → Name → AList β
  | [], _ => []
  | (k', v') :: r, k => if k' = k then r else (k', v') :: adel r k

/-- `k in d` -/
def ahas {β} (d : AList β) (k : Name) : Bool := (aget d k).isSome

/-- `list(d.keys())` -/
def akeys {β} (d : AList β) : List Name := d.map (·.1)

/-- `d.update(e)` -/
def aupdate {β} (d e : AList β) : AList β := e.foldl (fun acc kv => aset acc kv.1 kv.2) d

/-- `k.startswith('__')` -/
def isDunder (k : Name) : Bool := match k.toList with | '_' :: '_' :: _ => true | _ => false

/-- `k.startswith('_')` -/
def isPrivate (k : Name) : Bool := match k.toList with | '_' :: _ => true | _ => false

/-! ### values and the heap -/

/-- a configuration value: an immutable scalar, a list of names (hook lists), a reference to a mutable object of the
heap (`dict`, `NameSpace`), or something opaque that is only ever passed around (bound methods, descriptors) -/
inductive Val
  | none | bool (b : Bool) | int (i : Int) | str (s : String) | list (l : List String) | ref (o : Nat) | special
  deriving Repr, DecidableEq, Inhabited

/-- mutable objects, by identity = position; nothing is ever freed or moved -/
abbrev Heap := List (AList Val)

/-- a new object: its identity is fresh -/
def alloc (h : Heap) (o : AList Val) : Heap × Nat := (h ++ [o], h.length)

/-- the `__dict__` of object `o` -/
def hget (h : Heap) (o : Nat) : AList Val := (h[o]?).getD []

def hset (h : Heap) (o : Nat) (d : AList Val) : Heap := h.set o d

/-! ### `NameSpace` (a `types.SimpleNamespace` with dict access to its `__dict__`) -/

/-- `NameSpace.__getitem__` = `SimpleNamespace.__getattribute__`: data descriptors of the type first, then the instance
`__dict__`, then the other attributes of the type; a miss is AttributeError (not KeyError) -/
def nsGetItem (h : Heap) (o : Nat) (k : Name) : Except CErr Val :=
  if Gen.cfgNsDataAttrs.contains k then .ok .special else
  match aget (hget h o) k with
  | some v => .ok v
  | none => if Gen.cfgNsClassAttrs.contains k then .ok .special else .error .attributeError

/-- `NameSpace.__setitem__` = `SimpleNamespace.__setattr__` (for names that are not data descriptors of the type) -/
def nsSetItem (h : Heap) (o : Nat) (k : Name) (v : Val) : Heap := hset h o (aset (hget h o) k v)

/-- `NameSpace.get`: `s.__dict__.get(k, d)` -/
def nsGet (h : Heap) (o : Nat) (k : Name) (d : Val) : Val := (aget (hget h o) k).getD d

/-- `NameSpace.keys` -/
def nsKeys (h : Heap) (o : Nat) : List Name := akeys (hget h o)

/-- `NameSpace.values` -/
def nsValues (h : Heap) (o : Nat) : List Val := (hget h o).map (·.2)

/-- `NameSpace.items` -/
def nsItems (h : Heap) (o : Nat) : AList Val := hget h o

/-- `NameSpace.setdefault`: `s.__dict__.setdefault(k, d)` -/
def nsSetDefault (h : Heap) (o : Nat) (k : Name) (d : Val) : Heap × Val :=
  match aget (hget h o) k with
  | some v => (h, v)
  | none => (hset h o (aset (hget h o) k d), d)

/-- `NameSpace.update`: `s.__dict__.update(d)` -/
def nsUpdate (h : Heap) (o : Nat) (d : AList Val) : Heap := hset h o (aupdate (hget h o) d)

/-! ### configuration classes (`_MetaSimpleConfig`, `SimpleConfig`) -/

/-- a class whose metaclass is `_MetaSimpleConfig`: `dict` holds the entries of `__dict__` the class body gave,
`keysAttr` / `holderAttr` are the `__keys__` / `__keys_holder__` entries `keys_holder` adds; `mro` starts with the class
itself (`object` left out) -/
structure CClass where
  name : Name
  bases : List Name
  mro : List Name
  dict : AList Val
  keysAttr : Option (List Name) := none
  holderAttr : Option Name := none
  deriving Repr, DecidableEq, Inhabited

abbrev Classes := List CClass

def findClass (cs : Classes) (n : Name) : Option CClass := cs.find? (·.name == n)

/-- `getattr(cls, k, None)` for an entry of a class `__dict__` along the MRO -/
def getattrC (cs : Classes) (c : CClass) (k : Name) : Option Val :=
  c.mro.findSome? fun n => (findClass cs n).bind fun b => aget b.dict k

/-- `getattr(cls, '__keys__', None)` -/
def getKeysAttr (cs : Classes) (c : CClass) : Option (List Name) :=
  c.mro.findSome? fun n => (findClass cs n).bind (·.keysAttr)

/-- `getattr(cls, '__keys_holder__', None)` -/
def getHolderAttr (cs : Classes) (c : CClass) : Option Name :=
  c.mro.findSome? fun n => (findClass cs n).bind (·.holderAttr)

/-- `hasattr(cls, k)` for a non-dunder `k`: class dicts along the MRO, then the metaclass -/
def hasattrC (cs : Classes) (c : CClass) (k : Name) : Bool :=
  (getattrC cs c k).isSome || Gen.cfgMetaAttrs.contains k

/-- equality of two `set`s of names -/
def setEq (a b : List Name) : Bool := a.all b.contains && b.all a.contains

/-- C3 linearisation (`type.__new__`); `none` = "Cannot create a consistent method resolution order" -/
def c3merge : Nat → List (List Name) → Option (List Name)
  | 0, _ => none
  | f + 1, seqs =>
    let seqs := seqs.filter (· ≠ [])
    if seqs.isEmpty then some [] else
    match seqs.findSome? (fun s => match s.head? with
        | some hd => if seqs.all (fun t => !(t.drop 1).contains hd) then some hd else none
        | none => none) with
    | none => none
    | some hd => (c3merge f (seqs.map fun s => if s.head? = some hd then s.drop 1 else s)).map (hd :: ·)

/-- the MRO `type.__new__` computes for `class name(*bases)`; TypeError for an unknown / duplicate base or an
inconsistent order -/
def mroOf (mros : Name → Option (List Name)) (name : Name) (bases : List Name) : Except CErr (List Name) :=
  if !bases.Nodup then .error .typeError else
  match bases.mapM mros with
  | none => .error .typeError
  | some ms =>
    let seqs := ms ++ [bases]
    match c3merge ((seqs.map List.length).sum + 1) seqs with
    | none => .error .typeError
    | some l => .ok (name :: l)

/-- `_MetaSimpleConfig.__get_keys__(bases)` -/
def getKeysLoop (cs : Classes) : List Name → Option (List Name) → Except CErr (Option (List Name))
  | [], ret => .ok ret
  | b :: r, ret =>
    -- keys = getattr(bcls, '__keys__', None); if not keys: continue
    match (findClass cs b).bind (getKeysAttr cs) with
    | none => getKeysLoop cs r ret
    | some keys =>
      if keys.isEmpty then getKeysLoop cs r ret else
      match ret with
      | none => getKeysLoop cs r (some keys)                 -- if not ret_keys: ret_keys = keys
      | some rk =>
        if rk.isEmpty then getKeysLoop cs r (some keys)
        else if !setEq keys rk then .error .typeError         -- 'Multiple keys holders detected'
        else getKeysLoop cs r ret

/-- `_MetaSimpleConfig.__get_keys__` -/
def metaGetKeys (cs : Classes) (bases : List Name) : Except CErr (Option (List Name)) := getKeysLoop cs bases none

/-- the loop of `_MetaSimpleConfig.__init__` over `dct.keys()` -/
def metaCheckKeys (keys : List Name) : List Name → Except CErr Unit
  | [] => .ok ()
  | k :: r =>
    if isPrivate k then metaCheckKeys keys r                  -- if k.startswith('_'): continue
    else if !keys.contains k then .error .keyError           -- 'Unexpected key'
    else metaCheckKeys keys r

/-- `_MetaSimpleConfig.__init__(cls, name, bases, dct)` -/
def metaInit (cs : Classes) (bases : List Name) (dct : AList Val) : Except CErr Unit :=
  match metaGetKeys cs bases with
  | .error e => .error e
  | .ok none => .ok ()
  | .ok (some keys) => if keys.isEmpty then .ok () else metaCheckKeys keys (akeys dct)

/-- `class name(*bases): **dct` with metaclass `_MetaSimpleConfig`: `type.__new__` then `_MetaSimpleConfig.__init__`;
when `__init__` raises the class statement binds nothing -/
def defineClass (cs : Classes) (name : Name) (bases : List Name) (dct : AList Val) : Except CErr Classes :=
  match mroOf (fun b => (findClass cs b).map (·.mro)) name bases with
  | .error e => .error e
  | .ok mro =>
    match metaInit cs bases dct with
    | .error e => .error e
    | .ok () => .ok (cs ++ [{ name := name, bases := bases, mro := mro, dict := dct }])

/-- the classmethods of `SimpleConfig` exist on `c` -/
def isConfig (c : CClass) : Bool := c.mro.contains "SimpleConfig"

/-- `SimpleConfig.keys` (classmethod): a copy of `__keys__` when it is set and not empty, otherwise the non-dunder
names of the class's OWN `__dict__` -/
def classKeys (cs : Classes) (c : CClass) : List Name :=
  let own := (akeys c.dict).filter (fun k => !isDunder k)
  match getKeysAttr cs c with
  | some ks => if ks.isEmpty then own else ks
  | none => own

/-- the generator `((k, getattr(cls, k)) for k in …)` of `SimpleConfig.items`, consumed to the end -/
def itemsLoop (cs : Classes) (c : CClass) : List Name → Except CErr (AList Val)
  | [] => .ok []
  | k :: r =>
    match getattrC cs c k with
    | none => .error .attributeError
    | some v =>
      match itemsLoop cs c r with
      | .ok l => .ok ((k, v) :: l)
      | .error e => .error e

/-- `SimpleConfig.items` (classmethod): `(k, getattr(cls, k)) for k in cls.keys()` -/
def classItems (cs : Classes) (c : CClass) : Except CErr (AList Val) := itemsLoop cs c (classKeys cs c)

/-- `SimpleConfig.get` (classmethod): `getattr(cls, k) if k in cls.keys() else default` -/
def classGet (cs : Classes) (c : CClass) (k : Name) (d : Val) : Except CErr Val :=
  if (classKeys cs c).contains k then
    match getattrC cs c k with
    | some v => .ok v
    | none => .error .attributeError
  else .ok d

/-- the dict `SimpleConfig.get_from` hands to `NameSpace(**…)`:
`{key: src_config.get(key, kw.get(key, default)) for key, default in cls.items()}` -/
def pickValues (items : AList Val) (src kw : AList Val) : AList Val :=
  items.map fun (k, d) => (k, (aget src k).getD ((aget kw k).getD d))

/-- `SimpleConfig.get_from` (classmethod; `SimpleConfig.__new__` is the same call): `src = none` is `None` → `{}`;
a `NameSpace` source is passed as its `__dict__` (`NameSpace.get` reads it).  The result is a NEW `NameSpace`. -/
def getFrom (cs : Classes) (h : Heap) (c : CClass) (src : Option (AList Val)) (kw : AList Val) :
    Except CErr (Heap × Nat) :=
  match classItems cs c with
  | .error e => .error e
  | .ok items => .ok (alloc h (pickValues items (src.getD []) kw))

/-- `SimpleConfig.keys_holder(holder_cls)` called as `cls.keys_holder(holder_cls)` -/
def keysHolder (cs : Classes) (clsName holderName : Name) : Except CErr Classes :=
  match findClass cs clsName, findClass cs holderName with
  | some cls, some holder =>
    if !isConfig cls then .error .attributeError else
    if !cls.bases.isEmpty then .error .assertionError else       -- assert cls.__base__ is object
    if (getHolderAttr cs holder).isSome then .error .runtimeError else   -- 'Keys holder is already registered'
    if !isConfig holder then .error .attributeError else          -- holder_cls.keys()
    let keys := classKeys cs holder                               -- set(holder_cls.keys())
    if keys.any (hasattrC cs cls) then .error .keyError else      -- 'Bad key …, reserved keys/attrs are …'
    .ok (cs.map fun c => if c.name == holderName then
      { c with keysAttr := some keys, holderAttr := some holderName } else c)
  | _, _ => .error .attributeError

/-! ### the world after `import ombott` -/

def valOfKind (kind text : String) : Val :=
  match kind with
  | "none" => .none
  | "bool" => .bool (text == "1")
  | "int" => .int (text.toInt?.getD 0)
  | _ => .str text

/-- the class body of a generated config table: dict-valued defaults become heap objects created once, at class
creation (what makes them shared by every application) -/
def bootDict (h : Heap) (rows : List (String × String × String))
    (dicts : List (String × List (String × String × String))) : Heap × AList Val :=
  rows.foldl (fun (acc : Heap × AList Val) row =>
    if row.2.1 == "dict" then
      let ents := ((dicts.find? (·.1 == row.1)).map (·.2)).getD []
      let (h', o) := alloc acc.1 (ents.map fun e => (e.1, valOfKind e.2.1 e.2.2))
      (h', acc.2 ++ [(row.1, .ref o)])
    else (acc.1, acc.2 ++ [(row.1, valOfKind row.2.1 row.2.2)])) (h, [])

def simpleConfigClass : CClass :=
  { name := "SimpleConfig", bases := [], mro := ["SimpleConfig"],
    dict := Gen.cfgSimpleConfigOwn.map fun k => (k, .special) }

/-- `class DefaultConfig(SimpleConfig)` decorated with `@SimpleConfig.keys_holder`, `class RequestConfig(SimpleConfig)` -/
def bootClasses : Heap × Classes :=
  let (h1, d1) := bootDict [] Gen.cfgDefaultConfig Gen.cfgDefaultConfigDicts
  let (h2, d2) := bootDict h1 Gen.cfgRequestConfig Gen.cfgRequestConfigDicts
  let cs0 : Classes := [simpleConfigClass]
  let cs1 := (defineClass cs0 "DefaultConfig" ["SimpleConfig"] d1).toOption.getD cs0
  let cs2 := if (Gen.cfgHolders.find? (·.1 == "DefaultConfig")).map (·.2) == some true
    then (keysHolder cs1 "SimpleConfig" "DefaultConfig").toOption.getD cs1 else cs1
  let cs3 := (defineClass cs2 "RequestConfig" ["SimpleConfig"] d2).toOption.getD cs2
  (h2, cs3)

/-! ### applications -/

/-- the slots of an `Ombott` (and of its `Request`) that hold configuration, and the `_hooks` entry of its `__dict__` -/
structure App where
  config : Nat
  reqConfig : Nat
  hooks : Option Nat := none
  deriving Repr, DecidableEq, Inhabited

structure World where
  classes : Classes
  heap : Heap
  apps : Nat → Option App := fun _ => none       -- the application variables
  regs : AList Nat := []

def World.boot : World := { classes := bootClasses.2, heap := bootClasses.1 }

def World.app (w : World) (a : Nat) : Option App := w.apps a

def World.setApp (w : World) (a : Nat) (x : App) : World :=
  { w with apps := fun b => if b = a then some x else w.apps b }

/-- `DefaultConfig(config)` followed by `RequestConfig.get_from(config)` on the NameSpace just built: the two
assignments `Ombott.__init__` / `Ombott.setup` make (`self.config = config = DefaultConfig(config)`;
`Request(config=config)` → `BaseRequest.__new__`: `self.config = RequestConfig.get_from(config)`, resp.
`self.request.setup(config)` → `BaseRequest.setup`) -/
def buildConfigs (w : World) (src : Option (AList Val)) : Except CErr (Heap × Nat × Nat) :=
  match findClass w.classes "DefaultConfig", findClass w.classes "RequestConfig" with
  | some dc, some rc =>
    match getFrom w.classes w.heap dc src [] with
    | .error e => .error e
    | .ok (h1, c) =>
      match getFrom w.classes h1 rc (some (hget h1 c)) [] with
      | .error e => .error e
      | .ok (h2, r) => .ok (h2, c, r)
  | _, _ => .error .attributeError

/-- `Ombott.__init__(self, config)` (the configuration part; `_hooks` is not in `__dict__` yet) -/
def ombottInit (w : World) (a : Nat) (src : Option (AList Val)) : Except CErr World :=
  match buildConfigs w src with
  | .error e => .error e
  | .ok (h, c, r) => .ok ({ w with heap := h }.setApp a { config := c, reqConfig := r })

/-- `Ombott.setup(self, config)`: rebinds `self.config` and, through `BaseRequest.setup`, `self.request.config` -/
def ombottSetup (w : World) (a : Nat) (src : Option (AList Val)) : Except CErr World :=
  match w.app a with
  | none => .error .attributeError
  | some x =>
    match buildConfigs w src with
    | .error e => .error e
    | .ok (h, c, r) => .ok ({ w with heap := h }.setApp a { x with config := c, reqConfig := r })

/-- `BaseRequest.copy`: `self.__class__(self.environ.copy(), config = self.config)` → `BaseRequest.__new__` builds the
copy's config with `RequestConfig.get_from(self.config)`; the copy is bound to register `reg` -/
def requestCopy (w : World) (a : Nat) (reg : Name) : Except CErr World :=
  match w.app a, findClass w.classes "RequestConfig" with
  | some x, some rc =>
    match getFrom w.classes w.heap rc (some (hget w.heap x.reqConfig)) [] with
    | .error e => .error e
    | .ok (h, o) => .ok { w with heap := h, regs := aset w.regs reg o }
  | _, _ => .error .attributeError

/-! ### `cached_property` -/

/-- `cached_property.__get__(obj, cls)` with `obj` an instance, seen from attribute lookup: `cached_property` defines
neither `__set__` nor `__delete__`, so an entry of the instance `__dict__` (`slot`) wins and the descriptor is not asked;
otherwise the getter runs, an AttributeError inside it is re-raised as PropertyGetterError, any other exception passes,
and the value is stored with `setattr`.  Result: new slot, value, whether the getter ran. -/
def cpGet {α} (slot : Option α) (getter : Except CErr α) : Except CErr (Option α × α × Bool) :=
  match slot with
  | some v => .ok (some v, v, false)
  | none =>
    match getter with
    | .ok v => .ok (some v, v, true)
    | .error .attributeError => .error .propertyGetterError
    | .error e => .error e

/-- how the getter of the probe class behaves when it runs -/
inductive GetterMode | ok | raiseAttr | raiseValue
  deriving Repr, DecidableEq, Inhabited

/-- operations on the instances of a class with one `cached_property` -/
inductive CpOp
  | get (i : Nat) (m : GetterMode)   -- `obj.prop`
  | del (i : Nat)                    -- `del obj.prop`
  | set (i : Nat) (v : Val)          -- `obj.prop = v`
  | cls                              -- `Cls.prop` → the descriptor itself (`obj is None`)
  deriving Repr, DecidableEq, Inhabited

/-- the slot (`obj.__dict__.get('prop')`) of every instance, and how often the getter has run (its n-th run returns `n`) -/
structure CpState where
  slots : Nat → Option Val := fun _ => none
  runs : Nat := 0

def CpState.slot (s : CpState) (i : Nat) : Option Val := s.slots i

def CpState.setSlot (s : CpState) (i : Nat) (v : Option Val) : CpState :=
  { s with slots := fun j => if j = i then v else s.slots j }

/-- the getter of the probe: counts its runs -/
def cpGetter (runs : Nat) : GetterMode → Except CErr Val
  | .ok => .ok (.int (runs + 1))
  | .raiseAttr => .error .attributeError
  | .raiseValue => .error .valueError

/-- one operation: new state, answer, whether the getter ran -/
def cpStep (s : CpState) : CpOp → CpState × Except CErr Val × Bool
  | .get i m =>
    match s.slot i with
    | some v => (s, .ok v, false)
    | none =>
      match cpGet (s.slot i) (cpGetter s.runs m) with
      | .ok (sl, v, ran) => ({ (s.setSlot i sl) with runs := s.runs + 1 }, .ok v, ran)
      | .error e => ({ s with runs := s.runs + 1 }, .error e, true)
  | .del i =>
    match s.slot i with
    | some _ => (s.setSlot i none, .ok .none, false)
    | none => (s, .error .attributeError, false)       -- nothing in `__dict__`, no `__delete__` on the descriptor
  | .set i v => (s.setSlot i (some v), .ok .none, false)
  | .cls => (s, .ok .special, false)

def cpRun : CpState → List CpOp → CpState × List (Except CErr Val × Bool)
  | s, [] => (s, [])
  | s, op :: r =>
    let (s1, a, ran) := cpStep s op
    let (s2, l) := cpRun s1 r
    (s2, (a, ran) :: l)

/-! ### `Ombott._hooks` (a `cached_property`) and the methods that use it -/

/-- the getter of `Ombott._hooks`: `{name: [] for name in self.__hook_names}` -/
def hooksFresh : AList Val := Gen.cfgHookNames.map fun n => (n, .list [])

/-- `self._hooks`: `cached_property.__get__` over the `_hooks` entry of the application's `__dict__`; the getter
allocates a new dict -/
def hooksOf (w : World) (a : Nat) : Except CErr (World × Nat) :=
  match w.app a with
  | none => .error .attributeError
  | some x =>
    let (h', o) := alloc w.heap hooksFresh
    match cpGet x.hooks (.ok o) with
    | .error e => .error e
    | .ok (sl, v, ran) =>
      .ok (if ran then { w with heap := h' }.setApp a { x with hooks := sl } else w, v)

/-- `Ombott.add_hook(name, func)` -/
def addHook (w : World) (a : Nat) (name func : Name) : Except CErr World :=
  match hooksOf w a with
  | .error e => .error e
  | .ok (w1, o) =>
    match aget (hget w1.heap o) name with             -- self._hooks[name]
    | some (.list l) =>
      let l' := if Gen.cfgHookReversed.contains name then func :: l else l ++ [func]
      .ok { w1 with heap := hset w1.heap o (aset (hget w1.heap o) name (.list l')) }
    | _ => .error .keyError

/-- `Ombott.remove_hook(name, func)`: True / None -/
def removeHook (w : World) (a : Nat) (name func : Name) : Except CErr (World × Bool) :=
  match hooksOf w a with
  | .error e => .error e
  | .ok (w1, o) =>
    match aget (hget w1.heap o) name with
    | some (.list l) =>
      if l.contains func then
        .ok ({ w1 with heap := hset w1.heap o (aset (hget w1.heap o) name (.list (l.erase func))) }, true)
      else .ok (w1, false)
    | _ => .error .keyError

/-- the hook lists an application shows (`app._hooks`) -/
def hooksListing (w : World) (a : Nat) : Except CErr (World × AList Val) :=
  match hooksOf w a with
  | .error e => .error e
  | .ok (w1, o) => .ok (w1, hget w1.heap o)

/-! ### operations of the configuration world (what the driver runs) -/

/-- whose NameSpace an operation addresses -/
inductive Target
  | appConfig (a : Nat)      -- `app.config`
  | reqConfig (a : Nat)      -- `app.request.config`
  | reg (r : Name)           -- a NameSpace returned earlier (`get_from`, `Request.copy().config`)
  deriving Repr, DecidableEq, Inhabited

def World.resolve (w : World) : Target → Option Nat
  | .appConfig a => (w.app a).map (·.config)
  | .reqConfig a => (w.app a).map (·.reqConfig)
  | .reg r => aget w.regs r

/-- a `src_config` argument -/
inductive Src
  | none                       -- `None`
  | lit (d : AList Val)        -- a dict literal (scalars)
  | ns (t : Target)            -- a NameSpace
  deriving Repr, Inhabited

def World.src (w : World) : Src → Option (Option (AList Val))
  | .none => some Option.none
  | .lit d => some (some d)
  | .ns t => (w.resolve t).map fun o => some (hget w.heap o)

/-- a class body: scalar entries, and dict literals that become one new heap object each (a mutable default) -/
def allocBody (h : Heap) (body : List (Name × (Val ⊕ AList Val))) : Heap × AList Val :=
  body.foldl (fun (acc : Heap × AList Val) e =>
    match e.2 with
    | .inl v => (acc.1, acc.2 ++ [(e.1, v)])
    | .inr d => let (h', o) := alloc acc.1 d; (h', acc.2 ++ [(e.1, .ref o)])) (h, [])

inductive Op
  | defClass (name : Name) (bases : List Name) (body : List (Name × (Val ⊕ AList Val)))
  | holder (cls holder : Name)                    -- `cls.keys_holder(holder)`
  | keys (cls : Name) | items (cls : Name)
  | get (cls : Name) (k : Name) (d : Val)
  | getFrom (reg : Name) (cls : Name) (src : Src) (kw : AList Val)
  | app (a : Nat) (src : Src)                      -- `Ombott(src)`
  | setup (a : Nat) (src : Src)                    -- `app.setup(src)`
  | copy (a : Nat) (reg : Name)                    -- `app.request.copy()`
  | serve (a : Nat)                                -- `app(environ, start_response)`: reads configuration only
  | nsItems (t : Target)
  | nsGetItem (t : Target) (k : Name)
  | nsGet (t : Target) (k : Name) (d : Val)
  | nsSet (t : Target) (k : Name) (v : Val)        -- `t[k] = v` / `setattr(t, k, v)`
  | nsSetDict (t : Target) (k : Name) (d : AList Val)   -- `t[k] = {…}`: REBINDS to a new dict
  | nsSetDefault (t : Target) (k : Name) (d : Val)
  | nsUpdate (t : Target) (d : AList Val)
  | dictSet (t : Target) (k : Name) (dk : Name) (v : Val)   -- `t[k][dk] = v`: IN-PLACE mutation of the value
  | addHook (a : Nat) (name func : Name)
  | removeHook (a : Nat) (name func : Name)
  | hooks (a : Nat)
  deriving Repr, Inhabited

/-- what an operation answers -/
inductive Ans
  | ok | err (e : CErr) | names (l : List Name) | items (d : AList Val) | val (v : Val) | bad
  deriving Repr, Inhabited

def withClass (w : World) (n : Name) (f : CClass → World × Ans) : World × Ans :=
  match findClass w.classes n with
  | some c => if isConfig c then f c else (w, .err .attributeError)
  | none => (w, .bad)

def withTarget (w : World) (t : Target) (f : Nat → World × Ans) : World × Ans :=
  match w.resolve t with
  | some o => f o
  | none => (w, .bad)

def liftW (w : World) : Except CErr World → World × Ans
  | .ok w' => (w', .ok)
  | .error e => (w, .err e)

def step (w : World) : Op → World × Ans
  | .defClass name bases body =>
    if (findClass w.classes name).isSome then (w, .bad) else
    -- the class body is executed (its dict literals exist) before the metaclass is called
    let (h, dct) := allocBody w.heap body
    match defineClass w.classes name bases dct with
    | .ok cs => ({ w with classes := cs, heap := h }, .ok)
    | .error e => ({ w with heap := h }, .err e)
  | .holder cls holder =>
    if (findClass w.classes cls).isNone || (findClass w.classes holder).isNone then (w, .bad) else
    match keysHolder w.classes cls holder with
    | .ok cs => ({ w with classes := cs }, .ok)
    | .error e => (w, .err e)
  | .keys cls => withClass w cls fun c => (w, .names (classKeys w.classes c))
  | .items cls => withClass w cls fun c =>
    match classItems w.classes c with
    | .ok d => (w, .items d)
    | .error e => (w, .err e)
  | .get cls k d => withClass w cls fun c =>
    match classGet w.classes c k d with
    | .ok v => (w, .val v)
    | .error e => (w, .err e)
  | .getFrom reg cls src kw => withClass w cls fun c =>
    match w.src src with
    | none => (w, .bad)
    | some s =>
      match getFrom w.classes w.heap c s kw with
      | .ok (h, o) => ({ w with heap := h, regs := aset w.regs reg o }, .items (hget h o))
      | .error e => (w, .err e)
  | .app a src =>
    match w.src src with
    | none => (w, .bad)
    | some s => liftW w (ombottInit w a s)
  | .setup a src =>
    match w.src src with
    | none => (w, .bad)
    | some s => if (w.app a).isNone then (w, .bad) else liftW w (ombottSetup w a s)
  | .copy a reg => if (w.app a).isNone then (w, .bad) else liftW w (requestCopy w a reg)
  | .serve a => if (w.app a).isNone then (w, .bad) else (w, .ok)
  | .nsItems t => withTarget w t fun o => (w, .items (nsItems w.heap o))
  | .nsGetItem t k => withTarget w t fun o =>
    match nsGetItem w.heap o k with
    | .ok v => (w, .val v)
    | .error e => (w, .err e)
  | .nsGet t k d => withTarget w t fun o => (w, .val (nsGet w.heap o k d))
  | .nsSet t k v => withTarget w t fun o =>
    if isDunder k then (w, .bad) else ({ w with heap := nsSetItem w.heap o k v }, .ok)
  | .nsSetDict t k d => withTarget w t fun o =>
    if isDunder k then (w, .bad) else
    let (h, n) := alloc w.heap d
    ({ w with heap := nsSetItem h o k (.ref n) }, .ok)
  | .nsSetDefault t k d => withTarget w t fun o =>
    let (h, v) := nsSetDefault w.heap o k d
    ({ w with heap := h }, .val v)
  | .nsUpdate t d => withTarget w t fun o => ({ w with heap := nsUpdate w.heap o d }, .ok)
  | .dictSet t k dk v => withTarget w t fun o =>
    match nsGetItem w.heap o k with
    | .ok (.ref d) => ({ w with heap := hset w.heap d (aset (hget w.heap d) dk v) }, .ok)
    | .ok _ => (w, .err .typeError)            -- scalar does not support item assignment
    | .error e => (w, .err e)
  | .addHook a name func => if (w.app a).isNone then (w, .bad) else liftW w (addHook w a name func)
  | .removeHook a name func =>
    if (w.app a).isNone then (w, .bad) else
    match removeHook w a name func with
    | .ok (w', b) => (w', .val (if b then .bool true else .none))
    | .error e => (w, .err e)
  | .hooks a =>
    if (w.app a).isNone then (w, .bad) else
    match hooksListing w a with
    | .ok (w', d) => (w', .items d)
    | .error e => (w, .err e)

def run : World → List Op → World × List Ans
  | w, [] => (w, [])
  | w, op :: r =>
    let (w1, a) := step w op
    let (w2, l) := run w1 r
    (w2, a :: l)

/-- the world after a sequence of operations -/
def exec (w : World) (ops : List Op) : World := (run w ops).1

/-- everything a NameSpace shows, with the dicts it refers to written out (what `sorted(ns.items())` with the
dict values expanded shows) -/
def deepItems (h : Heap) (o : Nat) : List (Name × Val × Option (AList Val)) :=
  (hget h o).map fun (k, v) =>
    match v with
    | .ref d => (k, v, some (hget h d))
    | _ => (k, v, none)

/-- what application `a` can read of its configuration (its own and its request's) -/
def appView (w : World) (a : Nat) : Option (List (Name × Val × Option (AList Val)) × List (Name × Val × Option (AList Val))) :=
  (w.app a).map fun x => (deepItems w.heap x.config, deepItems w.heap x.reqConfig)

/-! ### `proxy(prop, attrs)` -/

/-- an entry of the `__dict__` of a proxied class -/
inductive PAttr
  | own (label : String)                      -- a method of the class body
  | forward (prop : Name) (attr : Name)       -- `lambda s, *a, **kw: getattr(getattr(s, prop), _attr)(*a, **kw)`, `_attr = attr`
  deriving Repr, DecidableEq, Inhabited

/-- `proxy(prop, attrs).injector(cls)` (also `proxy(prop, attrs, cls)`): `setattr(cls, attr, …)` for each attr in turn;
the inner lambda closes over `_attr`, a default argument evaluated once per iteration -/
def proxyInject (dict : AList PAttr) (prop : Name) (attrs : List Name) : AList PAttr :=
  attrs.foldl (fun d attr => aset d attr (.forward prop attr)) dict

/-- target objects: name and the method names they have -/
abbrev Targets := AList (List Name)

/-- what a call returned: which object's which method ran -/
inductive PCall
  | target (obj : Name) (meth : Name) (arg : String)
  | self (label : String) (arg : String)
  deriving Repr, DecidableEq, Inhabited

/-- `inst.attr(arg)` on an instance of the proxied class whose `__dict__` is `inst` (the property `prop` is a plain
instance attribute holding the name of a target) -/
def proxyCall (cdict : AList PAttr) (targets : Targets) (inst : AList Name) (attr : Name) (arg : String) :
    Except CErr PCall :=
  match aget cdict attr with
  | none => .error .attributeError
  | some (.own l) => .ok (.self l arg)
  | some (.forward prop a) =>
    match aget inst prop with                       -- getattr(s, prop), at CALL time
    | none => .error .attributeError
    | some t =>
      match aget targets t with
      | none => .error .attributeError
      | some meths => if meths.contains a then .ok (.target t a arg) else .error .attributeError

inductive POp
  | bind (prop : Name) (t : Name)     -- `inst.<prop> = target`
  | unbind (prop : Name)              -- `del inst.<prop>`
  | call (attr : Name) (arg : String)
  deriving Repr, DecidableEq, Inhabited

def proxyRun (cdict : AList PAttr) (targets : Targets) : AList Name → List POp → List (Except CErr (Option PCall))
  | _, [] => []
  | inst, .bind p t :: r => .ok none :: proxyRun cdict targets (aset inst p t) r
  | inst, .unbind p :: r =>
    (if ahas inst p then .ok none else .error .attributeError) :: proxyRun cdict targets (adel inst p) r
  | inst, .call a x :: r => ((proxyCall cdict targets inst a x).map some) :: proxyRun cdict targets inst r

/-! ### `MixableMeta` -/

/-- what `__new__` / `__init__` of a class is: `object`'s, one written in a class body (it logs its label), or a
wrapper installed by `MixableMeta.__init__` around whatever the class had at that moment -/
inductive Callable
  | object
  | plain (label : String)
  | wrapper (inner : Callable)
  deriving Repr, DecidableEq, Inhabited

/-- a class of the mixin world.  `attrs`: the ordinary entries of `__dict__` (key → label of the definition that
won), including `on_new` / `on_init` / `_as_mixins` when the body defines them; the entries with a structure of their
own are separate fields: `slots` = `__slots__`, `special` = `__mixins_special__` (labels of the collected `on_new`,
`on_init`), `newC` / `initC` = `__new__` / `__init__` -/
structure MClass where
  name : Name
  bases : List Name
  mro : List Name
  attrs : AList String
  slots : Option (List Name) := none
  special : Option (List String × List String) := none
  newC : Option Callable := none
  initC : Option Callable := none
  deriving Repr, DecidableEq, Inhabited

abbrev MClasses := List MClass

def findM (cs : MClasses) (n : Name) : Option MClass := cs.find? (·.name == n)

/-- `getattr(cls, '__slots__', [])` -/
def getSlots (cs : MClasses) (c : MClass) : List Name :=
  (c.mro.findSome? fun n => (findM cs n).bind (·.slots)).getD []

/-- what the class statement hands to the metaclass -/
structure MDct where
  attrs : AList String
  slots : Option (List Name) := none
  special : Option (List String × List String) := none
  asMixins : List Name := []         -- the value of `_as_mixins` (its key is in `attrs`)
  deriving Repr, DecidableEq, Inhabited

/-- the collecting state of `MixableMeta._mixin` -/
structure MixAcc where
  attrs : AList String
  slots : List Name
  onNew : List String
  onInit : List String
  deriving Repr, DecidableEq, Inhabited

/-- one `(k, v)` of `mixin_cls.__dict__.items()` for an ordinary entry -/
def mixinAttr (mslots : List Name) (acc : MixAcc) (k : Name) (v : String) : MixAcc :=
  if mslots.contains k then acc                                          -- if k in mixin_slots: continue
  else if k == "on_new" then { acc with onNew := acc.onNew ++ [v] }       -- elif k in special: special[k].append(v)
  else if k == "on_init" then { acc with onInit := acc.onInit ++ [v] }
  else if !isDunder k && !ahas acc.attrs k then { acc with attrs := acc.attrs ++ [(k, v)] }   -- dct[k] = v
  else acc

/-- the loop body of `MixableMeta._mixin` for one mixin: its ordinary entries, its `__slots__` entry (`slots.extend(v)`),
the slot descriptors and the keys CPython adds (all skipped: in `mixin_slots` resp. dunder) -/
def mixinOne (cs : MClasses) (acc : MixAcc) (m : MClass) : MixAcc :=
  let mslots := getSlots cs m
  let acc1 := m.attrs.foldl (fun a kv => mixinAttr mslots a kv.1 kv.2) acc
  let acc2 := match m.slots with
    | some v => if mslots.contains "__slots__" then acc1 else { acc1 with slots := acc1.slots ++ v }
    | none => acc1
  -- slot descriptors: k in mixin_slots → continue;  `__new__`, `__init__`, `__module__`, `__dict__`, … : dunder, not special
  acc2

/-- `MixableMeta._mixin(dct, *mixins)` -/
def mixin (cs : MClasses) (dct : MDct) (mixins : List MClass) : MDct :=
  let acc := mixins.foldl (mixinOne cs) { attrs := dct.attrs, slots := dct.slots.getD [], onNew := [], onInit := [] }
  { dct with attrs := acc.attrs,
             special := some (acc.onNew, acc.onInit),                     -- dct['__mixins_special__'] = special
             slots := if acc.slots.isEmpty then dct.slots else some acc.slots.eraseDups }  -- tuple(set(slots))

/-- the first `__new__` / `__init__` along an MRO -/
def lookupNew (cs : MClasses) (mro : List Name) : Callable :=
  (mro.findSome? fun n => (findM cs n).bind (·.newC)).getD .object

def lookupInit (cs : MClasses) (mro : List Name) : Callable :=
  (mro.findSome? fun n => (findM cs n).bind (·.initC)).getD .object

/-- `MixableMeta.__new__(cls, name, bases, dct)` followed by `MixableMeta.__init__`: the mixins named in `_as_mixins`
leave the bases, `_mixin` edits `dct`, `type.__new__` builds the class, `__init__` wraps `__new__` / `__init__`
(not for the class called 'Mixable') -/
def mixableDefine (cs : MClasses) (name : Name) (bases : List Name) (dct : MDct)
    (newL initL : Option String) : Except CErr MClasses :=
  -- mixins_set = dct.get('_as_mixins'); if mixins_set: split the bases
  let isMixin (b : Name) : Bool := ahas dct.attrs "_as_mixins" && dct.asMixins.contains b
  let mixinNames := bases.filter isMixin
  let bases' := bases.filter (fun b => !isMixin b)
  match mixinNames.mapM (findM cs) with
  | none => .error .typeError
  | some mixins =>
    let dct' := if mixins.isEmpty then dct else mixin cs dct mixins        -- if mixins: cls._mixin(dct, *mixins)
    match mroOf (fun b => (findM cs b).map (·.mro)) name bases' with
    | .error e => .error e
    | .ok mro =>
      let c0 : MClass := { name := name, bases := bases', mro := mro, attrs := dct'.attrs, slots := dct'.slots,
                           special := dct'.special, newC := newL.map .plain, initC := initL.map .plain }
      if name == "Mixable" then .ok (cs ++ [c0]) else
      -- cls_init = cls.__init__; cls_new = cls.__new__; cls.__new__ = new_wrapper; cls.__init__ = init_wrapper
      let cs0 := cs ++ [c0]
      .ok (cs ++ [{ c0 with newC := some (.wrapper (lookupNew cs0 mro)), initC := some (.wrapper (lookupInit cs0 mro)) }])

/-- a plain class (a mixin or an ordinary base): `type(name, bases, dct)` -/
def plainDefine (cs : MClasses) (name : Name) (bases : List Name) (attrs : AList String) (slots : Option (List Name))
    (newL initL : Option String) : Except CErr MClasses :=
  match mroOf (fun b => (findM cs b).map (·.mro)) name bases with
  | .error e => .error e
  | .ok mro => .ok (cs ++ [{ name := name, bases := bases, mro := mro, attrs := attrs, slots := slots,
                              newC := newL.map .plain, initC := initL.map .plain }])

/-- `cls.__mixins_special__` from inside `new_wrapper` (`cls` is the class being instantiated): the MRO, then the
metaclass attribute - a `set`, which cannot be subscripted -/
def specialOf (cs : MClasses) (c : MClass) : Option (List String × List String) :=
  c.mro.findSome? fun n => (findM cs n).bind (·.special)

/-- running a `__new__`: `new_wrapper` calls what it wrapped and then every collected `on_new`, in order -/
def runNew (cs : MClasses) (c : MClass) : Callable → Except CErr (List String)
  | .object => .ok []
  | .plain l => .ok ["new:" ++ l]
  | .wrapper inner =>
    match runNew cs c inner with
    | .error e => .error e
    | .ok t =>
      match specialOf cs c with
      | none => .error .typeError                    -- 'set' object is not subscriptable
      | some (ns, _) => .ok (t ++ ns.map ("on_new:" ++ ·))

/-- running an `__init__`: `init_wrapper` -/
def runInit (cs : MClasses) (c : MClass) : Callable → Except CErr (List String)
  | .object => .ok []
  | .plain l => .ok ["init:" ++ l]
  | .wrapper inner =>
    match runInit cs c inner with
    | .error e => .error e
    | .ok t =>
      match specialOf cs c with
      | none => .error .attributeError               -- instance lookup does not see the metaclass
      | some (_, is) => .ok (t ++ is.map ("on_init:" ++ ·))

/-- `cls()`: `type.__call__` = `cls.__new__(cls)` then `obj.__init__()`; the calls made, in order -/
def instantiate (cs : MClasses) (c : MClass) : Except CErr (List String) :=
  match runNew cs c (lookupNew cs c.mro) with
  | .error e => .error e
  | .ok t1 =>
    match runInit cs c (lookupInit cs c.mro) with
    | .error e => .error e
    | .ok t2 => .ok (t1 ++ t2)

end Ombott.Config
