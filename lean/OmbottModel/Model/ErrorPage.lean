import OmbottModel.Py
import OmbottModel.Gen.Errorpage
/-
Model of the framework-generated error responses (C20):

* `ombott/error_render.py: render`      → `render` (`str.format` over the lines of `error.html`)
* `html.escape`, `common_helpers.html_escape` → `escapeWith` over the generated replacement pairs
* `repr(str)`                            → `pyRepr` (`str.isprintable` is a parameter)
* `json.dumps` of the error dict         → `dumpsObj`; `jsonParse` is the JSON reader the
                                           round-trip theorem targets (tied to `json.loads`)
* `Ombott.default_error_handler`         → `defaultErrorHandler`
* `Request.url` / `urlparts` / `fullpath` → `requestUrl` (`urlquote`, `urlunsplit` and `urljoin`
                                           concrete; `urljoin`'s authority validation = parameter)
* `Ombott._handle`, `_cast` (error branch), `wsgi` (catch-all page) → `handleErr`, `serve`

Routing and the user handler are a parameter (`Outcome`): which error arises is the business of
other checks; what is *rendered* for it is modelled here.
-/
namespace Ombott.ErrorPage
open Py

/-! ### html.escape / html_escape -/

/-- A chain of single-character `str.replace` calls is a character-wise substitution (each
replace is a monoid homomorphism, so is their composition); the pairs are probed from the live
function, one character at a time. -/
def escapeWith (pairs : List (Char × Str)) (s : Str) : Str :=
  s.flatMap fun c => (pairs.lookup c).getD [c]

/-- `html.escape(s)` as `error_render` calls it -/
def pageEscape (s : Str) : Str := escapeWith Gen.pageEscapePairs s

/-- `html_escape(s)` of common_helpers -/
def helperEscape (s : Str) : Str := escapeWith Gen.helperEscapePairs s

/-! ### repr(str) -/

def hexDigitL (n : Nat) : Char := if n < 10 then Char.ofNat (48 + n) else Char.ofNat (87 + n)
def hexDigitU (n : Nat) : Char := if n < 10 then Char.ofNat (48 + n) else Char.ofNat (55 + n)

def hex2 (n : Nat) : Str := [hexDigitL (n / 16 % 16), hexDigitL (n % 16)]
def hex4 (n : Nat) : Str := hex2 (n / 256) ++ hex2 n
def hex8 (n : Nat) : Str := hex4 (n / 65536) ++ hex4 n

/-- one character of `repr(s)` when the chosen quote is `q` (`unicode_repr` of CPython) -/
def reprChar (pr : Char → Bool) (q : Char) (c : Char) : Str :=
  let n := c.toNat
  if c == q || c == '\\' then ['\\', c]
  else if c == '\t' then ['\\', 't']
  else if c == '\n' then ['\\', 'n']
  else if c == '\r' then ['\\', 'r']
  else if n < 32 || n == 127 then '\\' :: 'x' :: hex2 n
  else if n < 127 then [c]
  else if pr c then [c]
  else if n < 256 then '\\' :: 'x' :: hex2 n
  else if n < 65536 then '\\' :: 'u' :: hex4 n
  else '\\' :: 'U' :: hex8 n

/-- the quote `repr` picks: double quotes only when the text has a `'` and no `"` -/
def reprQuote (s : Str) : Char := if s.contains '\'' && !s.contains '"' then '"' else '\''

/-- `repr(s)` for a `str`; `pr` is `str.isprintable` on non-ASCII characters -/
def pyRepr (pr : Char → Bool) (s : Str) : Str :=
  let q := reprQuote s
  q :: s.flatMap (reprChar pr q) ++ [q]

/-- membership in a list of ascending, disjoint ranges -/
def inRanges : List (Nat × Nat) → Nat → Bool
  | [], _ => false
  | (lo, hi) :: r, n => if n < lo then false else if n ≤ hi then true else inRanges r n

/-- `str.isprintable` from the generated table (what the driver runs; theorems take any `pr`) -/
def isPrintable (c : Char) : Bool := !inRanges Gen.nonPrintable c.toNat

/-! ### str.format over the template lines -/

/-- Python errors of the modelled lines, plus `unsupported`: a construct of `str.format` the
model does not interpret (conversion, format spec, indexing, other attributes).  The generated
template is checked not to contain any (`Props/C20.lean: template_ok`). -/
inductive FErr
  | py (e : Err)
  | unsupported
  deriving Repr, DecidableEq

/-- the `ctx` dict of `render`, values already turned into text by `format(value, '')` -/
structure Ctx where
  status : Str        -- e.status
  body : Str          -- e.body
  exception : Str
  traceback : Str
  url : Str

def isAsciiDigits (s : Str) : Bool := s.all fun c => c.isDigit

/-- `get_field_object`: first part from `**ctx` (no positional arguments), then attributes -/
def evalField (ctx : Ctx) (name : Str) : Except FErr Str :=
  match splitOn1 '.' name with
  | [] => .error .unsupported
  | first :: attrs =>
    if isAsciiDigits first then .error (.py .indexError)       -- '' (auto-numbering) or an index
    else if first == "e".toList then
      if attrs == ["status".toList] then .ok ctx.status
      else if attrs == ["body".toList] then .ok ctx.body
      else .error .unsupported
    else if first == "exception".toList then (if attrs.isEmpty then .ok ctx.exception else .error .unsupported)
    else if first == "traceback".toList then (if attrs.isEmpty then .ok ctx.traceback else .error .unsupported)
    else if first == "url".toList then (if attrs.isEmpty then .ok ctx.url else .error .unsupported)
    else .error (.py .keyError)

/-- where `MarkupIterator` is: in literal text, or inside `{…}` with the field name so far
(reversed) -/
inductive FState
  | lit
  | field (acc : Str)

/-- `ln.format(**ctx)`: `{{`/`}}` escapes, `{name}` fields, errors in the order Python meets
them (a field is evaluated before the text after it is parsed) -/
def fmt (ctx : Ctx) : FState → Str → Except FErr Str
  | .lit, [] => .ok []
  | .lit, '{' :: '{' :: r => (fmt ctx .lit r).map ('{' :: ·)
  | .lit, ['{'] => .error (.py .valueError)                    -- Single '{' encountered
  | .lit, '{' :: r => fmt ctx (.field []) r
  | .lit, '}' :: '}' :: r => (fmt ctx .lit r).map ('}' :: ·)
  | .lit, '}' :: _ => .error (.py .valueError)                 -- Single '}' encountered
  | .lit, c :: r => (fmt ctx .lit r).map (c :: ·)
  | .field _, [] => .error (.py .valueError)                   -- expected '}' before end of string
  | .field acc, c :: r =>
    if c == '}' then
      match evalField ctx acc.reverse with
      | .ok v => (fmt ctx .lit r).map (v ++ ·)
      | .error e => .error e
    else if c == '{' then .error (.py .valueError)             -- unexpected '{' in field name
    else if c == ':' || c == '!' || c == '[' then .error .unsupported
    else fmt ctx (.field (c :: acc)) r

/-- the loop of `render` over the cached lines; `skip` = `skip_until` is set -/
def renderLoop (ctx : Ctx) : Bool → List Str → Except FErr Str
  | _, [] => .ok []
  | true, ln :: rest =>
    -- if ln.startswith(skip_until): skip_until = ''        (line appended unformatted)
    (renderLoop ctx (!("</style".toList.isPrefixOf ln)) rest).map (ln ++ ·)
  | false, ln :: rest =>
    if "<style".toList.isPrefixOf ln then (renderLoop ctx true rest).map (ln ++ ·)
    else match fmt ctx .lit ln with
      | .ok out => (renderLoop ctx false rest).map (out ++ ·)
      | .error e => .error e

/-- an `HTTPError` as the renderers see it.  `exception` is `repr(res.exception)` when there is
one, `traceback` the text of `format_exc()`; both are `None` for 404/405/400. -/
structure ErrResp where
  code : Nat
  status : Str
  body : Option Str
  exception : Option Str
  traceback : Option Str
  deriving Repr, DecidableEq

def forbidden : Str := "-] Forbidden [-".toList
def noneStr : Str := "None".toList

/-- `str(x)` for `x : str | None` -/
def strOpt : Option Str → Str
  | some s => s
  | none => noneStr

/-- `error_render.render(err_resp, url, debug)` over the template lines `lines` -/
def render (pr : Char → Bool) (lines : List Str) (e : ErrResp) (url : Str) (debug : Bool) :
    Except FErr Str :=
  let cleanUrl := pageEscape url
  let ex := if debug then strOpt e.exception else forbidden          -- repr(None) = 'None'
  let tb := if debug then strOpt e.traceback else forbidden
  renderLoop { status := e.status, body := strOpt e.body, exception := ex, traceback := tb,
               url := pyRepr pr cleanUrl } false lines

/-! ### json.dumps of the error dict, and a JSON reader for the same shape -/

/-- `ensure_ascii=True` string escaping (`ESCAPE_ASCII`) -/
def jsonEscChar (c : Char) : Str :=
  let n := c.toNat
  if c == '"' then ['\\', '"']
  else if c == '\\' then ['\\', '\\']
  else if c == '\n' then ['\\', 'n']
  else if c == '\r' then ['\\', 'r']
  else if c == '\t' then ['\\', 't']
  else if n == 8 then ['\\', 'b']
  else if n == 12 then ['\\', 'f']
  else if 32 ≤ n && n < 127 then [c]
  else if n < 65536 then '\\' :: 'u' :: hex4 n
  else
    let v := n - 65536
    '\\' :: 'u' :: hex4 (0xd800 + v / 1024) ++ ('\\' :: 'u' :: hex4 (0xdc00 + v % 1024))

def jsonStr (s : Str) : Str := '"' :: s.flatMap jsonEscChar ++ ['"']

def jsonVal : Option Str → Str
  | some s => jsonStr s
  | none => "null".toList

def jsonMembers : List (Str × Option Str) → Str
  | [] => []
  | [(k, v)] => jsonStr k ++ ':' :: ' ' :: jsonVal v
  | (k, v) :: rest => jsonStr k ++ ':' :: ' ' :: jsonVal v ++ ',' :: ' ' :: jsonMembers rest

/-- `json.dumps(dict(...))` for a dict whose values are `str` or `None` (default separators) -/
def dumpsObj (kvs : List (Str × Option Str)) : Str := '{' :: jsonMembers kvs ++ ['}']

def hexVal? (c : Char) : Option Nat :=
  let n := c.toNat
  if 48 ≤ n && n ≤ 57 then some (n - 48)
  else if 97 ≤ n && n ≤ 102 then some (n - 87)
  else if 65 ≤ n && n ≤ 70 then some (n - 55)
  else none

def parseHex4 : Str → Option (Nat × Str)
  | a :: b :: c :: d :: r =>
    match hexVal? a, hexVal? b, hexVal? c, hexVal? d with
    | some a, some b, some c, some d => some (((a * 16 + b) * 16 + c) * 16 + d, r)
    | _, _, _, _ => none
  | _ => none

/-- after `\u`: one BMP code unit, or a surrogate pair (a lone surrogate is outside `Char`) -/
def parseU (r : Str) : Option (Char × Str) :=
  match parseHex4 r with
  | none => none
  | some (hi, r1) =>
    if 0xd800 ≤ hi && hi < 0xdc00 then
      match r1 with
      | '\\' :: 'u' :: r2 =>
        match parseHex4 r2 with
        | some (lo, r3) =>
          if 0xdc00 ≤ lo && lo < 0xe000 then
            some (Char.ofNat (65536 + (hi - 0xd800) * 1024 + (lo - 0xdc00)), r3)
          else none
        | none => none
      | _ => none
    else if 0xdc00 ≤ hi && hi < 0xe000 then none
    else some (Char.ofNat hi, r1)

def simpleEsc (x : Char) : Option Char :=
  if x == '"' then some '"' else if x == '\\' then some '\\' else if x == '/' then some '/'
  else if x == 'b' then some (Char.ofNat 8) else if x == 'f' then some (Char.ofNat 12)
  else if x == 'n' then some '\n' else if x == 'r' then some '\r' else if x == 't' then some '\t'
  else none

/-- one (possibly escaped) character inside a JSON string; the closing quote is not one -/
def parseUnit : Str → Option (Char × Str)
  | [] => none
  | c :: r =>
    if c == '\\' then
      match r with
      | [] => none
      | x :: r' => if x == 'u' then parseU r' else (simpleEsc x).map fun ch => (ch, r')
    else if c.toNat < 32 || c == '"' then none
    else some (c, r)

/-- the text of a JSON string after its opening quote; returns the text and what follows the
closing quote.  `fuel` bounds the number of characters (callers pass the input length). -/
def parseStrBody : Nat → Str → Option (Str × Str)
  | 0, _ => none
  | _ + 1, [] => none
  | fuel + 1, c :: r =>
    if c == '"' then some ([], r)
    else match parseUnit (c :: r) with
      | none => none
      | some (ch, rest) => (parseStrBody fuel rest).map fun (s, t) => (ch :: s, t)

def isJsonWs (c : Char) : Bool := c == ' ' || c == '\t' || c == '\n' || c == '\r'
def skipWs (s : Str) : Str := s.dropWhile isJsonWs

def parseString (s : Str) : Option (Str × Str) :=
  match s with
  | '"' :: r => parseStrBody (r.length + 1) r
  | _ => none

/-- a value of the error dict: a string or `null` -/
def parseValue (s : Str) : Option (Option Str × Str) :=
  match s with
  | 'n' :: 'u' :: 'l' :: 'l' :: r => some (none, r)
  | _ => (parseString s).map fun (v, r) => (some v, r)

/-- members after `{` (and after each `,`): `"key" : value` then `,` or `}` -/
def parseMembers : Nat → Str → Option (List (Str × Option Str) × Str)
  | 0, _ => none
  | fuel + 1, s =>
    match parseString (skipWs s) with
    | none => none
    | some (k, r) =>
      match skipWs r with
      | ':' :: r1 =>
        match parseValue (skipWs r1) with
        | none => none
        | some (v, r2) =>
          match skipWs r2 with
          | ',' :: r3 => (parseMembers fuel r3).map fun (l, t) => ((k, v) :: l, t)
          | '}' :: r3 => some ([(k, v)], r3)
          | _ => none
      | _ => none

/-- reads a JSON text that is one object whose values are strings or `null`; anything else
(other value types, trailing text, lone surrogates) is `none` -/
def jsonParse (s : Str) : Option (List (Str × Option Str)) :=
  match skipWs s with
  | '{' :: r =>
    match skipWs r with
    | '}' :: r1 => if (skipWs r1).isEmpty then some [] else none
    | r' =>
      match parseMembers (r'.length + 1) r' with
      | some (l, t) => if (skipWs t).isEmpty then some l else none
      | none => none
  | _ => none

/-! ### Request.url -/

def utf8Encode (s : Str) : Bytes := (String.ofList s).toUTF8.toList

def utf8Decode (b : Bytes) : Option Str :=
  (String.fromUTF8? (ByteArray.mk b.toArray)).map String.toList

/-- `urllib.parse.quote(s)` (safe='/'): UTF-8 bytes, the generated safe set passes, the rest is
`%XX` -/
def urlquote (s : Str) : Str :=
  (utf8Encode s).flatMap fun b =>
    if Gen.urlquoteSafe.contains b.toNat then [Char.ofNat b.toNat]
    else ['%', hexDigitU (b.toNat / 16), hexDigitU (b.toNat % 16)]

/-- Python truthiness of `str | None` in `a or b` -/
def truthy : Option Str → Bool
  | some s => !s.isEmpty
  | none => false

def orElse (a b : Option Str) : Option Str := if truthy a then a else b

/-- `urlunsplit((scheme, netloc, url, query, ''))` of CPython 3.12 -/
def urlunsplit (scheme : Str) (netloc : Str) (url : Str) (query : Option Str) : Str :=
  let url :=
    if !netloc.isEmpty || (!scheme.isEmpty && Gen.usesNetloc.contains scheme && url.take 2 != ['/', '/']) then
      let url := if !url.isEmpty && url.take 1 != ['/'] then '/' :: url else url
      '/' :: '/' :: netloc ++ url
    else url
  let url := if !scheme.isEmpty then scheme ++ ':' :: url else url
  if truthy query then url ++ '?' :: (query.getD []) else url

/-! #### Request.fullpath: `urljoin(script_name, path.lstrip('/'))` -/

/-- `urlsplit`'s cleaning of its argument: lstrip of C0 controls and space, then tab, CR and LF
deleted everywhere -/
def urlClean (u : Str) : Str :=
  (u.dropWhile Gen.urlLstripChars.contains).filter fun c => !Gen.urlRemovedChars.contains c

def isAsciiAlpha (c : Char) : Bool := ('a' ≤ c && c ≤ 'z') || ('A' ≤ c && c ≤ 'Z')

/-- scheme detection of `urlsplit`: `some rest` when the text starts with `scheme:` -/
def afterScheme (u : Str) : Option Str :=
  match splitFirst ':' u with
  | some (c0 :: pre, rest) =>
    if isAsciiAlpha c0 && (c0 :: pre).all Gen.schemeChars.contains then some rest else none
  | _ => none

def splitAt1 (c : Char) (u : Str) : Str × Str :=
  match splitFirst c u with
  | some (a, b) => (a, b)
  | none => (u, [])

/-- index of the last `/` (`str.rfind`), when there is one -/
def rfindSlash (u : Str) : Option Nat :=
  match findSub ['/'] u.reverse with
  | some k => some (u.length - 1 - k)
  | none => none

/-- `_splitparams(url)`: parameters of the last path segment (called when `;` occurs) -/
def splitParams (url : Str) : Str × Str :=
  match rfindSlash url with
  | some k =>
    match splitFirst ';' (url.drop k) with
    | some (a, b) => (url.take k ++ a, b)
    | none => (url, [])
  | none => splitAt1 ';' url

/-- path, params, query, fragment of `urlparse` for a cleaned text without scheme and authority -/
structure UrlParts where
  path : Str
  params : Str
  query : Str
  fragment : Str

def parseRelative (u : Str) : UrlParts :=
  let (u1, frag) := splitAt1 '#' u
  let (u2, query) := splitAt1 '?' u1
  let (path, params) := if u2.contains ';' then splitParams u2 else (u2, [])
  { path := path, params := params, query := query, fragment := frag }

/-- `urlunparse(('', '', path, params, query, fragment))` -/
def unparseRelative (path params query fragment : Str) : Str :=
  let url := if params.isEmpty then path else path ++ ';' :: params
  let url := if query.isEmpty then url else url ++ '?' :: query
  if fragment.isEmpty then url else url ++ '#' :: fragment

/-- the `for seg in segments` loop of `urljoin`; the stack is kept reversed -/
def resolveDots (segs : List Str) : List Str :=
  (segs.foldl (fun acc seg =>
    if seg == ['.', '.'] then acc.tail
    else if seg == ['.'] then acc
    else seg :: acc) []).reverse

/-- `segments[1:-1] = filter(None, segments[1:-1])` -/
def filterMiddle : List Str → List Str
  | [] => []
  | [a] => [a]
  | a :: rest => a :: (rest.dropLast.filter fun s => !s.isEmpty) ++ rest.drop (rest.length - 1)

/-- `urljoin(base, url)` for a base that starts with `/` (the script name).  Whenever an
authority (`//…`) shows up in either text the answer is the library's (`lib`): its validation
(IPv6 brackets, NFKC) is not modelled. -/
def urljoinPath (base url : Str) (lib : Except Err Str) : Except Err Str :=
  if url.isEmpty then .ok base
  else
    let b := urlClean base
    let u := urlClean url
    if b.take 2 == ['/', '/'] then lib
    else match afterScheme u with
      | some rest => if rest.take 2 == ['/', '/'] then lib else .ok url    -- scheme != bscheme: url as given
      | none =>
        if u.take 2 == ['/', '/'] then lib
        else
          let bp := parseRelative b
          let p := parseRelative u
          if p.path.isEmpty && p.params.isEmpty then
            .ok (unparseRelative bp.path bp.params (if p.query.isEmpty then bp.query else p.query) p.fragment)
          else
            let parts := splitOn1 '/' bp.path
            let baseParts := if parts.getLast? != some [] then parts.dropLast else parts
            let segments :=
              if p.path.take 1 == ['/'] then splitOn1 '/' p.path
              else filterMiddle (baseParts ++ splitOn1 '/' p.path)
            let resolved := resolveDots segments
            let resolved :=
              if segments.getLast? == some ['.'] || segments.getLast? == some ['.', '.'] then resolved ++ [[]]
              else resolved
            let joined := List.intercalate ['/'] resolved
            .ok (unparseRelative (if joined.isEmpty then ['/'] else joined) p.params p.query p.fragment)

/-- `Request.script_name` (default config: `X-Script-Name` not consulted) -/
def scriptNameOf (sn : Option Str) : Str :=
  if truthy sn then '/' :: stripBy (· == '/') (sn.getD []) ++ ['/'] else ['/']

/-- `Request.fullpath` for the default `app_name_header`: `path = '/' + PATH_INFO.lstrip('/')`,
`urljoin(script_name, path[1:].lstrip('/'))` -/
def fullpathOf (sn : Option Str) (pathInfo : Str) (lib : Except Err Str) : Except Err Str :=
  urljoinPath (scriptNameOf sn) (pathInfo.dropWhile (· == '/')) lib

/-- the part of the WSGI environ `Request.urlparts` reads.  `joinLib` is what the library's
`urljoin` answers for this request (value or `ValueError`); the model consults it only when an
authority part has to be validated (see `urljoinPath`). -/
structure UrlEnv where
  fwdProto : Option Str     -- HTTP_X_FORWARDED_PROTO
  urlScheme : Option Str    -- wsgi.url_scheme   (default 'http')
  fwdHost : Option Str      -- HTTP_X_FORWARDED_HOST
  host : Option Str         -- HTTP_HOST
  serverName : Option Str   -- SERVER_NAME       (default '127.0.0.1')
  serverPort : Option Str   -- SERVER_PORT
  query : Option Str        -- QUERY_STRING
  scriptName : Option Str   -- SCRIPT_NAME
  joinLib : Except Err Str

/-- `Request.url` = `self.urlparts.geturl()`; `pathInfo` is `environ['PATH_INFO']` as `_handle`
left it -/
def requestUrl (env : UrlEnv) (pathInfo : Str) : Except Err Str :=
  let http := (orElse env.fwdProto (some (env.urlScheme.getD "http".toList))).getD []
  let host0 := orElse env.fwdHost env.host
  let host :=
    if truthy host0 then host0.getD []
    else
      let h := env.serverName.getD "127.0.0.1".toList
      let defaultPort := if http == "http".toList then "80".toList else "443".toList
      if truthy env.serverPort && env.serverPort != some defaultPort then h ++ ':' :: env.serverPort.getD []
      else h
  match fullpathOf env.scriptName pathInfo env.joinLib with
  | .error e => .error e
  | .ok fp => .ok (urlunsplit http host (urlquote fp) env.query)

/-! ### _handle / _cast / wsgi for error outcomes -/

/-- what routing and the user's handler do with the request (a parameter of this model) -/
inductive Outcome
  | notFound                                        -- router: no route
  | notAllowed (allow : Str)                        -- router: RouteMethodError
  | raises (cls : Str) (msg : Str) (tb : Str)       -- handler or hook raised `cls(msg)`; tb = format_exc()
  | requestError (cls : String) (msg : Str) (tb : Str)  -- a body accessor called request._raise(cls(msg), RequestError)
  | iterRaises (cls : Str) (msg : Str) (tb : Str)   -- handler returned an iterator whose first next() raised
  | unsupportedType (ty : Str)                      -- handler returned an iterable of a non-text item; ty = str(type(item))
  | abort (code : Nat) (text : Option Str)          -- user code raised HTTPError(code, text)
  | ok (body : Str)                                 -- handler returned text
  deriving Repr

def statusLine (code : Nat) : Str :=
  (Gen.statusLines.lookup code).getD (natStr code ++ " Unknown".toList)

def httpError (code : Nat) (body : Option Str) (exc tb : Option Str := none) : ErrResp :=
  { code := code, status := statusLine code, body := body, exception := exc, traceback := tb }

/-- `repr(cls(msg))` of a one-argument exception -/
def excRepr (pr : Char → Bool) (cls msg : Str) : Str := cls ++ '(' :: pyRepr pr msg ++ [')']

def err500 (pr : Char → Bool) (cls msg tb : Str) : ErrResp :=
  httpError 500 (some "Internal Server Error".toList) (some (excRepr pr cls msg)) (some tb)

/-- `Ombott._handle` (and the two places of `_cast` that create an error object while looking at
the handler's result) as far as they produce an error object: `.inl body` = a normal 200 text -/
def handleErr (pr : Char → Bool) (rawPath : Bytes) (oc : Outcome) : Sum Str ErrResp :=
  match utf8Decode rawPath with
  | none => .inr (httpError 400 (some "Invalid path string. Expected UTF-8".toList))
  | some _ =>
    match oc with
    | .notFound => .inr (httpError 404 (some "Not Found".toList))
    | .notAllowed _ => .inr (httpError 405 (some "Method not allowed.".toList))
    | .raises cls msg tb => .inr (err500 pr cls msg tb)
    | .requestError cls msg tb =>
      -- for err_cls in (err.__class__, except_class): out_err = errors_map.get(err_cls)
      match (Gen.errorsMap.lookup cls).orElse fun _ => Gen.errorsMap.lookup "RequestError" with
      | some (code, body) => .inr (httpError code (some body))    -- shared HTTPError of errors_map
      | none => .inr (err500 pr cls.toList msg tb)
    -- _cast: first = HTTPError(500, 'Unhandled exception', err500, format_exc())
    | .iterRaises cls msg tb =>
      .inr (httpError 500 (some "Unhandled exception".toList) (some (excRepr pr cls msg)) (some tb))
    -- _cast: out = HTTPError(500, f'Unsupported response type: {type(first)}')
    | .unsupportedType ty => .inr (httpError 500 (some ("Unsupported response type: ".toList ++ ty)))
    | .abort code text => .inr (httpError code text)
    | .ok body => .inl body

structure Req where
  rawPath : Bytes           -- PATH_INFO as the server hands it over (Latin-1 code units)
  env : UrlEnv
  accept : Option Str       -- HTTP_ACCEPT
  isHead : Bool

structure Resp where
  status : Str
  ctype : Str
  body : Str                -- text; the WSGI layer sends its UTF-8 encoding
  deriving Repr, DecidableEq

def htmlType : Str := "text/html; charset=UTF-8".toList
def jsonType : Str := "application/json".toList

/-- `Request.is_json_requested` -/
def isJsonRequested (accept : Option Str) : Bool :=
  truthy accept && "application/json".toList.isPrefixOf (accept.getD [])

/-- the path the last-resort page shows: `environ['PATH_INFO']`, re-decoded when that worked -/
def shownPath (rawPath : Bytes) : Str :=
  match utf8Decode rawPath with
  | some p => p
  | none => rawPath.map fun b => Char.ofNat b.toNat

/-- `Ombott.default_error_handler(res)`: content type and text, or the exception it raises -/
def defaultErrorHandler (pr : Char → Bool) (lines : List Str) (debug : Bool) (req : Req)
    (res : ErrResp) : Except FErr (Str × Str) :=
  if isJsonRequested req.accept then
    .ok (jsonType, dumpsObj [("body".toList, res.body),
                             ("exception".toList, some (strOpt res.exception)),
                             ("traceback".toList, res.traceback)])
  else
    match requestUrl req.env (shownPath req.rawPath) with
    | .error e => .error (.py e)
    | .ok url => (render pr lines res url debug).map fun page => (htmlType, page)

def criticalPrefix : Str := "<h1>Critical error while processing request: ".toList
def criticalSuffix : Str := "</h1>".toList

/-- the catch-all page of `Ombott.wsgi`; with debug on it adds `repr(_e)` and `format_exc()`
(`dbg` = those two texts) -/
def criticalPage (rawPath : Bytes) (debug : Bool) (dbg : Str × Str) : Str :=
  let err := criticalPrefix ++ helperEscape (shownPath rawPath) ++ criticalSuffix
  if debug then
    err ++ "<h2>Error:</h2>\n<pre>\n".toList ++ helperEscape dbg.1 ++
      "\n</pre>\n<h2>Traceback:</h2>\n<pre>\n".toList ++ helperEscape dbg.2 ++ "\n</pre>\n".toList
  else err

/-- the last-resort response; since the HEAD fix of `wsgi` it has no body for HEAD -/
def criticalResp (rawPath : Bytes) (debug : Bool) (dbg : Str × Str) (isHead : Bool) : Resp :=
  { status := "500 INTERNAL SERVER ERROR".toList, ctype := htmlType,
    body := if isHead then [] else criticalPage rawPath debug dbg }

/-- rfc2616 section 4.3 test of `wsgi`: 1xx, 204, 304 and HEAD answers carry no body -/
def bodyless (code : Nat) (isHead : Bool) : Bool :=
  (100 ≤ code && code < 200) || code == 204 || code == 304 || isHead

/-- `BaseResponse.bad_headers`: `headerlist` withholds Content-Type for 204 and 304 -/
def ctypeOf (code : Nat) (ct : Str) : Str := if code == 204 || code == 304 then [] else ct

/-- One WSGI call that ends in a framework-generated response.  `handlerFails`: an error handler
registered by the application for this status raises; `dbg`: the texts the debug variant of the
last-resort page shows. -/
def serve (pr : Char → Bool) (lines : List Str) (debug : Bool) (req : Req) (oc : Outcome)
    (handlerFails : Bool) (dbg : Str × Str) : Resp :=
  match handleErr pr req.rawPath oc with
  | .inl body => { status := statusLine 200, ctype := htmlType, body := if req.isHead then [] else body }
  | .inr res =>
    if handlerFails then criticalResp req.rawPath debug dbg req.isHead
    else match defaultErrorHandler pr lines debug req res with
      | .error _ => criticalResp req.rawPath debug dbg req.isHead
      | .ok (ct, text) =>
        { status := res.status, ctype := ctypeOf res.code ct,
          body := if bodyless res.code req.isHead then [] else text }

end Ombott.ErrorPage
