import OmbottModel.Py
import OmbottModel.Py.Wsgi
import OmbottModel.Py.IntLim
import OmbottModel.Gen.Wsgi
/-
Model of `Ombott._handle`, `Ombott._cast`, `Ombott.wsgi`, `_closeiter`, `add_hook`/`emit`,
`HTTPResponse.apply`, `BaseResponse.status` (setter), `BaseResponse.headerlist`,
`Ombott.default_error_handler` / `error_render.render` (C03, C09).

The handler program space is closed over by the datatype `Out`: exactly what `_cast`, `_handle`
and `wsgi` can observe of the Python object a handler returns / raises / yields.  The per-thread
request and response objects are the `Slots` value that is threaded through (`Model/History.lean`
serves request histories on it; C03 starts from arbitrary slots).
-/
namespace Ombott.Wsgi
open Py

/-! ### the response object -/

/-- a header value: a `str`; `bad` stands for a `str` holding a lone surrogate (`_hval` accepts
it, `headerlist` raises `UnicodeEncodeError` on it) -/
inductive HVal
  | good (s : Str)
  | bad
  deriving Repr, DecidableEq, Inhabited

/-- `response._headers`: insertion-ordered dict `name -> value | list of values` -/
abbrev Hdrs := List (Str × List HVal)

/-- `response._cookies`: a `SimpleCookie` as ordered `name -> value` (`[]` = `None` or empty,
both falsy); values are restricted to characters that `SimpleCookie` does not quote -/
abbrev Cookies := List (Str × Str)

/-- status / headers / cookies of a `BaseResponse` (the thread-local `Response` as well as a
constructed `HTTPResponse` / `HTTPError` object) -/
structure RState where
  code : Nat
  line : Str
  headers : Hdrs
  cookies : Cookies
  deriving Repr, DecidableEq, Inhabited

def lookupLine (n : Nat) : Option Str :=
  (Gen.wsgiStatusLines.find? (·.1 == n)).map (·.2.toList)

/-- `str(status or '%d Unknown' % code)` for an `int` status -/
def lineOfCode (n : Nat) : Str := (lookupLine n).getD (natStr n ++ " Unknown".toList)

/-- `BaseResponse.__init__()` as called by `_handle`: `Response()` with the defaults -/
def RState.init : RState :=
  { code := Gen.wsgiDefaultStatus, line := lineOfCode Gen.wsgiDefaultStatus, headers := [], cookies := [] }

/-- what is assigned to `response.status` -/
inductive StatusArg
  | code (n : Nat)          -- an `int`
  | line (s : Str)          -- a `str`
  deriving Repr, DecidableEq

/-- the `status` setter; `none` = `ValueError` / `IndexError` -/
def statusSet : StatusArg → Option (Nat × Str)
  | .code n => if 100 ≤ n ∧ n ≤ 999 then some (n, lineOfCode n) else none
  | .line s =>
    if s.contains ' ' then
      let st := strip s
      match splitWs st with
      | [] => none                                           -- `status.split()[0]`: IndexError
      | tok :: _ =>
        match pyIntLim tok with
        | none => none                                       -- ValueError (also: more digits than `int` converts)
        | some c =>
          if 100 ≤ c ∧ c ≤ 999 then some (c.toNat, st) else none
    else none                                                -- 'String status line without a reason phrase.'

def Hdrs.has (h : Hdrs) (k : Str) : Bool := h.any (·.1 == k)

/-- `d[k] = v` on an insertion-ordered dict -/
def Hdrs.set : Hdrs → Str → List HVal → Hdrs
  | [], k, v => [(k, v)]
  | (k', v') :: r, k, v => if k' == k then (k, v) :: r else (k', v') :: Hdrs.set r k v

/-- `HeaderDict.append` -/
def Hdrs.append : Hdrs → Str → HVal → Hdrs
  | [], k, v => [(k, [v])]
  | (k', v') :: r, k, v => if k' == k then (k', v' ++ [v]) :: r else (k', v') :: Hdrs.append r k v

/-- `HeaderDict.setdefault(k, v)`; the flag says whether the key was inserted -/
def Hdrs.setdefault (h : Hdrs) (k : Str) (v : HVal) : Hdrs × Bool :=
  if h.has k then (h, false) else (h ++ [(k, [v])], true)

def Cookies.set : Cookies → Str → Str → Cookies
  | [], k, v => [(k, v)]
  | (k', v') :: r, k, v => if k' == k then (k, v) :: r else (k', v') :: Cookies.set r k v

/-- `_hval`: `\n`, `\r`, `\0` are refused with `ValueError` -/
def hvalOk (v : Str) : Bool := !(v.contains '\n' || v.contains '\r' || v.contains (Char.ofNat 0))

/-- what a handler / hook does to `app.response` before its outcome -/
inductive Eff
  | setStatus (a : StatusArg)            -- `response.status = a`
  | setHeader (k v : Str)                -- `response.headers[k] = v`
  | addHeader (k v : Str)                -- `response.headers.append(k, v)`
  | setBadHeader (k : Str)               -- `response.headers[k] = '\udc80'`
  | setCookie (k v : Str)                -- `response.set_cookie(k, v)`
  deriving Repr, DecidableEq

/-- one effect; `none` = the statement raised (`ValueError`) -/
def runEff (st : RState) : Eff → Option RState
  | .setStatus a => (statusSet a).map fun (c, l) => { st with code := c, line := l }
  | .setHeader k v => if hvalOk v then some { st with headers := st.headers.set k [.good v] } else none
  | .addHeader k v => if hvalOk v then some { st with headers := st.headers.append k (.good v) } else none
  | .setBadHeader k => some { st with headers := st.headers.set k [.bad] }
  | .setCookie k v => some { st with cookies := st.cookies.set k v }

/-- the statements in order, stopping at the first that raises; `true` = raised -/
def runEffs : List Eff → RState → RState × Bool
  | [], st => (st, false)
  | e :: es, st =>
    match runEff st e with
    | none => (st, true)
    | some st' => runEffs es st'

/-- whether a statement raises does not depend on the response state -/
def effFails : Eff → Bool
  | .setStatus a => (statusSet a).isNone
  | .setHeader _ v => !hvalOk v
  | .addHeader _ v => !hvalOk v
  | .setBadHeader _ => false
  | .setCookie _ _ => false

def effsFail (l : List Eff) : Bool := l.any effFails

/-- `HTTPResponse.apply(response)` -/
def apply (r : RState) (st : RState) : RState :=
  { code := r.code, line := r.line, headers := r.headers,
    cookies := if r.cookies.isEmpty then st.cookies else r.cookies }

/-- `bad_headers.get(code)` -/
def badHeadersFor (code : Nat) : List Str :=
  ((Gen.wsgiBadHeaders.find? (·.1 == code)).map (·.2.map String.toList)).getD []

/-- the entries of `_headers` that survive the per-status blacklist (`h[0].title() not in bad_headers`) -/
def keptHeaders (st : RState) : Hdrs :=
  let bad := badHeadersFor st.code
  if bad.isEmpty then st.headers else st.headers.filter fun h => !bad.contains (titleAscii h.1)

/-- `need_ctype` -/
def needCtype (st : RState) : Bool :=
  (badHeadersFor st.code).isEmpty && !st.headers.has "Content-Type".toList

/-- one pair per value -/
def flatHeaders (st : RState) : List (Str × HVal) :=
  (keptHeaders st).flatMap fun h => h.2.map fun v => (h.1, v)

def emitPair (p : Str × HVal) : Option (Str × Str) :=
  match p.2 with
  | .good v => some (p.1, recodeLatin1 v)
  | .bad => none

/-- `BaseResponse.headerlist`; `none` = raises (`UnicodeEncodeError` on a lone surrogate) -/
def headerlist (st : RState) : Option (List (Str × Str)) :=
  if (flatHeaders st).any (fun p => p.2 == .bad) then none else
  some ((flatHeaders st).filterMap emitPair
    ++ (if needCtype st then [("Content-Type".toList, Gen.wsgiDefaultContentType.toList)] else [])
    ++ st.cookies.map fun c => ("Set-Cookie".toList, recodeLatin1 (c.1 ++ '=' :: c.2)))

/-! ### the handler program space -/

/-- the falsy values a handler can return (`if not out`) with their `str()` -/
inductive Falsy
  | str | bytes | none | zero | list | false_ | dict
  deriving Repr, DecidableEq

def Falsy.fmt : Falsy → Str
  | .str => [] | .bytes => "b''".toList | .none => "None".toList | .zero => "0".toList
  | .list => "[]".toList | .false_ => "False".toList | .dict => "{}".toList

mutual
/-- what `_cast` can observe of a Python object -/
inductive Out
  | falsy (k : Falsy)
  | text (s : Str)                                  -- `str` (empty = falsy)
  | bytes (b : Bytes)                               -- `bytes` (empty = falsy)
  | resp (isErr : Bool) (r : RState) (body : Out)   -- `HTTPResponse` / `HTTPError` object
  | file (id : Nat) (hasClose hasIter : Bool) (content : Bytes)   -- has `.read`, binary
  | iter (id : Nat) (hasClose : Bool) (items : List Item)         -- any other iterable
  | unsupported (tyRepr : Str)                      -- truthy, no `.read`, `iter()` raises TypeError
/-- what one `next()` on a handler iterable does -/
inductive Item
  | empty                                           -- a falsy item ('' / b'' / None)
  | text (s : Str)
  | bytes (b : Bytes)
  | yields (o : Out)                                -- yields an `HTTPResponse` object
  | raisesResp (o : Out)                            -- raises an `HTTPResponse`
  | raises                                          -- raises any other `Exception`
  | unsup (tyRepr : Str)                            -- yields a truthy non-str/bytes object
end

instance : Inhabited Out := ⟨.falsy .str⟩

/-- `'{}'.format(x)` of an error body (only the simple kinds occur as `HTTPError` bodies) -/
def fmtBody : Out → Str
  | .falsy k => k.fmt
  | .text s => s
  | .bytes b => bytesRepr b
  | _ => "?".toList

/-- a custom `error_handlers[code]` callable -/
inductive ErrHandler
  | const (o : Out)        -- returns `o` whatever the error
  | body                   -- `lambda e: e.body`
  | raises                 -- raises an exception
deriving Inhabited

inductive HookRes
  | ok | raisesResp (o : Out) | raises
deriving Inhabited

/-- what a hook does to the hook list of the event being emitted (before anything else) -/
inductive HookEdit
  | none
  | removeSelf            -- `app.remove_hook(name, this_hook)`: a one-shot hook
  | addNew                -- `app.add_hook(name, fresh_hook)`: registers another hook of the same event
  | removeOther (j : Nat) -- `app.remove_hook(name, hook_j)`: removes the hook registered as number `j`
  deriving Repr, DecidableEq, Inhabited

structure Hook where
  effs : List Eff
  res : HookRes
  edit : HookEdit := .none
deriving Inhabited

inductive Outcome
  | returns (o : Out) | raisesResp (o : Out) | raises
deriving Inhabited

structure Handler where
  effs : List Eff
  res : Outcome
deriving Inhabited

/-- the result of `to_route` (C01/C02 are about how it is computed) -/
inductive Route
  | found (h : Handler)
  | notFound
  | notAllowed (allow : Str)
deriving Inhabited

/-- the application: hooks in registration order, custom error handlers -/
structure App where
  before : List Hook
  after : List Hook
  errHandlers : List (Nat × ErrHandler)
deriving Inhabited

/-- how the request looked when it arrived, for a request that a before-request hook rewrites
(`request['PATH_INFO'] = …`, `request.environ['REQUEST_METHOD'] = …`: prefix stripping, method
override).  The `Req` itself describes the request as hook number `byHook` leaves it. -/
structure Arrival where
  isHead : Bool
  path : Str
  urlRepr : Str
  byHook : Nat
deriving Inhabited

/-- a request as far as `_handle`/`_cast`/`wsgi` look at it -/
structure Req where
  id : Nat                -- identity of the environ object
  isHead : Bool           -- `environ['REQUEST_METHOD'] == 'HEAD'`
  fileWrapper : Bool      -- `'wsgi.file_wrapper' in environ`
  pathOK : Bool           -- PATH_INFO decodes as UTF-8
  path : Str              -- decoded PATH_INFO (for the catch-all page)
  urlRepr : Str           -- `repr(html.escape(request.url))`
  json : Bool             -- `request.is_json_requested` (Accept starts with application/json)
  route : Route           -- what `to_route(request.path, request.method)` answers
  arrival : Option Arrival := none
deriving Inhabited

/-- what the reused request object holds: the environ it was last initialised with -/
structure ReqSlot where
  id : Nat
  urlRepr : Str
  json : Bool
  ext : List (Str × Str) := []   -- `ombott.request.ext.<name>` items and plain items application code
                                 -- stored through `request.<name> = v` / `request[key] = v`
  deriving Repr, DecidableEq

/-- the per-thread request and response objects of one application -/
structure Slots where
  req : Option ReqSlot
  resp : RState
  deriving Repr, DecidableEq

def Slots.fresh : Slots := { req := none, resp := RState.init }

inductive Event
  | before (i : Nat)
  | routed
  | handler
  | after (j : Nat)
  | close (k : Nat)
  | startResponse (line : Str) (hdrs : List (Str × Str)) (excInfo : Bool)
  | stderr
  deriving Repr, DecidableEq

/-- `HTTPError(code, body, **headers)` -/
def mkError (code : Nat) (body : Str) (hdrs : Hdrs := []) : Out :=
  .resp true { code := code, line := lineOfCode code, headers := hdrs, cookies := [] } (.text body)

/-! ### `_handle` -/

/-- control flow leaving the `try` block of `_handle` -/
inductive Flow
  | ret (o : Out)       -- `return`
  | resp (o : Out)      -- an `HTTPResponse` is propagating
  | exc                 -- another exception is propagating
deriving Inhabited

/-- `self.emit('before_request')`: hooks in list order (each with its registration index); the
first failure ends the list comprehension -/
def runBefore : List (Nat × Hook) → RState → RState × List Event × Option Flow
  | [], st => (st, [], none)
  | (i, h) :: hs, st =>
    match runEffs h.effs st with
    | (st', true) => (st', [.before i], some .exc)
    | (st', false) =>
      match h.res with
      | .raisesResp o => (st', [.before i], some (.resp o))
      | .raises => (st', [.before i], some .exc)
      | .ok =>
        let (st'', ev, fl) := runBefore hs st'
        (st'', .before i :: ev, fl)

/-- `self.emit('after_request')` inside `finally`: a failing hook replaces whatever was in
flight and ends the list comprehension -/
def runAfter : List (Nat × Hook) → RState → Flow → RState × List Event × Flow
  | [], st, fl => (st, [], fl)
  | (j, h) :: hs, st, fl =>
    match runEffs h.effs st with
    | (st', true) => (st', [.after j], .exc)
    | (st', false) =>
      match h.res with
      | .raisesResp o => (st', [.after j], .resp o)
      | .raises => (st', [.after j], .exc)
      | .ok =>
        let (st'', ev, fl') := runAfter hs st' fl
        (st'', .after j :: ev, fl')

def enumFrom {α} : Nat → List α → List (Nat × α)
  | _, [] => []
  | i, a :: r => (i, a) :: enumFrom (i + 1) r

/-- the list `_hooks[name]` as `add_hook` builds it from the registration sequence -/
def hookList (name : String) (hooks : List Hook) : List (Nat × Hook) :=
  if ((Gen.wsgiHookReversed.find? (·.1 == name)).map (·.2)).getD false
  then (enumFrom 0 hooks).reverse else enumFrom 0 hooks

/-- `to_route` + `Ombott.handler` -/
def runRoute (route : Route) (st : RState) : RState × List Event × Flow :=
  match route with
  | .notFound => (st, [.routed], .resp (mkError 404 "Not Found".toList))
  | .notAllowed allow =>
    (st, [.routed], .resp (mkError 405 "Method not allowed.".toList [("Allow".toList, [.good allow])]))
  | .found h =>
    match runEffs h.effs st with
    | (st', true) => (st', [.routed, .handler], .exc)
    | (st', false) =>
      match h.res with
      | .returns o => (st', [.routed, .handler], .ret o)
      | .raisesResp o => (st', [.routed, .handler], .resp o)
      | .raises => (st', [.routed, .handler], .exc)

/-- the `except` clauses of `_handle` -/
def settle : Flow → List Event × Out
  | .ret o => ([], o)
  | .resp o => ([], o)
  | .exc => ([.stderr], mkError 500 "Internal Server Error".toList)

/-- `request.__init__(environ)`: the reused request object is pointed at the new environ.
Extension attributes (`BaseRequest.__setattr__` files `request.x = v` under
`environ['ombott.request.ext.x']`) and items live in that environ, so the new one has none. -/
def Slots.initRequest (s : Slots) (r : Req) : Slots :=
  { s with req := some { id := r.id, urlRepr := r.urlRepr, json := r.json, ext := [] } }

/-- `response.__init__()`: `BaseResponse.__init__` assigns `_status_line`, `_status_code`
(through the `status` setter with the default), `_cookies = None`, `_headers = {}`, `body = ''` —
every attribute of the reused response object -/
def Slots.initResponse (s : Slots) : Slots :=
  { s with resp := { s.resp with code := Gen.wsgiDefaultStatus, line := lineOfCode Gen.wsgiDefaultStatus,
                                 headers := [], cookies := [] } }

/-- `_handle` after the re-initialisation of the two per-thread objects -/
def handleFrom (app : App) (s0 : Slots) (r : Req) : Slots × List Event × Out :=
  if !r.pathOK then
    (s0, [], mkError 400 "Invalid path string. Expected UTF-8".toList)
  else
    let (st1, ev1, fl1) := runBefore (hookList "before_request" app.before) s0.resp
    let (st2, ev2, fl2) :=
      match fl1 with
      | some fl => (st1, [], fl)
      | none => runRoute r.route st1
    let (st3, ev3, fl3) := runAfter (hookList "after_request" app.after) st2 fl2
    let (ev4, out) := settle fl3
    ({ s0 with resp := st3 }, ev1 ++ ev2 ++ ev3 ++ ev4, out)

/-- `Ombott._handle(environ)` on the slots the previous request left behind: both branches (the
early return for an undecodable `PATH_INFO` and the normal one) start with
`request.__init__(environ); response.__init__()` -/
def handle (app : App) (s : Slots) (r : Req) : Slots × List Event × Out :=
  handleFrom app (s.initRequest r).initResponse r

/-- after the re-initialisation nothing of the previous slots is left -/
theorem reinit_eq (s : Slots) (r : Req) :
    (s.initRequest r).initResponse =
      { req := some { id := r.id, urlRepr := r.urlRepr, json := r.json }, resp := RState.init } := rfl

/-! ### `_cast` -/

/-- one item of the iterable handed to the server -/
inductive BodyItem
  | chunk (b : Bytes)        -- a `bytes` object
  | str (s : Str)            -- a non-`bytes` object slipped through (bytes-first iterable yielding `str`/`None` later)
  | raises                   -- iteration raises here (`bytes.encode` does not exist)
  deriving Repr, DecidableEq

/-- how `_cast` ends -/
inductive CastRes
  | body (items : List BodyItem) (closer : Option Nat) (fwCL : Option Nat)
      -- returned iterable; `closer = some k`: it has a `close()` that closes handler object `k`;
      -- `fwCL = some n`: `setdefault('Content-Length', n)` inserted the header
  | raised                   -- an exception left `_cast` (custom error handler raised)
  | diverged                 -- never produced (`cast_terminates`)
  deriving Repr, DecidableEq

/-- `error_render.render(res, request.url, debug=False)` -/
def renderPage (line urlRepr body : Str) : Str :=
  Gen.wsgiErrorPage.flatMap fun seg =>
    if seg.1 then
      (if seg.2 == "e.status" then line
       else if seg.2 == "url" then urlRepr
       else if seg.2 == "e.body" then body
       else "-] Forbidden [-".toList)
    else seg.2.toList

def urlOf (s : Slots) : Str :=
  match s.req with
  | some q => q.urlRepr
  | none => "'http://127.0.0.1/'".toList

/-- the HTML branch of `default_error_handler(res)` -/
def defaultPage (s : Slots) (r : RState) (body : Out) : Out :=
  .text (renderPage r.line (urlOf s) (fmtBody body))

def withResp (s : Slots) (st : RState) : Slots := { s with resp := st }

def wantsJson (s : Slots) : Bool :=
  match s.req with
  | some q => q.json
  | none => false

/-- `json.dumps(res.body)` for the kinds of error bodies of the zoo; `none` = `TypeError` -/
def jsonBody : Out → Option Str
  | .falsy .str => some "\"\"".toList
  | .falsy .none => some "null".toList
  | .falsy .zero => some "0".toList
  | .falsy .list => some "[]".toList
  | .falsy .false_ => some "false".toList
  | .falsy .dict => some "{}".toList
  | .falsy .bytes => none
  | .text t => some (jsonStr t)
  | _ => none

/-- `json.dumps(dict(body=res.body, exception=repr(res.exception), traceback=res.traceback))` for
an error that carries no exception (`repr(None)`, `None`) -/
def jsonPage (body : Out) : Option Str :=
  (jsonBody body).map fun j =>
    "{\"body\": ".toList ++ j ++ ", \"exception\": \"None\", \"traceback\": null}".toList

/-- `response.headers['Content-Type'] = 'application/json'` -/
def setJsonCtype (st : RState) : RState :=
  let h := Hdrs.set st.headers "Content-Type".toList [HVal.good "application/json".toList]
  { st with headers := h }

/-- `Ombott.default_error_handler(res)`; `none` = it raises (`json.dumps` refuses the body).
The JSON branch also sets `response.headers['Content-Type']`. -/
def defaultHandler (s : Slots) (r : RState) (body : Out) : Option (Slots × Out) :=
  if wantsJson s then
    match jsonPage body with
    | none => none
    | some j =>
      some (withResp s (setJsonCtype s.resp), Out.text j)
  else some (s, defaultPage s r body)

def errHandlerFor (app : App) (code : Nat) : Option ErrHandler :=
  (app.errHandlers.find? (·.1 == code)).map (·.2)

/-- state of the `while True` loop -/
inductive Cfg
  | run (cnt : Nat) (s : Slots) (out : Out)
  | done (s : Slots) (res : CastRes)

/-- return point "empty output" -/
def finishEmpty (s : Slots) : Cfg :=
  let (h, ins) := s.resp.headers.setdefault "Content-Length".toList (.good (natStr 0))
  .done (withResp s { s.resp with headers := h }) (.body [] none (if ins then some 0 else none))

/-- return point "byte string" -/
def finishBytes (s : Slots) (b : Bytes) : Cfg :=
  let (h, ins) := s.resp.headers.setdefault "Content-Length".toList (.good (natStr b.length))
  .done (withResp s { s.resp with headers := h })
    (.body [.chunk b] none (if ins then some b.length else none))

/-- `next(iout)` until the first truthy item -/
def skipEmpty : List Item → List Item
  | .empty :: r => skipEmpty r
  | .text [] :: r => skipEmpty r
  | .bytes [] :: r => skipEmpty r
  | l => l

/-- the items after the first one as the server sees them, for a `bytes` first item
(`itertools.chain([first], iout)`) -/
def restBytes : List Item → List BodyItem
  | [] => []
  | .empty :: r => .str [] :: restBytes r          -- `None` slipped through: not a `bytes`
  | .bytes b :: r => .chunk b :: restBytes r
  | .text s :: r => .str s :: restBytes r
  | .yields _ :: r => .str [] :: restBytes r       -- an object that is not `bytes`
  | .unsup _ :: r => .str [] :: restBytes r
  | .raisesResp _ :: _ => [.raises]
  | .raises :: _ => [.raises]

/-- … and for a `str` first item (`it.encode(charset) for it in chain([first], iout)`) -/
def restText : List Item → List BodyItem
  | [] => []
  | .text s :: r => .chunk (utf8 s) :: restText r
  | _ :: _ => [.raises]

/-- the chunks of a binary file-like read in blocks -/
def fileChunks (content : Bytes) : List BodyItem :=
  if content.isEmpty then [] else [.chunk content]

/-- the iterable part of the loop body, on the items `iter(out)` produces -/
def castIter (cnt : Nat) (s : Slots) (id : Nat) (hasClose : Bool) (items : List Item) : Cfg :=
  let closer := if hasClose then some id else none
  match skipEmpty items with
  | [] => .run cnt s (.falsy .str)                                     -- StopIteration: out = ''
  | .raisesResp o :: _ => .run cnt s o                                 -- first = rs
  | .yields o :: _ => .run cnt s o
  | .raises :: _ => .run cnt s (mkError 500 "Unhandled exception".toList)
  | .unsup ty :: _ =>
    .run cnt s (mkError 500 ("Unsupported response type: ".toList ++ ty))
  | .bytes b :: r => .done s (.body (.chunk b :: restBytes r) closer none)
  | .text t :: r => .done s (.body (.chunk (utf8 t) :: restText r) closer none)
  | .empty :: _ => .run cnt s (.falsy .str)                            -- unreachable after skipEmpty

/-- the loop body after the `loops_cnt` guard -/
def castOut (app : App) (fw : Bool) (cnt : Nat) (s : Slots) (out : Out) : Cfg :=
  match out with
  | .falsy _ => finishEmpty s
  | .text t => if t.isEmpty then finishEmpty s else finishBytes s (utf8 t)
  | .bytes b => if b.isEmpty then finishEmpty s else finishBytes s b
  | .resp true r body =>
    let s' := withResp s (apply r s.resp)
    match errHandlerFor app r.code with
    | none =>
      match defaultHandler s' r body with
      | none => .done s' .raised
      | some (s'', o) => .run cnt s'' o
    | some (.const o) => .run cnt s' o
    | some .body => .run cnt s' body
    | some .raises => .done s' .raised
  | .resp false r body => .run cnt (withResp s (apply r s.resp)) body
  | .file id hasClose hasIter content =>
    if fw then .done s (.body (fileChunks content) (if hasClose then some id else none) none)
    else if hasClose || !hasIter then
      .done s (.body (fileChunks content) (if hasClose then some id else none) none)
    else castIter cnt s id false (if content.isEmpty then [] else [.bytes content])
  | .iter id hasClose items => castIter cnt s id hasClose items
  | .unsupported _ => .run cnt s (mkError 500 "Unhandled exception".toList)

/-- one iteration of `while True:` exactly as written: count, guard, body -/
def step (app : App) (fw : Bool) : Cfg → Cfg
  | .done s r => .done s r
  | .run cnt s out =>
    let cnt := cnt + 1
    if cnt > Gen.wsgiCastMaxLoops then
      let e : RState := { code := 500, line := lineOfCode 500, headers := [], cookies := [] }
      let s' := withResp s (apply e s.resp)
      match defaultHandler s' e (.text "too many iterations".toList) with
      | none => .done s' .raised
      | some (s'', o) => castOut app fw cnt s'' o
    else castOut app fw cnt s out

/-- at most `n` iterations -/
def runLoop (app : App) (fw : Bool) : Nat → Cfg → Cfg
  | 0, c => c
  | n + 1, c =>
    match c with
    | .done s r => .done s r
    | c => runLoop app fw n (step app fw c)

/-- `Ombott._cast(out)`: the loop run for as many iterations as its own guard allows -/
def cast (app : App) (fw : Bool) (s : Slots) (out : Out) : Slots × CastRes :=
  match runLoop app fw (Gen.wsgiCastMaxLoops + 1) (.run 0 s out) with
  | .done s' r => (s', r)
  | .run _ s' _ => (s', .diverged)

/-! ### `wsgi` -/

/-- what the server receives from `Ombott.__call__` -/
structure Result where
  events : List Event
  body : List BodyItem
  closer : Option Nat
  fwCL : Option Nat
  slots : Slots
  escaped : Bool := false    -- an exception left `Ombott.__call__` (only with `catchall = False`)
  deriving Repr

def closeEvents : Option Nat → List Event
  | some k => [.close k]
  | none => []

def isBodyless (code : Nat) : Bool := Gen.wsgiBodylessStatuses.contains code

/-- `start_response('500 INTERNAL SERVER ERROR', [('Content-Type', …)], sys.exc_info())` -/
def critStart : Event :=
  .startResponse "500 INTERNAL SERVER ERROR".toList
    [("Content-Type".toList, "text/html; charset=UTF-8".toList)] true

/-- `'<h1>Critical error while processing request: %s</h1>' % html_escape(PATH_INFO)` -/
def critPage (path : Str) : Bytes :=
  utf8 ("<h1>Critical error while processing request: ".toList ++ htmlEscape path ++ "</h1>".toList)

/-- the catch-all `except Exception` branch of `wsgi` (catchall = True, debug = False) -/
def catchAll (ev : List Event) (closer : Option Nat) (isHead : Bool) (path : Str) (s : Slots) : Result :=
  { events := ev ++ closeEvents closer ++ [.stderr, critStart],
    body := if isHead then [] else [.chunk (critPage path)], closer := none, fwCL := none, slots := s }

/-- `Ombott.wsgi(environ, start_response)` -/
def wsgi (app : App) (s : Slots) (r : Req) : Result :=
  let (s1, ev1, out) := handle app s r
  match cast app r.fileWrapper s1 out with
  | (s2, .body items closer fwCL) =>
    let suppress := isBodyless s2.resp.code || r.isHead
    let ev2 := if suppress then closeEvents closer else []
    let items' := if suppress then [] else items
    let closer' := if suppress then none else closer
    match headerlist s2.resp with
    | some hl =>
      { events := ev1 ++ ev2 ++ [.startResponse s2.resp.line hl false],
        body := items', closer := closer', fwCL := fwCL, slots := s2 }
    | none => catchAll (ev1 ++ ev2) closer' r.isHead r.path s2
  | (s2, _) => catchAll ev1 none r.isHead r.path s2

/-- `wsgi` with `config.catchall = False`: the `except Exception` branch closes the iterable and
re-raises.  (`_handle` and the first-`next()` clause of `_cast` do not look at the option: a
failing handler or hook is still answered with a 500.)  Same text as `wsgi` with `escapeAll` for
`catchAll`; the theorems are about `wsgi`, the configuration `Gen.wsgiCatchall` extracts. -/
def escapeAll (ev : List Event) (closer : Option Nat) (s : Slots) : Result :=
  { events := ev ++ closeEvents closer, body := [], closer := none, fwCL := none, slots := s,
    escaped := true }

def wsgiNoCatch (app : App) (s : Slots) (r : Req) : Result :=
  let (s1, ev1, out) := handle app s r
  match cast app r.fileWrapper s1 out with
  | (s2, .body items closer fwCL) =>
    let suppress := isBodyless s2.resp.code || r.isHead
    let ev2 := if suppress then closeEvents closer else []
    let items' := if suppress then [] else items
    let closer' := if suppress then none else closer
    match headerlist s2.resp with
    | some hl =>
      { events := ev1 ++ ev2 ++ [.startResponse s2.resp.line hl false],
        body := items', closer := closer', fwCL := fwCL, slots := s2 }
    | none => escapeAll (ev1 ++ ev2) closer' s2
  | (s2, _) => escapeAll ev1 none s2

/-- the configured application -/
def wsgiC (catchall : Bool) (app : App) (s : Slots) (r : Req) : Result :=
  if catchall then wsgi app s r else wsgiNoCatch app s r

/-! ### the hook lists after a request

`emit` iterates over a snapshot (`self._hooks[name][:]`), so the edits hooks make to the list of
the event being emitted never change which hooks of *this* emission run (`runBefore` / `runAfter`
do not look at `Hook.edit`); they show in the list the next emission starts from. -/

/-- the hooks of an emission that are entered: up to and including the first failing one -/
def entered : List (Nat × Hook) → List (Nat × Hook)
  | [] => []
  | (i, h) :: r =>
    if effsFail h.effs then [(i, h)] else
    match h.res with
    | .ok => (i, h) :: entered r
    | _ => [(i, h)]

/-- `remove_hook`: the first occurrence, if any -/
def removeFirst (j : Nat) : List Nat → List Nat
  | [] => []
  | x :: r => if x == j then r else x :: removeFirst j r

/-- one edit on the live list (`fresh` = registration number the next added hook gets) -/
def applyEdit (reversed : Bool) (live : List Nat × Nat) (p : Nat × Hook) : List Nat × Nat :=
  match p.2.edit with
  | .none => live
  | .removeSelf => (removeFirst p.1 live.1, live.2)
  | .removeOther j => (removeFirst j live.1, live.2)
  | .addNew => (if reversed then live.2 :: live.1 else live.1 ++ [live.2], live.2 + 1)

/-- `_hooks[name]` (registration numbers, list order) after one emission of `name` -/
def liveAfter (name : String) (hooks : List Hook) : List Nat :=
  let l := hookList name hooks
  let rev := ((Gen.wsgiHookReversed.find? (·.1 == name)).map (·.2)).getD false
  ((entered l).foldl (applyEdit rev) (l.map (·.1), hooks.length)).1

/-- The request as the code after `emit('before_request')` sees it.  `to_route` is called with
`request.path` / `request.method` *after* the before-hooks, `wsgi` reads `REQUEST_METHOD` and the
catch-all page reads `PATH_INFO` later still: if the rewriting hook was entered they all see the
rewritten request (`r` itself); if an earlier hook failed (routing is then skipped) they see the
request as it arrived. -/
def effective (app : App) (r : Req) : Req :=
  match r.arrival with
  | none => r
  | some a =>
    if (entered (hookList "before_request" app.before)).any (·.1 == a.byHook) then r
    else { r with isHead := a.isHead, path := a.path, urlRepr := a.urlRepr }

/-- both hook lists after the request (nothing is emitted for an undecodable path) -/
def hooksAfter (app : App) (r : Req) : List Nat × List Nat :=
  if r.pathOK then (liveAfter "before_request" app.before, liveAfter "after_request" app.after)
  else ((hookList "before_request" app.before).map (·.1), (hookList "after_request" app.after).map (·.1))

/-- the server's side of the exchange: iterate, then `close()` if the object has one -/
def serverEvents (res : Result) : List Event := closeEvents res.closer

/-- everything observable about one request: the events of the call and of the server's close -/
def exchange (app : App) (s : Slots) (r : Req) : List Event :=
  let res := wsgi app s r
  res.events ++ serverEvents res

end Ombott.Wsgi
