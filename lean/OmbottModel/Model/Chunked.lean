import OmbottModel.Model.Body
/-
Model of `_iter_chunked` of `ombott/request_pkg/body_mixin.py` (C05, C13), fused with the
consumer loop of `_body_read` in the same way as `readParts` (see `Model/Body.lean`):

* `scanLine`     — the byte-wise size-line scanner with its `seen_r` / `seen_sem` flags, the
                   collected digits and the `read_len > buff_size` bound;
* `readTail`     — `tail = read(2)`, the one-byte retry after a short read;
* `iterChunked`  — size line, `int(chunk_size.strip(), 16)` (`Py.pyIntHex`), zero ends the body,
                   payload loop (`readParts` strict), mandatory CRLF, next chunk;
* `encodeChunked` — an independent encoder used by the round-trip theorems (spec side).
-/
namespace Ombott.Chunked
open Py Ombott.Body

def CR : UInt8 := 13
def LF : UInt8 := 10
def SEM : UInt8 := 59
def CRLF : Bytes := [13, 10]

/-- ```
while True:
    c = read(1); read_len += 1
    if not c or read_len > buff_size: raise parsing_err
    if seen_r and c == n: break
    seen_r = c == r
    if seen_sem: continue
    seen_sem = c == sem
    if seen_r or seen_sem: continue
    header_size_buff.append(c)
```
Returns the collected bytes (`b''.join(header_size_buff)`).  Every turn either raises or has
`read_len ≤ buff_size` with `read_len` one larger than before. -/
def scanLine (buf : Nat) (r : Rec) (readLen : Nat) (seenR seenSem : Bool) (acc : Bytes) :
    Except Err Bytes × Rec :=
  if _h : (r.read 1).1 = [] ∨ readLen + 1 > buf then (.error .bodyParsingError, (r.read 1).2)
  else if seenR && (r.read 1).1 == [LF] then (.ok acc, (r.read 1).2)
  else if seenSem then
    scanLine buf (r.read 1).2 (readLen + 1) ((r.read 1).1 == [CR]) true acc
  else if (r.read 1).1 == [CR] || (r.read 1).1 == [SEM] then
    scanLine buf (r.read 1).2 (readLen + 1) ((r.read 1).1 == [CR]) ((r.read 1).1 == [SEM]) acc
  else
    scanLine buf (r.read 1).2 (readLen + 1) false false (acc ++ (r.read 1).1)
termination_by buf - readLen
decreasing_by all_goals omega

/-- ```
tail = read(2)
if len(tail) == 1: tail += read(1)      # short read
``` -/
def readTail (r : Rec) : Bytes × Rec :=
  if (r.read 2).1.length = 1 then
    ((r.read 2).1 ++ ((r.read 2).2.read 1).1, ((r.read 2).2.read 1).2)
  else r.read 2

/-- a successful size-line scan consumed at least one byte -/
theorem scanLine_data_lt (buf : Nat) (r : Rec) (readLen : Nat) (seenR seenSem : Bool) (acc line : Bytes)
    (h : (scanLine buf r readLen seenR seenSem acc).1 = .ok line) :
    (scanLine buf r readLen seenR seenSem acc).2.st.data.length < r.st.data.length := by
  induction hk : buf - readLen using Nat.strongRecOn generalizing r readLen seenR seenSem acc with
  | _ k ih =>
    have hlen := Rec.read_data_length r 1
    unfold scanLine at h ⊢
    split
    · rename_i hc; simp [hc] at h
    · rename_i hc
      have hne : 0 < (r.read 1).1.length := by
        apply List.length_pos_iff.mpr
        intro h0; exact hc (Or.inl h0)
      have hb : ¬ readLen + 1 > buf := fun h0 => hc (Or.inr h0)
      rw [dif_neg hc] at h
      split
      · simp only; omega
      · rename_i h1; rw [if_neg h1] at h
        split
        · rename_i h2; rw [if_pos h2] at h
          have := ih (buf - (readLen + 1)) (by omega) _ _ _ _ _ h rfl
          omega
        · rename_i h2; rw [if_neg h2] at h
          split
          · rename_i h3; rw [if_pos h3] at h
            have := ih (buf - (readLen + 1)) (by omega) _ _ _ _ _ h rfl
            omega
          · rename_i h3; rw [if_neg h3] at h
            have := ih (buf - (readLen + 1)) (by omega) _ _ _ _ _ h rfl
            omega

/-- the payload loop never gives bytes back -/
theorem readParts_data_le (strict : Bool) (buf : Nat) (max : Option Nat) (rest : Nat) (r : Rec) (sk : Sink) :
    (readParts strict buf max rest r sk).2.st.data.length ≤ r.st.data.length := by
  induction rest using Nat.strongRecOn generalizing r sk with
  | _ rest ih =>
    have hlen := Rec.read_data_length r (min rest buf)
    unfold readParts
    split
    · rename_i h
      have hpos : 0 < (r.read (min rest buf)).1.length := List.length_pos_iff.mpr h.2
      split
      · simp only; omega
      · have := ih (rest - (r.read (min rest buf)).1.length) (by omega) (r.read (min rest buf)).2
        rename_i sk' _
        have := this sk'
        omega
    · split
      · simp only; omega
      · exact Nat.le_refl _

theorem readTail_data_le (r : Rec) : (readTail r).2.st.data.length ≤ r.st.data.length := by
  have h2 := Rec.read_data_length r 2
  have h1 := Rec.read_data_length (r.read 2).2 1
  unfold readTail
  split
  · simp only; omega
  · omega

/-- ```
while True:
    (size line)                                   # scanLine
    try: rest_len = int(chunk_size.strip(), 16)
    except ValueError: raise parsing_err
    if rest_len == 0: break
    while rest_len > 0: …                         # readParts strict; a negative size skips it
    tail = read(2) …                              # readTail
    if tail != rn: raise parsing_err
```
The measure is the unread data: a successful size-line scan consumes at least one byte. -/
def iterChunked (buf : Nat) (max : Option Nat) (r : Rec) (sk : Sink) : Except Err Sink × Rec :=
  match _hs : scanLine buf r 0 false false [] with
  | (.error e, r1) => (.error e, r1)
  | (.ok line, r1) =>
    match pyIntHex line with
    | none => (.error .bodyParsingError, r1)
    | some n =>
      if n = 0 then (.ok sk, r1)
      else
        match _hp : readParts true buf max n.toNat r1 sk with
        | (.error e, r2) => (.error e, r2)
        | (.ok sk2, r2) =>
          if (readTail r2).1 ≠ CRLF then (.error .bodyParsingError, (readTail r2).2)
          else iterChunked buf max (readTail r2).2 sk2
termination_by r.st.data.length
decreasing_by
  have h1 := scanLine_data_lt buf r 0 false false [] line (by rw [_hs])
  rw [_hs] at h1
  have h2 := readParts_data_le true buf max n.toNat r1 sk
  rw [_hp] at h2
  have h3 := readTail_data_le r2
  simp only at h1 h2
  omega

/-! ### encoder (specification side) -/

/-- one chunk as sent: the spelling of its size, the chunk extension (empty, or starting with
`;`), the payload -/
structure Chunk where
  payload : Bytes
  spelling : Bytes
  ext : Bytes := []
  deriving Repr, DecidableEq

def encodeChunk (c : Chunk) : Bytes := c.spelling ++ c.ext ++ CRLF ++ c.payload ++ CRLF

/-- `chunks`, then the last-chunk line (`lastSpelling` spells zero, `lastExt` its extension),
then whatever follows it (trailer fields and the final CRLF), which the decoder never reads -/
def encodeChunked (chunks : List Chunk) (lastSpelling lastExt trailer : Bytes) : Bytes :=
  (chunks.map encodeChunk).flatten ++ (lastSpelling ++ lastExt ++ CRLF ++ trailer)

def payloadOf (chunks : List Chunk) : Bytes := (chunks.map (·.payload)).flatten

/-- canonical size spelling: hex digits, most significant first, lower or upper case, with
`zeros` leading zeros -/
def hexDigitByte (upper : Bool) (d : Nat) : UInt8 :=
  if d < 10 then UInt8.ofNat (48 + d) else if upper then UInt8.ofNat (55 + d) else UInt8.ofNat (87 + d)

def hexSpellAux (upper : Bool) : Nat → Nat → Bytes → Bytes
  | 0, _, acc => acc
  | fuel + 1, n, acc =>
    if n < 16 then hexDigitByte upper n :: acc
    else hexSpellAux upper fuel (n / 16) (hexDigitByte upper (n % 16) :: acc)

def hexSpell (upper : Bool) (zeros : Nat) (n : Nat) : Bytes :=
  List.replicate zeros 48 ++ hexSpellAux upper (n + 1) n []

end Ombott.Chunked
