import OmbottModel.Model.Router
/-!
Editing the router (C11): `RadiDict.remove/_try_merge`, `RadiDict.add_hooks`,
`RadiRouter.remove/_remove_named_routers/add_hook/remove_hook/get_hook/__getitem__` and the hook
invocation of `Ombott.handler`.  Extends `Model/Router.lean` (same namespace); registration
(`RadiRouter.add`, including what an add that is rejected late leaves behind) is
`Router.addParsed` there.

Sections
  7. `RadiDict.remove` with upward pruning and `_try_merge`
  8. `RadiRouter.remove`, `add_hook`, `remove_hook`, `get_hook`, `__getitem__`
  9. `Ombott.handler`: which hooks run, in which order, with which argument
 10. the operations of an edit history and `run`
-/
namespace Ombott.Router
open Py

/-! ## 7. `RadiDict.remove` -/

/-- the three ways `RadiDict.remove` is entered: `remove(p)`, `remove(p, hooks_only=True)`,
`remove(p + '*')` -/
inductive RemMode
  | exact | hooksOnly | pref
  deriving DecidableEq, Repr

/-- `not (node[DATA] or node[IDX] or node[HOOKS])` -/
def Node.isEmpty : Node → Bool
  | .mk _ d _ _ h lits tok => d.isNone && h.isNone && lits.isEmpty && tok.isNone

/-- what `remove` does to the node `_match` stopped at:
`node[IDX] = None; del node[OFFSET:]` for a wildcard removal, then
`node[HOOKS] = None` (hooks only) or `node[DATA] = None; node[PARAMS] = []` -/
def clearAt : RemMode → Node → Node
  | .exact, .mk k _ _ f h l t => .mk k none [] f h l t
  | .hooksOnly, .mk k d p f _ l t => .mk k d p f none l t
  | .pref, .mk k _ _ f h _ _ => .mk k none [] f h [] none

/-- `RadiDict._try_merge(pnode)` after a child of `pnode` was deleted: a literal, data-less,
hook-less node (not the root) with exactly one child, that child being a literal one, is replaced
by the child with the keys joined.  `noMerge`: the node is the root (`pnode is self.root`) or sits
in the wildcard slot of its parent (`pnode[KEY] == self.param_token`; the model tells wildcard
children by their slot, the key test is kept for a literal node whose key is the marker). -/
def tryMerge (noMerge : Bool) : Node → Node
  | .mk k d p f h lits tok =>
    if noMerge || d.isSome || h.isSome || k == [Gen.paramToken] then .mk k d p f h lits tok
    else match lits, tok with
      | [c], none => c.withKey (k ++ c.key)
      | _, _ => .mk k d p f h lits tok

/-- one round of the `for node in stack` loop seen from the node: the node and whether it is
to be deleted from its parent (`key0_to_del` set) -/
def finish (n : Node) : Node × Bool := (n, n.isEmpty)

/-- the loop body at a parent whose child was (`del = true`) or was not deleted -/
def pruneUp (noMerge : Bool) (n : Node) (del : Bool) : Node × Bool :=
  if del then finish (tryMerge noMerge n) else (n, false)

/-- `MismatchType.PARTIAL` at literal child `k` while `route` is what is left of the pattern:
only a wildcard removal goes on, and only when `node[KEY].startswith(route_pattern[ptr:])` -/
def remPartial (mode : RemMode) (k : Node) (route : List Sym) : Option (Node × Bool) :=
  if mode == .pref && (patStr route).isPrefixOf k.key then some (finish (clearAt mode k)) else none

mutual
/-- `RadiDict.remove` below node `n` for the rest of the pattern.  `none`: `_match` reported a
mismatch (nothing changes); `some (n', del)`: the node after the edit and whether the parent has
to delete it.  `_match` is called without filters, so filters are not compared. -/
def remN (noMerge : Bool) (mode : RemMode) : Node → List Sym → Option (Node × Bool)
  | n, [] => some (finish (clearAt mode n))
  | .mk k d p f h lits tok, .lit c :: r =>
    (remL mode lits c r).map fun x => pruneUp noMerge (.mk k d p f h x.1 tok) x.2
  | .mk k d p f h lits tok, .tok _ :: r =>
    (remT mode tok r).map fun x => pruneUp noMerge (.mk k d p f h lits x.1) x.2
def remT (mode : RemMode) : Option Node → List Sym → Option (Option Node × Bool)
  | none, _ => none
  | some t, r => (remN true mode t r).map fun x => if x.2 then (none, true) else (some x.1, false)
/-- the literal children after the edit and whether one of them was deleted -/
def remL (mode : RemMode) : List Node → Char → List Sym → Option (List Node × Bool)
  | [], _, _ => none
  | k :: ks, c, r =>
    if k.key.head? == some c then
      ((stripKey k.key (.lit c :: r)).elim (remPartial mode k (.lit c :: r))
          fun rest => remN false mode k rest).map
        fun x => if x.2 then (ks, true) else (x.1 :: ks, false)
    else (remL mode ks c r).map fun x => (k :: x.1, x.2)
end

/-- `'*'`-suffix test of `RadiDict.remove`/`RadiRouter.remove` on the pattern -/
def starSplit (pat : List Sym) : List Sym × Bool :=
  if pat.getLast? == some (.lit '*') then (pat.dropLast, true) else (pat, false)

/-- `RadiDict.remove(route_pattern, hooks_only)` on the root; `hooks_only` together with a
trailing `*` raises `RadiDictError` before anything is touched -/
def treeRemove (t : Node) (pat : List Sym) (hooksOnly : Bool) : Except Err Node :=
  let (p, star) := starSplit pat
  if star && hooksOnly then throw .radiDictError
  else
    let mode : RemMode := if star then .pref else if hooksOnly then .hooksOnly else .exact
    match remN true mode t p with
    | none => pure t
    | some (t', _) => pure t'

/-! ## 8. `RadiRouter` edits and index lookups -/

/-- `RadiRouter._remove_named_routers(pattern_set)`: names whose route has one of the patterns -/
def Router.removeNamed (R : Router) (pats : List Str) : Router :=
  { R with named := R.named.filter fun (_, id) =>
      match R.obj? id with
      | some r => !pats.contains r.pattern
      | none => true }

/-- `RadiRouter.remove(route)` with `route` a rule text (after `to_pattern`) -/
def Router.removePattern (R : Router) (pat : List Sym) : Router × Except ErrName Unit :=
  match treeRemove R.tree pat false with
  | .error e => (R, .error e.name)
  | .ok t =>
    let R := { R with tree := t }
    let (p, star) := starSplit pat
    if star then
      let pre := patStr p
      let dels := (R.routes.filter fun (k, _) => pre.isPrefixOf k).map (·.1)
      (({ R with routes := R.routes.filter fun (k, _) => !pre.isPrefixOf k } : Router).removeNamed dels,
        .ok ())
    else
      (({ R with routes := dictPop R.routes (patStr p) } : Router).removeNamed [patStr p], .ok ())

/-- `RadiRouter.remove(rule)` -/
def Router.removeRule (cenv : CompileEnv) (R : Router) (rule : Str) : Router × Except ErrName Unit :=
  match parseRule cenv rule with
  | .error e => (R, .error e)
  | .ok p => R.removePattern p.syms

/-- `RadiRouter.remove(name=…)`: the name is popped first, then the tree is edited with the
route's pattern (a trailing `*` of that pattern acts as the wildcard marker there too), then
`del self.routes[route.pattern]` and `_remove_named_routers({route.pattern})` (the other names
of the route go with it) -/
def Router.removeName (R : Router) (name : Str) : Router × Except ErrName Unit :=
  match dictGet R.named name with
  | none => (R, .error "KeyError")
  | some id =>
    let R := { R with named := dictPop R.named name }
    match R.obj? id with
    | none => (R, .error "fault")
    | some route =>
      match treeRemove R.tree route.syms false with
      | .error e => (R, .error e.name)
      | .ok t =>
        let R := { R with tree := t }
        if R.routes.any (·.1 == route.pattern) then
          (({ R with routes := dictPop R.routes route.pattern } : Router).removeNamed [route.pattern], .ok ())
        else (R, .error "KeyError")

/-- `node[HOOKS][hook_type] = hook` seen as a new value of the slot -/
def Node.setHooks (hp : HookPair) : Node → Node
  | .mk k d p f _ l t => .mk k d p f (some hp) l t

mutual
/-- apply `g` to the node `_match(route_pattern)` (no filter comparison) ends at; `none` when
it reports a mismatch.  Used for the in-place update of a hook pair the tree already holds. -/
def updN (g : Node → Node) : Node → List Sym → Option Node
  | n, [] => some (g n)
  | .mk k d p f h lits tok, .lit c :: r => (updL g lits c r).map fun l => .mk k d p f h l tok
  | .mk k d p f h lits tok, .tok _ :: r => (updT g tok r).map fun t => .mk k d p f h lits t
def updT (g : Node → Node) : Option Node → List Sym → Option (Option Node)
  | none, _ => none
  | some t, r => (updN g t r).map some
def updL (g : Node → Node) : List Node → Char → List Sym → Option (List Node)
  | [], _, _ => none
  | k :: ks, c, r =>
    if k.key.head? == some c then
      ((stripKey k.key (.lit c :: r)).elim none fun rest => updN g k rest).map (· :: ks)
    else (updL g ks c r).map (k :: ·)
end

/-- `RadiRouter.hook_installer(route_hooks, hook, hook_type)` -/
def installHook (old : Option HookPair) (hook : Nat) (partialType : Bool) : HookPair :=
  let hp := old.getD ⟨none, none⟩
  if partialType then { hp with partialHook := some hook } else { hp with simple := some hook }

/-- `RadiRouter.add_hook(rule, hook, hook_type)` after the rule was parsed.  When the node
already carries a pair, that list object is updated in place (tree and index share it);
otherwise a new pair goes through `RadiDict.add_hooks` (which can refuse: filter mismatch) and
into the index. -/
def Router.addHookParsed (R : Router) (p : Parsed) (hook : Nat) (partialType : Bool) :
    Router × Except ErrName Str :=
  if p.syms.head? == some (.lit '/') then (R, .error "AssertionError") else
  let pat := patStr p.syms
  let old : Option HookPair :=
    match findN false R.tree p.syms with
    | .ok n => n.hooks
    | .error _ => none
  match old with
  | some hp =>
    let hp' := installHook (some hp) hook partialType
    match updN (Node.setHooks hp') R.tree p.syms with
    | none => (R, .error "fault")          -- not reached: the node exists
    | some t =>
      ({ R with tree := t,
                hookIdx := if R.hookIdx.any (·.1 == pat) then dictSet R.hookIdx pat hp' else R.hookIdx },
        .ok pat)
  | none =>
    let hp' := installHook none hook partialType
    match insN { hooks := some hp', names := p.params, overwrite := false } R.tree p.syms with
    | .error e => (R, .error e.name)
    | .ok t => ({ R with tree := t, hookIdx := dictSet R.hookIdx pat hp' }, .ok pat)

/-- `RadiRouter.add_hook(rule, hook, hook_type)` -/
def Router.addHook (cenv : CompileEnv) (R : Router) (rule : Str) (hook : Nat) (partialType : Bool) :
    Router × Except ErrName Str :=
  match parseRule cenv rule with
  | .error e => (R, .error e)
  | .ok p => R.addHookParsed p hook partialType

/-- `RadiRouter.remove_hook(rule)` -/
def Router.removeHook (cenv : CompileEnv) (R : Router) (rule : Str) : Router × Except ErrName Unit :=
  match parseRule cenv rule with
  | .error e => (R, .error e)
  | .ok p =>
    match treeRemove R.tree p.syms true with
    | .error e => (R, .error e.name)
    | .ok t => ({ R with tree := t, hookIdx := dictPop R.hookIdx (patStr p.syms) }, .ok ())

/-- `RadiRouter.get_hook(rule)` -/
def Router.getHook (cenv : CompileEnv) (R : Router) (rule : Str) : Except ErrName HookPair :=
  match parseRule cenv rule with
  | .error e => .error e
  | .ok p =>
    match dictGet R.hookIdx (patStr p.syms) with
    | some hp => .ok hp
    | none => .error "KeyError"

/-- `RadiRouter.__getitem__(name)` -/
def Router.byName (R : Router) (name : Str) : Option Nat := dictGet R.named name

/-- `RadiRouter.__getitem__({rule})` = `_match(rule=rule)` (filters compared) -/
def Router.byRule (cenv : CompileEnv) (R : Router) (rule : Str) : Except ErrName (Option Nat) :=
  match parseRule cenv rule with
  | .error e => .error e
  | .ok p =>
    if p.syms.head? == some (.lit '/') then .error "AssertionError" else .ok (R.matchPat p.syms)

/-! ## 9. `Ombott.handler` -/

/-- what a request amounts to once route hooks are in play -/
inductive Served
  /-- the handler ran; before it the simple hooks `(hook, argument)` in this order -/
  | ran (handler : Nat) (method : Str) (kwargs : List (Str × Val)) (fired : List (Nat × Str))
  /-- 404 answered by the partial hook of the innermost hook pair collected -/
  | notFoundHook (hook : Nat) (arg : Str) (vals : List Val)
  | notFound
  | notAllowed (allow : Str)
  | fault
  deriving Repr

/-- `for route_pos, hooks in route_hooks: hook = hooks[SIMPLE]; if hook: hook(path[:1 + route_pos])` -/
def firedHooks (reqPath : Str) (hooks : List (Nat × HookPair)) : List (Nat × Str) :=
  hooks.filterMap fun (pos, hp) => hp.simple.map fun h => (h, reqPath.take (1 + pos))

/-- `Ombott.handler(app, route, kwargs, route_hooks, error404_405)` with `request.path = reqPath` -/
def serveResolved (reqPath : Str) : Resolved → Served
  | .found h m kw hooks => .ran h m kw (firedHooks reqPath hooks)
  | .notFound vals hooks _ =>
    match hooks.getLast? with
    | some (pos, hp) =>
      match hp.partialHook with
      | some h => .notFoundHook h (reqPath.take (1 + pos)) vals
      | none => .notFound
    | none => .notFound
  | .notAllowed a => .notAllowed a
  | .fault => .fault

/-- `Ombott._handle` as far as routing and route hooks go: `request.path` is `'/' +
PATH_INFO.lstrip('/')`, the verb is upper-cased -/
def Router.serve (upper : Str → Str) (env : FilterEnv) (R : Router) (verb path : Str) : Served :=
  let reqPath := '/' :: path.dropWhile (· == '/')
  serveResolved reqPath (R.toRoute env reqPath (upper verb))

/-! ## 10. edit histories -/

/-- one editing call on a `RadiRouter` (handler / hook identities are part of the op).  `reg`:
the registration calls of `Model/Router.lean` (`add`, `remove_method`).  Every call that parses a
rule carries the outcome of filter compilation (`cenv`), as on the driver's lines. -/
inductive EditOp
  | reg (op : Op)
  | removeRule (cenv : CompileEnv) (rule : Str)
  | removeName (name : Str)
  | addHook (cenv : CompileEnv) (rule : Str) (hook : Nat) (partialType : Bool)
  | removeHook (cenv : CompileEnv) (rule : Str)

/-- the router after the call; the call's own outcome (value or exception) is dropped -/
def Router.editStep (upper : Str → Str) (R : Router) : EditOp → Router
  | .reg op => R.step upper op
  | .removeRule cenv r => (R.removeRule cenv r).1
  | .removeName n => (R.removeName n).1
  | .addHook cenv r h t => (R.addHook cenv r h t).1
  | .removeHook cenv r => (R.removeHook cenv r).1

/-- the router after a history of editing calls, starting from `RadiRouter()` -/
def Router.editRun (upper : Str → Str) (ops : List EditOp) : Router :=
  ops.foldl (Router.editStep upper) {}

/-! ## 11. a router freshly built from the survivors

What the property compares the edited router with.  The survivors are read off the edited router
(`routes` with the route objects, `named_routes`, the hook pairs of the tree) and registered one
by one on a new `RadiRouter()`: per route one `add` without methods (it creates the route under
the names of its first rule) and one `add` per method, per name one `add` without methods, per
hook pair one `add_hook` per slot.  All calls are the post-parse halves (`addParsed`,
`addHookParsed`): the rule text a method was registered under is not kept by the router. -/

def hookOwn (pre : List Sym) : Option HookPair → List (List Sym × HookPair)
  | some hp => [(pre, hp)]
  | none => []

mutual
/-- the hook pairs of a tree with their patterns (filters of the tree inline), depth first -/
def hookListN (pre : List Sym) : Node → List (List Sym × HookPair)
  | .mk _ _ _ _ h lits tok => hookOwn pre h ++ hookListL pre lits ++ hookListT pre tok
def hookListT (pre : List Sym) : Option Node → List (List Sym × HookPair)
  | none => []
  | some t => hookListN (pre ++ [Sym.tok t.filter]) t
def hookListL (pre : List Sym) : List Node → List (List Sym × HookPair)
  | [] => []
  | k :: ks => hookListN (pre ++ k.key.map Sym.lit) k ++ hookListL pre ks
end

/-- register route `r` with its method table -/
def Router.plant (F : Router) (r : Route) : Router :=
  let F := (F.addParsed { rule := r.rule, methods := [], handler := 0 } ⟨r.syms, r.params, r.symsOut⟩).1
  r.methods.foldl (fun F m =>
    (F.addParsed { rule := r.rule, methods := [m.1], handler := m.2.handler } ⟨r.syms, m.2.params, r.symsOut⟩).1) F

/-- install the pair `hp` at pattern `q` -/
def Router.plantHook (F : Router) (q : List Sym) (hp : HookPair) : Router :=
  let F := match hp.simple with
    | some h => (F.addHookParsed ⟨q, [], q⟩ h false).1
    | none => F
  match hp.partialHook with
  | some h => (F.addHookParsed ⟨q, [], q⟩ h true).1
  | none => F

/-- the router freshly built from the survivors of `R` -/
def Router.fresh (R : Router) : Router :=
  let F := R.routes.foldl (fun F x =>
    match R.obj? x.2 with
    | some r => F.plant r
    | none => F) {}
  let F := R.named.foldl (fun F x =>
    match R.obj? x.2 with
    | some r => (F.addParsed { rule := r.rule, methods := [], handler := 0, name := some x.1 } ⟨r.syms, r.params, r.symsOut⟩).1
    | none => F) F
  (hookListN [] R.tree).foldl (fun F x => F.plantHook x.1 x.2) F

end Ombott.Router
