import OmbottModel.Model.EnvCache
/-!
The cache-free reference for `Model/EnvCache.lean`: what a brand-new request object built from the
CURRENT environ answers.

* Nothing is memoised: every read recomputes from the WSGI strings of the environ.  `erase` is the
  environ of such a brand-new request: the current one without the `ombott.request.*` cache
  entries.
* The request body is not a cache but state (C04, `replaced_stream_exact` / `body_repeatable`): the
  stream can be consumed once, so the buffered body (`ombott.request.body`, which also replaces
  `wsgi.input`) and the remembered read error (`ombott.request.body.error`) are part of the current
  environ; they change only when the body is first needed and when `wsgi.input` is assigned.  The
  framing headers are looked at when the stream is consumed, `CONTENT_LENGTH` and `CONTENT_TYPE`
  again, as they are NOW, whenever the form text / JSON is cut out of the buffered body.
* A header view shows the environ of the request it is read from.
-/
namespace Ombott.EnvCache
open Py Ombott.Body Ombott.Forms Ombott.BodyAccess

/-- the entries a brand-new request would not have: everything under `ombott.request.` except
the body state -/
def isCacheKey (k : Key) : Bool :=
  cs!"ombott.request.".isPrefixOf k && !(k = kBody) && !(k = kBodyError)

def erase (e : Env) : Env := e.filter fun p => !isCacheKey p.1

/-- a property that is a function of the WSGI strings -/
def pureRd (f : Env → Except Exc Val) : M Val := fun s => (f s.env, s)

/-- `_body`: the buffered body if there is one, the remembered error if there is one, else the
stream behind `wsgi.input` is consumed under the framing headers as they are now -/
def spBody (cfg : Cfg) : M Val := cacheIn kBody fun s =>
  match bodyPre cfg s with
  | .inl r => r
  | .inr id =>
    match contentLengthOf s.env with
    | .error e => (.error e, s)
    | .ok v =>
      match asInt v with
      | .error e => (.error e, s)
      | .ok cl => bodyPost cfg id cl s

/-- the form text / JSON text: the first `CONTENT_LENGTH` bytes of the buffered body -/
def spBodyString (cfg : Cfg) : M Bytes := do
  let b ← spBody cfg
  let (sk, _) ← liftE (asBody b)
  let cl ← pureRd contentLengthOf
  let cl ← liftE (asInt cl)
  liftE (bodyStringFrom cfg sk cl)

def spCtype (e : Env) : Except Exc Val := ctypeFrom (contentTypeOf e)

def spJson (cfg : Cfg) (L : Lib) : M Val := do
  let ct ← pureRd spCtype
  let ct ← liftE (asStrs ct)
  if ct.head? = some cs!"application/json" then
    let b ← spBodyString cfg
    liftE (jsonFrom cfg L b)
  else pure .none

/-- one run of `POST` on a brand-new request: `(post, forms, files)` when it succeeds -/
def spPostRun (cfg : Cfg) (L : Lib) : M (FD × FD × FD) := do
  let ct ← pureRd fun e => .ok (contentTypeOf e)
  let ct ← liftE (asStr ct)
  if ¬ startsWithS ct cs!"multipart/" then
    let post ←
      if startsWithS ct cs!"application/json" then do
        let data ← spJson cfg L
        liftE (postOfJson cfg data)
      else do
        let b ← spBodyString cfg
        liftE (postOfUrlencoded b)
    pure (post, post, [])
  else
    let b ← spBody cfg
    let (sk, ctLoad) ← liftE (asBody b)
    match (match boundaryOf ctLoad with
           | Option.none => MpOut.noMarkup
           | some bnd => L.multipart bnd sk.body cfg.memfile) with
    | .noMarkup => M.fail (mapped cfg .bodyParsingError)
    | .markupError e => M.fail (parsingError cfg (.py e))
    | .collected forms files post exc =>
      match exc with
      | Option.none => pure (post, forms, files)
      | some e => M.fail (if caughtByPost e then parsingError cfg e else e)

def spFullpath (cfg : Cfg) (L : Lib) (e : Env) : Except Exc Val :=
  (asStr (scriptNameOf cfg e)).map (fullpathFrom cfg L e)

def spUrlparts (cfg : Cfg) (L : Lib) (e : Env) : Except Exc Val :=
  ((spFullpath cfg L e).bind asStr).map (urlpartsFrom L e)

def spUrl (cfg : Cfg) (L : Lib) (e : Env) : Except Exc Val := (spUrlparts cfg L e).bind (urlFrom L)

def spParams (cfg : Cfg) (L : Lib) : M Val := do
  let q ← pureRd queryOf
  let q ← liftE (asDict q)
  let (_, f, _) ← spPostRun cfg L
  pure (.dict (mergeDicts q f))

/-- attribute `p` read on a brand-new request whose environ is the current one -/
def specRead (cfg : Cfg) (L : Lib) : Prop' → M Val
  | .app | .route | .urlArgs => M.fail (.py .runtimeError)
  | .headers => fun s => (.ok (.view s.self), s)
  | .cookies => pureRd (cookiesOf L)
  | .params => spParams cfg L
  | .url => pureRd (spUrl cfg L)
  | .urlparts => pureRd (spUrlparts cfg L)
  | .fullpath => pureRd (spFullpath cfg L)
  | .scriptName => pureRd fun e => .ok (scriptNameOf cfg e)
  | .isJsonRequested => pureRd fun e => .ok (isJsonOf e)
  | .remoteRoute => pureRd fun e => .ok (remoteRouteOf e)
  | .contentLength => pureRd contentLengthOf
  | .contentType => pureRd fun e => .ok (contentTypeOf e)
  | .ctype => pureRd spCtype
  | .query => pureRd queryOf
  | .json => spJson cfg L
  | .post => do let (p, _, _) ← spPostRun cfg L; pure (.dict p)
  | .forms => do let (_, f, _) ← spPostRun cfg L; pure (.dict f)
  | .files => do let (_, _, f) ← spPostRun cfg L; pure (.dict f)
  | .body => spBody cfg

/-- one operation on the reference machine: reads recompute; assignment, deletion and copy are
those of the request object (on an environ without cache entries they touch the body state only) -/
def specStep (cfg : Cfg) (L : Lib) (w : World) : Op → World × Option (Except Exc Val)
  | .read i p =>
    match w.envs[i]? with
    | Option.none => (w, Option.none)
    | some e =>
      let (r, s) := specRead cfg L p ⟨w.heap, e, i⟩
      let w' : World := { heap := s.heap, envs := w.envs.set i s.env }
      (w', some (r.map (observe w')))
  | op => step cfg L w op

def specRunFrom (cfg : Cfg) (L : Lib) : World → List Op → List (Except Exc Val)
  | _, [] => []
  | w, op :: ops =>
    match specStep cfg L w op with
    | (w', some r) => r :: specRunFrom cfg L w' ops
    | (w', Option.none) => specRunFrom cfg L w' ops

def eraseW (w : World) : World := { w with envs := w.envs.map erase }

/-- the reference answers for an operation sequence started in world `w` -/
def specRun (cfg : Cfg) (L : Lib) (w : World) (ops : List Op) : List (Except Exc Val) :=
  specRunFrom cfg L (eraseW w) ops

end Ombott.EnvCache
