import OmbottModel.Model.EnvCache
/-!
The cache-free reference for `Model/EnvCache.lean`: what a brand-new request object built from the
CURRENT environ answers.

* Nothing is memoised.  Every cached property is described by what it is a function OF
  (`desc`): either of the WSGI strings of the environ alone (`SpecDesc.pure`, with the list of keys
  it reads), or of those strings and the buffered request body (`SpecDesc.viaBody`: whether the
  body is needed at all, the answer without it, the answer from it).  `erase` is the environ of a
  brand-new request: the current one without the `ombott.request.*` cache entries.
* The request body is not a cache but state (C04, `replaced_stream_exact` / `body_repeatable`): the
  stream can be consumed once, so the buffered body (`ombott.request.body`, which also replaces
  `wsgi.input`) and the remembered read error (`ombott.request.body.error`) are part of the current
  environ; they change only when the body is first needed (`spBody`) and when `wsgi.input` is
  assigned.  The framing headers are looked at when the stream is consumed; `CONTENT_LENGTH` and
  `CONTENT_TYPE` again, as they are NOW, whenever form text / JSON is cut out of the buffered body.
* A header view shows the environ of the request it is read from.
-/
namespace Ombott.EnvCache
open Py Ombott.Body Ombott.Forms Ombott.BodyAccess

/-- the entries a brand-new request would not have: everything under `ombott.request.` except
the body state -/
def isCacheKey (k : Key) : Bool :=
  cs!"ombott.request.".isPrefixOf k && !(k = kBody) && !(k = kBodyError)

def erase (e : Env) : Env := e.filter fun p => !isCacheKey p.1

/-- `_body`: the buffered body if there is one, the remembered error if there is one, else the
stream behind `wsgi.input` is consumed under the framing headers as they are now -/
def spBody (cfg : Cfg) : M Val := cacheIn kBody fun s =>
  match bodyPre cfg s with
  | .inl r => r
  | .inr id =>
    match contentLengthOf s.env with
    | .error e => (.error e, s)
    | .ok v =>
      match asInt v with
      | .error e => (.error e, s)
      | .ok cl => bodyPost cfg id cl s

/-! ### what each property is a function of -/

def kCL : Key := cs!"CONTENT_LENGTH"
def kCT : Key := cs!"CONTENT_TYPE"
def kQS : Key := cs!"QUERY_STRING"

/-- the form text / JSON text: the first `CONTENT_LENGTH` (as it is now) bytes of the buffered body -/
def bodyStringOf (cfg : Cfg) (e : Env) (sk : Sink) : Except Exc Bytes :=
  ((contentLengthOf e).bind asInt).bind (bodyStringFrom cfg sk)

def ctypeOf (e : Env) : Except Exc Val := ctypeFrom (contentTypeOf e)

/-- `self.ctype[0] == 'application/json'` -/
def needJson (e : Env) : Bool :=
  match (ctypeOf e).bind asStrs with
  | .ok l => l.head? = some cs!"application/json"
  | .error _ => false

def jsonK (cfg : Cfg) (L : Lib) (e : Env) (sk : Sink) : Except Exc Val :=
  (bodyStringOf cfg e sk).bind (jsonFrom cfg L)

def ctLower (e : Env) : Str := lower ((e.str? kCT).getD [])

/-- does one run of `POST` need the body? (not when the type merely starts with
`application/json`: `json` is `None` then and the mapping stays empty) -/
def needPost (e : Env) : Bool :=
  if startsWithS (ctLower e) cs!"multipart/" then true
  else if startsWithS (ctLower e) cs!"application/json" then needJson e
  else true

def dup (p : FD) : FD × FD × FD := (p, p, [])

/-- one run of `POST` that does not need the body: `(post, forms, files)` -/
def postK0 (cfg : Cfg) (_e : Env) : Except Exc (FD × FD × FD) := (postOfJson cfg .none).map dup

/-- one run of `POST` on the buffered body `sk` whose markup was built for `ctLoad` -/
def postK (cfg : Cfg) (L : Lib) (e : Env) (sk : Sink) (ctLoad : Str) : Except Exc (FD × FD × FD) :=
  if startsWithS (ctLower e) cs!"multipart/" then collectMultipart cfg L sk ctLoad
  else if startsWithS (ctLower e) cs!"application/json" then
    ((jsonK cfg L e sk).bind (postOfJson cfg)).map dup
  else ((bodyStringOf cfg e sk).bind postOfUrlencoded).map dup

def fullpathOf (cfg : Cfg) (L : Lib) (e : Env) : Except Exc Val :=
  (asStr (scriptNameOf cfg e)).map (fullpathFrom cfg L e)

def urlpartsOf (cfg : Cfg) (L : Lib) (e : Env) : Except Exc Val :=
  ((fullpathOf cfg L e).bind asStr).map (urlpartsFrom L e)

def urlOf (cfg : Cfg) (L : Lib) (e : Env) : Except Exc Val := (urlpartsOf cfg L e).bind (urlFrom L)

/-- `FormsDict(self.query, **self.forms)` -/
def paramsFrom (e : Env) (t : FD × FD × FD) : Except Exc Val :=
  ((queryOf e).bind asDict).map fun q => .dict (mergeDicts q t.2.1)

inductive SpecDesc
  /-- a function of the WSGI strings under `reads` -/
  | pure (reads : List Key) (f : Env → Except Exc Val)
  /-- a function of the WSGI strings under `reads` and, when `need`, of the buffered body -/
  | viaBody (reads : List Key) (need : Env → Bool) (k0 : Env → Except Exc Val)
      (k : Env → Sink → Str → Except Exc Val)
  /-- the body itself, the header view, and the attributes only the framework sets -/
  | special

def urlKeys : List Key :=
  [cs!"HTTP_X_FORWARDED_PROTO", cs!"wsgi.url_scheme", cs!"HTTP_X_FORWARDED_HOST", cs!"HTTP_HOST",
   cs!"SERVER_NAME", cs!"SERVER_PORT", kQS]
def pathKeys : List Key := [cs!"SCRIPT_NAME", cs!"HTTP_X_SCRIPT_NAME", [], cs!"PATH_INFO"]

def desc (cfg : Cfg) (L : Lib) : Prop' → SpecDesc
  | .app | .route | .urlArgs | .headers | .body => .special
  | .cookies => .pure [cs!"HTTP_COOKIE"] (cookiesOf L)
  | .scriptName => .pure [cs!"SCRIPT_NAME", cs!"HTTP_X_SCRIPT_NAME"] fun e => .ok (scriptNameOf cfg e)
  | .fullpath => .pure pathKeys (fullpathOf cfg L)
  | .urlparts => .pure (pathKeys ++ urlKeys) (urlpartsOf cfg L)
  | .url => .pure (pathKeys ++ urlKeys) (urlOf cfg L)
  | .isJsonRequested => .pure [cs!"HTTP_ACCEPT"] fun e => .ok (isJsonOf e)
  | .remoteRoute => .pure [cs!"HTTP_X_FORWARDED_FOR", cs!"REMOTE_ADDR"] fun e => .ok (remoteRouteOf e)
  | .contentLength => .pure [kCL] contentLengthOf
  | .contentType => .pure [kCT] fun e => .ok (contentTypeOf e)
  | .ctype => .pure [kCT] ctypeOf
  | .query => .pure [kQS] queryOf
  | .json => .viaBody [kCT, kCL] needJson (fun _ => .ok .none) (fun e sk _ => jsonK cfg L e sk)
  | .post => .viaBody [kCT, kCL] needPost (fun e => (postK0 cfg e).map fun t => .dict t.1)
      (fun e sk ct => (postK cfg L e sk ct).map fun t => .dict t.1)
  | .forms => .viaBody [kCT, kCL] needPost (fun e => (postK0 cfg e).map fun t => .dict t.2.1)
      (fun e sk ct => (postK cfg L e sk ct).map fun t => .dict t.2.1)
  | .files => .viaBody [kCT, kCL] needPost (fun e => (postK0 cfg e).map fun t => .dict t.2.2)
      (fun e sk ct => (postK cfg L e sk ct).map fun t => .dict t.2.2)
  | .params => .viaBody [kCT, kCL, kQS] needPost (fun e => (postK0 cfg e).bind (paramsFrom e))
      (fun e sk ct => (postK cfg L e sk ct).bind (paramsFrom e))

/-- a property computed from the strings and, if needed, the body -/
def viaBody (cfg : Cfg) (need : Env → Bool) (k0 : Env → Except Exc Val)
    (k : Env → Sink → Str → Except Exc Val) : M Val := fun s =>
  if need s.env then
    match spBody cfg s with
    | (.error x, s') => (.error x, s')
    | (.ok b, s') =>
      match asBody b with
      | .error x => (.error x, s')
      | .ok (sk, ct) => (k s'.env sk ct, s')
  else (k0 s.env, s)

/-- attribute `p` read on a brand-new request whose environ is the current one -/
def specRead (cfg : Cfg) (L : Lib) (p : Prop') : M Val :=
  match desc cfg L p with
  | .pure _ f => fun s => (f s.env, s)
  | .viaBody _ need k0 k => viaBody cfg need k0 k
  | .special =>
    match p with
    | .headers => fun s => (.ok (.view s.self), s)
    | .body => spBody cfg
    | _ => M.fail (.py .runtimeError)

/-- one operation on the reference machine: reads recompute; assignment, deletion and copy are
those of the request object (on an environ without cache entries they touch the body state only) -/
def specStep (cfg : Cfg) (L : Lib) (w : World) : Op → World × Option (Except Exc Val)
  | .read i p =>
    match w.envs[i]? with
    | Option.none => (w, Option.none)
    | some e =>
      let (r, s) := specRead cfg L p ⟨w.heap, e, i⟩
      let w' : World := { heap := s.heap, envs := w.envs.set i s.env }
      (w', some (r.map (observe w')))
  | op => step cfg L w op

def specRunFrom (cfg : Cfg) (L : Lib) : World → List Op → List (Except Exc Val)
  | _, [] => []
  | w, op :: ops =>
    match specStep cfg L w op with
    | (w', some r) => r :: specRunFrom cfg L w' ops
    | (w', Option.none) => specRunFrom cfg L w' ops

def eraseW (w : World) : World := { w with envs := w.envs.map erase }

/-- the reference answers for an operation sequence started in world `w` -/
def specRun (cfg : Cfg) (L : Lib) (w : World) (ops : List Op) : List (Except Exc Val) :=
  specRunFrom cfg L (eraseW w) ops

/-! ### what stays out of scope: the uncovered (property, key) pairs

`Gen.ecUncovered` lists the pairs the probe of the live code found uncovered: the property reads the
key, assigning the key leaves the property's cache entry in place.  Some of them are harmless by
design (`ecByDesign`, proved so); on the others the cache IS observable (`stalePairs`, witnesses
in `Props/EnvCache.lean`): they are the residue of the theorem, made explicit by `Safe`. -/

/-- uncovered and harmless: the header view reads its own environ live; the buffered body is
state, not cache — once the stream is consumed the framing headers no longer matter -/
def ecByDesign : List (String × String) :=
  [("headers", "CONTENT_LENGTH"), ("headers", "CONTENT_TYPE"),
   ("params", "HTTP_TRANSFER_ENCODING"), ("json", "HTTP_TRANSFER_ENCODING"), ("POST", "HTTP_TRANSFER_ENCODING"),
   ("forms", "HTTP_TRANSFER_ENCODING"), ("files", "HTTP_TRANSFER_ENCODING"),
   ("_body", "CONTENT_LENGTH"), ("_body", "CONTENT_TYPE"), ("_body", "HTTP_TRANSFER_ENCODING")]

/-- the uncovered pairs on which the cache is observable -/
def stalePairs : List (String × String) := Gen.ecUncovered.filter fun p => !ecByDesign.contains p

/-- assigning / deleting `K` on environ `e` is in scope: no property of a stale pair `(P, K)` is
cached at that moment -/
def safeSet (e : Env) (K : Key) : Bool :=
  stalePairs.all fun ak => !(ak.2.toList == K) || Prop'.all.all fun p => !(p.attr == ak.1) || (e.get? p.key).isNone

/-- the request holds no header view, or a view of its own environ (not one taken over by `copy()`) -/
def ownView (e : Env) (i : Nat) : Bool :=
  match e.get? kHeaders with
  | Option.none => true
  | some v => v == .view i

/-- one operation is in scope -/
def safeOp (w : World) : Op → Bool
  | .read i p => match w.envs[i]? with
    | some e => !(p == .headers) || ownView e i
    | Option.none => true
  | .setStr i k _ => userKey k && !(k == kInput) && match w.envs[i]? with
    | some e => safeSet e k
    | Option.none => true
  | .setInput i _ => match w.envs[i]? with
    | some e => safeSet e kInput
    | Option.none => true
  | .del i k => userKey k && match w.envs[i]? with
    | some e => safeSet e k
    | Option.none => true
  | .copy _ => true

/-- every operation of the sequence is in scope when its turn comes -/
def Safe (cfg : Cfg) (L : Lib) : World → List Op → Prop
  | _, [] => True
  | w, op :: ops => safeOp w op = true ∧ Safe cfg L (step cfg L w op).1 ops

end Ombott.EnvCache
