import OmbottModel.Model.Router
import OmbottModel.Py.IntLim
/-!
Reference semantics of the built-in route filters `int`, `float`, `path`
(`FilterFactory.filters`), written from their documentation, not from the regular expressions:

* `int`   — optional `-`, then decimal digits; the value is that integer — when the interpreter
  converts it: a run of more than `Gen.intMaxStrDigits` digits is rejected by `int()` and the filter
  does not match (since be98856; a 500 before);
* `float` — optional `-`, digits, optionally `.` and digits; the value is `float(text)`;
* `path`  — followed by literal text `L` in the rule: the longest non-empty prefix of the remaining
  path that is followed by `L` taken literally; at the end of the rule: the whole non-empty rest.

ASCII digits and newline-free texts only (Unicode digits and the `.`-does-not-match-newline
corner are left to the Python oracle of `harness/c01.py`).  Tied to the code by the generated probe
table (`Props/C01.lean: builtin_probes_agree`), by the driver op `router builtin` (differential
run on random texts) and, for the mask texts, by `builtin_masks_pinned`.
-/
namespace Ombott.Router.Builtin
open Py

/-- text matched by `-?\d+` at the start -/
def intText (s : Str) : Option Str :=
  match s with
  | '-' :: r => if (r.takeWhile Char.isDigit).isEmpty then none else some ('-' :: r.takeWhile Char.isDigit)
  | _ => if (s.takeWhile Char.isDigit).isEmpty then none else some (s.takeWhile Char.isDigit)

/-- text matched by `-?\d+(\.\d+)?` at the start -/
def floatText (s : Str) : Option Str :=
  match intText s with
  | none => none
  | some m =>
    match s.drop m.length with
    | '.' :: r => if (r.takeWhile Char.isDigit).isEmpty then some m else some (m ++ '.' :: r.takeWhile Char.isDigit)
    | _ => some m

/-- longest `k` with `1 ≤ k ≤ n` such that `conf` follows after `k` characters -/
def pathLen (conf s : Str) : Nat → Option Nat
  | 0 => none
  | k + 1 => if conf.isPrefixOf (s.drop (k + 1)) then some (k + 1) else pathLen conf s k

def pathText (conf s : Str) : Option Str :=
  if conf.isEmpty then (if s.isEmpty then none else some s)
  else (pathLen conf s s.length).map s.take

/-- `(value text, characters consumed)`; the value text is the decimal integer for `int`, the
matched text otherwise -/
def builtin (filter conf text : Str) : Option (Str × Nat) :=
  if filter == "int".toList then
    (intText text).bind fun m => (pyIntLim m).map fun v => (intStr v, m.length)
  else if filter == "float".toList then (floatText text).map fun m => (m, m.length)
  else if filter == "path".toList then (pathText conf text).map fun m => (m, m.length)
  else none

/-- `re.escape` (CPython ≥ 3.7): backslash before the special characters only -/
def reEscape (s : Str) : Str :=
  s.flatMap fun c => if "()[]{}?*+-|^$\\.&~# \t\n\r\x0b\x0c".toList.contains c then ['\\', c] else [c]

/-- the mask text a built-in filter is documented to use -/
def expectedMask (filter conf : Str) : Str :=
  if filter == "int".toList then "-?\\d+".toList
  else if filter == "float".toList then "-?\\d+(\\.\\d+)?".toList
  else if conf.isEmpty then ".+$".toList
  else ".+(?=".toList ++ reEscape conf ++ [')']

end Ombott.Router.Builtin
