import OmbottModel.Model.Wsgi
/-
The (decidable) vocabulary of the C03 theorems: what a well-formed status line / header list
is, which programs are inside the property's domain, which hooks run.
-/
namespace Ombott.Wsgi
open Py

def noCRLF (s : Str) : Bool := s.all fun c => c != '\r' && c != '\n'

/-- a header pair free of CR and LF -/
def pairOK (p : Str × Str) : Bool := noCRLF p.1 && noCRLF p.2

/-- `\d{3} .+` without CR/LF: what PEP 3333 asks of the status string -/
def statusLineOK : Str → Bool
  | a :: b :: c :: ' ' :: r => a.isDigit && b.isDigit && c.isDigit && !r.isEmpty && noCRLF r
  | _ => false

/-- the status line is `ddd reason` and `ddd` is the decimal spelling of the status code that
the body-suppression test looks at -/
def lineFor (code : Nat) (line : Str) : Bool :=
  decide (100 ≤ code) && decide (code ≤ 999) && line.take 3 == natStr code &&
  (match line.drop 3 with
   | ' ' :: r => !r.isEmpty && noCRLF r
   | _ => false)

/-- the reason phrase of a string status: non-empty, no control characters, neither starting
nor ending with white space -/
def reasonOK (r : Str) : Bool :=
  !r.isEmpty && r.all (fun ch => decide (32 ≤ ch.toNat) && ch.toNat != 127) &&
  !isWsChar (r.headD 'x') && !isWsChar (r.getLastD 'x')

/-- a string status in the documented form `ddd reason`: three ASCII digits spelling a number
100..999, one space, a reason phrase (string statuses of any other shape are handler garbage
outside the property) -/
def statusStrOK : Str → Bool
  | a :: b :: c :: ' ' :: r =>
    let n := (a.toNat - 48) * 100 + (b.toNat - 48) * 10 + (c.toNat - 48)
    decide (100 ≤ n) && decide (n ≤ 999) && natStr n == [a, b, c] && reasonOK r
  | _ => false

def StatusArg.ok : StatusArg → Bool
  | .code _ => true
  | .line s => statusStrOK s

def HVal.ok : HVal → Bool
  | .good v => hvalOk v
  | .bad => true

/-- a response object (thread-local or constructed): status line belongs to the code, header
names and cookie parts are free of CR/LF (header *values* are checked by `_hval` itself) -/
def RState.ok (st : RState) : Bool :=
  lineFor st.code st.line &&
  st.headers.all (fun h => noCRLF h.1 && h.2.all HVal.ok) &&
  st.cookies.all (fun c => noCRLF c.1 && noCRLF c.2)

def Eff.ok : Eff → Bool
  | .setStatus a => a.ok
  | .setHeader k _ => noCRLF k
  | .addHeader k _ => noCRLF k
  | .setBadHeader k => noCRLF k
  | .setCookie k v => noCRLF k && noCRLF v

/-! ### predicates over every object of a program -/

mutual
/-- `p` holds of the object and of every object reachable inside it -/
def Out.all (p : Out → Bool) : Out → Bool
  | .falsy k => p (.falsy k)
  | .text s => p (.text s)
  | .bytes b => p (.bytes b)
  | .resp e r b => p (.resp e r b) && Out.all p b
  | .file id hc hi c => p (.file id hc hi c)
  | .iter id hc items => p (.iter id hc items) && Item.allL p items
  | .unsupported t => p (.unsupported t)
def Item.allL (p : Out → Bool) : List Item → Bool
  | [] => true
  | i :: r => Item.all1 p i && Item.allL p r
def Item.all1 (p : Out → Bool) : Item → Bool
  | .empty => true
  | .text _ => true
  | .bytes _ => true
  | .yields o => Out.all p o
  | .raisesResp o => Out.all p o
  | .raises => true
  | .unsup _ => true
end

/-- every constructed response object is well formed (conjunct (b)) -/
def respOK : Out → Bool
  | .resp _ r _ => r.ok
  | _ => true

/-- after its first non-empty item an iterable keeps to that item's type (conjunct (c));
file-likes are binary by construction of `Out.file` -/
def homogItems : List Item → Bool
  | .bytes _ :: r => r.all fun i => match i with | .bytes _ => true | _ => false
  | .text _ :: r => r.all fun i => match i with | .text _ => true | _ => false
  | _ => true

def homog : Out → Bool
  | .iter _ _ items => homogItems (skipEmpty items)
  | _ => true

def HookRes.all (p : Out → Bool) : HookRes → Bool
  | .ok => true | .raisesResp o => Out.all p o | .raises => true

def Outcome.all (p : Out → Bool) : Outcome → Bool
  | .returns o => Out.all p o | .raisesResp o => Out.all p o | .raises => true

def ErrHandler.all (p : Out → Bool) : ErrHandler → Bool
  | .const o => Out.all p o | .body => true | .raises => true

/-- every object the application's hooks and error handlers can produce satisfies `p` -/
def App.all (p : Out → Bool) (app : App) : Bool :=
  app.before.all (fun h => h.res.all p) && app.after.all (fun h => h.res.all p) &&
  app.errHandlers.all (fun e => e.2.all p)

def Route.all (p : Out → Bool) : Route → Bool
  | .found h => h.res.all p
  | _ => true

/-- the statements of hooks and handler are inside the domain -/
def App.effsOK (app : App) : Bool :=
  app.before.all (fun h => h.effs.all Eff.ok) && app.after.all (fun h => h.effs.all Eff.ok)

def Route.effsOK : Route → Bool
  | .found h => h.effs.all Eff.ok
  | .notFound => true
  | .notAllowed allow => hvalOk allow

/-! ### which hooks run -/

def Hook.fails (h : Hook) : Bool :=
  effsFail h.effs || (match h.res with | .ok => false | _ => true)

/-- the registration indices of the hooks of an `emit`, in call order: up to and including the
first failing one -/
def ranUntilFail : List (Nat × Hook) → List Nat
  | [] => []
  | (i, h) :: r => if h.fails then [i] else i :: ranUntilFail r

def Route.isFound : Route → Bool
  | .found _ => true
  | _ => false

def Event.isStart : Event → Bool
  | .startResponse _ _ _ => true
  | _ => false

def Event.closeId : Event → Option Nat
  | .close k => some k
  | _ => none

def bodyLen : List BodyItem → Nat
  | [] => 0
  | .chunk b :: r => b.length + bodyLen r
  | .str s :: r => (utf8 s).length + bodyLen r
  | .raises :: _ => 0

def BodyItem.isChunk : BodyItem → Bool
  | .chunk _ => true
  | _ => false

end Ombott.Wsgi
