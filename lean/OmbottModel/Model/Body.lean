import OmbottModel.Model.Stream
/-
Model of the request-body reader of `ombott/request_pkg/body_mixin.py` (C04, C13; the
chunked framing of C05 lives in `Model/Chunked.lean` and plugs into `bodyRead` here):

* `Rec`        — `wsgi.input` as the harness sees it: the scheduled stream of `Model/Stream.lean`
                 plus a record of every `read(n)` call (offset before the call, size asked for);
* `Sink`       — the accumulator of `_body_read` (`body`, `body_size`, `is_temp_file`) and the
                 body of its `for part in …` loop (`Sink.push`);
* `readParts`  — the `while rest_len > 0` loop of `_iter_body` (lenient at EOF) and the identical
                 payload loop of `_iter_chunked` (strict at EOF), fused with the consumer: a
                 Python generator runs one step per `next()`, so "yield part" is exactly "call the
                 loop body of `_body_read`, and stop for good if it raises";
* `iterBody` — `_iter_body`.
`_body_read` itself and the request level (`BodyMixin._body/body/_get_body_string`,
`BaseRequest._raise`) are in `Model/BodyMixin.lean`, on top of this file and `Model/Chunked.lean`.

Nothing is totalised: where Python raises the model returns `.error`.
-/
namespace Ombott.Body
open Py

/-! ### the recording stream -/

/-- `wsgi.input` with a record of the calls made on it.  `log` holds, newest first, for every
`read(n)` the stream offset before the call and `n`; `pos` is the offset after the last call
(= the highest offset touched, reads only move forward). -/
structure Rec where
  st : Stream
  pos : Nat := 0
  log : List (Nat × Nat) := []
  deriving Repr

def Rec.read (r : Rec) (n : Nat) : Bytes × Rec :=
  ((r.st.read n).1,
   { st := (r.st.read n).2, pos := r.pos + (r.st.read n).1.length, log := (r.pos, n) :: r.log })

/-- total of the sizes asked for -/
def Rec.requested (r : Rec) : Nat := (r.log.map (·.2)).sum

theorem Rec.read_length_le (r : Rec) (n : Nat) : (r.read n).1.length ≤ n :=
  Stream.read_length_le r.st n

theorem Rec.read_data (r : Rec) (n : Nat) : (r.read n).1 ++ (r.read n).2.st.data = r.st.data :=
  Stream.read_append r.st n

theorem Rec.read_data_length (r : Rec) (n : Nat) :
    (r.read n).1.length + (r.read n).2.st.data.length = r.st.data.length := by
  rw [← List.length_append, Rec.read_data]

/-! ### the accumulator of `_body_read` -/

/-- `body, body_size, is_temp_file` (`body` is the content of the `BytesIO` / `TemporaryFile`;
moving to the temporary file copies the content, `tempfile` is trusted to be a byte buffer) -/
structure Sink where
  body : Bytes := []
  size : Nat := 0
  isTemp : Bool := false
  deriving Repr, DecidableEq

/-- `max_body_size is not None and body_size > max_body_size` -/
def overMax (max : Option Nat) (size : Nat) : Bool :=
  match max with
  | some m => decide (size > m)
  | none => false

/-- the body of `for part in body_iter(read, buff_size):` (without a multipart markup)
```
body.write(part); body_size += len(part)
if max_body_size is not None and body_size > max_body_size: raise BodySizeError()
if not is_temp_file and body_size > buff_size: (move to a TemporaryFile); is_temp_file = True
``` -/
def Sink.push (buf : Nat) (max : Option Nat) (sk : Sink) (part : Bytes) : Except Err Sink :=
  if overMax max (sk.size + part.length) then .error .bodySizeError
  else .ok { body := sk.body ++ part, size := sk.size + part.length,
             isTemp := sk.isTemp || decide (sk.size + part.length > buf) }

/-! ### the bounded read loop -/

/-- ```
while rest_len > 0:
    part_size = min(rest_len, buff_size)
    part = read(part_size)
    if not part: break            # _iter_body          (strict = false)
                 raise parsing_err  # _iter_chunked      (strict = true)
    yield part
    rest_len -= len(part)
```
`rest` is a natural number: the loop is entered with a positive count and `len(part) ≤
part_size ≤ rest_len` for every stream of the model, so Python's integer never goes negative. -/
def readParts (strict : Bool) (buf : Nat) (max : Option Nat) (rest : Nat) (r : Rec) (sk : Sink) :
    Except Err Sink × Rec :=
  if _h : 0 < rest ∧ (r.read (min rest buf)).1 ≠ [] then
    match sk.push buf max (r.read (min rest buf)).1 with
    | .error e => (.error e, (r.read (min rest buf)).2)
    | .ok sk' =>
      readParts strict buf max (rest - (r.read (min rest buf)).1.length) (r.read (min rest buf)).2 sk'
  else if 0 < rest then
    (if strict then .error .bodyParsingError else .ok sk, (r.read (min rest buf)).2)
  else (.ok sk, r)
termination_by rest
decreasing_by
  have : 0 < (r.read (min rest buf)).1.length := List.length_pos_iff.mpr _h.2
  omega

/-- `_iter_body(read, buff_size, content_length=…)` consumed by `_body_read`'s loop.  A negative
or zero `content_length` never enters the loop. -/
def iterBody (buf : Nat) (max : Option Nat) (cl : Int) (r : Rec) (sk : Sink) : Except Err Sink × Rec :=
  readParts false buf max cl.toNat r sk

end Ombott.Body
