import OmbottModel.Py
import OmbottModel.Model.Wsgi
import OmbottModel.Model.Router
import OmbottModel.Model.Headers
import OmbottModel.Model.ErrorPage
import OmbottModel.Model.BodyAccess
/-!
The spine: ONE model of `Ombott.__call__` composed from the models the properties already have.

  `Ombott.wsgi → _handle → to_route / RadiRouter.resolve → Ombott.handler → route(**kwargs)
     → _cast → BaseResponse.headerlist → default_error_handler / error_render.render`

is `App.serve`, defined by *calling*

  * `Router.handle` (Model/Router §5-6: `request.method.upper()`, `request.path`, `to_route`,
    `RadiRouter.resolve`, 404 / 405 + Allow; C01, C02),
  * `Wsgi.wsgi` (Model/Wsgi: `_handle` with the hook lists, `_cast`, body suppression,
    `start_response`, catch-all; C03, C09),
  * `ErrorPage.requestUrl`, `pageEscape`, `pyRepr`, `isJsonRequested`, `shownPath`
    (Model/ErrorPage: what `Request.url` / `is_json_requested` / `environ['PATH_INFO']` are for this
    environ; C20),

and adding glue only where one of them takes as a *parameter* what another one computes:

  | parameter of `Wsgi.Req`                | computed here from                                        |
  |----------------------------------------|-----------------------------------------------------------|
  | `route : Wsgi.Route`                   | `Router.handle` + the handler program of the resolved id   |
  | `urlRepr`                              | `pyRepr (pageEscape (requestUrl env PATH_INFO))`           |
  | `json`                                 | `isJsonRequested HTTP_ACCEPT`                              |
  | `pathOK`, `path`                       | `utf8Decode rawPath`, `shownPath rawPath`                  |
  | `isHead`                               | `REQUEST_METHOD == 'HEAD'` on the verb as sent             |

`Model/Headers` and the page renderer of `Model/ErrorPage` describe steps that `Wsgi.wsgi` already
contains in its own words (`Wsgi.headerlist`, `Wsgi.renderPage`, `Wsgi.critPage`).  They are not
called a second time; `headersView` / `errorPageView` below restate the step in the other model's
vocabulary and `Lemmas/App*.lean` prove the two descriptions equal on their common domain
(`wsgi_headers_refine_headers_model`, `wsgi_page_agrees_with_errorpage_render`,
`wsgi_handle_agrees_with_errorpage_handle`, …).  The driver line `app serve` prints both sides.

Where the composition is *partial* the function says so (`Seam`), it does not pick a default.

Seams between the models, and their state (lemma names in `Lemmas/App*.lean`):

| seam                                                          | state                                                                    |
|---------------------------------------------------------------|--------------------------------------------------------------------------|
| `Wsgi.Req.route` ↔ `Router.handle`                            | glue `routeOf`; read back by `RouteRel`, `wsgiReq_ok`                    |
| handler event ↔ the router's call (id, method, kwargs)        | `serve_handler_event`                                                    |
| `Wsgi.headerlist` ↔ `Headers.headerlist`                      | closed: `wsgi_headers_refine_headers_model` (all response objects; `title`,|
|                                                               | transcoding, both generated tables, one/many vs list)                    |
| `Wsgi.renderPage` ↔ `ErrorPage.render` (debug off)            | closed: `wsgi_page_agrees_with_errorpage_render` (+ table tie)           |
| `Wsgi.critPage` / `Py.htmlEscape` ↔ `criticalPage` / `helperEscape` | closed: `critPage_eq_criticalPage`, `htmlEscape_eq_helperEscape`   |
| `Wsgi.jsonPage` ↔ `ErrorPage.dumpsObj`                        | closed for errors without exception object: `jsonPage_eq_dumpsObj`       |
| `Wsgi.lineOfCode` ↔ `ErrorPage.statusLine`                    | closed: `lineOfCode_eq_statusLine`                                       |
| `_handle` + `_cast` error branch ↔ `ErrorPage.handleErr/serve`| closed for 400 / 404 / 405 (HTML, JSON) and the 500 of a crash (HTML):   |
|                                                               | `wsgi_handle_agrees_with_errorpage_handle`, `serve_routing_error_page`,  |
|                                                               | `serve_crash_page`                                                       |
| routers built by `add` / `remove_method` histories            | no route hooks, no fault: `serveW_defined`                               |
| `BodyAccess.statusOf` ↔ status code of `Wsgi.wsgi`            | closed at the status level: `bodyaccess_status_agrees_with_wsgi`         |
| route hooks (`on_route`, `error(404, rule)`)                  | NOT connected (`Seam.routeHooks`): no word for them in `Wsgi.Route`      |
| 405 whose `Allow` `_hval` refuses                             | NOT connected (`Seam.allowRefused`): "routing raised" is not a `Wsgi.Route` |
| `Request.url` raises                                          | NOT connected (`Seam.urlError`): only `ErrorPage.serve` has that page    |
| JSON body of a 500 with exception object                      | NOT connected: `Wsgi.jsonPage` has no exception text / traceback         |
| `ErrorPage` outcomes `iterRaises`, `unsupportedType`, `abort`, `ok` | NOT connected: agreement with the corresponding `Out` programs not stated |
| `ErrorPage.requestError`, body of a mapped request error      | NOT connected: handler programs cannot read the body; `BodyAccess` keeps |
|                                                               | the status only; `App.Req` has no body                                   |
| `Wsgi.Eff.setHeader/addHeader` ↔ `Headers.setitem/append`     | closed: `wsgi_setHeader_refines_setitem`, `wsgi_addHeader_refines_append` |
| other `Headers.Op` (setdefault, properties, del, clear, init, non-`str` values) | NOT connected: no counterpart in `Wsgi.Eff`            |
| cookies ↔ `Model/Cookies` (quoting), histories ↔ `Model/History`, `catchall = False`, `domain_map` | not composed                    |
-/
namespace Ombott.App
open Py

/-- keyword arguments as `RadiRouter.resolve` hands them on (`environ['route.url_args']`) -/
abbrev Kwargs := List (Str × Router.Val)

/-- everything of an `Ombott()` that is not the router -/
structure AppConfig where
  /-- before/after hooks in registration order, custom error handlers (`Wsgi.App`) -/
  hooks : Wsgi.App
  /-- the handler registered as number `id` (= the `handler` argument of `Router.AddArgs`), as a
  program in the effects / `Out` vocabulary of `Model/Wsgi`, given the kwargs it is called with -/
  handlers : Nat → Kwargs → Wsgi.Handler
  /-- `str.upper` (parameter of `Model/Router`) -/
  upper : Str → Str
  /-- the compiled filter handlers (parameter of `Model/Router`) -/
  fenv : Router.FilterEnv
  /-- `str.isprintable` (parameter of `Model/ErrorPage`) -/
  pr : Char → Bool

/-- the WSGI environ as far as the request path looks at it -/
structure Req where
  id : Nat                     -- identity of the environ object
  verb : Str                   -- `REQUEST_METHOD` as sent
  rawPath : Bytes              -- `PATH_INFO` as the server hands it over (Latin-1 code units)
  env : ErrorPage.UrlEnv       -- what `Request.urlparts` reads
  accept : Option Str          -- `HTTP_ACCEPT`
  fileWrapper : Bool           -- `'wsgi.file_wrapper' in environ`

/-- where the existing models cannot be connected: `App.serve` is not defined there -/
inductive Seam
  /-- the resolved route (or the 404 payload) carries route hooks (`on_route`, `error(404, rule)`):
  `Router.resolve` reports them, `Wsgi.runRoute` has no word for running them -/
  | routeHooks
  /-- tree data without a route object (`Router.Resolved.fault`; not reachable from `add`) -/
  | fault
  /-- 405 whose `Allow` value `_hval` refuses (a method registered under a name with CR/LF/NUL):
  `HTTPError(405, body, Allow=…)` raises inside `Ombott.handler` — a 500 without a handler event,
  which `Wsgi.Route` cannot express (`Route.notAllowed` always builds the 405) -/
  | allowRefused
  /-- `Request.url` raises (the library's `urljoin` rejects an authority part): `Wsgi.Req.urlRepr`
  is a text, not an outcome; the last-resort page of this case is `ErrorPage.serve`'s alone -/
  | urlError (e : Err)
  deriving Repr, DecidableEq

def Seam.name : Seam → String
  | .routeHooks => "route-hooks" | .fault => "fault" | .allowRefused => "allow-refused"
  | .urlError e => "url-error:" ++ e.name

/-- `Ombott.handler(app, route, kwargs, route_hooks, error404_405)` as a `Wsgi.Route`: the 404 /
405 branches are `Wsgi.runRoute`'s own, `route(**kwargs)` is the handler program of the resolved
route method run on the kwargs the router produced -/
def routeOf (cfg : AppConfig) : Router.Resolved → Except Seam Wsgi.Route
  | .found h _ kw hooks => if hooks.isEmpty then .ok (.found (cfg.handlers h kw)) else .error .routeHooks
  | .notFound _ hooks _ => if hooks.isEmpty then .ok .notFound else .error .routeHooks
  | .notAllowed allow => if Wsgi.hvalOk allow then .ok (.notAllowed allow) else .error .allowRefused
  | .fault => .error .fault

/-- what `to_route(request.path, request.method)` answers for this request (`none`: `PATH_INFO`
is not UTF-8, routing is never reached) -/
def resolved (cfg : AppConfig) (R : Router.Router) (q : Req) : Option Router.Resolved :=
  (ErrorPage.utf8Decode q.rawPath).map fun p => R.handle cfg.upper cfg.fenv q.verb p

/-- `request.url` as `default_error_handler` reads it: `_handle` has stored the decoded path back
into `environ['PATH_INFO']` when it decodes, and left the raw one otherwise -/
def urlOf (q : Req) : Except Err Str := ErrorPage.requestUrl q.env (ErrorPage.shownPath q.rawPath)

/-- the request as `Model/Wsgi` wants it: every field that was a parameter there is computed -/
def wsgiReq (cfg : AppConfig) (R : Router.Router) (q : Req) : Except Seam Wsgi.Req :=
  match urlOf q with
  | .error e => .error (.urlError e)
  | .ok url =>
    let route? : Except Seam Wsgi.Route :=
      match resolved cfg R q with
      | none => .ok .notFound                          -- never looked at: `pathOK = false`
      | some rs => routeOf cfg rs
    match route? with
    | .error s => .error s
    | .ok route =>
      .ok { id := q.id,
            isHead := q.verb == "HEAD".toList,
            fileWrapper := q.fileWrapper,
            pathOK := (ErrorPage.utf8Decode q.rawPath).isSome,
            path := ErrorPage.shownPath q.rawPath,
            urlRepr := ErrorPage.pyRepr cfg.pr (ErrorPage.pageEscape url),
            json := ErrorPage.isJsonRequested q.accept,
            route := route }

/-- `Ombott.__call__(environ, start_response)` on a fresh application: the full `Wsgi.Result` -/
def serveW (cfg : AppConfig) (R : Router.Router) (q : Req) : Except Seam Wsgi.Result :=
  (wsgiReq cfg R q).map fun r => Wsgi.wsgi cfg.hooks Wsgi.Slots.fresh r

/-! ### the response as the server sees it -/

/-- which handler `route(**kwargs)` is, and with what -/
structure Call where
  handler : Nat
  method : Str          -- `environ['ombott.route'].name`
  kwargs : Kwargs       -- `environ['route.url_args']`
  deriving Repr, DecidableEq

def callOf : Option Router.Resolved → Option Call
  | some (.found h m kw _) => some ⟨h, m, kw⟩
  | _ => none

/-- the events of `Model/Wsgi` with the handler event carrying the call -/
inductive Event
  | before (i : Nat)
  | routed
  | handler (c : Option Call)
  | after (j : Nat)
  | close (k : Nat)
  | startResponse (line : Str) (hdrs : List (Str × Str)) (excInfo : Bool)
  | stderr
  deriving Repr, DecidableEq

def liftEvent (c : Option Call) : Wsgi.Event → Event
  | .before i => .before i
  | .routed => .routed
  | .handler => .handler c
  | .after j => .after j
  | .close k => .close k
  | .startResponse l h x => .startResponse l h x
  | .stderr => .stderr

structure Response where
  /-- the whole exchange: the call and the server's `close()` on the returned object -/
  events : List Event
  status : Str
  headers : List (Str × Str)
  body : List Wsgi.BodyItem
  deriving Repr

/-- the arguments of the (one) `start_response` call -/
def startOf : List Wsgi.Event → Option (Str × List (Str × Str) × Bool)
  | [] => none
  | .startResponse l h x :: _ => some (l, h, x)
  | _ :: r => startOf r

def responseOf (c : Option Call) (res : Wsgi.Result) : Option Response :=
  (startOf res.events).map fun (l, h, _) =>
    { events := (res.events ++ Wsgi.serverEvents res).map (liftEvent c), status := l, headers := h,
      body := res.body }

/-- **`App.serve`**: events, status line, header list, body of one request through the
application `(cfg, R)`.  (`none` inside: no `start_response` call — never, by
`Wsgi.wsgi_one_start_response`; kept visible instead of a default.) -/
def serve (cfg : AppConfig) (R : Router.Router) (q : Req) : Except Seam (Option Response) :=
  (serveW cfg R q).map fun res => responseOf (callOf (resolved cfg R q)) res

/-! ### the same steps in the vocabulary of the other models (targets of the refinement lemmas) -/

def goodVals (vs : List Wsgi.HVal) : List Str :=
  vs.filterMap fun | .good v => some v | .bad => none

def toEntry : List Str → Headers.Entry
  | [v] => .one v
  | vs => .many vs

/-- the response object of `Model/Wsgi` as a response object of `Model/Headers`: one value or a
list per name, a cookie as the text of its morsel (`name=value`; the quoting is C15's subject).
Un-encodable values (`HVal.bad`, a lone surrogate: outside `Char`) have no counterpart. -/
def headersView (st : Wsgi.RState) : Headers.Resp :=
  { status := some st.code,
    store := st.headers.map fun h => (h.1, toEntry (goodVals h.2)),
    cookies := st.cookies.map fun c => (c.1, c.1 ++ '=' :: c.2) }

/-- `BaseResponse.headerlist` of the final response object, said by `Model/Headers` -/
def headerlistView (res : Wsgi.Result) : List (Str × Str) := Headers.headerlist (headersView res.slots.resp)

/-- the request of `Model/ErrorPage` for this environ -/
def errorPageReq (q : Req) : ErrorPage.Req :=
  { rawPath := q.rawPath, env := q.env, accept := q.accept, isHead := q.verb == "HEAD".toList }

/-- what routing amounts to in `Model/ErrorPage`'s words, when it is one of its framework
outcomes: no route / method not allowed (a found route is the handler's business) -/
def routedOutcome : Option Router.Resolved → Option ErrorPage.Outcome
  | none => some .notFound                    -- undecodable path: `handleErr` answers 400 whatever this is
  | some (.notFound ..) => some .notFound
  | some (.notAllowed a) => some (.notAllowed a)
  | _ => none

/-- the framework error response `Model/ErrorPage` describes for this request (debug off, no
failing application error handler), when routing itself ends the request -/
def errorPageView (cfg : AppConfig) (R : Router.Router) (q : Req) : Option ErrorPage.Resp :=
  (routedOutcome (resolved cfg R q)).map fun oc =>
    ErrorPage.serve cfg.pr Gen.errorTemplateLines false (errorPageReq q) oc false ([], [])

/-- a callback that reads one of the body accessors of `Model/BodyAccess` (`request.forms`, `.files`,
`.POST`, `.json`, `.body`) and lets whatever it raises through, as a handler program of
`Model/Wsgi`: a mapped request error is the raised `HTTPError` of `errors_map` (`BaseRequest._raise`),
any other exception is a crash.  `Model/BodyAccess` keeps only the status of the mapped error
(`Err.http st`), so its body text is a parameter here (`bodyOf`). -/
def accessHandler (bodyOf : Nat → Str) (x : Except Forms.Exc BodyAccess.Val) : Wsgi.Handler :=
  { effs := [],
    res := match x with
      | .ok _ => .returns (.text "ok".toList)
      | .error (.py (.http st)) => .raisesResp (Wsgi.mkError st (bodyOf st))
      | .error _ => .raises }

/-- body bytes of a `Wsgi` result -/
def bodyBytes : List Wsgi.BodyItem → Bytes
  | [] => []
  | .chunk b :: r => b ++ bodyBytes r
  | .str s :: r => utf8 s ++ bodyBytes r
  | .raises :: _ => []

end Ombott.App
