import OmbottModel.Py
import OmbottModel.Py.Text
import OmbottModel.Py.Regex
/-
Model of the cookie path (C15):
`ombott/common_helpers.py`: `cookie_encode`, `cookie_decode` (`cookie_is_encoded`, `_lscmp`), `tob`/`touni`;
`ombott/response.py`: `BaseResponse.set_cookie` and the `Set-Cookie` lines of `headerlist`;
`ombott/request_pkg/props_mixin.py`: `PropsMixin.cookies`, `get_cookie`;
and of what they use from `http.cookies` (CPython 3.12): `_quote`, `_unquote`, `Morsel.set`,
`BaseCookie.__parse_string` with `_CookiePattern`.

`hmac`, `base64`, `pickle` and the whole of `SimpleCookie(header)` are fields of `Lib`, the
library parameter: the theorems assume contracts about them, the driver instantiates them with
`Py.Crypto`, a pickle table shipped on the protocol line and `parseCookies` below.
-/
namespace Ombott.Cookies
open Py

/-- exception classes of this area (`CookieError` is `http.cookies.CookieError`, `b64Error` is
`binascii.Error`, `unpickleError` whatever `pickle.loads` raises) -/
inductive CErr
  | typeError | valueError | cookieError | unicodeError | b64Error | unpickleError
  deriving Repr, DecidableEq

def CErr.name : CErr → String
  | .typeError => "TypeError" | .valueError => "ValueError" | .cookieError => "CookieError"
  | .unicodeError => "UnicodeError" | .b64Error => "B64Error" | .unpickleError => "UnpickleError"

/-- a cookie value: text, or any other picklable object (identified by a token) -/
inductive CVal
  | text (s : Str)
  | obj (id : Bytes)
  deriving Repr, DecidableEq

structure Lib where
  hmac : Bytes → Bytes → Bytes                 -- `hmac.new(key, msg, md5).digest()`
  b64 : Bytes → Bytes                          -- `base64.b64encode`
  unb64 : Bytes → Option Bytes                 -- `base64.b64decode`, `none` = `binascii.Error`
  pickle : Str × CVal → Bytes                  -- `pickle.dumps((name, value), -1)`
  unpickle : Bytes → Option (Str × CVal)       -- `pickle.loads`, `none` = it raises
  load : Str → Except CErr (List (Str × Str))  -- `[(c.key, c.value) for c in SimpleCookie(header).values()]`

/-! ### `http.cookies._quote` / `_unquote` -/

def legalChars : List Char :=
  "abcdefghijklmnopqrstuvwxyzABCDEFGHIJKLMNOPQRSTUVWXYZ0123456789!#$%&'*+-.^_`|~:".toList

def unescapedChars : List Char := legalChars ++ " ()/<=>?@[]{}".toList

def isLegal (c : Char) : Bool := legalChars.contains c

/-- `_is_legal_key(s)`: `[legal]+` fullmatch -/
def isLegalKey (s : Str) : Bool := !s.isEmpty && s.all isLegal

def octDigit (n : Nat) : Char := Char.ofNat (48 + n)

/-- one character through `str.translate(_Translator)` -/
def translateChar (c : Char) : Str :=
  if c == '"' then ['\\', '"']
  else if c == '\\' then ['\\', '\\']
  else if unescapedChars.contains c then [c]
  else if c.toNat < 256 then
    ['\\', octDigit (c.toNat / 64), octDigit (c.toNat / 8 % 8), octDigit (c.toNat % 8)]
  else [c]                                         -- not in the table: left alone

/-- `_quote(s)` -/
def quote (s : Str) : Str :=
  if isLegalKey s then s else '"' :: (s.flatMap translateChar ++ ['"'])

def isOct (c : Char) (hi : Nat) : Bool := 48 ≤ c.toNat && c.toNat ≤ 48 + hi

def octVal (a b c : Char) : Char :=
  Char.ofNat ((a.toNat - 48) * 64 + (b.toNat - 48) * 8 + (c.toNat - 48))

/-- the scanning loop of `_unquote` on the text between the quotes: at the first backslash that
is followed by a character other than a newline (`_QuotePatt = [\\].`) an octal triple
`\\[0-3][0-7][0-7]` is decoded if it starts there, otherwise the next character is taken
literally.  (`fuel` only makes the recursion structural; `unquoteBody` supplies enough.) -/
def unquoteGo : Nat → Str → Str
  | 0, _ => []
  | _ + 1, [] => []
  | f + 1, x :: t =>
    if x != '\\' then x :: unquoteGo f t else
    match t with
    | [] => [x]
    | a :: t1 =>
      if a == '\n' then '\\' :: unquoteGo f t
      else match t1 with
        | b :: c :: t3 =>
          if isOct a 3 && isOct b 7 && isOct c 7 then octVal a b c :: unquoteGo f t3
          else a :: unquoteGo f t1
        | _ => a :: unquoteGo f t1

def unquoteBody (s : Str) : Str := unquoteGo s.length s

/-- `_unquote(s)` -/
def unquote (s : Str) : Str :=
  if s.length < 2 then s
  else if s.head? != some '"' || s.getLast? != some '"' then s
  else unquoteBody ((s.drop 1).dropLast)

/-! ### `BaseCookie.__parse_string` -/

section Parse
open Py.Regex

def isWord (c : Char) : Bool := c.isAlphanum || c == '_'            -- `\w` under re.ASCII
def isDigitC (c : Char) : Bool := c.isDigit                          -- `\d`
def isSpaceC (c : Char) : Bool := c == ' ' || (9 ≤ c.toNat && c.toNat ≤ 13)   -- `\s` under re.ASCII

/-- `_LegalKeyChars` -/
def isKeyChar (c : Char) : Bool := isWord c || "!#%&'~_`><@,:/$*+-.^|)(?}{=".toList.contains c
/-- `_LegalValueChars` -/
def isValChar (c : Char) : Bool := isKeyChar c || c == '[' || c == ']'

/-- `_CookiePattern` (group 0 = `key`, group 1 = `val`) -/
def cookiePattern : Re :=
  let ws := Re.star (.cls isSpaceC) true
  let quoted := seqs [chr '"',
    .star (.alt (.cls fun c => c != '\\' && c != '"') (.seq (chr '\\') (.cls (· != '\n')))) true, chr '"']
  let expires := seqs [.rep (.cls isWord) 3 3, chr ',', .cls isSpaceC,
    .rep (.cls fun c => isWord c || isSpaceC c || c == '-') 9 11, .cls isSpaceC,
    .rep (.cls fun c => isDigitC c || c == ':') 8 8, .cls isSpaceC, lit "GMT"]
  let word := Re.star (.cls isValChar) true
  seqs [ws, .grp 0 (plus (.cls isKeyChar) false),
    opt (seqs [ws, chr '=', ws, .grp 1 (.alt quoted (.alt expires word))]),
    ws, .alt (plus (.cls isSpaceC)) (.alt (chr ';') .eos)]

def lower (s : Str) : Str := s.map Char.toLower

def reservedKeys : List Str :=
  ["expires", "path", "comment", "domain", "max-age", "secure", "httponly", "version", "samesite"].map String.toList

def isReserved (k : Str) : Bool := reservedKeys.contains (lower k)
def isFlag (k : Str) : Bool := (lower k) == "secure".toList || (lower k) == "httponly".toList

inductive Item
  | attr (key : Str)
  | keyval (key : Str) (rawval : Str)

/-- first phase: tokenise the whole string; `none` = "invalid cookie string", nothing is loaded -/
def scan : Nat → Str → Bool → List Item → Option (List Item)
  | 0, _, _, acc => some acc.reverse
  | fuel + 1, s, seen, acc =>
    if s.isEmpty then some acc.reverse else
    match matchAt cookiePattern s with
    | none => some acc.reverse                                  -- no more cookies
    | some (caps, rest) =>
      let key := (capGet caps 0).getD []
      let val := capGet caps 1
      if key.head? == some '$' then
        if !seen then scan fuel rest seen acc
        else scan fuel rest seen (.attr (key.drop 1) :: acc)
      else if isReserved key then
        if !seen then none
        else match val with
          | none => if isFlag key then scan fuel rest seen (.attr key :: acc) else none
          | some _ => scan fuel rest seen (.attr key :: acc)
      else match val with
        | some v => scan fuel rest true (.keyval key v :: acc)
        | none => none

def jarSet (jar : List (Str × Str)) (k v : Str) : List (Str × Str) :=
  if jar.any (·.1 == k) then jar.map fun e => if e.1 == k then (k, v) else e else jar ++ [(k, v)]

/-- second phase: apply the items; `Morsel.set` refuses an illegal key and `Morsel.__setitem__`
an attribute name that is not reserved, both with `CookieError` -/
def applyItems : List Item → List (Str × Str) → Except CErr (List (Str × Str))
  | [], jar => .ok jar
  | .attr k :: r, jar => if isReserved k then applyItems r jar else .error .cookieError
  | .keyval k v :: r, jar =>
    if isReserved k || !isLegalKey k then .error .cookieError
    else applyItems r (jarSet jar k (unquote v))

/-- `SimpleCookie(header)` as the list of `(key, value)` in dict order -/
def parseCookies (hdr : Str) : Except CErr (List (Str × Str)) :=
  match scan (hdr.length + 1) hdr false [] with
  | none => .ok []
  | some items => applyItems items []

end Parse

/-! ### signing -/

/-- `cookie_encode((name, value), key)` with `key` already through `tob` -/
def cookieEncode (L : Lib) (data : Str × CVal) (key : Bytes) : Bytes :=
  let msg := L.b64 (L.pickle data)
  let sig := L.b64 (L.hmac key msg)
  [33] ++ sig ++ [63] ++ msg                        -- b'!' + sig + b'?' + msg

/-- `_lscmp(a, b)`: `not sum(0 if x == y else 1 for x, y in zip(a, b)) and len(a) == len(b)` -/
def lscmp (a b : Bytes) : Bool :=
  (((a.zip b).map fun (x, y) => if x == y then 0 else 1).sum == 0) && a.length == b.length

/-- `cookie_is_encoded(data)` -/
def isEncoded (data : Bytes) : Bool := data.head? == some 33 && data.contains 63

/-- `cookie_decode(data, key)`: the result (`none` = Python `None`) **and** the byte strings
handed to `pickle.loads` -/
def cookieDecode (L : Lib) (data key : Bytes) : Except CErr (Option (Str × CVal)) × List Bytes :=
  if isEncoded data then
    match splitFirst 63 data with                  -- sig, msg = data.split(b'?', 1)
    | none => (.ok none, [])
    | some (sig, msg) =>
      if lscmp (sig.drop 1) (L.b64 (L.hmac key msg)) then
        match L.unb64 msg with
        | none => (.error .b64Error, [])
        | some raw =>
          match L.unpickle raw with
          | some x => (.ok (some x), [raw])
          | none => (.error .unpickleError, [raw])
      else (.ok none, [])
  else (.ok none, [])

/-! ### response side -/

/-- the cookie jar of a response: name → (value, coded value), in insertion order -/
abbrev Jar := List (Str × Str)

/-- `BaseResponse.set_cookie(name, value, secret)` without morsel attributes; the jar maps a
name to the morsel's `coded_value` -/
def setCookie (L : Lib) (jar : Jar) (name : Str) (value : CVal) (secret : Bytes) : Except CErr Jar := do
  let v ← if !secret.isEmpty then
      match utf8Dec (cookieEncode L (name, value) secret) with     -- touni(...)
      | some s => pure s
      | none => throw .unicodeError
    else match value with
      | .text s => pure s
      | .obj _ => throw .typeError
  if v.length > 4096 then throw .valueError
  if isReserved name || !isLegalKey name then throw .cookieError   -- Morsel.set
  pure (jarSet jar name (quote v))

/-- the `Set-Cookie` values of `headerlist`: `OutputString()` transcoded for the wire -/
def emit (jar : Jar) : List Str := jar.map fun (n, coded) => transcode (n ++ '=' :: coded)

/-- what a client sends back: the `name=value` part of every `Set-Cookie`, joined by `"; "` -/
def clientHeader (setCookies : List Str) : Str :=
  "; ".toList.intercalate (setCookies.map fun h => h.takeWhile (· != ';'))

/-! ### request side -/

def dictGet (items : List (Str × Str)) (k : Str) : Option Str :=
  (items.reverse.find? (·.1 == k)).map (·.2)

/-- `request.get_cookie(key, secret=secret)` on a request whose `Cookie` header is `hdr`:
the value (`none` = the default) and the byte strings handed to `pickle.loads` -/
def getCookie (L : Lib) (hdr key : Str) (secret : Bytes) : Except CErr (Option CVal) × List Bytes :=
  match L.load hdr with
  | .error e => (.error e, [])
  | .ok items =>
    match dictGet items key with
    | none => (.ok none, [])
    | some value =>
      if !secret.isEmpty && !value.isEmpty then
        match cookieDecode L (utf8Enc value) secret with
        | (.error e, calls) => (.error e, calls)
        | (.ok none, calls) => (.ok none, calls)
        | (.ok (some (n, v)), calls) => (if n == key then .ok (some v) else .ok none, calls)
      else (if value.isEmpty then .ok none else .ok (some (.text value)), [])

/-- set → emit → client → get, the chain the round-trip theorems are about -/
def roundTrip (L : Lib) (name : Str) (value : CVal) (secret : Bytes) : Except CErr (Option CVal) × List Bytes :=
  match setCookie L [] name value secret with
  | .error e => (.error e, [])
  | .ok jar => getCookie L (clientHeader (emit jar)) name secret

/-! ### the jar through `BaseResponse.copy()` and `HTTPResponse.apply()`

`copy()` renders the jar with `SimpleCookie.output(header='')` (morsels sorted by key, each as
`" name=coded"`, joined by CR LF) and loads that text into a fresh `SimpleCookie`; the coded value
of the new morsel is the raw text the tokeniser captured.  `apply()` hands the jar object of the
raised response to the live response when it is non-empty.  `redirect()` is
`response.copy(cls=HTTPResponse)` raised, i.e. copy then apply. -/

/-- `a < b` for Python `str` (lexicographic by code point) -/
def strLt : Str → Str → Bool
  | [], [] => false
  | [], _ :: _ => true
  | _ :: _, [] => false
  | x :: a, y :: b => if x.toNat < y.toNat then true else if y.toNat < x.toNat then false else strLt a b

def insertByKey (e : Str × Str) : Jar → Jar
  | [] => [e]
  | h :: t => if strLt e.1 h.1 then e :: h :: t else h :: insertByKey e t

/-- `sorted(self.items())` (keys are unique) -/
def sortJar (jar : Jar) : Jar := jar.foldr insertByKey []

/-- `self._cookies.output(header='')` -/
def renderJar (jar : Jar) : Str :=
  "\r\n".toList.intercalate ((sortJar jar).map fun (n, coded) => ' ' :: (n ++ '=' :: coded))

/-- second phase of `__parse_string`, keeping the raw (coded) value of each morsel -/
def applyItemsRaw : List Item → Jar → Except CErr Jar
  | [], jar => .ok jar
  | .attr k :: r, jar => if isReserved k then applyItemsRaw r jar else .error .cookieError
  | .keyval k v :: r, jar =>
    if isReserved k || !isLegalKey k then .error .cookieError
    else applyItemsRaw r (jarSet jar k v)

/-- `SimpleCookie().load(text)` as name → coded value -/
def parseCookiesRaw (hdr : Str) : Except CErr Jar :=
  match scan (hdr.length + 1) hdr false [] with
  | none => .ok []
  | some items => applyItemsRaw items []

/-- the jar of `response.copy(cls)` -/
def copyJar (jar : Jar) : Except CErr Jar :=
  if jar.isEmpty then .ok [] else parseCookiesRaw (renderJar jar)

/-- `HTTPResponse.apply`: `if self._cookies: response._cookies = self._cookies` -/
def applyJar (resp raised : Jar) : Jar := if raised.isEmpty then resp else raised

/-- how the response that carries the cookies reaches `start_response` -/
inductive EmitPath
  | direct      -- handler returns normally
  | copy        -- `raise response.copy(cls=HTTPResponse)`
  | copy2       -- a copy of the copy
  | redirect    -- `redirect(url)` after `set_cookie`
  | raised      -- a fresh `HTTPResponse` with its own cookies is raised
  | errpage     -- `HTTPError`/`abort` after `set_cookie` (error page rendered, cookies stay)
  deriving Repr, DecidableEq

/-- the jar `headerlist` emits from: `respJar` = cookies set on the live response, `raisedJar` =
cookies set on the raised object (only for `raised`) -/
def emitVia (path : EmitPath) (respJar raisedJar : Jar) : Except CErr Jar :=
  match path with
  | .direct => .ok respJar
  | .errpage => .ok respJar
  | .copy => (copyJar respJar).map fun c => applyJar respJar c
  | .redirect => (copyJar respJar).map fun c => applyJar respJar c
  | .copy2 => do
    let c ← copyJar respJar
    let c2 ← copyJar c
    pure (applyJar respJar c2)
  | .raised => .ok (applyJar respJar raisedJar)

/-! ### one request object read several times (`cache_in`, `__setitem__`, `__delitem__`, `copy`) -/

/-- a request as far as cookies go: the `HTTP_COOKIE` entry of its environ and the cached
`ombott.request.cookies` entry (a failed parse caches nothing) -/
structure Req where
  hdr : Option Str
  cache : Option (List (Str × Str))
  deriving Repr, DecidableEq

/-- `request.cookies` -/
def Req.cookies (L : Lib) (r : Req) : Except CErr (List (Str × Str)) × Req :=
  match r.cache with
  | some c => (.ok c, r)
  | none =>
    match L.load (r.hdr.getD []) with           -- `_env_get('HTTP_COOKIE', '')`
    | .ok c => (.ok c, { r with cache := some c })
    | .error e => (.error e, r)

/-- `request.get_cookie(key, secret=secret)` on a live request object -/
def Req.getCookie (L : Lib) (r : Req) (key : Str) (secret : Bytes) :
    (Except CErr (Option CVal) × List Bytes) × Req :=
  match r.cookies L with
  | (.error e, r') => ((.error e, []), r')
  | (.ok items, r') =>
    (match dictGet items key with
     | none => (.ok none, [])
     | some value =>
       if !secret.isEmpty && !value.isEmpty then
         match cookieDecode L (utf8Enc value) secret with
         | (.error e, calls) => (.error e, calls)
         | (.ok none, calls) => (.ok none, calls)
         | (.ok (some (n, v)), calls) => (if n == key then .ok (some v) else .ok none, calls)
       else (if value.isEmpty then .ok none else .ok (some (.text value)), []), r')

def cookieKey : Str := "HTTP_COOKIE".toList

/-- `request[key] = value`: an unchanged value is a no-op; otherwise `_on_env_changed` drops the
cached cookies for every key that starts with `HTTP_` -/
def Req.setItem (r : Req) (key value : Str) : Req :=
  if key == cookieKey then
    if r.hdr == some value then r else { hdr := some value, cache := none }
  else if "HTTP_".toList.isPrefixOf key then { r with cache := none }
  else r

/-- `del request[key]`: `self[key] = ""` then `del self.environ[key]` -/
def Req.delItem (r : Req) (key : Str) : Req :=
  let r' := r.setItem key []
  if key == cookieKey then { r' with hdr := none } else r'

inductive ReqOp
  | get (i : Nat) (key : Str) (secret : Bytes)
  | set (i : Nat) (key value : Str)
  | del (i : Nat) (key : Str)
  | copy                                   -- request 1 := request 0 `.copy()` (shallow environ copy)
  deriving Repr

/-- a handler working on the live request (index 0) and on a copy of it (index 1); the answers
of the `get` operations in order -/
def runReq (L : Lib) : Req → Req → List ReqOp → List (Except CErr (Option CVal) × List Bytes)
  | _, _, [] => []
  | r0, r1, .get i k s :: ops =>
    if i == 0 then let (a, r) := r0.getCookie L k s; a :: runReq L r r1 ops
    else let (a, r) := r1.getCookie L k s; a :: runReq L r0 r ops
  | r0, r1, .set i k v :: ops =>
    if i == 0 then runReq L (r0.setItem k v) r1 ops else runReq L r0 (r1.setItem k v) ops
  | r0, r1, .del i k :: ops =>
    if i == 0 then runReq L (r0.delItem k) r1 ops else runReq L r0 (r1.delItem k) ops
  | r0, _, .copy :: ops => runReq L r0 r0 ops

end Ombott.Cookies
