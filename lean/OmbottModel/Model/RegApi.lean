import OmbottModel.Py
import OmbottModel.Py.IntLim
import OmbottModel.Model.Router
import OmbottModel.Model.RouterEdit
import OmbottModel.Model.RouterListing
import OmbottModel.Gen.Regapi
/-!
The application-level REGISTRATION surface of `ombott/ombott.py` (`Ombott.route` in every call form,
the verb shortcuts installed by `with_method_shortcuts`, `add_route` / `remove_route`, `on` /
`add_hook` / `remove_hook` / `emit` / `_hooks`, `on_route` / `remove_route_hook`, `error`, the error
handler `_cast` picks, the partial 404 hook `handler` picks, `Globals` / `default_app()`, the decision
logic of the module-level `run()`), on top of the router model (`Model/Router.lean`,
`Model/RouterEdit.lean`, the `Ombott` wrappers at the end of `Model/RouterListing.lean`).

Conventions: a Python callable is its identity (a number) plus, where the code looks at it, its truth
value (`if callback`, `if not func`).  A method that mutates the application returns the new
application together with what the call returned or raised (`Except ErrName Ret`: exception class
names as in the router model).  What hooks and callbacks do when they run is a parameter (`Ctx`), as
in `Model/Wsgi.lean`.  `str.upper`, filter compilation and the filter handlers are the parameters the
router model already has.
-/
namespace Ombott.RegApi
open Py Ombott.Router

/-! ## 1. values -/

/-- a callable handed to the registration API: identity and `bool(callback)` (a callable object may
define `__bool__` / `__len__`) -/
structure Callback where
  id : Nat
  truthy : Bool := true
  deriving DecidableEq, Repr

/-- the `method` argument of `Ombott.route` / `add_route`: one `str` or a list of `str` -/
inductive Methods
  | one (m : Str)
  | many (ms : List Str)
  deriving DecidableEq, Repr

/-- `RadiRouter.add`: `if isinstance(methods, str): methods = [methods]` (the `[_.upper() for _ in methods]`
that follows is `Router.add`'s `methods.map upper`) -/
def Methods.asList : Methods → List Str
  | .one m => [m]
  | .many ms => ms

/-- what a registration call returns -/
inductive Ret
  | none                    -- `None`
  | callback (id : Nat)     -- the callback it was given, unchanged
  | decorator               -- the inner `decorator` / `wrapper` function, nothing registered yet
  | true_                   -- `True`
  deriving DecidableEq, Repr

abbrev Outcome := Except ErrName Ret

/-! ## 2. the application object -/

/-- `Ombott` as far as registration goes.  `config`, `request`, `response` are other models' business;
`_route_hooks` is assigned in `__init__` and never read. -/
structure App where
  /-- `self.router` -/
  router : Router := {}
  /-- `self.__dict__.get('_hooks')`: the value of the `cached_property`, absent until first used -/
  hooks : Option (List (Str × List Nat)) := none
  /-- `self.error_handlers` without its `'404-hooks'` item: `int` code ↦ handler -/
  errorHandlers : List (Int × Nat) := []
  /-- `self.error_handlers['404-hooks']`: route pattern ↦ handler -/
  hooks404 : List (Str × Nat) := []
  deriving Repr

/-- `Ombott.__init__(config)`: `RadiRouter()`, `_route_hooks = {}`, `error_handlers = {'404-hooks': {}}`;
`_hooks` is not created here -/
def App.init : App := {}

/-- `Ombott.setup(config)`: replaces `self.config` and calls `request.setup(config)`; nothing of the
registration state is touched -/
def App.setup (app : App) : App := app

/-! ## 3. routes: `add_route`, `route`, the shortcuts, `remove_route` -/

/-- `Ombott.add_route(rule, method, handler, name, overwrite=…)`: `return self.router.add(…)` (the
route object; here its identity) -/
def App.addRoute (upper : Str → Str) (cenv : CompileEnv) (app : App) (rule : Str) (method : Methods)
    (handler : Nat) (name : Option Str) (overwrite : Bool) : App × Except ErrName Nat :=
  let (R, out) := app.router.appAddRoute upper cenv
    { rule := rule, methods := method.asList, handler := handler, name := name, overwrite := overwrite }
  ({ app with router := R }, out)

/-- the inner function of `Ombott.route`:
`def decorator(callback): self.add_route(rule, method, callback, name, overwrite=overwrite); return callback` -/
def App.routeDecorator (upper : Str → Str) (cenv : CompileEnv) (app : App) (rule : Str) (method : Methods)
    (name : Option Str) (overwrite : Bool) (cb : Callback) : App × Outcome :=
  match app.addRoute upper cenv rule method cb.id name overwrite with
  | (app', .ok _) => (app', .ok (.callback cb.id))
  | (app', .error e) => (app', .error e)

/-- the default of `method` in `Ombott.route(self, rule=None, method='GET', callback=None, *, name=None,
overwrite=False)` (generated: what `app.route(rule)(cb)` registers) -/
def defaultMethod : Methods := .many (Gen.raRouteDefaultMethod.map (·.toList))

/-- `Ombott.route(rule, method, callback, name=…, overwrite=…)`:
`return decorator(callback) if callback else decorator` — a callback that is falsy is treated like
no callback -/
def App.route (upper : Str → Str) (cenv : CompileEnv) (app : App) (rule : Str) (method : Option Methods)
    (callback : Option Callback) (name : Option Str) (overwrite : Bool) : App × Outcome :=
  match callback with
  | some cb =>
    if cb.truthy then app.routeDecorator upper cenv rule (method.getD defaultMethod) name overwrite cb
    else (app, .ok .decorator)
  | none => (app, .ok .decorator)

/-- the decorator form `@app.route(rule, method, name=…, overwrite=…)` over `cb`: the call returns
`decorator`, which is then applied to the function being defined -/
def App.routeDecorated (upper : Str → Str) (cenv : CompileEnv) (app : App) (rule : Str) (method : Option Methods)
    (name : Option Str) (overwrite : Bool) (cb : Callback) : App × Outcome :=
  match app.route upper cenv rule method none name overwrite with
  | (app', .ok .decorator) => app'.routeDecorator upper cenv rule (method.getD defaultMethod) name overwrite cb
  | other => other

/-- `with_method_shortcuts(HTTP_METHODS)` / `injector`: `setattr(cls, m.lower(), functools.partialmethod(cls.route, method=m))`.
The table is read off the live class (`Gen.raShortcuts`).  A call `app.<attr>(rule, *more, callback=…, method=…, name=…,
overwrite=…)` is `route(rule, *more, **{'method': M, **keywords})`:
* an attribute that is not a shortcut: `AttributeError`;
* a second positional argument lands on `route`'s parameter `method`, which the partial also passes by keyword:
  `TypeError` (got multiple values for argument 'method') — the callback has to be passed as `callback=`;
* a `method=` keyword of the call replaces the pinned one. -/
def App.shortcut (upper : Str → Str) (cenv : CompileEnv) (app : App) (attr : String) (rule : Str)
    (second : Option Callback) (callback : Option Callback) (methodKw : Option Methods)
    (name : Option Str) (overwrite : Bool) : App × Outcome :=
  match Gen.raShortcuts.find? (·.1 == attr) with
  | none => (app, .error "AttributeError")
  | some (_, m) =>
    match second with
    | some _ => (app, .error "TypeError")
    | none => app.route upper cenv rule (some (methodKw.getD (.one m.toList))) callback name overwrite

/-- the decorator form of a shortcut: `@app.<attr>(rule, name=…, overwrite=…)` over `cb` -/
def App.shortcutDecorated (upper : Str → Str) (cenv : CompileEnv) (app : App) (attr : String) (rule : Str)
    (methodKw : Option Methods) (name : Option Str) (overwrite : Bool) (cb : Callback) : App × Outcome :=
  match app.shortcut upper cenv attr rule none none methodKw name overwrite with
  | (app', .ok .decorator) =>
    match Gen.raShortcuts.find? (·.1 == attr) with
    | none => (app', .error "AttributeError")
    | some (_, m) => app'.routeDecorator upper cenv rule (methodKw.getD (.one m.toList)) name overwrite cb
  | other => other

/-- `Ombott.remove_route(rule, route_pattern=…, name=…)`: `self.router.remove(…)`, returns `None` -/
def App.removeRoute (cenv : CompileEnv) (app : App) (rule name routePattern : Option Str) : App × Outcome :=
  match app.router.appRemoveRoute cenv rule name routePattern with
  | (R, .ok _) => ({ app with router := R }, .ok .none)
  | (R, .error e) => ({ app with router := R }, .error e)

/-! ## 4. request hooks: `_hooks`, `add_hook`, `on`, `remove_hook`, `emit` -/

/-- `Ombott._hooks` (a `cached_property`): `{name: [] for name in self.__hook_names}` on first use, the
stored dict afterwards -/
def App.hooksGet (app : App) : App × List (Str × List Nat) :=
  match app.hooks with
  | some d => (app, d)
  | none =>
    let d := Gen.raHookNames.map fun n => (n.toList, ([] : List Nat))
    ({ app with hooks := some d }, d)

/-- `name in self.__hook_reversed` -/
def hookReversed (name : Str) : Bool := Gen.raHookReversed.any (·.toList == name)

/-- `Ombott.add_hook(name, func)`: `self._hooks[name].insert(0, func)` for a reversed hook name, else
`self._hooks[name].append(func)`; `KeyError` for a name that is not a hook (after `_hooks` was created) -/
def App.addHook (app : App) (name : Str) (func : Nat) : App × Outcome :=
  let (app, d) := app.hooksGet
  match dictGet d name with
  | none => (app, .error "KeyError")
  | some l =>
    let l' := if hookReversed name then func :: l else l ++ [func]
    ({ app with hooks := some (dictSet d name l') }, .ok .none)

/-- `Ombott.on(name, func)`: `if not func:` the decorator is returned, else `self.add_hook(name, func)`
(returns `None`) -/
def App.on (app : App) (name : Str) (func : Option Callback) : App × Outcome :=
  match func with
  | some f => if f.truthy then app.addHook name f.id else (app, .ok .decorator)
  | none => (app, .ok .decorator)

/-- the inner function of `Ombott.on`: `def decorator(func): self.add_hook(name, func); return func` -/
def App.onDecorator (app : App) (name : Str) (func : Callback) : App × Outcome :=
  match app.addHook name func.id with
  | (app', .ok _) => (app', .ok (.callback func.id))
  | other => other

/-- `@app.on(name)` over `func` -/
def App.onDecorated (app : App) (name : Str) (func : Callback) : App × Outcome :=
  match app.on name none with
  | (app', .ok .decorator) => app'.onDecorator name func
  | other => other

/-- `Ombott.remove_hook(name, func)`: `if func in self._hooks[name]: self._hooks[name].remove(func); return True`
(first occurrence; `None` when absent; `KeyError` for an unknown name) -/
def App.removeHook (app : App) (name : Str) (func : Nat) : App × Outcome :=
  let (app, d) := app.hooksGet
  match dictGet d name with
  | none => (app, .error "KeyError")
  | some l =>
    if l.contains func then ({ app with hooks := some (dictSet d name (l.erase func)) }, .ok .true_)
    else (app, .ok .none)

/-- what a hook does to the application's hook lists when it runs -/
inductive HookAct
  | addHook (name : Str) (func : Nat)        -- `app.add_hook(name, func)`
  | removeHook (name : Str) (func : Nat)     -- `app.remove_hook(name, func)`
  deriving DecidableEq, Repr

/-- a hook callback: the edits it makes, then whether it raises -/
structure HookProg where
  acts : List HookAct := []
  raises : Bool := false
  deriving Repr

def App.hookAct (app : App) : HookAct → App × Outcome
  | .addHook n f => app.addHook n f
  | .removeHook n f => app.removeHook n f

/-- the body of a hook: its edits in order; an edit that raises (unknown hook name) ends it -/
def runActs : List HookAct → App → App × Bool
  | [], app => (app, false)
  | a :: as, app =>
    match app.hookAct a with
    | (app', .ok _) => runActs as app'
    | (app', .error _) => (app', true)

/-- one hook call: `hook(*args, **kwargs)`; `true` = it raised -/
def callHook (prog : Nat → HookProg) (h : Nat) (app : App) : App × Bool :=
  match runActs (prog h).acts app with
  | (app', true) => (app', true)
  | (app', false) => (app', (prog h).raises)

/-- the list comprehension of `emit` over the snapshot: hooks in order, the first one that raises ends
it.  Returns the application, the hooks that were called, and whether one raised. -/
def emitLoop (prog : Nat → HookProg) : List Nat → App → App × List Nat × Bool
  | [], app => (app, [], false)
  | h :: hs, app =>
    match callHook prog h app with
    | (app', true) => (app', [h], true)
    | (app', false) =>
      let (app'', tr, r) := emitLoop prog hs app'
      (app'', h :: tr, r)

/-- outcome of an emission -/
structure Emitted where
  called : List Nat
  error : Option ErrName     -- `KeyError` (unknown name) / the hook's exception
  deriving DecidableEq, Repr

/-- `Ombott.emit(name)`: `[hook(*args, **kwargs) for hook in self._hooks[name][:]]` — the list is COPIED
before the first hook runs -/
def App.emit (prog : Nat → HookProg) (app : App) (name : Str) : App × Emitted :=
  let (app, d) := app.hooksGet
  match dictGet d name with
  | none => (app, ⟨[], some "KeyError"⟩)
  | some snapshot =>
    let (app', called, raised) := emitLoop prog snapshot app
    (app', ⟨called, if raised then some "Exception" else none⟩)

/-- `self._hooks[name]` as it is now (without creating `_hooks`): what the next emission will copy -/
def App.hookList (app : App) (name : Str) : List Nat :=
  match app.hooks with
  | some d => (dictGet d name).getD []
  | none => []

/-! ## 5. route hooks: `on_route`, `remove_route_hook` -/

/-- `Ombott.on_route(rule, func)`: `if not func:` the decorator, else `self.router.add_hook(rule, func)`
(simple slot), returns `None` -/
def App.onRoute (cenv : CompileEnv) (app : App) (rule : Str) (func : Option Callback) : App × Outcome :=
  match func with
  | none => (app, .ok .decorator)
  | some f =>
    if !f.truthy then (app, .ok .decorator) else
    match app.router.appOnRoute cenv rule f.id with
    | (R, .ok _) => ({ app with router := R }, .ok .none)
    | (R, .error e) => ({ app with router := R }, .error e)

/-- `@app.on_route(rule)` over `func`: `self.router.add_hook(rule, func); return func` -/
def App.onRouteDecorated (cenv : CompileEnv) (app : App) (rule : Str) (func : Callback) : App × Outcome :=
  match app.onRoute cenv rule none with
  | (app', .ok .decorator) =>
    match app'.router.appOnRoute cenv rule func.id with
    | (R, .ok _) => ({ app' with router := R }, .ok (.callback func.id))
    | (R, .error e) => ({ app' with router := R }, .error e)
  | other => other

/-- `Ombott.remove_route_hook(rule)`: `self.router.remove_hook(rule)` -/
def App.removeRouteHook (cenv : CompileEnv) (app : App) (rule : Str) : App × Outcome :=
  match app.router.appRemoveRouteHook cenv rule with
  | (R, .ok _) => ({ app with router := R }, .ok .none)
  | (R, .error e) => ({ app with router := R }, .error e)

/-! ## 6. error handlers: `error`, the choice in `_cast` -/

/-- the `code` argument of `Ombott.error`: an `int` or a `str` -/
inductive CodeArg
  | int (n : Int)
  | str (s : Str)
  deriving DecidableEq, Repr

/-- `code = int(code)` -/
def CodeArg.toInt : CodeArg → Except ErrName Int
  | .int n => .ok n
  | .str s =>
    match pyIntLim s with
    | some n => .ok n
    | none => .error "ValueError"

/-- the code for which a rule turns the registration into a partial route hook (generated: `[404]`) -/
def isPartialCode (c : Int) : Bool := Gen.raPartialCode.contains c

/-- `Ombott.error(code, rule)(handler)`: `code = int(code)` when `error` is called; the `wrapper`:
`if code == 404 and rule:` the handler becomes the PARTIAL hook of `rule` in the router and
`error_handlers['404-hooks'][route_pattern] = handler`, else `error_handlers[code] = handler`;
returns the handler -/
def App.error (cenv : CompileEnv) (app : App) (code : CodeArg) (rule : Option Str) (handler : Nat) :
    App × Outcome :=
  match code.toInt with
  | .error e => (app, .error e)
  | .ok c =>
    match (if isPartialCode c then rule.filter (!·.isEmpty) else none) with
    | some r =>
      match app.router.addHook cenv r handler true with
      | (R, .error e) => ({ app with router := R }, .error e)
      | (R, .ok pat) =>
        ({ app with router := R, hooks404 := dictSet app.hooks404 pat handler }, .ok (.callback handler))
    | none => ({ app with errorHandlers := dictSet app.errorHandlers c handler }, .ok (.callback handler))

/-- `Ombott._cast`, branch `isinstance(out, HTTPError)`:
`self.error_handlers.get(out.status_code, self.default_error_handler)`; `none` = the default handler -/
def App.errorHandlerFor (app : App) (status : Int) : Option Nat := dictGet app.errorHandlers status

/-! ## 7. a request, as far as the registered callables go (`_handle`, `handler`, `_cast`) -/

/-- what application code does when it runs: the hooks' programs and, per callback, the status it
aborts with (`abort(code)` / `raise HTTPError(code)`) if it does not return text -/
structure Ctx where
  upper : Str → Str
  cenv : CompileEnv
  env : FilterEnv
  hook : Nat → HookProg
  aborts : Nat → Option Nat

/-- what routing contributed -/
inductive Routed
  | skipped                  -- a `before_request` hook raised: `to_route` was not reached
  | served (s : Served)      -- `Ombott.handler` on the result of `to_route` (`Model/RouterEdit.lean`)
  deriving Repr

structure ReqResult where
  before : List Nat          -- `before_request` hooks called
  routed : Routed
  after : List Nat           -- `after_request` hooks called
  afterRaised : Bool         -- one of them raised: whatever was in flight is replaced
  status : Nat               -- 200, or the status of the `HTTPError` that reaches `_cast` (500 when `critical`)
  isError : Bool             -- an `HTTPError` reaches `_cast`
  handler : Option Nat       -- the custom error handler `_cast` calls for it (`none`: the default / no error)
  critical : Bool            -- that handler raised: `wsgi` answers its own 500 page
  deriving Repr

/-- status contributed by `Ombott.handler`: a callback (or the partial 404 hook chosen from
`hooks_collected[-1]`) that returns is a 200, one that aborts gives its status; no route 404; no method 405 -/
def servedStatus (aborts : Nat → Option Nat) : Served → Nat × Bool
  | .ran h _ _ _ => match aborts h with | some s => (s, true) | none => (200, false)
  | .notFoundHook h _ _ => match aborts h with | some s => (s, true) | none => (200, false)
  | .notFound => (404, true)
  | .notAllowed _ => (405, true)
  | .fault => (500, true)

/-- `Ombott._handle` + the `HTTPError` branch of `_cast`: `emit('before_request')`, `to_route`, `handler`,
`finally: emit('after_request')`; an exception of a hook becomes `HTTPError(500)`; an after hook that
raises replaces whatever was in flight -/
def App.request (ctx : Ctx) (app : App) (verb path : Str) : App × ReqResult :=
  let (app1, b) := app.emit ctx.hook "before_request".toList
  let (routed, st) : Routed × (Nat × Bool) :=
    match b.error with
    | some _ => (.skipped, (500, true))
    | none =>
      let s := app1.router.serve ctx.upper ctx.env verb path
      (.served s, servedStatus ctx.aborts s)
  let (app2, a) := app1.emit ctx.hook "after_request".toList
  let st := match a.error with | some _ => (500, true) | none => st
  let h := if st.2 then app2.errorHandlerFor st.1 else none
  let crit := match h with | some x => (ctx.aborts x).isSome | none => false
  (app2, { before := b.called, routed := routed, after := a.called, afterRaised := a.error.isSome, status := if crit then 500 else st.1,
           isError := st.2, handler := h, critical := crit })

/-! ## 8. the operations of a registration history -/

inductive Op
  /-- `app.route(rule, method, callback, name=…, overwrite=…)` -/
  | route (rule : Str) (method : Option Methods) (callback : Option Callback) (name : Option Str) (overwrite : Bool)
  /-- `@app.route(rule, method, name=…, overwrite=…)` over `cb` -/
  | routeDeco (rule : Str) (method : Option Methods) (name : Option Str) (overwrite : Bool) (cb : Callback)
  /-- `app.<attr>(rule, [second], callback=…, method=…, name=…, overwrite=…)` -/
  | shortcut (attr : String) (rule : Str) (second callback : Option Callback) (methodKw : Option Methods)
      (name : Option Str) (overwrite : Bool)
  /-- `@app.<attr>(rule, method=…, name=…, overwrite=…)` over `cb` -/
  | shortcutDeco (attr : String) (rule : Str) (methodKw : Option Methods) (name : Option Str) (overwrite : Bool)
      (cb : Callback)
  | addRoute (rule : Str) (method : Methods) (handler : Nat) (name : Option Str) (overwrite : Bool)
  | removeRoute (rule name routePattern : Option Str)
  | addHook (name : Str) (func : Nat)
  | on (name : Str) (func : Option Callback)
  | onDeco (name : Str) (func : Callback)
  | removeHook (name : Str) (func : Nat)
  | emit (name : Str)
  | onRoute (rule : Str) (func : Option Callback)
  | onRouteDeco (rule : Str) (func : Callback)
  | removeRouteHook (rule : Str)
  | error (code : CodeArg) (rule : Option Str) (handler : Nat)
  | request (verb path : Str)
  | setup

/-- what a step shows -/
inductive Out
  | ret (o : Outcome)
  | route (o : Except ErrName Nat)
  | emitted (e : Emitted)
  | req (r : ReqResult)

def App.step (ctx : Ctx) (app : App) : Op → App × Out
  | .route r m c n o => let (a, x) := app.route ctx.upper ctx.cenv r m c n o; (a, .ret x)
  | .routeDeco r m n o c => let (a, x) := app.routeDecorated ctx.upper ctx.cenv r m n o c; (a, .ret x)
  | .shortcut att r s c m n o => let (a, x) := app.shortcut ctx.upper ctx.cenv att r s c m n o; (a, .ret x)
  | .shortcutDeco att r m n o c => let (a, x) := app.shortcutDecorated ctx.upper ctx.cenv att r m n o c; (a, .ret x)
  | .addRoute r m h n o => let (a, x) := app.addRoute ctx.upper ctx.cenv r m h n o; (a, .route x)
  | .removeRoute r n p => let (a, x) := app.removeRoute ctx.cenv r n p; (a, .ret x)
  | .addHook n f => let (a, x) := app.addHook n f; (a, .ret x)
  | .on n f => let (a, x) := app.on n f; (a, .ret x)
  | .onDeco n f => let (a, x) := app.onDecorated n f; (a, .ret x)
  | .removeHook n f => let (a, x) := app.removeHook n f; (a, .ret x)
  | .emit n => let (a, x) := app.emit ctx.hook n; (a, .emitted x)
  | .onRoute r f => let (a, x) := app.onRoute ctx.cenv r f; (a, .ret x)
  | .onRouteDeco r f => let (a, x) := app.onRouteDecorated ctx.cenv r f; (a, .ret x)
  | .removeRouteHook r => let (a, x) := app.removeRouteHook ctx.cenv r; (a, .ret x)
  | .error c r h => let (a, x) := app.error ctx.cenv c r h; (a, .ret x)
  | .request v p => let (a, x) := app.request ctx v p; (a, .req x)
  | .setup => (app.setup, .ret (.ok .none))

/-- the application after a history, starting from `Ombott()` -/
def App.run (ctx : Ctx) (ops : List Op) : App := ops.foldl (fun a op => (a.step ctx op).1) App.init

/-! ## 9. `Globals`, `default_app()`, several applications -/

/-- the applications of a process: number 0 is `Globals.app` (created when the module is imported),
the others come from `Ombott()` calls -/
structure World where
  apps : List App := [App.init]

/-- `default_app()`: `return Globals.app` -/
def World.defaultApp : Nat := 0

/-- who a call is addressed to -/
inductive Target
  | app (i : Nat)                      -- a method of application `i`
  | alias (holder name : String)       -- `Globals.<name>` / `ombott.<name>`
  deriving DecidableEq, Repr

/-- the module-level names `route`, `on_route`, `error` (and `request`, `response`, `app`) of `Globals`
and of the package are bound methods / attributes of `Globals.app` (generated table, taken from the
live objects with `__self__` / `is`) -/
def aliasTarget (holder name : String) : Option Nat :=
  match Gen.raGlobalAliases.find? (fun a => a.1 == holder && a.2.1 == name) with
  | some (_, _, _, true) => some World.defaultApp
  | _ => none

/-- the method an alias stands for (`method:<name>` in the table) -/
def aliasMethod (holder name : String) : Option String :=
  match Gen.raGlobalAliases.find? (fun a => a.1 == holder && a.2.1 == name) with
  | some (_, _, kind, _) => if kind.startsWith "method:" then some (kind.drop 7).toString else none
  | none => none

def Target.index : Target → Option Nat
  | .app i => some i
  | .alias h n => aliasTarget h n

/-- does the op go through the method the alias is bound to -/
def Op.methodName : Op → String
  | .route .. | .routeDeco .. => "route"
  | .onRoute .. | .onRouteDeco .. => "on_route"
  | .error .. => "error"
  | _ => ""

def Target.accepts : Target → Op → Bool
  | .app _, _ => true
  | .alias h n, op => aliasMethod h n == some op.methodName

/-- one call somewhere in the process; `none`: no such application / no such alias -/
def World.step (ctx : Ctx) (w : World) (t : Target) (op : Op) : Option (World × Out) :=
  if !t.accepts op then none else
  match t.index with
  | none => none
  | some i =>
    match w.apps[i]? with
    | none => none
    | some app =>
      let (app', out) := app.step ctx op
      some ({ apps := w.apps.set i app' }, out)

/-- `Ombott()` somewhere else in the program -/
def World.newApp (w : World) : World := { apps := w.apps ++ [App.init] }

/-! ## 10. the module-level `run()` as decision logic -/

/-- the `server` argument: a name or a class / factory object (identity) -/
inductive ServerArg
  | name (s : String)
  | factory (id : Nat)
  deriving DecidableEq, Repr

/-- what `run()` is called with.  `app`: `none` = `None` / a falsy object; `appCallable`: `callable(app)`;
`serverQuiet`: the attribute `quiet` of the constructed server object -/
structure RunArgs where
  app : Option Nat := none
  appCallable : Bool := true
  server : ServerArg := .name "wsgiref"
  quiet : Bool := false
  serverQuiet : Bool := false

/-- who is served by what, and whether the banner is written -/
structure RunPlan where
  app : Nat                  -- identity of the application served; `0` stands for `default_app()`
  isDefaultApp : Bool
  server : String            -- class name for a named server, `factory:<id>` otherwise
  quiet : Bool               -- `server.quiet` after `server.quiet = server.quiet or quiet`
  banner : Bool              -- the start-up lines are written to stderr
  deriving DecidableEq, Repr

/-- `run(app, server, host, port, quiet, **kwargs)` up to `server.run(app)`:
`app = app or default_app()`; `if not callable(app): raise ValueError`; `if server in server_names: server =
server_names.get(server)`; `server = server(host=…, port=…, **kwargs)` (a `str` that is no server name is
not callable: `TypeError`); `server.quiet = server.quiet or quiet`; the banner unless quiet -/
def runPlan (a : RunArgs) : Except ErrName RunPlan :=
  let (app, dflt) := match a.app with | some x => (x, false) | none => (0, true)
  if !a.appCallable then .error "ValueError" else
  match a.server with
  | .name s =>
    match Gen.raServerNames.find? (·.1 == s) with
    | none => .error "TypeError"
    | some (_, cls) =>
      let q := a.serverQuiet || a.quiet
      .ok { app := app, isDefaultApp := dflt, server := cls, quiet := q, banner := !q }
  | .factory id =>
    let q := a.serverQuiet || a.quiet
    .ok { app := app, isDefaultApp := dflt, server := s!"factory:{id}", quiet := q, banner := !q }

end Ombott.RegApi
