import OmbottModel.Model.BodyMixin
/-
`_body_read` when the spool file cannot be created (C13): `TemporaryFile(mode='w+b')` raising
`OSError` at the switch (no usable temp directory, read-only file system, no descriptors left).

```
body.write(part); body_size += len(part)
if max_body_size is not None and body_size > max_body_size: raise BodySizeError()
if not is_temp_file and body_size > buff_size:
    body, tmp = TemporaryFile(mode='w+b'), body        # <- raises OSError
```
The loop is cut in the first iteration whose running size exceeds `buff_size`, unless the size check
just above it fires in that same iteration.  Both exits are "the first iteration whose running size
exceeds `min(max_body_size, buff_size)`", which is where the fault-free reader with that smaller
limit stops — so the faulty run is read off two fault-free runs instead of duplicating the loops of
`Model/Body.lean` / `Model/Chunked.lean`:
* the run with the limit `min(max_body_size, buff_size)` gives the stream calls made and, when it
  ends without a size error, the result (nothing ever outgrew the threshold: no switch attempted);
* it ends with a size error exactly in the cut iteration; the error raised there is `BodySizeError`
  when the run with the real limit stops in the same iteration (same stream offset: every
  iteration consumes at least one byte), `OSError` otherwise.
The correspondence run (`body readf`) compares this with the real `_body_read` under an unusable
`tempfile.tempdir`.
-/
namespace Ombott.Body
open Py Ombott.Chunked

/-- what `_body_read` ends with when the temporary file is not available -/
inductive FaultOut where
  | body (sk : Sink)       -- returned (an in-memory buffer)
  | err (e : Err)          -- a framing / size error of the reader
  | tmpFailed              -- the `OSError` of `TemporaryFile()` propagates
  deriving Repr

/-- `min(max_body_size, buff_size)` -/
def capOf (max : Option Nat) (buf : Nat) : Nat :=
  match max with
  | some m => min m buf
  | none => buf

def bodyReadF (buf : Nat) (cl : Int) (chunked : Bool) (max : Option Nat) (r : Rec) : FaultOut × Rec :=
  let a := bodyRead buf cl chunked max r
  let b := bodyRead buf cl chunked (some (capOf max buf)) r
  match b.1 with
  | .ok sk => (.body sk, b.2)
  | .error .bodySizeError =>
    match a.1 with
    | .error .bodySizeError => if a.2.pos = b.2.pos then (.err .bodySizeError, b.2) else (.tmpFailed, b.2)
    | _ => (.tmpFailed, b.2)
  | .error e => (.err e, b.2)

end Ombott.Body
