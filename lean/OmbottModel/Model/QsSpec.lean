import OmbottModel.Model.Qs
/-
The abstract reading of "single values as strings, repeated keys as lists in submission order"
that the list-promotion theorem of C18 targets.
-/
namespace Ombott.Qs
open Py

/-- all values submitted under key `k`, in submission order -/
def valuesOf (k : Str) (ps : List (Str × Str)) : List Str := (ps.filter (·.1 = k)).map (·.2)

/-- the distinct keys in order of first appearance -/
def firstKeys (ps : List (Str × Str)) : List Str :=
  ps.foldl (fun acc p => if p.1 ∈ acc then acc else acc ++ [p.1]) []

/-- one value stays a string, several become a list -/
def valOf : List Str → Val
  | [v] => .one v
  | vs => .many vs

/-- the dictionary a form with the submitted pairs `ps` must read as -/
def group (ps : List (Str × Str)) : Dict Val := (firstKeys ps).map fun k => (k, valOf (valuesOf k ps))

end Ombott.Qs

namespace Ombott.Qs
open Py

/-- the `while i < L` loop of `parse_qsl` run for at most `fuel` iterations; `none` = the budget
ran out before the loop condition became false.  Used only to *state* that `len + 1` iterations
always suffice (`Props/C18.lean`); the driver runs `loop`. -/
def loopFuel : Nat → Str → Nat → Option (List (Str × Str))
  | 0, _, _ => none
  | fuel + 1, qs, i =>
    if i < qs.length then
      match (step qs i).2 with
      | none => loopFuel fuel qs (step qs i).1
      | some p => (loopFuel fuel qs (step qs i).1).map (p :: ·)
    else some []

/-- the body bytes of an ASCII string -/
def asciiBytes (s : Str) : Bytes := s.map fun c => UInt8.ofNat c.toNat

end Ombott.Qs
