import OmbottModel.Model.Forms
/-
Several `BytesIOProxy` windows over ONE buffered body (C07).  `Model/Forms.lean` reads a window
statelessly (`srcRead body spooled start sz` = `src.seek(start); src.read(sz)`); here the source is
a file object with its own cursor, shared by every upload of the request and by `request.body`
itself, and the handler may interleave partial reads of several uploads and move the cursor of the
body in between.  `Proxy.readS` follows `BytesIOProxy.read` statement by statement over that state:
```
max_sz = self._end - self._pos
if max_sz <= 0: return b''
sz = min(sz, max_sz) if sz is not None and sz > 0 else max_sz
self._src.seek(self._pos)          # puts the shared cursor on this window, every time
self._pos += sz
return self._src.read(sz)
```
An exception (`seek` to a negative offset, a bad `whence`) is raised before any attribute changes,
so a handler that catches it goes on with the state as it was.
-/
namespace Ombott.Forms
open Py

/-- the buffered body as a file object: content, storage, cursor -/
structure Src where
  body : Bytes
  spooled : Bool
  cur : Int := 0
  deriving Repr, DecidableEq

/-- `src.seek(pos)`: negative is `ValueError` (BytesIO) / `OSError` (temporary file) -/
def Src.seek (s : Src) (pos : Int) : Except Exc Src :=
  if pos < 0 then .error (if s.spooled then .other "OSError" else .py .valueError)
  else .ok { s with cur := pos }

/-- `src.read(sz)` from the cursor (negative: to the end); the cursor moves past what was read -/
def Src.read (s : Src) (sz : Int) : Bytes × Src :=
  let rest := s.body.drop s.cur.toNat
  let b := if sz < 0 then rest else rest.take sz.toNat
  (b, { s with cur := s.cur + b.length })

/-- `BytesIOProxy.read(sz)` over the shared source -/
def Proxy.readS (p : Proxy) (s : Src) (sz : Option Int) : Except Exc (Bytes × Proxy × Src) :=
  let maxSz := p.en - p.pos
  if maxSz ≤ 0 then .ok ([], p, s)
  else
    let n := match sz with
      | some k => if k > 0 then min k maxSz else maxSz
      | none => maxSz
    match s.seek p.pos with
    | .error e => .error e
    | .ok s' => .ok ((s'.read n).1, { p with pos := p.pos + n }, (s'.read n).2)

/-- an operation on one window -/
inductive WOp where
  | read (sz : Option Int)
  | seek (pos : Int) (whence : Nat)
  | tell
  deriving Repr, DecidableEq

/-- an operation of the handler: on window `i`, or on the body itself (`request.body.read(k)`, `.seek(pos)`) -/
inductive SOp where
  | win (i : Nat) (op : WOp)
  | srcRead (sz : Int)
  | srcSeek (pos : Nat)
  deriving Repr, DecidableEq

inductive Out where
  | bytes (b : Bytes)
  | num (n : Int)
  | err (e : Exc)
  deriving Repr, DecidableEq

/-- one window operation over the shared source -/
def stepWin (p : Proxy) (s : Src) : WOp → Out × Proxy × Src
  | .read sz =>
    match p.readS s sz with
    | .ok (b, p', s') => (.bytes b, p', s')
    | .error e => (.err e, p, s)
  | .seek pos wh =>
    match p.seek pos wh with
    | .ok p' => (.num p'.tell, p', s)
    | .error e => (.err e, p, s)
  | .tell => (.num p.tell, p, s)

/-- the same operation on a window by itself (`Proxy.read` of `Model/Forms.lean`: no cursor) -/
def stepAlone (p : Proxy) (body : Bytes) (spooled : Bool) : WOp → Out × Proxy
  | .read sz =>
    match p.read body spooled sz with
    | .ok (b, p') => (.bytes b, p')
    | .error e => (.err e, p)
  | .seek pos wh =>
    match p.seek pos wh with
    | .ok p' => (.num p'.tell, p')
    | .error e => (.err e, p)
  | .tell => (.num p.tell, p)

/-- a handler's operation sequence over the windows of one request: the outputs, each tagged with
its window (`none` = the body itself) -/
def runShared (wins : List Proxy) (s : Src) : List SOp → List (Option Nat × Out)
  | [] => []
  | .win i op :: ops =>
    match wins[i]? with
    | none => runShared wins s ops
    | some p =>
      let r := stepWin p s op
      (some i, r.1) :: runShared (wins.set i r.2.1) r.2.2 ops
  | .srcRead sz :: ops => (none, .bytes (s.read sz).1) :: runShared wins (s.read sz).2 ops
  | .srcSeek pos :: ops => (none, .num pos) :: runShared wins { s with cur := pos } ops

/-- the operations of one window by itself -/
def runAlone (p : Proxy) (body : Bytes) (spooled : Bool) : List WOp → List Out
  | [] => []
  | op :: ops => (stepAlone p body spooled op).1 :: runAlone (stepAlone p body spooled op).2 body spooled ops

/-- the outputs of window `i` in a tagged run -/
def tagOf (i : Nat) (o : Option Nat × Out) : Option Out := if o.1 = some i then some o.2 else none

/-- the operations of the handler that address window `i` -/
def opsOf (i : Nat) : SOp → Option WOp
  | .win j op => if j = i then some op else none
  | _ => none

end Ombott.Forms
