import OmbottModel.Py
import OmbottModel.Py.Text
import OmbottModel.Py.CharLit
import OmbottModel.Py.Base64Lenient
import OmbottModel.Gen.Helpers
/-
Model of the small accessors of `ombott/request_pkg/props_mixin.py` that no other model covers:
`PropsMixin.auth` with its nested `parse_auth` (Basic scheme, base64 `user:pass`, `REMOTE_USER` fallback),
`remote_route` / `remote_addr` (`X-Forwarded-For` splitting, `REMOTE_ADDR` fallback) and `is_xhr` / `is_ajax`.
Each function takes what `self._env_get(KEY)` returned (`none` = the key is absent); the key names are the generated
`Gen.hpAuthKeys` / `hpRouteKeys` / `hpXhrKeys` (pinned in `Props/C15.lean`).  (`remote_route` also appears, as a
cached value, in `Model/EnvCache.lean`; `Props/C15.lean` proves the two agree.)
-/
namespace Ombott.ReqProps
open Py

/-- `str.lower()` restricted to what the comparisons below can see: ASCII letters are lowered, every other
character is left alone.  For the two words compared with (`'basic'`, `'xmlhttprequest'`) this decides the
comparison exactly as CPython's full `str.lower` does: the only non-ASCII characters whose lower-case form contains an
ASCII letter are U+212A (`'k'`) and U+0130 (`'i'` followed by U+0307), and neither word contains a `k` nor can
equal a string containing U+0307. -/
def lower (s : Str) : Str := s.map fun c => if isAsciiUpper c then c.toLower else c

/-- `header.split(None, 1)`: leading white space is skipped, the first run of non-white-space characters is the first
piece; if anything other than white space follows, the rest — leading white space removed, trailing kept — is the
second piece.  The result as a list of one or two pieces (or none). -/
def splitWs1 (s : Str) : List Str :=
  let s1 := s.dropWhile isWsChar
  if s1.isEmpty then []
  else
    let w := s1.takeWhile (fun c => !isWsChar c)
    let rest := (s1.dropWhile (fun c => !isWsChar c)).dropWhile isWsChar
    if rest.isEmpty then [w] else [w, rest]

/-- what can be raised inside `parse_auth`'s `try` block -/
inductive AErr
  | unpack              -- `ValueError`: not enough values to unpack (a `split` gave one piece, or none)
  | binascii            -- `binascii.Error` (a `ValueError`): the payload ends inside a base64 quad
  | unicodeDecode       -- `UnicodeDecodeError` (a `ValueError`): the decoded bytes are not UTF-8
  deriving Repr, DecidableEq

/-- `isinstance(e, (KeyError, ValueError))` -/
def AErr.caught : AErr → Bool
  | .unpack | .binascii | .unicodeDecode => true

/-- the body of the `try` in `parse_auth`
```
method, data = header.split(None, 1)
if method.lower() == 'basic':
    user, pwd = touni(base64.b64decode(tob(data))).split(':', 1)
    return user, pwd
```
(falling off the `if` returns `None`) -/
def parseAuthTry (header : Str) : Except AErr (Option (Str × Str)) :=
  match splitWs1 header with
  | [method, data] =>
    if lower method = cs!"basic" then
      match Crypto.b64decodeLenient (utf8Enc data) with          -- `base64.b64decode(tob(data))`
      | none => .error .binascii
      | some raw =>
        match utf8Dec raw with                                    -- `touni(…)`
        | none => .error .unicodeDecode
        | some text =>
          match splitFirst ':' text with                          -- `.split(':', 1)`
          | some (user, pwd) => .ok (some (user, pwd))
          | none => .error .unpack
    else .ok none
  | _ => .error .unpack

/-- `parse_auth(header)`: `except (KeyError, ValueError): return None` -/
def parseAuth (header : Str) : Except AErr (Option (Str × Str)) :=
  match parseAuthTry header with
  | .ok r => .ok r
  | .error e => if e.caught then .ok none else .error e

/-- `PropsMixin.auth`
```
basic = parse_auth(self._env_get('HTTP_AUTHORIZATION', ''))
if basic: return basic
ruser = self._env_get('REMOTE_USER')
if ruser: return (ruser, None)
return None
```
`authorization` / `remoteUser`: the environ values (`none` = absent).  The result is `(user, password)` with
`password = none` for Python's `None`. -/
def auth (authorization remoteUser : Option Str) : Except AErr (Option (Str × Option Str)) :=
  match parseAuth (authorization.getD []) with
  | .error e => .error e
  | .ok (some (u, p)) => .ok (some (u, some p))                  -- a 2-tuple is always truthy
  | .ok none =>
    match remoteUser with
    | some (c :: r) => .ok (some (c :: r, none))                  -- `if ruser:`
    | _ => .ok none

/-- `PropsMixin.remote_route`
```
proxy = self._env_get('HTTP_X_FORWARDED_FOR')
if proxy: return [ip.strip() for ip in proxy.split(',')]
remote = self._env_get('REMOTE_ADDR')
return [remote] if remote else []
``` -/
def remoteRoute (forwardedFor remoteAddr : Option Str) : List Str :=
  match forwardedFor with
  | some (c :: r) => (splitOn1 ',' (c :: r)).map strip
  | _ =>
    match remoteAddr with
    | some (c :: r) => [c :: r]
    | _ => []

/-- `PropsMixin.remote_addr`: `route = self.remote_route; return route[0] if route else None` -/
def remoteAddr (forwardedFor remoteAddr : Option Str) : Option Str := (remoteRoute forwardedFor remoteAddr).head?

/-- `'xmlhttprequest'` (generated) -/
def xhrToken : Str := Gen.hpXhrToken.toList

/-- `PropsMixin.is_xhr`: `self._env_get('HTTP_X_REQUESTED_WITH', '').lower() == 'xmlhttprequest'` -/
def isXhr (requestedWith : Option Str) : Bool := lower (requestedWith.getD []) = xhrToken

/-- `PropsMixin.is_ajax`: `return self.is_xhr` -/
def isAjax (requestedWith : Option Str) : Bool := isXhr requestedWith

/-! ### the client side of the round-trip statements -/

/-- the text of a byte string of ASCII characters -/
def asciiText (b : Bytes) : Str := b.map fun x => Char.ofNat x.toNat

/-- `'Basic ' + base64.b64encode((user + ':' + password).encode('utf8')).decode('ascii')` -/
def basicHeader (scheme sep : Str) (user password : Str) : Str :=
  scheme ++ sep ++ asciiText (Crypto.b64encode (utf8Enc (user ++ ':' :: password)))

/-- `(',' + sp).join(ips)`: how proxies append to `X-Forwarded-For` (`sp` = the white space after the comma) -/
def joinCommaSp (sp : Str) : List Str → Str
  | [] => []
  | [a] => a
  | a :: b :: r => a ++ ',' :: (sp ++ joinCommaSp sp (b :: r))

/-- `', '.join(ips)` -/
def joinComma (ips : List Str) : Str := joinCommaSp [' '] ips

end Ombott.ReqProps
