import OmbottModel.Py
import OmbottModel.Py.Text
import OmbottModel.Gen.Headers
/-
Model of the response header store and its emission (C14):
`ombott/common_helpers.py`: `_hval`, `HeaderDict.__setitem__/append/setdefault/__delitem__/clear`,
`HeaderProperty.__set__`; `ombott/response.py`: `BaseResponse.__init__`, the `status` setter,
`headerlist`, `HTTPError.__init__` + `HTTPResponse.apply`; `ombott/ombott.py`: the
`Content-Length` that `_cast` adds before `start_response`.
-/
namespace Ombott.Headers
open Py

/-- a Python value offered as a header value.  `float` carries the text `str(x)` produces (the
float printer is not modelled); `bytes`/`other` stand for every type `_hval` refuses. -/
inductive PyVal
  | str (s : Str)
  | int (i : Int)
  | float (text : Str)
  | bool (b : Bool)
  | none
  | bytes (b : Bytes)
  | other
  deriving Repr, DecidableEq

/-- `str(value)` for the accepted types -/
def pyStr : PyVal → Option Str
  | .str s => some s
  | .int i => some (intStr i)
  | .float t => some t
  | .bool true => some "True".toList
  | .bool false => some "False".toList
  | .none => some "None".toList
  | .bytes _ => Option.none
  | .other => Option.none

/-- `'\n' in value or '\r' in value or '\0' in value` -/
def hasCtl (s : Str) : Bool := s.contains '\n' || s.contains '\r' || s.contains '\x00'

/-- `_hval(value)` -/
def hval (v : PyVal) : Except Err Str :=
  match pyStr v with
  | Option.none => .error .typeError
  | some s => if hasCtl s then .error .valueError else .ok s

/-- a stored header: one value or (after a second `append`) a list -/
inductive Entry
  | one (v : Str)
  | many (vs : List Str)
  deriving Repr, DecidableEq

def Entry.vals : Entry → List Str
  | .one v => [v]
  | .many vs => vs

/-- the `dict` inside `HeaderDict`: insertion ordered, keys compared exactly (case-sensitive) -/
abbrev Store := List (Str × Entry)

def dget (d : Store) (k : Str) : Option Entry := (d.find? (·.1 == k)).map (·.2)

/-- `d[k] = e`: an existing key keeps its position -/
def dset : Store → Str → Entry → Store
  | [], k, e => [(k, e)]
  | (k', e') :: r, k, e => if k' == k then (k, e) :: r else (k', e') :: dset r k e

def ddel (d : Store) (k : Str) : Store := d.filter (·.1 != k)

/-- the response object as far as headers are concerned.  `status = none` is the state in which
`__init__` leaves `_status_code` when the status setter raised.  `cookies`: per morsel its
`OutputString()` (the quoting is C15's subject). -/
structure Resp where
  status : Option Nat
  store : Store
  cookies : List (Str × Str)
  deriving Repr, DecidableEq

/-- the three `HeaderProperty` attributes of `BaseResponse` -/
inductive HProp | contentType | contentLength | expires
  deriving Repr, DecidableEq

def HProp.name : HProp → Str
  | .contentType => "Content-Type".toList
  | .contentLength => "Content-Length".toList
  | .expires => "Expires".toList

/-- `writer(value)` of the property: only `expires` has one, `http_date`: a `str` is returned
as it is, anything else goes through `calendar`/`email.utils.formatdate`, whose outcome `fmt`
(text or exception) is a parameter. -/
def HProp.write (p : HProp) (v : PyVal) (fmt : Except Err Str) : Except Err PyVal :=
  match p, v with
  | .expires, .str s => .ok (.str s)
  | .expires, _ => fmt.map PyVal.str
  | _, v => .ok v

inductive Op
  | setitem (k : Str) (v : PyVal)                 -- `resp.headers[k] = v`
  | append (k : Str) (v : PyVal)                  -- `resp.headers.append(k, v)`
  | setdefault (k : Str) (v : PyVal)              -- `resp.headers.setdefault(k, v)`, `v` not a list
  | propSet (p : HProp) (v : PyVal) (fmt : Except Err Str)   -- `resp.content_type = v` …
  | delitem (k : Str)                             -- `del resp.headers[k]`
  | clear (ks : List Str)                         -- `resp.headers.clear(*ks)`
  | status (n : Int)                              -- `resp.status = n`
  | init (st : Option Int) (hdrs more : List (Str × PyVal))  -- `resp.__init__('', st, hdrs, **more)`
  | error (st : Option Int) (opts : List (Str × PyVal))      -- `HTTPError(st, '', **opts).apply(resp)`
  | initMap (st : Option Int) (keys : List Str) (more : List (Str × PyVal))
      -- `resp.__init__('', st, m, **more)` where `m` is a MAPPING THAT IS NOT A `dict` (a `HeaderDict`, another
      -- response's `.headers`, a mapping proxy) with these keys: only a `dict` is asked for its items
  | cookie (name out : Str)                       -- a `set_cookie` whose morsel prints as `out`
  deriving Repr

/-- `HeaderDict.__setitem__` -/
def setitem (d : Store) (k : Str) (v : PyVal) : Except Err Store := do
  let s ← hval v
  pure (dset d k (.one s))

/-- `HeaderDict.append` -/
def append (d : Store) (k : Str) (v : PyVal) : Except Err Store := do
  let s ← hval v
  pure (match dget d k with
    | Option.none => dset d k (.one s)
    | some (.many vs) => dset d k (.many (vs ++ [s]))
    | some (.one v0) => dset d k (.many [v0, s]))

/-- `HeaderDict.setdefault` with a non-list value (`_hval` runs before the lookup) -/
def setdefault (d : Store) (k : Str) (v : PyVal) : Except Err Store := do
  let s ← hval v
  pure (match dget d k with
    | Option.none => dset d k (.one s)
    | some _ => d)

/-- the loop `for name, value in …: self.headers.append(name, value)`; on an exception the
entries appended so far stay (the dict is mutated in place) -/
def appendAll : Store → List (Str × PyVal) → Store × Option Err
  | d, [] => (d, Option.none)
  | d, (k, v) :: r =>
    match append d k v with
    | .ok d' => appendAll d' r
    | .error e => (d, some e)

/-- the `status` setter for an `int` -/
def setStatus (n : Int) : Except Err Nat :=
  if 100 ≤ n ∧ n ≤ 999 then .ok n.toNat else .error .valueError

/-- `BaseResponse.__init__(body, status, headers, **more)` on an existing object: returns the
object as the (possibly raising) constructor leaves it. -/
def initResp (dflt : Nat) (st : Option Int) (hdrs more : List (Str × PyVal)) : Resp × Option Err :=
  let st' : Int := match st with
    | some n => if n == 0 then dflt else n          -- `status or self.default_status`
    | Option.none => dflt
  match setStatus st' with
  | .error e => ({ status := Option.none, store := [], cookies := [] }, some e)
  | .ok code =>
    match appendAll [] hdrs with
    | (d, some e) => ({ status := some code, store := d, cookies := [] }, some e)
    | (d, Option.none) =>
      let (d', e) := appendAll d more
      ({ status := some code, store := d', cookies := [] }, e)

/-- `for name, value in headers` over a mapping that is not a `dict`: iteration yields the KEYS, and each key
(a string) is unpacked into two targets - a key of exactly two characters gives (first, second), any other raises
`ValueError` ("too many / not enough values to unpack").  The values held by the mapping are never looked at. -/
def unpackKeys : List Str → List (Str × PyVal) × Option Err
  | [] => ([], Option.none)
  | [a, b] :: r => let (ps, e) := unpackKeys r; (([a], PyVal.str [b]) :: ps, e)
  | _ :: _ => ([], some .valueError)

/-- `BaseResponse.__init__(body, status, m, **more)` with such a mapping `m` (an empty one is falsy: skipped) -/
def initRespMap (dflt : Nat) (st : Option Int) (keys : List Str) (more : List (Str × PyVal)) : Resp × Option Err :=
  match unpackKeys keys with
  | (ps, Option.none) => initResp dflt st ps more
  | (ps, some err) =>
    match initResp dflt st ps [] with
    | (r, some e) => (r, some e)          -- the status setter or an earlier `append` raised first
    | (r, Option.none) => (r, some err)

/-- one operation: the new state and the exception raised, if any -/
def step (r : Resp) : Op → Resp × Option Err
  | .setitem k v => match setitem r.store k v with
    | .ok d => ({ r with store := d }, Option.none)
    | .error e => (r, some e)
  | .append k v => match append r.store k v with
    | .ok d => ({ r with store := d }, Option.none)
    | .error e => (r, some e)
  | .setdefault k v => match setdefault r.store k v with
    | .ok d => ({ r with store := d }, Option.none)
    | .error e => (r, some e)
  | .propSet p v fmt => match p.write v fmt with
    | .error e => (r, some e)
    | .ok v' => match setitem r.store p.name v' with
      | .ok d => ({ r with store := d }, Option.none)
      | .error e => (r, some e)
  | .delitem k => match dget r.store k with
    | Option.none => (r, some .keyError)
    | some _ => ({ r with store := ddel r.store k }, Option.none)
  | .clear ks =>
    if ks.isEmpty then ({ r with store := [] }, Option.none)
    else ({ r with store := ks.foldl ddel r.store }, Option.none)
  | .status n => match setStatus n with
    | .ok c => ({ r with status := some c }, Option.none)
    | .error e => (r, some e)
  | .init st hdrs more => initResp Gen.defaultStatus st hdrs more
  | .initMap st keys more => initRespMap Gen.defaultStatus st keys more
  | .error st opts =>
    match initResp Gen.errorDefaultStatus st [] opts with
    | (_, some e) => (r, some e)                       -- the constructor raised: nothing to apply
    | (e, Option.none) => ({ r with status := e.status, store := e.store }, Option.none)
  | .cookie name out =>
    ({ r with cookies := if r.cookies.any (·.1 == name)
                         then r.cookies.map fun c => if c.1 == name then (name, out) else c
                         else r.cookies ++ [(name, out)] }, Option.none)

/-- a handler body: each operation in its own `try`, outcomes recorded -/
def run : Resp → List Op → Resp × List (Option Err)
  | r, [] => (r, [])
  | r, op :: ops =>
    let (r', e) := step r op
    let (r'', es) := run r' ops
    (r'', e :: es)

/-- `Response()` after `__init__()` -/
def Resp.fresh : Resp := { status := some Gen.defaultStatus, store := [], cookies := [] }

/-- `self.bad_headers.get(self._status_code)`, `none` also for an empty set (falsy) -/
def badFor (st : Option Nat) : Option (List Str) :=
  match st with
  | Option.none => Option.none
  | some code =>
    match Gen.badHeaders.find? (·.1 == code) with
    | some (_, names) => if names.isEmpty then Option.none else some (names.map String.toList)
    | Option.none => Option.none

/-- the headers that pass the per-status blacklist -/
def visible (r : Resp) : Store :=
  match badFor r.status with
  | some bad => r.store.filter fun h => !(bad.contains (title h.1))
  | Option.none => r.store

/-- the part of `headerlist` that comes from the store -/
def storePart (r : Resp) : List (Str × Str) :=
  (visible r).flatMap fun h => h.2.vals.map fun v => (h.1, transcode v)

def needCtype (r : Resp) : Bool :=
  match badFor r.status with
  | some _ => false
  | Option.none => !(r.store.any (·.1 == "Content-Type".toList))

def ctypePart (r : Resp) : List (Str × Str) :=
  if needCtype r then [("Content-Type".toList, Gen.defaultContentType.toList)] else []

def cookiePart (r : Resp) : List (Str × Str) :=
  r.cookies.map fun c => ("Set-Cookie".toList, transcode c.2)

/-- `BaseResponse.headerlist` -/
def headerlist (r : Resp) : List (Str × Str) := storePart r ++ ctypePart r ++ cookiePart r

/-- the header list of the last-resort 500 page of `Ombott.wsgi` (a literal in the source) -/
def catchAllHeaders : List (Str × Str) := [("Content-Type".toList, "text/html; charset=UTF-8".toList)]

/-- what `Ombott.wsgi` hands to `start_response` after a handler that ran `ops` (each in its own
`try`) and returned a body of `bodyLen` bytes: `_cast` does `setdefault('Content-Length', len)`
first.  A response whose status was lost (`__init__` with a refused status inside the handler)
makes the body-suppression test `100 <= _status_code` raise: `none` = the catch-all 500 page. -/
def wsgiHeaders (ops : List Op) (bodyLen : Nat) : Resp × List (Option Err) × Option (List (Str × Str)) :=
  let (r, es) := run Resp.fresh ops
  let r' := (step r (.setdefault "Content-Length".toList (.int bodyLen))).1
  match r'.status with
  | some _ => (r', es, some (headerlist r'))
  | Option.none => (r', es, Option.none)

end Ombott.Headers
