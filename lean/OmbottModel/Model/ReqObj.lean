import OmbottModel.Py
import OmbottModel.Py.CharLit
import OmbottModel.Model.EnvCache
import OmbottModel.Model.TsProps
import OmbottModel.Model.Cookies
import OmbottModel.Gen.Reqobj
/-!
The request OBJECT protocol of `ombott/request_pkg/request.py`: `BaseRequest.__new__`, `__init__`,
`setup`, `on` / `off` / `emit`, `get`, `keys`, `__iter__`, `__len__`, `__getitem__`, `__setitem__`,
`__delitem__`, `__getattr__`, `__setattr__`, `copy`, `_raise`, `_copy_error`, and the part of
`ts_props('environ', '_env_get')` that decides which attributes are per thread.

* Keys, plain values and the table of cache keys an assignment drops are those of
  `Model/EnvCache.lean` (`Key`, `Val`, `todelete` over the generated `Gen.ecArms`).  The environ
  here may also hold OBJECTS (`RVal`): a request (the entry `ombott.request`), a value with a
  `__get__` method, a reference to a mutable value shared by a shallow copy.  The association-list
  operations are instantiated at that wider value type; `Lemmas/ReqObjEnv.lean` proves them equal
  to `EnvCache.Env.get? / set / del` under the embedding `RVal.plain`.
* One `Request` object (`Req`) = the `_ts_props` store (thread ↦ environ; `_env_get` is always the
  `get` of that same dict because only the `environ` setter assigns it) + the ordinary slots
  `__listeners__` and `config`.  `World` = all request objects, the shared mutable values, the
  removers returned by `on`, and the log written by recording listeners.
* Where Python raises the functions return `Except Err`; an exception does not undo what was done
  before it was raised (`step` returns the world it was raised in).
-/
namespace Ombott.ReqObj
open Py
open Ombott.EnvCache (Key Val todelete)
open Ombott.TsProps (ThreadId)

/-- an environ value: a plain value of the cache-layer model, or an object -/
inductive RVal
  | plain (v : Val)
  | req (i : Nat)        -- a `Request` object (identity)
  | desc (tag : Str)     -- an object with `__get__`: `getter(request)` answers `(tag, request)`
  | cell (id : Nat)      -- a mutable object (identity), contents in `World.cells`
  deriving Repr, DecidableEq

abbrev REnv := List (Key × RVal)

def REnv.get? : REnv → Key → Option RVal
  | [], _ => none
  | (k', v) :: r, k => if k' = k then some v else REnv.get? r k

/-- `environ[k] = v`: an existing key keeps its place -/
def REnv.set : REnv → Key → RVal → REnv
  | [], k, v => [(k, v)]
  | (k', v') :: r, k, v => if k' = k then (k, v) :: r else (k', v') :: REnv.set r k v

/-- `environ.pop(k, None)` / `del environ[k]` of a present key -/
def REnv.del (e : REnv) (k : Key) : REnv := e.filter fun p => p.1 ≠ k

def REnv.keys (e : REnv) : List Key := e.map (·.1)

def kSelf : Key := Gen.roSelfKey.toList
def kReadonly : Key := Gen.roReadonlyKey.toList
def extKey (name : Str) : Key := Gen.roExtPrefix.toList ++ name
def evChanged : Str := Gen.roEvent.toList

/-- a callback registered with `on` -/
inductive Cb
  | builtin                      -- `cls._on_env_changed`
  | recd (n : Nat)               -- `lambda req, *a: log.append((n, req, a))`
  | once (e : Str) (n : Nat)     -- logs, then `req.off(e, <itself>)` (the remover `on(e, cb)` returned)
  | adder (e : Str) (n m : Nat)  -- logs, then `req.on(e, <recd m>)`
  deriving Repr, DecidableEq

abbrev Listeners := List (Str × List Cb)

def Listeners.get? : Listeners → Str → Option (List Cb)
  | [], _ => none
  | (e', l) :: r, e => if e' = e then some l else Listeners.get? r e

def Listeners.set : Listeners → Str → List Cb → Listeners
  | [], e, l => [(e, l)]
  | (e', l') :: r, e, l => if e' = e then (e, l) :: r else (e', l') :: Listeners.set r e l

/-- `RequestConfig.get_from(src)`: every key of `RequestConfig` from `src`, else the default
(values by their `repr`) -/
abbrev Config := List (String × String)

def lookupS (l : List (String × String)) (k : String) : Option String :=
  (l.find? (·.1 = k)).map (·.2)

def getFrom (src : Option (List (String × String))) : Config :=
  Gen.roConfigDefaults.map fun (k, d) => (k, (lookupS (src.getD []) k).getD d)

/-- one `Request` object -/
structure Req where
  tl : List (ThreadId × Option REnv)   -- `_ts_props`: thread ↦ `environ` (`none` = `None`; a thread
                                       -- that never ran `__init__` reads `None` too: `__getattr__`)
  listeners : Listeners                -- `__listeners__`
  config : Config
  deriving Repr, DecidableEq

def tlGet : List (ThreadId × Option REnv) → ThreadId → Option REnv
  | [], _ => none
  | (t', e) :: r, t => if t' = t then e else tlGet r t

def tlSet : List (ThreadId × Option REnv) → ThreadId → Option REnv → List (ThreadId × Option REnv)
  | [], t, e => [(t, e)]
  | (t', e') :: r, t, e => if t' = t then (t, e) :: r else (t', e') :: tlSet r t e

/-- `self.environ` as thread `t` sees it -/
def Req.env (r : Req) (t : ThreadId) : Option REnv := tlGet r.tl t

def Req.setEnv (r : Req) (t : ThreadId) (e : REnv) : Req := { r with tl := tlSet r.tl t (some e) }

/-- what a recording listener appended to the log: its number, the request it was called with, the
arguments -/
structure Ev where
  n : Nat
  req : Nat
  args : List RVal
  deriving Repr, DecidableEq

structure World where
  reqs : List Req
  cells : List (List Str) := []
  removers : List (Nat × Str × Cb) := []     -- what `on` returned: `lambda: self.__listeners__[e].remove(cb)`
  log : List Ev := []
  deriving Repr, DecidableEq

def World.setReq (w : World) (i : Nat) (r : Req) : World := { w with reqs := w.reqs.set i r }

/-! ### `on`, `off`, `emit` -/

/-- `BaseRequest.on`
```
if e not in self.__listeners__: self.__listeners__[e] = []
self.__listeners__[e].append(cb)
return lambda: self.__listeners__[e].remove(cb)
``` -/
def onL (l : Listeners) (e : Str) (cb : Cb) : Listeners :=
  l.set e ((l.get? e).getD [] ++ [cb])

/-- `BaseRequest.off`: `self.__listeners__[e].remove(cb)` — `KeyError` for an unknown event,
`ValueError` when the callback is not in the list; removes the FIRST equal entry -/
def offL (l : Listeners) (e : Str) (cb : Cb) : Except Err Listeners :=
  match l.get? e with
  | none => .error .keyError
  | some cbs => if cbs.contains cb then .ok (l.set e (cbs.erase cb)) else .error .valueError

/-- `BaseRequest._on_env_changed(request, key, v)`: `[env.pop('ombott.request.' + key, None) for key
in todelete]` with `todelete` from the table probed on the live method -/
def onEnvChanged (e : REnv) (k : Key) : REnv := (todelete k).foldl REnv.del e

/-- what calling one callback did to the list being iterated by `emit` -/
inductive Eff
  | same
  | removedHere            -- the first entry equal to the running callback left the iterated list
  | appendedHere (m : Nat) -- `recd m` was appended to the iterated list
  deriving Repr, DecidableEq

/-- `cb(self, *a)` for request `i` in thread `t` while `emit(e, *a)` iterates.  The world returned is
the one the callback left behind, also when it raised. -/
def callCb (w : World) (t : ThreadId) (i : Nat) (e : Str) (args : List RVal) (cb : Cb) :
    World × Except Err Eff :=
  match w.reqs[i]? with
  | none => (w, .error .indexError)
  | some r =>
    match cb with
    | .builtin =>
      match args with
      | [.plain (.str k), _] =>
        if (todelete k).isEmpty then (w, .ok .same)      -- the comprehension over `()` touches nothing
        else
          match r.env t with
          | none => (w, .error .attributeError)          -- `env.pop` on `None`
          | some env => (w.setReq i (r.setEnv t (onEnvChanged env k)), .ok .same)
      | [_, _] => (w, .error .attributeError)            -- `key.startswith` on a non-string
      | _ => (w, .error .typeError)                      -- wrong number of arguments
    | .recd n => ({ w with log := w.log ++ [⟨n, i, args⟩] }, .ok .same)
    | .once e' n =>
      let w1 : World := { w with log := w.log ++ [Ev.mk n i args] }
      match offL r.listeners e' cb with
      | .error x => (w1, .error x)
      | .ok l => (w1.setReq i { r with listeners := l }, .ok (if e' = e then .removedHere else .same))
    | .adder e' n m =>
      let w1 : World := { w with log := w.log ++ [Ev.mk n i args] }
      (w1.setReq i { r with listeners := onL r.listeners e' (.recd m) },
       .ok (if e' = e then .appendedHere m else .same))

/-- the tail of `emit`: the callbacks appended while it ran (all of the form `recd m`) -/
def emitAdded (t : ThreadId) (i : Nat) (e : Str) (args : List RVal) : List Nat → World → World × Option Err
  | [], w => (w, none)
  | m :: r, w =>
    match callCb w t i e args (.recd m) with
    | (w', .error x) => (w', some x)
    | (w', .ok _) => emitAdded t i e args r w'

/-- `[cb(self, *a, **kw) for cb in self.__listeners__[e]]`: the comprehension walks the LIVE list by
index.  `pending` = the entries after the running one as they are now, `added` = what was appended
during this `emit`.  A callback that removes itself shifts the rest left: the next entry is
skipped.  An exception ends the walk; what ran before it stays done. -/
def emitLoop (t : ThreadId) (i : Nat) (e : Str) (args : List RVal) :
    List Cb → List Nat → World → World × Option Err
  | [], added, w => emitAdded t i e args added w
  | [cb], added, w =>
    match callCb w t i e args cb with
    | (w', .error x) => (w', some x)
    | (w', .ok .same) => emitAdded t i e args added w'
    | (w', .ok .removedHere) => emitAdded t i e args (added.drop 1) w'
    | (w', .ok (.appendedHere m)) => emitAdded t i e args (added ++ [m]) w'
  | cb :: nxt :: rest, added, w =>
    match callCb w t i e args cb with
    | (w', .error x) => (w', some x)
    | (w', .ok .same) => emitLoop t i e args (nxt :: rest) added w'
    | (w', .ok .removedHere) => emitLoop t i e args rest added w'
    | (w', .ok (.appendedHere m)) => emitLoop t i e args (nxt :: rest) (added ++ [m]) w'

/-- `BaseRequest.emit`
```
if e not in self.__listeners__: return
[cb(self, *a, **kw) for cb in self.__listeners__[e]]
``` -/
def emit (w : World) (t : ThreadId) (i : Nat) (e : Str) (args : List RVal) : World × Option Err :=
  match w.reqs[i]? with
  | none => (w, some .indexError)
  | some r =>
    match r.listeners.get? e with
    | none => (w, none)
    | some cbs => emitLoop t i e args cbs [] w

/-! ### construction -/

/-- `BaseRequest.__new__`: `self.__listeners__ = {}; self.on('env_changed', cls._on_env_changed);
self.config = RequestConfig.get_from(config)` -/
def newReq (cfg : Option (List (String × String))) : Req :=
  { tl := [], listeners := onL [] evChanged .builtin, config := getFrom cfg }

/-- `BaseRequest.__init__` behind `ts_props`' `init_wrapper` in thread `t`
```
[setattr(local_store, k, None) for k in props]
self.environ = {} if environ is None else environ      # the setter also binds `_env_get`
self.environ['ombott.request'] = self
``` -/
def initReq (r : Req) (t : ThreadId) (i : Nat) (environ : Option REnv) : Req :=
  r.setEnv t ((environ.getD []).set kSelf (.req i))

/-- `BaseRequest.setup`: `self.config = RequestConfig.get_from(config)` -/
def setupReq (r : Req) (cfg : Option (List (String × String))) : Req := { r with config := getFrom cfg }

/-! ### the mapping protocol -/

def eqInt : Val → Option Int
  | .int i => some i
  | .bool b => some (if b then 1 else 0)
  | _ => none

/-- `a is b or a == b` as `env[key] in [value]` tests it (`True == 1`; objects by identity) -/
def pyEq (a b : RVal) : Bool :=
  a == b ||
  match a, b with
  | .plain x, .plain y => (match eqInt x, eqInt y with | some i, some j => i == j | _, _ => false)
  | _, _ => false

/-- truth value of a plain value -/
def truthyVal : Val → Bool
  | .str s => !s.isEmpty
  | .none => false
  | .bool b => b
  | .int i => i != 0
  | .strs l => !l.isEmpty
  | .pairs d => !d.isEmpty
  | .dict d => !d.isEmpty
  | .bytes b => !b.isEmpty
  | _ => true

/-- truth value of what `_env_get(k)` returned in thread `t` (`Request` has `__len__`) -/
def truthy (w : World) (t : ThreadId) : Option RVal → Except Err Bool
  | none => .ok false
  | some (.plain v) => .ok (truthyVal v)
  | some (.req j) =>
    match w.reqs[j]? with
    | none => .error .indexError
    | some r => (match r.env t with | none => .error .typeError | some e => .ok (e.length != 0))
  | some _ => .ok true

/-- `BaseRequest.get`: `self._env_get(value, default)` (`_env_get` is `None` in a thread that has no
environ: `TypeError`) -/
def getR (r : Req) (t : ThreadId) (k : Key) (d : Option RVal) : Except Err (Option RVal) :=
  match r.env t with
  | none => .error .typeError
  | some e => .ok (match e.get? k with | some v => some v | none => d)

/-- `BaseRequest.keys` / `BaseRequest.__iter__`: `self.environ.keys()` / `iter(self.environ)` -/
def keysR (r : Req) (t : ThreadId) (iter : Bool) : Except Err (List Key) :=
  match r.env t with
  | none => .error (if iter then .typeError else .attributeError)
  | some e => .ok e.keys

/-- `BaseRequest.__len__`: `len(self.environ)` -/
def lenR (r : Req) (t : ThreadId) : Except Err Nat :=
  match r.env t with
  | none => .error .typeError
  | some e => .ok e.length

/-- `BaseRequest.__getitem__`: `self.environ[key]` -/
def getItemR (r : Req) (t : ThreadId) (k : Key) : Except Err RVal :=
  match r.env t with
  | none => .error .typeError
  | some e => (match e.get? k with | some v => .ok v | none => .error .keyError)

/-- `key in env and env[key] in [value]` -/
def unchanged (env : REnv) (k : Key) (v : RVal) : Bool :=
  match env.get? k with
  | some old => pyEq old v
  | none => false

/-- `BaseRequest.__setitem__`
```
if self._env_get('ombott.request.readonly'): raise KeyError('The environ dictionary is read-only.')
env = self.environ
if key in env and env[key] in [value]: return
env[key] = value
self.emit('env_changed', key, value)
```
The world in the second component is the one the exception (if any) was raised in. -/
def setItem (w : World) (t : ThreadId) (i : Nat) (k : Key) (v : RVal) : Except Err Unit × World :=
  match w.reqs[i]? with
  | none => (.error .indexError, w)
  | some r =>
    match r.env t with
    | none => (.error .typeError, w)
    | some env =>
      match truthy w t (env.get? kReadonly) with
      | .error x => (.error x, w)
      | .ok true => (.error .keyError, w)
      | .ok false =>
        if unchanged env k v then (.ok (), w)
        else
          let w1 := w.setReq i (r.setEnv t (env.set k v))
          match emit w1 t i evChanged [.plain (.str k), v] with
          | (w2, none) => (.ok (), w2)
          | (w2, some x) => (.error x, w2)   -- the assignment and the listeners that ran stay done

/-- `BaseRequest.__delitem__`: `self[key] = ""; del self.environ[key]` -/
def delItem (w : World) (t : ThreadId) (i : Nat) (k : Key) : Except Err Unit × World :=
  match setItem w t i k (.plain (.str [])) with
  | (.error x, w') => (.error x, w')
  | (.ok (), w') =>
    match w'.reqs[i]? with
    | none => (.error .indexError, w')
    | some r =>
      match r.env t with
      | none => (.error .typeError, w')
      | some env =>
        if (env.get? k).isSome then (.ok (), w'.setReq i (r.setEnv t (env.del k)))
        else (.error .keyError, w')       -- only when a listener removed the key again

/-! ### attributes -/

/-- what reading an attribute answers -/
inductive Attr
  | val (v : RVal)
  | got (tag : Str) (req : Nat)                -- `var.__get__(self)`
  | environ (e : Option REnv)
  | envGet (bound : Bool)                      -- `_env_get`: the `get` of the current environ, or `None`
  | listeners (l : Listeners)
  | config (c : Config)
  | store                                      -- `_ts_props`
  deriving Repr, DecidableEq

/-- attribute read.  The slots are found by normal lookup (`environ` / `_env_get` through the
`ts_props` properties, whose `AttributeError` in a thread without a value falls back to
`__getattr__`, which answers `None` for slot names); everything else is `BaseRequest.__getattr__`
```
if name in self.__slots__: return
try:
    var = self.environ['ombott.request.ext.%s' % name]
    getter = getattr(var, '__get__', None)
    return getter(self) if getter else var
except KeyError: raise AttributeError('Attribute %r not defined.' % name)
``` -/
def getAttr (r : Req) (t : ThreadId) (i : Nat) (name : Str) : Except Err Attr :=
  if Gen.roSlots.contains (String.ofList name) then
    if name = cs!"environ" then .ok (.environ (r.env t))
    else if name = cs!"_env_get" then .ok (.envGet (r.env t).isSome)
    else if name = cs!"__listeners__" then .ok (.listeners r.listeners)
    else if name = cs!"config" then .ok (.config r.config)
    else .ok .store
  else
    match r.env t with
    | none => .error .typeError
    | some e =>
      match e.get? (extKey name) with
      | none => .error .attributeError
      | some (.desc tag) => .ok (.got tag i)
      | some v => .ok (.val v)

/-- `BaseRequest.__setattr__` for a name outside `__slots__`:
`self.environ['ombott.request.ext.%s' % name] = value` — written to the environ directly: no
read-only test, no `is`/`==` short cut, no listeners.  Slot names (`object.__setattr__`; `environ`
also rebinding `_env_get`) are the operations `init` / `setup` / `setEnviron`; `none` here. -/
def setAttr (r : Req) (t : ThreadId) (name : Str) (v : RVal) : Option (Except Err Req) :=
  if Gen.roSlots.contains (String.ofList name) then none
  else
    match r.env t with
    | none => some (.error .typeError)
    | some e => some (.ok (r.setEnv t (e.set (extKey name) v)))

/-- `BaseRequest.copy`: `self.__class__(self.environ.copy(), config=self.config)` run by thread `t`:
a new object with the listeners of `__new__`, the configuration re-read from `self.config`, and in
thread `t` a new dict with the same entries whose `ombott.request` entry is the new object -/
def copyReq (r : Req) (t : ThreadId) (new : Nat) : Except Err Req :=
  match r.env t with
  | none => .error .attributeError
  | some e => .ok (initReq (newReq (some r.config)) t new (some e))

/-! ### operations of a handler (thread `t`, request object `i`) -/

inductive Op
  | new (t : ThreadId) (environ : Option (List (Key × RVal))) (cfg : Option (List (String × String)))
  | init (t : ThreadId) (i : Nat) (environ : Option (List (Key × RVal)))   -- `request.__init__(environ)`
  | setEnviron (t : ThreadId) (i : Nat) (environ : List (Key × RVal))      -- `request.environ = {…}`
  | setup (i : Nat) (cfg : Option (List (String × String)))
  | on (i : Nat) (e : Str) (cb : Cb)
  | off (i : Nat) (e : Str) (cb : Cb)
  | remover (n : Nat)                         -- call what the `n`-th `on` returned
  | emit (t : ThreadId) (i : Nat) (e : Str) (args : List RVal)
  | get (t : ThreadId) (i : Nat) (k : Key) (d : Option RVal)
  | keys (t : ThreadId) (i : Nat)
  | iter (t : ThreadId) (i : Nat)
  | len (t : ThreadId) (i : Nat)
  | getItem (t : ThreadId) (i : Nat) (k : Key)
  | setItem (t : ThreadId) (i : Nat) (k : Key) (v : RVal)
  | delItem (t : ThreadId) (i : Nat) (k : Key)
  | getAttr (t : ThreadId) (i : Nat) (name : Str)
  | setAttr (t : ThreadId) (i : Nat) (name : Str) (v : RVal)
  | copy (t : ThreadId) (i : Nat)
  | push (c : Nat) (s : Str)                  -- mutate the shared value `c` in place
  | cell (c : Nat)                            -- read it
  deriving Repr, DecidableEq

/-- the dict literal handed to `__init__`: later duplicates overwrite -/
def mkEnv (l : List (Key × RVal)) : REnv := l.foldl (fun e p => e.set p.1 p.2) []

inductive Ans
  | unit
  | created (i : Nat)
  | val (v : Option RVal)
  | keys (l : List Key)
  | len (n : Nat)
  | attr (a : Attr)
  | strs (l : List Str)
  | err (e : Err)
  | unmodelled
  deriving Repr, DecidableEq

def ofExcept {α} (f : α → Ans) : Except Err α → Ans
  | .ok a => f a
  | .error e => .err e

/-- one operation: the world afterwards and the answer -/
def step (w : World) : Op → World × Ans
  | .new t environ cfg =>
    let i := w.reqs.length
    ({ w with reqs := w.reqs ++ [initReq (newReq cfg) t i (environ.map mkEnv)] }, .created i)
  | .init t i environ =>
    match w.reqs[i]? with
    | none => (w, .err .indexError)
    | some r => (w.setReq i (initReq r t i (environ.map mkEnv)), .unit)
  | .setEnviron t i environ =>
    match w.reqs[i]? with
    | none => (w, .err .indexError)
    | some r => (w.setReq i (r.setEnv t (mkEnv environ)), .unit)
  | .setup i cfg =>
    match w.reqs[i]? with
    | none => (w, .err .indexError)
    | some r => (w.setReq i (setupReq r cfg), .unit)
  | .on i e cb =>
    match w.reqs[i]? with
    | none => (w, .err .indexError)
    | some r =>
      ({ w.setReq i { r with listeners := onL r.listeners e cb } with removers := w.removers ++ [(i, e, cb)] },
       .created w.removers.length)
  | .off i e cb =>
    match w.reqs[i]? with
    | none => (w, .err .indexError)
    | some r =>
      match offL r.listeners e cb with
      | .error x => (w, .err x)
      | .ok l => (w.setReq i { r with listeners := l }, .unit)
  | .remover n =>
    match w.removers[n]? with
    | none => (w, .err .indexError)
    | some (i, e, cb) =>
      match w.reqs[i]? with
      | none => (w, .err .indexError)
      | some r =>
        match offL r.listeners e cb with
        | .error x => (w, .err x)
        | .ok l => (w.setReq i { r with listeners := l }, .unit)
  | .emit t i e args =>
    match emit w t i e args with
    | (w', none) => (w', .unit)
    | (w', some x) => (w', .err x)
  | .get t i k d =>
    match w.reqs[i]? with
    | none => (w, .err .indexError)
    | some r => (w, ofExcept .val (getR r t k d))
  | .keys t i =>
    match w.reqs[i]? with
    | none => (w, .err .indexError)
    | some r => (w, ofExcept .keys (keysR r t false))
  | .iter t i =>
    match w.reqs[i]? with
    | none => (w, .err .indexError)
    | some r => (w, ofExcept .keys (keysR r t true))
  | .len t i =>
    match w.reqs[i]? with
    | none => (w, .err .indexError)
    | some r => (w, ofExcept .len (lenR r t))
  | .getItem t i k =>
    match w.reqs[i]? with
    | none => (w, .err .indexError)
    | some r => (w, ofExcept (fun v => .val (some v)) (getItemR r t k))
  | .setItem t i k v =>
    match setItem w t i k v with
    | (.ok (), w') => (w', .unit)
    | (.error x, w') => (w', .err x)
  | .delItem t i k =>
    match delItem w t i k with
    | (.ok (), w') => (w', .unit)
    | (.error x, w') => (w', .err x)
  | .getAttr t i name =>
    match w.reqs[i]? with
    | none => (w, .err .indexError)
    | some r => (w, ofExcept .attr (getAttr r t i name))
  | .setAttr t i name v =>
    match w.reqs[i]? with
    | none => (w, .err .indexError)
    | some r =>
      match setAttr r t name v with
      | none => (w, .unmodelled)
      | some (.error x) => (w, .err x)
      | some (.ok r') => (w.setReq i r', .unit)
  | .copy t i =>
    match w.reqs[i]? with
    | none => (w, .err .indexError)
    | some r =>
      match copyReq r t w.reqs.length with
      | .error x => (w, .err x)
      | .ok c => ({ w with reqs := w.reqs ++ [c] }, .created w.reqs.length)
  | .push c s =>
    match w.cells[c]? with
    | none => (w, .err .indexError)
    | some l => ({ w with cells := w.cells.set c (l ++ [s]) }, .unit)
  | .cell c =>
    match w.cells[c]? with
    | none => (w, .err .indexError)
    | some l => (w, .strs l)

/-- the answers of an operation sequence, in order, and the final world -/
def run : World → List Op → World × List Ans
  | w, [] => (w, [])
  | w, op :: ops =>
    let (w1, a) := step w op
    let (w2, as) := run w1 ops
    (w2, a :: as)

def World.init (cells : List (List Str)) : World := { reqs := [], cells := cells }

/-! ### `_raise` and `_copy_error` -/

/-- a header value of `BaseResponse._headers`: a string, or a reference to a list object -/
inductive HRef
  | one (s : Str)
  | ref (id : Nat)
  deriving Repr, DecidableEq

/-- an `HTTPError` / `HTTPResponse` object -/
structure ErrObj where
  cls : String
  code : Nat
  line : Str
  body : Str
  headers : List (Str × HRef)
  cookies : Option Nat            -- `_cookies`: `None` or a `SimpleCookie` object (in `EWorld.jars`)
  deriving Repr, DecidableEq

structure EWorld where
  objs : List ErrObj
  lists : List (List Str)         -- the list objects header values refer to
  jars : List Ombott.Cookies.Jar  -- the `SimpleCookie` objects
  deriving Repr, DecidableEq

/-- `{k: (v[:] if isinstance(v, list) else v) for k, v in tpl._headers.items()}` then
`err._headers.update(...)`: every list value becomes a NEW list object with the same items -/
def copyHeaders : List (Str × HRef) → List (List Str) → List (Str × HRef) × List (List Str)
  | [], ls => ([], ls)
  | (k, .one s) :: r, ls => let (h, ls') := copyHeaders r ls; ((k, .one s) :: h, ls')
  | (k, .ref id) :: r, ls =>
    let (h, ls') := copyHeaders r (ls ++ [ls.getD id []])
    ((k, .ref ls.length) :: h, ls')

/-- `_copy_error(tpl)`
```
err = tpl.__class__(status=tpl._status_code, body=tpl.body)
err._status_line = tpl._status_line
err._headers.update({k: (v[:] if isinstance(v, list) else v) for k, v in tpl._headers.items()})
if tpl._cookies:
    err._cookies = SimpleCookie(); err._cookies.load(tpl._cookies.output(header=''))
return err
```
(`CErr`: what `SimpleCookie.load` raises on its own output for an illegal stored name) -/
def copyError (w : EWorld) (i : Nat) : Except Ombott.Cookies.CErr (EWorld × Nat) :=
  match w.objs[i]? with
  | none => .error .typeError
  | some tpl =>
    let (h, ls) := copyHeaders tpl.headers w.lists
    let jar := (tpl.cookies.map fun j => w.jars.getD j []).getD []
    if jar.isEmpty then
      .ok ({ objs := w.objs ++ [{ tpl with headers := h, cookies := none }], lists := ls, jars := w.jars },
           w.objs.length)
    else
      match Ombott.Cookies.copyJar jar with
      | .error x => .error x
      | .ok j =>
        .ok ({ objs := w.objs ++ [{ tpl with headers := h, cookies := some w.jars.length }], lists := ls,
               jars := w.jars ++ [j] }, w.objs.length)

/-- `BaseRequest._raise(err, except_class)`: which object is raised
```
for err_cls in (err.__class__, except_class):
    out_err = errors_map.get(err_cls)
    if out_err: err = _copy_error(out_err); break
raise err
```
`errorsMap`: exception class ↦ template object; `none` = `err` itself is raised -/
def raiseR (w : EWorld) (errorsMap : List (String × Nat)) (errCls : String) (exceptCls : Option String) :
    Except Ombott.Cookies.CErr (EWorld × Option Nat) :=
  let find (c : String) : Option Nat := (errorsMap.find? (·.1 = c)).map (·.2)
  match (match find errCls with | some t => some t | none => exceptCls.bind find) with
  | none => .ok (w, none)
  | some tpl => (copyError w tpl).map fun (w', c) => (w', some c)

/-- what application code does to an error object it was handed -/
inductive EOp
  | hdrAppend (i : Nat) (k : Str) (v : Str)      -- `err._headers[k].append(v)`
  | hdrSet (i : Nat) (k : Str) (v : Str)         -- `err._headers[k] = [v]` (a new list)
  | cookieSet (i : Nat) (name val : Str)         -- `err._cookies[name] = val` on the object's own jar (created when `None`)
  | setStatus (i : Nat) (code : Nat) (line : Str)
  | setBody (i : Nat) (b : Str)
  deriving Repr, DecidableEq

def hdrLookup : List (Str × HRef) → Str → Option HRef
  | [], _ => none
  | (k', v) :: r, k => if k' = k then some v else hdrLookup r k

def hdrStore : List (Str × HRef) → Str → HRef → List (Str × HRef)
  | [], k, v => [(k, v)]
  | (k', v') :: r, k, v => if k' = k then (k, v) :: r else (k', v') :: hdrStore r k v

def estep (w : EWorld) : EOp → Except Err EWorld
  | .hdrAppend i k v =>
    match w.objs[i]? with
    | none => .error .indexError
    | some o =>
      match hdrLookup o.headers k with
      | none => .error .keyError
      | some (.one _) => .error .attributeError
      | some (.ref id) => .ok { w with lists := w.lists.set id (w.lists.getD id [] ++ [v]) }
  | .hdrSet i k v =>
    match w.objs[i]? with
    | none => .error .indexError
    | some o =>
      .ok { w with objs := w.objs.set i { o with headers := hdrStore o.headers k (.ref w.lists.length) },
                   lists := w.lists ++ [[v]] }
  | .cookieSet i name val =>
    match w.objs[i]? with
    | none => .error .indexError
    | some o =>
      match o.cookies with
      | some j => .ok { w with jars := w.jars.set j (Ombott.Cookies.jarSet (w.jars.getD j []) name val) }
      | none =>
        .ok { w with objs := w.objs.set i { o with cookies := some w.jars.length },
                     jars := w.jars ++ [Ombott.Cookies.jarSet [] name val] }
  | .setStatus i code line =>
    match w.objs[i]? with
    | none => .error .indexError
    | some o => .ok { w with objs := w.objs.set i { o with code := code, line := line } }
  | .setBody i b =>
    match w.objs[i]? with
    | none => .error .indexError
    | some o => .ok { w with objs := w.objs.set i { o with body := b } }

/-- an operation that raises changes nothing -/
def erun (w : EWorld) : List EOp → EWorld
  | [] => w
  | op :: ops => erun (match estep w op with | .ok w' => w' | .error _ => w) ops

/-- everything observable of an error object: class, status code, status line, body, the headers
with their values, the cookies -/
structure EView where
  cls : String
  code : Nat
  line : Str
  body : Str
  headers : List (Str × List Str × Bool)     -- value(s), `true` = a list
  cookies : Ombott.Cookies.Jar
  deriving Repr, DecidableEq

def eview (w : EWorld) (i : Nat) : Option EView :=
  (w.objs[i]?).map fun o =>
    { cls := o.cls, code := o.code, line := o.line, body := o.body,
      headers := o.headers.map fun (k, v) =>
        match v with
        | .one s => (k, [s], false)
        | .ref id => (k, w.lists.getD id [], true),
      cookies := (o.cookies.map fun j => w.jars.getD j []).getD [] }

end Ombott.ReqObj
