import OmbottModel.Py
import OmbottModel.Py.CharLit
import OmbottModel.Model.Multipart
import OmbottModel.Model.MultipartSpec
/-!
Model of the form layer on top of the multipart markup (C07, C12):

* `ombott/request_pkg/multipart.py`: `FieldStorage.parse_header` (with the `_patt` option scanner
  `(.+?)(=(".*?"|.+?))?(;|$)` re-expressed as the direct function `pattIter`), `FieldStorage.read`,
  `FieldStorage.iter_items`, `BytesIOProxy` (a `(start, end)` window with a position),
* `ombott/request_pkg/body_mixin.py`: `MULTIPART_BOUNDARY_PATT` + the quote stripping of `_body`
  (`boundaryOf`), `BodyMixin._collect_multipart` (list promotion of repeated names, with the
  aliasing of the promoted list between `POST` and `forms`/`files`),
* `ombott/request_pkg/helpers.py`: `FileUpload` (name, raw_filename, headers, file),
* `str.splitlines`, strict UTF-8 `bytes.decode()`, `str.strip`, `str.lower` on ASCII,
* the encoder `encodeForm` (what a client sends for a list of fields), built on the body encoder of
  `MultipartSpec`.

Exceptions are values: `Except Exc _`.  `Exc.other` carries built-in classes that are not in
`Py.Err` and that no handler of the modelled code catches.
-/
namespace Ombott.Forms
open Py Ombott.Multipart

inductive Exc
  | py (e : Err)
  | other (cls : String)       -- e.g. `OSError`: caught by nothing in the modelled code
  deriving Repr, DecidableEq, Inhabited

def Exc.name : Exc → String
  | .py e => e.name
  | .other c => c

/-! ### text helpers -/

/-- `str.encode()` (UTF-8) -/
def utf8Encode (s : Str) : Bytes := s.flatMap String.utf8EncodeChar

/-- `bytes.decode()`: strict UTF-8 (`none` = `UnicodeDecodeError`) -/
def utf8Decode (b : Bytes) : Option Str := b.toByteArray.utf8Decode?.map (·.toList)

/-- the characters `str.splitlines` breaks at (CPython 3.12): LF VT FF CR FS GS RS NEL LS PS -/
def isLineBreak (c : Char) : Bool :=
  let n := c.toNat
  (10 ≤ n && n ≤ 13) || (0x1c ≤ n && n ≤ 0x1e) || n == 0x85 || n == 0x2028 || n == 0x2029

/-- `str.splitlines()`: CRLF counts as one break, no empty last line.  The flag says that the
previous character was a CR (a directly following LF belongs to the same break). -/
def splitlinesGo : Bool → Str → List Str
  | _, [] => []
  | afterCR, c :: cs =>
    if afterCR ∧ c = '\n' then splitlinesGo false cs
    else if isLineBreak c then [] :: splitlinesGo (c = '\r') cs
    else
      match splitlinesGo false cs with
      | [] => [[c]]
      | l :: ls => (c :: l) :: ls

def splitlines (s : Str) : List Str := splitlinesGo false s

/-- `str.lower()` on the characters whose lower case is one Latin-1 character (ASCII and
Latin-1 capitals); other characters are left alone.  The model only compares lowered option keys
with the ASCII words `name` / `filename`; no character outside ASCII lowers to a letter of those
words (the Kelvin sign lowers to `k`). -/
def lowerChar (c : Char) : Char :=
  let n := c.toNat
  if (65 ≤ n && n ≤ 90) || (0xc0 ≤ n && n ≤ 0xde && n != 0xd7) then Char.ofNat (n + 32) else c

def lower (s : Str) : Str := s.map lowerChar

/-- `s.strip('"')` -/
def stripQuotes (s : Str) : Str := stripBy (· == '"') s

/-! ### `FieldStorage._patt.finditer` -/

/-- lazy `(.+?)` after its first character: stop before the first `;`, or before the first `=`
that still has a character after it, else at the end -/
def scanG1 : Str → Str × Str
  | [] => ([], [])
  | c :: cs =>
    if c = ';' then ([], c :: cs)
    else if c = '=' ∧ cs ≠ [] then ([], c :: cs)
    else ((scanG1 cs).1.cons c, (scanG1 cs).2)

/-- `".*?"` followed by `;` or the end, after the opening quote: `(inside, rest after the closing
quote)` for the first closing quote that is followed by `;` or by nothing -/
def scanQuoted : Str → Option (Str × Str)
  | [] => none
  | c :: cs =>
    if c = '"' ∧ (cs = [] ∨ cs.head? = some ';') then some ([], cs)
    else match scanQuoted cs with
      | some (a, r) => some (c :: a, r)
      | none => none

/-- up to the first `;` -/
def spanSemi : Str → Str × Str
  | [] => ([], [])
  | c :: cs => if c = ';' then ([], c :: cs) else ((spanSemi cs).1.cons c, (spanSemi cs).2)

/-- one match of `_patt` -/
structure PMatch where
  g1 : Str
  g3 : Option Str
  len : Nat           -- characters consumed, the closing `;` included
  deriving Repr, DecidableEq

/-- the match that starts at `c :: cs` (one always does: `$` ends it at the latest) -/
def matchAt (c : Char) (cs : Str) : PMatch :=
  let (a, r) := scanG1 cs
  let g1 := c :: a
  match r with
  | [] => ⟨g1, none, g1.length⟩
  | ';' :: _ => ⟨g1, none, g1.length + 1⟩
  | _ :: v =>                                   -- `=` and at least one more character
    let plain : PMatch :=
      match v with
      | [] => ⟨g1, none, g1.length⟩             -- not reached (`scanG1` stops at `=` only if `v ≠ []`)
      | c1 :: w =>
        let (b, r') := spanSemi w
        ⟨g1, some (c1 :: b), g1.length + 1 + (1 + b.length) + (if r'.isEmpty then 0 else 1)⟩
    match v with
    | '"' :: w =>
      match scanQuoted w with
      | some (inside, after) =>
        ⟨g1, some ('"' :: (inside ++ ['"'])), g1.length + 1 + (inside.length + 2) + (if after.isEmpty then 0 else 1)⟩
      | none => plain
    | _ => plain

/-- `finditer`: non-overlapping matches from left to right; the first argument counts characters
still covered by the previous match -/
def pattGo : Nat → Str → List (Str × Option Str)
  | _, [] => []
  | skip + 1, _ :: cs => pattGo skip cs
  | 0, c :: cs =>
    let m := matchAt c cs
    (m.g1, m.g3) :: pattGo (m.len - 1) cs

def pattIter (s : Str) : List (Str × Option Str) := pattGo 0 s

/-! ### `FieldStorage.parse_header` -/

structure Header where
  name : Str
  value : Str
  options : List (Str × Option Str)       -- a dict: insertion order, later assignment replaces
  deriving Repr, DecidableEq

/-- `d[k] = v` on an insertion-ordered dict -/
def dictSet {α β} [BEq α] (d : List (α × β)) (k : α) (v : β) : List (α × β) :=
  if d.any (·.1 == k) then d.map fun e => if e.1 == k then (k, v) else e else d ++ [(k, v)]

def dictGet {α β} [BEq α] (d : List (α × β)) (k : α) : Option β := (d.find? (·.1 == k)).map (·.2)

/-- `parse_header(s)`: `s.split(':', 1)` (`ValueError` without a colon), the first match of
`_patt` gives the value (`next()` on an exhausted iterator: `StopIteration`), the others the
options -/
def parseHeader (s : Str) : Except Exc Header :=
  match splitFirst ':' s with
  | none => .error (.py .valueError)
  | some (htype, rest) =>
    match pattIter rest with
    | [] => .error (.py .stopIteration)
    | (v, _) :: opts =>
      .ok ⟨htype, strip v,
        opts.foldl (fun d (o : Str × Option Str) => dictSet d (lower (strip o.1)) (o.2.map stripQuotes)) []⟩

/-! ### the buffered body and `BytesIOProxy` -/

/-- `src.seek(start); src.read(sz)` on the buffered body.  A negative offset is `ValueError` for
the in-memory buffer and `OSError` for the temporary file; a negative size reads to the end. -/
def srcRead (body : Bytes) (spooled : Bool) (start sz : Int) : Except Exc Bytes :=
  if start < 0 then .error (if spooled then .other "OSError" else .py .valueError)
  else
    let rest := body.drop start.toNat
    .ok (if sz < 0 then rest else rest.take sz.toNat)

/-- `BytesIOProxy`: `_st`, `_end`, `_pos` -/
structure Proxy where
  st : Int
  en : Int
  pos : Int
  deriving Repr, DecidableEq

def Proxy.new (st en : Int) : Proxy := ⟨st, en, st⟩

def Proxy.tell (p : Proxy) : Int := p.pos - p.st

/-- `seek(pos)` with `whence = SEEK_SET` -/
def Proxy.seekSet (p : Proxy) (pos : Int) : Proxy :=
  let pos := if pos < 0 then 0 else pos
  { p with pos := min (p.st + pos) p.en }

/-- `seek(pos, whence)`: 0 = SET, 1 = CUR, 2 = END; anything else `ValueError` -/
def Proxy.seek (p : Proxy) (pos : Int) (whence : Nat) : Except Exc Proxy :=
  match whence with
  | 0 => .ok (p.seekSet pos)
  | 1 => .ok (p.seekSet (p.tell + pos))
  | 2 => .ok (p.seekSet (p.en + pos - p.st))
  | _ => .error (.py .valueError)

/-- `read(sz)`; `none` = no argument -/
def Proxy.read (p : Proxy) (body : Bytes) (spooled : Bool) (sz : Option Int) : Except Exc (Bytes × Proxy) :=
  let maxSz := p.en - p.pos
  if maxSz ≤ 0 then .ok ([], p)
  else
    let n := match sz with
      | some k => if k > 0 then min k maxSz else maxSz
      | none => maxSz
    match srcRead body spooled p.pos n with
    | .error e => .error e
    | .ok b => .ok (b, { p with pos := p.pos + n })

/-- the whole content of an upload: `file.read()` on a fresh proxy -/
def windowBytes (body : Bytes) (spooled : Bool) (st en : Int) : Except Exc Bytes :=
  match (Proxy.new st en).read body spooled none with
  | .error e => .error e
  | .ok (b, _) => .ok b

/-! ### `FieldStorage.read` -/

/-- a `FieldStorage` after `read` -/
structure FieldS where
  name : Str
  value : Option Str
  filename : Option Str
  file : Option (Int × Int)
  ctype : Option Str
  headers : List (Str × Header)
  deriving Repr, DecidableEq

/-- state of the `for header_raw in headers_raw.splitlines()` loop -/
structure RdSt where
  name : Option Str := none
  filename : Option Str := none
  ctype : Option Str := none
  headers : List (Str × Header) := []
  deriving Repr, DecidableEq

def readLine (st : RdSt) (line : Str) : Except Exc RdSt :=
  match parseHeader line with
  | .error e => .error e
  | .ok h =>
    let st := { st with headers := dictSet st.headers h.name h }
    if h.name = cs!"Content-Disposition" then
      match dictGet h.options cs!"name" with
      | none => .error (.py .keyError)                       -- `header.options['name']`
      | some nm =>
        .ok { st with name := nm, filename := (dictGet h.options cs!"filename").join }
    else if h.name = cs!"Content-Type" then .ok { st with ctype := some h.value }
    else .ok st

def readLines : RdSt → List Str → Except Exc RdSt
  | st, [] => .ok st
  | st, l :: ls =>
    match readLine st l with
    | .error e => .error e
    | .ok st' => readLines st' ls

/-- `FieldStorage.read(src, headers_section, data_section, max_read=…)`: the field and `has_read` -/
def readField (body : Bytes) (spooled : Bool) (hs he ds de : Int) (maxRead : Int) :
    Except Exc (FieldS × Int) :=
  let sz := he - hs
  if sz > maxRead then .error (.py .bodySizeError) else
  match srcRead body spooled hs sz with
  | .error e => .error e
  | .ok raw =>
    match utf8Decode raw with
    | none => .error (.py .unicodeError)
    | some text =>
      let lines := splitlines text
      match readLines {} lines with
      | .error e => .error e
      | .ok st =>
        match st.name with
        | none => .error (.py .bodyParsingError)             -- `Noname field found …`
        | some nm =>
          match st.filename with
          | some fn => .ok (⟨nm, none, some fn, some (ds, de), st.ctype, st.headers⟩, sz)
          | none =>
            let dsz := de - ds
            if dsz = 0 then .ok (⟨nm, some [], none, none, st.ctype, st.headers⟩, sz)
            else if sz + dsz > maxRead then .error (.py .bodySizeError)
            else
              match srcRead body spooled ds dsz with
              | .error e => .error e
              | .ok rawv =>
                match utf8Decode rawv with
                | none => .error (.py .unicodeError)
                | some v => .ok (⟨nm, some v, none, none, st.ctype, st.headers⟩, sz + dsz)

/-! ### `FieldStorage.iter_items` -/

/-- what a generator leaves behind: the items yielded, and the exception that ended it (if any) -/
structure Yield (α : Type) where
  items : List α
  exc : Option Exc
  deriving Repr, DecidableEq

/-- an exception that leaves a generator frame: `StopIteration` becomes `RuntimeError` (PEP 479) -/
def genExc : Exc → Exc
  | .py .stopIteration => .py .runtimeError
  | e => e

/-- the `while headers:` loop: sections are taken two at a time -/
def itemsLoop (body : Bytes) (spooled : Bool) : List Markup → Int → Yield FieldS
  | [], _ => ⟨[], none⟩
  | [h], _ =>
    if h.name ≠ .headers then ⟨[], some (.py .assertionError)⟩
    else ⟨[], some (.py .bodyParsingError)⟩                -- `no data for field`
  | h :: d :: rest, maxRead =>
    if h.name ≠ .headers then ⟨[], some (.py .assertionError)⟩
    else if d.name ≠ .data then ⟨[], some (.py .assertionError)⟩
    else
      match readField body spooled h.start h.stop d.start d.stop maxRead with
      | .error e => ⟨[], some (genExc e)⟩
      | .ok (f, hasRead) =>
        let r := itemsLoop body spooled rest (maxRead - hasRead)
        ⟨f :: r.items, r.exc⟩

/-- `FieldStorage.iter_items(src, markup, max_read)` run to its end -/
def iterItems (body : Bytes) (spooled : Bool) (markups : List Markup) (maxRead : Int) : Yield FieldS :=
  match markups with
  | [] => ⟨[], none⟩
  | m0 :: rest =>
    if m0.name ≠ .data then ⟨[], some (.py .assertionError)⟩
    else if m0.stop > 0 then ⟨[], some (.py .bodyParsingError)⟩     -- data before the first boundary
    else itemsLoop body spooled rest maxRead

/-! ### `BodyMixin._collect_multipart` -/

/-- `FileUpload(item.file, item.name, item.filename, item.headers)` -/
structure Upload where
  name : Str
  rawFilename : Str
  headers : List (Str × Header)
  file : Int × Int
  deriving Repr, DecidableEq

/-- `FileUpload.content_type` is the `Header` object stored under `Content-Type`; this is its
`.value` (`none`: the default `''` of the property) -/
def Upload.contentType (u : Upload) : Option Str := (dictGet u.headers cs!"Content-Type").map (·.value)

inductive Item
  | text (v : Option Str)      -- `None` for a part whose `filename` is empty
  | file (u : Upload)
  deriving Repr, DecidableEq

/-- a value of `POST` / `forms` / `files`: one item, or the list a repeated name was promoted to -/
inductive PVal
  | one (i : Item)
  | many (l : List Item)
  deriving Repr, DecidableEq

abbrev FDict := List (Str × PVal)

structure Coll where
  post : FDict := []
  forms : FDict := []
  files : FDict := []
  deriving Repr, DecidableEq

def itemOf (f : FieldS) : Item × Bool :=       -- the item and `dct is files`
  match f.filename with
  | some fn =>
    if fn.isEmpty then (.text f.value, false)       -- `if item.filename:` is false for `''`
    else (.file ⟨f.name, fn, f.headers, f.file.getD (0, 0)⟩, true)
  | none => (.text f.value, false)

/-- the local `add(dct, key, it)`: a repeated name is promoted to a list, separately in each
mapping (`listified` holds exactly the `(mapping, key)` pairs whose value is `many`) -/
def addItem (d : FDict) (key : Str) (it : Item) : FDict :=
  match dictGet d key with
  | some (.one el) => dictSet d key (.many [el, it])
  | some (.many l) => dictSet d key (.many (l ++ [it]))
  | none => dictSet d key (.one it)

/-- one round of the `for item in …` loop -/
def collectStep (c : Coll) (f : FieldS) : Coll :=
  let (it, toFiles) := itemOf f
  let c := { c with post := addItem c.post f.name it }
  if toFiles then { c with files := addItem c.files f.name it }
  else { c with forms := addItem c.forms f.name it }

def collect (items : List FieldS) : Coll := items.foldl collectStep {}

/-! ### the boundary parameter -/

def startsWithS (s p : Str) : Bool := p.isPrefixOf s

/-- the text after the first `boundary=` that starts at index ≥ 1 and is not preceded by a line
feed (`.` does not match LF): what follows `^multipart/.+?boundary=` -/
def afterBoundaryKey : Str → Option Str
  | [] => none
  | c :: cs =>
    if c = '\n' then none
    else if startsWithS cs cs!"boundary=" then some (cs.drop 9)
    else afterBoundaryKey cs

/-- `(.+?)(;|$)` after its first character: up to the first `;`, the end, or a final line feed;
a line feed anywhere else lets the match fail -/
def scanBoundary : Str → Option Str
  | [] => some []
  | c :: cs =>
    if c = ';' then some []
    else if c = '\n' then (if cs.isEmpty then some [] else none)
    else (scanBoundary cs).map (c :: ·)

/-- `MULTIPART_BOUNDARY_PATT.match(content_type).group(1)` -/
def boundaryParam (ct : Str) : Option Str :=
  if startsWithS ct cs!"multipart/" then
    match afterBoundaryKey (ct.drop 10) with
    | none => none
    | some [] => none
    | some (c :: cs) => if c = '\n' then none else (scanBoundary cs).map (c :: ·)
  else none

/-- the boundary `_body` hands to `MultipartMarkup`: a quoted-string parameter loses its quotes -/
def boundaryOf (ct : Str) : Option Str :=
  (boundaryParam ct).map fun b =>
    if b.length > 1 ∧ b.head? = some '"' ∧ b.getLast? = some '"' then (b.drop 1).dropLast else b

/-! ### the encoder: what a client sends -/

inductive Field
  | text (name value : Str)
  | file (name filename : Str) (ctype : Option Str) (content : Bytes)
  deriving Repr, DecidableEq

def Field.name : Field → Str
  | .text n _ => n
  | .file n _ _ _ => n

def Field.isFile : Field → Bool
  | .text _ _ => false
  | .file _ _ _ _ => true

def quoted (s : Str) : Str := '"' :: (s ++ ['"'])

def dispLine (name : Str) (filename : Option Str) : Str :=
  cs!"Content-Disposition: form-data; name=" ++ quoted name ++
    (match filename with
     | some fn => cs!"; filename=" ++ quoted fn
     | none => [])

def Field.headerLines : Field → List Str
  | .text n _ => [dispLine n none]
  | .file n fn ct _ =>
    dispLine n (some fn) :: (match ct with | some c => [cs!"Content-Type: " ++ c] | none => [])

def Field.data : Field → Bytes
  | .text _ v => utf8Encode v
  | .file _ _ _ c => c

def Field.part (f : Field) : Spec.Part := ⟨f.headerLines.map utf8Encode, f.data⟩

/-- the multipart/form-data body for a list of fields -/
def encodeForm (boundary : Str) (fields : List Field) (epilogue : Bytes) : Bytes :=
  Spec.encodeBody (utf8Encode boundary) (fields.map Field.part) epilogue

/-- the request's Content-Type header, with the boundary as a token or as a quoted string -/
def contentTypeFor (boundary : Str) (quote : Bool) : Str :=
  cs!"multipart/form-data; boundary=" ++ (if quote then quoted boundary else boundary)

end Ombott.Forms
