import OmbottModel.Py
import OmbottModel.Py.IntLim
import OmbottModel.Py.Text
import OmbottModel.Py.Wsgi
import OmbottModel.Model.Stream
import OmbottModel.Model.Headers
import OmbottModel.Model.Cookies
import OmbottModel.Model.ErrorPage
import OmbottModel.Gen.Resphelp
/-!
The response-side helper classes beyond `Model/Headers.lean` (extension of C14):

* `ombott/common_helpers.py`: the whole of `HeaderDict` (thread-local `dict` property, `__len__`,
  `__iter__`, `__contains__`, `__getitem__`, `__delitem__`, the methods `proxy('dict', …)` injects
  — `keys pop popitem values items get` —, `copy`, `clear(*names)`, `update`, `__repr__`; the three
  guarded setters are `Headers.setitem/append/setdefault`, imported, not repeated), `HeaderProperty`
  (`__get__/__set__/__delete__`) for every row of the generated table, `WSGIFileWrapper`;
* `ombott/response.py`: `BaseResponse.__new__`, `__init__` with a `str` status, the `status`
  setter in full, `status_line/status_code`, `copy(cls)`, `__iter__`, `set_cookie` options,
  `delete_cookie`, `__repr__`, `HTTPResponse.__init__`, `HTTPError.__init__`;
* `ombott/ombott.py`: `_closeiter`.

A `threading.local` is `thread id → value` with "absent" = the attribute was never set in that
thread (`AttributeError`), the style of `Model/TsProps.lean`.  The store type is `Headers.Store`.
-/
namespace Ombott.RespHelp
open Py Ombott.Headers

/-! ## HeaderDict -/

abbrev Tid := Nat

/-- a `HeaderDict` object: its `_ts` (`threading.local()`), as thread → the `dict` attribute -/
abbrev HD := List (Tid × Store)

/-- `HeaderDict.__init__(self)` on thread `t`: `self._ts = threading.local(); self._ts.dict = dict()` -/
def hdNew (t : Tid) : HD := [(t, [])]

/-- `HeaderDict.dict` (getter) `lambda s: s._ts.dict`: `AttributeError` in a thread that never
assigned it -/
def tsGet (h : HD) (t : Tid) : Except Err Store :=
  match h.find? (·.1 == t) with
  | some p => .ok p.2
  | Option.none => .error .attributeError

/-- `HeaderDict.dict` (setter) `lambda s, v: setattr(s._ts, 'dict', v)` -/
def tsSet : HD → Tid → Store → HD
  | [], t, d => [(t, d)]
  | (t', d') :: r, t, d => if t' == t then (t, d) :: r else (t', d') :: tsSet r t d

/-- what an operation returns -/
inductive Res
  | none                              -- `None`
  | bool (b : Bool)
  | int (i : Int)
  | entry (e : Entry)                 -- a stored value: `str` or `list` of `str`
  | keys (ks : List Str)
  | vals (es : List Entry)
  | items (d : Store)
  | pair (k : Str) (e : Entry)
  | text (s : Str)
  | obj (i : Nat)                     -- the `HeaderDict` number `i` (a new object)
  deriving Repr, DecidableEq

/-- a row of the generated `HeaderProperty` table -/
structure HPRow where
  owner : Str
  attr : Str
  name : Str
  reader : Str            -- "" (no reader) | "int" | anything else: outcome shipped
  writer : Str            -- "" (no writer) | "http_date" | anything else: outcome shipped
  dflt : PyVal
  deriving Repr, DecidableEq

instance : Inhabited HPRow := ⟨{ owner := [], attr := [], name := [], reader := [], writer := [], dflt := .none }⟩

def hpRows : List HPRow :=
  Gen.rhProps.map fun (o, a, n, r, w, isInt, d, di) =>
    { owner := o.toList, attr := a.toList, name := n.toList, reader := r.toList, writer := w.toList,
      dflt := if isInt then PyVal.int di else PyVal.str d.toList }

inductive HOp
  | len                                   -- `len(h)`                 HeaderDict.__len__
  | iter                                  -- `list(iter(h))`          HeaderDict.__iter__
  | contains (k : Str)                    -- `k in h`                 HeaderDict.__contains__
  | getitem (k : Str)                     -- `h[k]`                   HeaderDict.__getitem__
  | delitem (k : Str)                     -- `del h[k]`               HeaderDict.__delitem__
  | setitem (k : Str) (v : PyVal)         -- `h[k] = v`               HeaderDict.__setitem__
  | append (k : Str) (v : PyVal)          -- `h.append(k, v)`
  | setdefault (k : Str) (v : PyVal)      -- `h.setdefault(k, v)`, `v` not a list
  | keys | values | items                 -- proxied: `h.dict.keys()` …
  | get (k : Str)                         -- proxied `h.get(k)` (default `None`)
  | pop (k : Str) (dflt : Bool)           -- proxied `h.pop(k)` / `h.pop(k, None)`
  | popitem                               -- proxied `h.popitem()`
  | copy                                  -- `h.copy()`
  | clear (ks : List Str)                 -- `h.clear(*ks)`
  | update (d : Store)                    -- `h.update(d)`, `d` a dict of `str` / `list` of `str`
  | repr                                  -- `repr(h)`
  | getDict                               -- `h.dict`
  | setDict (d : Store)                   -- `h.dict = d`
  | propGet (row : Nat) (rd : Except Err Str)     -- `obj.<attr>`; `rd`: outcome of a reader other than `int`
  | propSet (row : Nat) (v : PyVal) (fmt : Except Err Str)   -- `obj.<attr> = v`
  | propDel (row : Nat)                   -- `del obj.<attr>`
  deriving Repr

/-- `d.update(src)` for dicts -/
def dupdate (d : Store) (src : Store) : Store := src.foldl (fun acc p => dset acc p.1 p.2) d

/-- `repr` of a stored value -/
def entryRepr : Entry → Str
  | .one v => ErrorPage.pyRepr ErrorPage.isPrintable v
  | .many vs => '[' :: ", ".toList.intercalate (vs.map (ErrorPage.pyRepr ErrorPage.isPrintable)) ++ [']']

/-- `repr(d)` of the `dict` -/
def dictRepr (d : Store) : Str :=
  '{' :: ", ".toList.intercalate (d.map fun p => ErrorPage.pyRepr ErrorPage.isPrintable p.1 ++ ": ".toList ++ entryRepr p.2)
    ++ ['}']

/-- `HeaderProperty` writer: `http_date` returns a `str` as it is, anything else through
`calendar`/`email.utils` (outcome `fmt` shipped); an unknown writer is a parameter altogether -/
def hpWrite (row : HPRow) (v : PyVal) (fmt : Except Err Str) : Except Err PyVal :=
  if row.writer.isEmpty then .ok v
  else if row.writer == "http_date".toList then
    match v with
    | .str s => .ok (.str s)
    | _ => fmt.map PyVal.str
  else fmt.map PyVal.str

/-- `HeaderProperty.__get__`: `value = obj.headers.get(self.name, self.default)` then the reader -/
def hpRead (row : HPRow) (got : Option Entry) (rd : Except Err Str) : Except Err Res :=
  if row.reader.isEmpty then
    match got with
    | some e => .ok (.entry e)
    | Option.none => match row.dflt with
      | .str s => .ok (.entry (.one s))
      | .int i => .ok (.int i)
      | _ => .ok .none
  else if row.reader == "int".toList then
    match got with
    | some (.one s) => match pyIntLim s with            -- `int('12')`
      | some i => .ok (.int i)
      | Option.none => .error .valueError
    | some (.many _) => .error .typeError            -- `int([...])`
    | Option.none => match row.dflt with
      | .str s => match pyIntLim s with                 -- `int('')` for the `''` default
        | some i => .ok (.int i)
        | Option.none => .error .valueError
      | .int i => .ok (.int i)
      | _ => .error .typeError
  else rd.map Res.text

/-- one operation on `HeaderDict` object `h` in thread `t`: the object afterwards, the object it
created (only `copy`; `fresh` is the number it gets) and what the call returned / raised.

Evaluation order matters for which exception wins: `self._ts.dict[key] = _hval(value)` evaluates
`_hval` first; `append` and `setdefault` fetch `self._ts.dict` first. -/
def stepH (h : HD) (t : Tid) (fresh : Nat) : HOp → HD × Option HD × Except Err Res
  | .len => (h, Option.none, (tsGet h t).map fun d => .int d.length)          -- HeaderDict.__len__
  | .iter => (h, Option.none, (tsGet h t).map fun d => .keys (d.map (·.1)))   -- HeaderDict.__iter__
  | .contains k => (h, Option.none, (tsGet h t).map fun d => .bool (dget d k).isSome)  -- HeaderDict.__contains__
  | .getitem k =>                                                             -- HeaderDict.__getitem__
    (h, Option.none, (tsGet h t).bind fun d => match dget d k with
      | some e => .ok (.entry e)
      | Option.none => .error .keyError)
  | .delitem k =>                                                             -- HeaderDict.__delitem__
    match tsGet h t with
    | .error e => (h, Option.none, .error e)
    | .ok d => match dget d k with
      | some _ => (tsSet h t (ddel d k), Option.none, .ok .none)
      | Option.none => (h, Option.none, .error .keyError)
  | .setitem k v =>                                                           -- HeaderDict.__setitem__
    match hval v with
    | .error e => (h, Option.none, .error e)
    | .ok _ => match tsGet h t with
      | .error e => (h, Option.none, .error e)
      | .ok d => match setitem d k v with
        | .ok d' => (tsSet h t d', Option.none, .ok .none)
        | .error e => (h, Option.none, .error e)
  | .append k v =>                                                            -- HeaderDict.append
    match tsGet h t with
    | .error e => (h, Option.none, .error e)
    | .ok d => match append d k v with
      | .ok d' => (tsSet h t d', Option.none, .ok .none)
      | .error e => (h, Option.none, .error e)
  | .setdefault k v =>                                                        -- HeaderDict.setdefault
    match tsGet h t with
    | .error e => (h, Option.none, .error e)
    | .ok d => match setdefault d k v with
      | .ok d' => (tsSet h t d', Option.none, match dget d' k with
          | some e => .ok (.entry e)
          | Option.none => .ok .none)
      | .error e => (h, Option.none, .error e)
  | .keys => (h, Option.none, (tsGet h t).map fun d => .keys (d.map (·.1)))   -- proxy.injector: keys
  | .values => (h, Option.none, (tsGet h t).map fun d => .vals (d.map (·.2))) -- proxy.injector: values
  | .items => (h, Option.none, (tsGet h t).map fun d => .items d)             -- proxy.injector: items
  | .get k =>                                                                 -- proxy.injector: get
    (h, Option.none, (tsGet h t).map fun d => match dget d k with
      | some e => .entry e
      | Option.none => .none)
  | .pop k dflt =>                                                            -- proxy.injector: pop
    match tsGet h t with
    | .error e => (h, Option.none, .error e)
    | .ok d => match dget d k with
      | some e => (tsSet h t (ddel d k), Option.none, .ok (.entry e))
      | Option.none => (h, Option.none, if dflt then .ok .none else .error .keyError)
  | .popitem =>                                                               -- proxy.injector: popitem
    match tsGet h t with
    | .error e => (h, Option.none, .error e)
    | .ok d => match d.getLast? with
      | some p => (tsSet h t d.dropLast, Option.none, .ok (.pair p.1 p.2))
      | Option.none => (h, Option.none, .error .keyError)
  | .copy =>                                                                  -- HeaderDict.copy
    -- `ret = self.__class__(); ret.dict = {k: (v[:] if isinstance(v, list) else v) for k, v in self.items()}`
    -- (values are immutable here, so the fresh lists are the same values in a new object)
    match tsGet h t with
    | .error e => (h, Option.none, .error e)
    | .ok d => (h, some (tsSet (hdNew t) t d), .ok (.obj fresh))
  | .clear ks =>                                                              -- HeaderDict.clear
    match tsGet h t with
    | .error e => (h, Option.none, .error e)
    | .ok d => if ks.isEmpty then (tsSet h t [], Option.none, .ok .none)
               else (tsSet h t (ks.foldl ddel d), Option.none, .ok .none)
  | .update src =>                                                            -- HeaderDict.update
    match tsGet h t with
    | .error e => (h, Option.none, .error e)
    | .ok d => (tsSet h t (dupdate d src), Option.none, .ok .none)
  | .repr =>                                                                  -- HeaderDict.__repr__
    (h, Option.none, (tsGet h t).map fun d =>
      .text ("<HeaderDict: ".toList ++ dictRepr d ++ ['>']))
  | .getDict => (h, Option.none, (tsGet h t).map fun d => .items d)           -- HeaderDict.dict (getter)
  | .setDict d => (tsSet h t d, Option.none, .ok .none)                       -- HeaderDict.dict (setter)
  | .propGet i rd =>                                                          -- HeaderProperty.__get__
    match hpRows[i]? with
    | Option.none => (h, Option.none, .error .attributeError)
    | some row => (h, Option.none, (tsGet h t).bind fun d => hpRead row (dget d row.name) rd)
  | .propSet i v fmt =>                                                       -- HeaderProperty.__set__
    match hpRows[i]? with
    | Option.none => (h, Option.none, .error .attributeError)
    | some row => match hpWrite row v fmt with
      | .error e => (h, Option.none, .error e)
      | .ok v' => match hval v' with
        | .error e => (h, Option.none, .error e)
        | .ok _ => match tsGet h t with
          | .error e => (h, Option.none, .error e)
          | .ok d => match setitem d row.name v' with
            | .ok d' => (tsSet h t d', Option.none, .ok .none)
            | .error e => (h, Option.none, .error e)
  | .propDel i =>                                                             -- HeaderProperty.__delete__
    match hpRows[i]? with
    | Option.none => (h, Option.none, .error .attributeError)
    | some row => match tsGet h t with
      | .error e => (h, Option.none, .error e)
      | .ok d => match dget d row.name with
        | some _ => (tsSet h t (ddel d row.name), Option.none, .ok .none)
        | Option.none => (h, Option.none, .error .keyError)

/-- a program: each call names the object, the thread it runs on and the operation.  Object 0 is
`HeaderDict()` created on thread 0; `copy` appends the new object.  A call on an object number
that does not exist is not a Python program (`none`). -/
def runH : List HD → List (Nat × Tid × HOp) → Option (List HD × List (Except Err Res))
  | objs, [] => some (objs, [])
  | objs, (i, t, op) :: rest =>
    match objs[i]? with
    | Option.none => Option.none
    | some h =>
      let (h', created, res) := stepH h t objs.length op
      let objs' := (objs.set i h') ++ created.toList
      match runH objs' rest with
      | some (o, rs) => some (o, res :: rs)
      | Option.none => Option.none

def hdStart : List HD := [hdNew 0]

/-! ## WSGIFileWrapper -/

/-- `WSGIFileWrapper.__init__`: the attributes of `fp` copied onto the wrapper -/
def fwInit (fpAttrs : List Str) : List Str :=
  (Gen.rhFwAttrs.map String.toList).filter fun a => fpAttrs.contains a

/-- the loop of `WSGIFileWrapper.__iter__`: `part = read(buff); while part: yield part; part = read(buff)`.
`fuel` bounds the number of reads by `len(data) + 1` (every non-final read returns at least one
byte, `Stream.read_nil_iff`). -/
def fwLoop : Nat → Stream → Nat → List Bytes
  | 0, _, _ => []
  | fuel + 1, s, buff =>
    let (part, s') := s.read buff
    if part.isEmpty then [] else part :: fwLoop fuel s' buff

/-- `list(WSGIFileWrapper(fp, buffer_size))`; `self.read` exists only when `fp` has `read` -/
def fwIter (fpAttrs : List Str) (s : Stream) (buff : Nat) : Except Err (List Bytes) :=
  if (fwInit fpAttrs).contains "read".toList then .ok (fwLoop (s.data.length + 1) s buff)
  else .error .attributeError

/-! ## _closeiter -/

/-- a close callback: its identity and whether calling it raises -/
structure Cb where
  id : Nat
  raises : Bool
  deriving Repr, DecidableEq

/-- the `close` argument of `_closeiter(iterator, close=None)` -/
inductive CloseArg
  | none
  | one (cb : Cb)
  | many (cbs : List Cb)      -- a `list` or `tuple`
  deriving Repr

/-- `_closeiter.__init__`: `close if isinstance(close, (list, tuple)) else [close]` (`none` in the
list is Python's `None`) -/
def closeiterInit : CloseArg → List (Option Cb)
  | .none => [Option.none]
  | .one cb => [some cb]
  | .many cbs => cbs.map some

/-- `_closeiter.close`: `[cb() for cb in self.close_callbacks]`: the callbacks called, in order,
and the exception that ended the comprehension (`None()` is a `TypeError`) -/
def closeiterClose : List (Option Cb) → List Nat × Option Err
  | [] => ([], Option.none)
  | Option.none :: _ => ([], some .typeError)
  | some cb :: r =>
    if cb.raises then ([cb.id], some .runtimeError)
    else let (calls, e) := closeiterClose r; (cb.id :: calls, e)

/-- `_closeiter.__iter__`: `iter(self.iterator)` -/
def closeiterIter (items : List Bytes) : List Bytes := items

/-! ## BaseResponse beyond headers -/

inductive Cls | baseResponse | response | httpResponse | httpError
  deriving Repr, DecidableEq

def Cls.name : Cls → String
  | .baseResponse => "BaseResponse" | .response => "Response"
  | .httpResponse => "HTTPResponse" | .httpError => "HTTPError"

/-- `BaseResponse.__new__(cls, *a, **kw)`: `super().__new__(cls, *a, **kw)` then
`self.headers = HeaderDict()`.  What `object.__new__` / `Exception.__new__` and the slot layout of
each class make of it is probed from the live classes (`Gen.rhNewOutcome`: class, with arguments?,
exception class or ""). -/
def respNew (c : Cls) (hasArgs : Bool) : Except Err Unit :=
  match Gen.rhNewOutcome.find? fun r => r.1 == c.name && r.2.1 == hasArgs with
  | some (_, _, "") => .ok ()
  | some (_, _, "TypeError") => .error .typeError
  | some (_, _, "AttributeError") => .error .attributeError
  | _ => .error .runtimeError

/-- the argument of the `status` setter -/
inductive StArg
  | int (i : Int)         -- `int` (and `bool`)
  | str (s : Str)
  | other                 -- `None`, `float`, `bytes` …: `' ' in status` raises `TypeError`
  deriving Repr, DecidableEq

/-- `_HTTP_STATUS_LINES.get(code)` -/
def statusLine (code : Int) : Option Str :=
  (Gen.rhStatusLines.find? fun r => (r.1 : Int) == code).map (·.2.toList)

/-- the `status` setter of `BaseResponse`: the new `(_status_code, _status_line)` -/
def setStatusFull : StArg → Except Err (Nat × Str)
  | .int i =>
    if 100 ≤ i ∧ i ≤ 999 then
      .ok (i.toNat, match statusLine i with
        | some l => if l.isEmpty then intStr i ++ " Unknown".toList else l
        | Option.none => intStr i ++ " Unknown".toList)
    else .error .valueError
  | .str s =>
    if s.contains ' ' then
      let st := strip s
      match splitWs st with
      | [] => .error .indexError                      -- `status.split()[0]` of an all-blank line
      | tok :: _ => match pyIntLim tok with
        | Option.none => .error .valueError
        | some code =>
          if 100 ≤ code ∧ code ≤ 999 then .ok (code.toNat, st)   -- `st` is non-empty: `str(status or …)`
          else .error .valueError
    else .error .valueError
  | .other => .error .typeError

/-- a morsel attribute value -/
inductive AVal
  | text (s : Str)
  | int (i : Int)
  | flag (b : Bool)
  deriving Repr, DecidableEq

/-- a `Morsel`: the coded value and the attributes that were assigned (key lower-cased) -/
structure Morsel where
  coded : Str
  attrs : List (Str × AVal)
  deriving Repr, DecidableEq

abbrev Jar := List (Str × Morsel)

inductive XErr
  | py (e : Err)
  | cookieError
  deriving Repr, DecidableEq

def XErr.name : XErr → String
  | .py e => e.name
  | .cookieError => "CookieError"

def reservedName (k : Str) : Option Str :=
  (Gen.rhMorselReserved.find? fun r => r.1.toList == k).map (·.2.toList)

/-- `Morsel.OutputString()` (CPython 3.12): `key=coded`, then the attributes sorted by key,
skipping `""`; `max-age` ints as `%d`, flags by name when true, the rest `%s=%s`
(`Gen.rhMorselReserved` is sorted by key) -/
def outputString (name : Str) (m : Morsel) : Str :=
  "; ".toList.intercalate ((name ++ '=' :: m.coded) ::
    Gen.rhMorselReserved.filterMap fun r =>
      match ((m.attrs.find? fun a => a.1 == r.1.toList).map (·.2) : Option AVal) with
      | Option.none => Option.none
      | some (AVal.text s) => if s.isEmpty then Option.none else some (r.2.toList ++ '=' :: s)
      | some (AVal.int i) => some (r.2.toList ++ '=' :: intStr i)
      | some (AVal.flag b) =>
        if Gen.rhMorselFlags.contains r.1 then (if b then some r.2.toList else Option.none)
        else some (r.2.toList ++ '=' :: (if b then "True".toList else "False".toList)))

def attrSet : List (Str × AVal) → Str → AVal → List (Str × AVal)
  | [], k, v => [(k, v)]
  | (k', v') :: r, k, v => if k' == k then (k, v) :: r else (k', v') :: attrSet r k v

def jarGet (j : Jar) (name : Str) : Option Morsel := (j.find? (·.1 == name)).map (·.2)

def jarSet : Jar → Str → Morsel → Jar
  | [], k, m => [(k, m)]
  | (k', m') :: r, k, m => if k' == k then (k, m) :: r else (k', m') :: jarSet r k m

def lowerAscii (s : Str) : Str := s.map fun c => if isAsciiUpper c then Char.ofNat (c.toNat + 32) else c

/-- the loop over `options` of `set_cookie`: `self._cookies[name][key.replace('_', '-')] = value`;
`Morsel.__setitem__` lower-cases the key and refuses one that is not reserved.  (`expires` values
arrive already through `http_date`, `max_age` as an `int`.) -/
def applyOpts (m : Morsel) : List (Str × AVal) → Morsel × Option XErr
  | [] => (m, Option.none)
  | (k, v) :: r =>
    let k' := lowerAscii (k.map fun c => if c == '_' then '-' else c)
    match reservedName k' with
    | Option.none => (m, some .cookieError)
    | some _ => applyOpts { m with attrs := attrSet m.attrs k' v } r

/-- `BaseResponse.set_cookie(name, value, **options)` without a secret (`value = none`: not a
`str`).  `SimpleCookie.__setitem__` keeps the morsel that is already there (with its attributes)
and gives it the new value; `Morsel.set` refuses reserved and illegal names. -/
def setCookie (j : Jar) (name : Str) (value : Option Str) (opts : List (Str × AVal)) : Jar × Option XErr :=
  match value with
  | Option.none => (j, some (.py .typeError))
  | some v =>
    if v.length > 4096 then (j, some (.py .valueError))
    else if Cookies.isReserved name || !Cookies.isLegalKey name then (j, some .cookieError)
    else
      let m0 : Morsel := match jarGet j name with
        | some m => { m with coded := Cookies.quote v }
        | Option.none => { coded := Cookies.quote v, attrs := [] }
      let (m1, e) := applyOpts m0 opts
      (jarSet j name m1, e)

/-- `kwargs['max_age'] = -1; kwargs['expires'] = 0` on the keyword dict, `expires` already
through `http_date` (`Gen.rhEpochDate` = `http_date(0)`) -/
def deleteOpts (kw : List (Str × AVal)) : List (Str × AVal) :=
  attrSet (attrSet kw "max_age".toList (.int (-1))) "expires".toList (.text Gen.rhEpochDate.toList)

/-- `BaseResponse.delete_cookie(key, **kwargs)` -/
def deleteCookie (j : Jar) (key : Str) (kw : List (Str × AVal)) : Jar × Option XErr :=
  setCookie j key (some []) (deleteOpts kw)

/-- the body as far as `BaseResponse.__iter__` (`iter(self.body)`) is concerned -/
inductive Body
  | text (s : Str)
  | parts (l : List Bytes)
  | other                       -- not iterable (`None`, an `int`)
  deriving Repr, DecidableEq

/-- a response object -/
structure RObj where
  code : Option Nat
  line : Option Str
  store : Store
  jar : Jar
  body : Body
  deriving Repr, DecidableEq

/-- the view `Model/Headers.lean` has of it -/
def RObj.toResp (r : RObj) : Resp :=
  { status := r.code, store := r.store, cookies := r.jar.map fun p => (p.1, outputString p.1 p.2) }

/-- `BaseResponse.__iter__`: the items `iter(self.body)` yields (characters of a `str` as
one-character texts) -/
def respIter (r : RObj) : Except Err (List (Str ⊕ Bytes)) :=
  match r.body with
  | .text s => .ok (s.map fun c => .inl [c])
  | .parts l => .ok (l.map .inr)
  | .other => .error .typeError

/-- `BaseResponse.__init__(body, status, headers, **more)` (= `HTTPResponse.__init__`); `dflt` is
the class's `default_status`.  `status or self.default_status`: `None`, `0`, `''` are falsy. -/
def initFull (dflt : Nat) (body : Body) (st : Option StArg) (hdrs more : List (Str × PyVal)) :
    RObj × Option Err :=
  let st' : StArg := match st with
    | Option.none => .int dflt
    | some (.int i) => if i == 0 then .int dflt else .int i
    | some (.str s) => if s.isEmpty then .int dflt else .str s
    | some .other => .other
  let blank : RObj := { code := Option.none, line := Option.none, store := [], jar := [], body := body }
  match setStatusFull st' with
  | .error e => (blank, some e)
  | .ok (code, line) =>
    let r := { blank with code := some code, line := some line }
    match appendAll [] hdrs with
    | (d, some e) => ({ r with store := d }, some e)
    | (d, Option.none) =>
      let (d', e) := appendAll d more
      ({ r with store := d' }, e)

/-- `HTTPError.__init__(status, body, exception, traceback, **options)`:
`super().__init__(body, status, **options)`; an option called `headers` is the `headers` argument -/
def initError (body : Body) (st : Option StArg) (hdrs more : List (Str × PyVal)) : RObj × Option Err :=
  initFull Gen.errorDefaultStatus body st hdrs more

def clsDefault : Cls → Nat
  | .httpError => Gen.errorDefaultStatus
  | _ => Gen.defaultStatus

/-- a stored value handed to `append` again by `copy`: a `list` is not a value `_hval` accepts -/
def entryVal : Entry → PyVal
  | .one v => .str v
  | .many _ => .other

def insertJar (e : Str × Morsel) : Jar → Jar
  | [] => [e]
  | h :: t => if Cookies.strLt e.1 h.1 then e :: h :: t else h :: insertJar e t

/-- `copy._cookies.load(self._cookies.output(header=''))`: `output` renders `sorted(self.items())`;
that `load` reads every rendered morsel back as it was is `http.cookies`' round trip (compared on
every run for the generated names, values and attributes; values are C15's subject) -/
def copyJar (j : Jar) : Jar := j.foldr insertJar []

/-- `BaseResponse.copy(cls)`: `cls(status=self.status, headers=self.headers.copy().dict)`, then
the cookies.  `cls = none` is the default `BaseResponse`. -/
def respCopy (r : RObj) (cls : Option Cls) : Except Err RObj :=
  let c := cls.getD .baseResponse
  match respNew c true with
  | .error e => .error e
  | .ok () =>
    let body : Body := if c == .httpError then .other else .text []
    match initFull (clsDefault c) body (r.line.map StArg.str) (r.store.map fun p => (p.1, entryVal p.2)) [] with
    | (_, some e) => .error e
    | (cp, Option.none) => .ok (if r.jar.isEmpty then cp else { cp with jar := copyJar r.jar })

/-- `BaseResponse.__repr__`: `'%s: %s' % (name.title(), value.strip())` per `headerlist` entry,
joined by newlines -/
def respRepr (r : RObj) : Str :=
  "\n".toList.intercalate ((headerlist r.toResp).map fun p => title p.1 ++ ": ".toList ++ strip p.2)

inductive ROp
  | setStatus (a : StArg)                                  -- `r.status = a`
  | setHeader (k : Str) (v : PyVal)                        -- `r.headers[k] = v`
  | appendHeader (k : Str) (v : PyVal)                     -- `r.headers.append(k, v)`
  | setCookie (name : Str) (value : Option Str) (opts : List (Str × AVal))
  | deleteCookie (name : Str) (kw : List (Str × AVal))
  | init (cls : Cls) (st : Option StArg) (hdrs more : List (Str × PyVal))   -- a new object replaces `r`
  deriving Repr

/-- one statement on a response object: the object afterwards and the exception class, if any.
`init` stands for `r = cls('', st, hdrs, **more)` (`HTTPError(st, '', headers=hdrs, **more)`): when
the constructor raises the old object stays. -/
def stepR (r : RObj) : ROp → RObj × Option XErr
  | .setStatus a => match setStatusFull a with
    | .ok (c, l) => ({ r with code := some c, line := some l }, Option.none)
    | .error e => (r, some (.py e))
  | .setHeader k v => match setitem r.store k v with
    | .ok d => ({ r with store := d }, Option.none)
    | .error e => (r, some (.py e))
  | .appendHeader k v => match append r.store k v with
    | .ok d => ({ r with store := d }, Option.none)
    | .error e => (r, some (.py e))
  | .setCookie n v o => let (j, e) := setCookie r.jar n v o; ({ r with jar := j }, e)
  | .deleteCookie n kw => let (j, e) := deleteCookie r.jar n kw; ({ r with jar := j }, e)
  | .init c st hdrs more =>
    match respNew c true with
    | .error e => (r, some (.py e))
    | .ok () => match initFull (clsDefault c) (.text []) st hdrs more with
      | (_, some e) => (r, some (.py e))
      | (r', Option.none) => (r', Option.none)

def runR : RObj → List ROp → RObj × List (Option XErr)
  | r, [] => (r, [])
  | r, op :: ops =>
    let (r', e) := stepR r op
    let (r'', es) := runR r' ops
    (r'', e :: es)

/-- `HTTPResponse()` -/
def RObj.fresh : RObj :=
  { code := some Gen.defaultStatus, line := statusLine Gen.defaultStatus, store := [], jar := [], body := .text [] }

/-- what is observable of a response object: `status_code`, `status_line` (= `status`), `headerlist` -/
def observe (r : RObj) : Option Nat × Option Str × List (Str × Str) := (r.code, r.line, headerlist r.toResp)

end Ombott.RespHelp
