import OmbottModel.Model.Router
/-!
The plain rule-by-rule semantics that C01 refers to.  No tree: a rule is its pattern, and a
path is resolved by trying every rule on its own.
-/
namespace Ombott.Router
open Py

/-- a registered rule as the specification sees it: pattern (filters inline), the route it
stands for, the parameter names stored with it -/
structure Rule where
  pat : List Sym
  data : Nat
  keys : List Str
  deriving DecidableEq, Repr

/-- left to right: literal text must come next; a wildcard is tried only if something is left
and takes what its filter (or "up to the next separator") says, once; success iff nothing is
left at the end.  The values are the filters' converted values in order. -/
def matchRule (env : FilterEnv) : List Sym → Str → Option (List Val)
  | [], [] => some []
  | [], _ :: _ => none
  | .lit _ :: _, [] => none
  | .lit c :: ps, d :: p => if c = d then matchRule env ps p else none
  | .tok _ :: _, [] => none
  | .tok f :: ps, d :: p =>
    match tokRes env f (d :: p) with
    | none => none
    | some r => (matchRule env ps ((d :: p).drop r.n)).map (r.val :: ·)

/-- `p` wins over `q`: at the first position where they differ `p` has literal text and `q` a
wildcard -/
def prio : List Sym → List Sym → Bool
  | a :: p, b :: q =>
    if a = b then prio p q
    else match a, b with
      | .lit _, .tok _ => true
      | _, _ => false
  | _, _ => false

/-- the rule a plain matcher selects: it matches the whole path and wins over every other rule
that matches too.  `none` iff there is no such rule. -/
def specResolve (env : FilterEnv) (rules : List Rule) (path : Str) : Option (Rule × List Val) :=
  rules.findSome? fun r =>
    match matchRule env r.pat path with
    | none => none
    | some vs =>
      if rules.all fun q => q.pat == r.pat || (matchRule env q.pat path).isNone || prio r.pat q.pat
      then some (r, vs) else none

/-- no filter answers with a `rex` selector (the two-pass lookup a selector triggers is not a
rule-by-rule notion) -/
def NoSel (env : FilterEnv) : Prop := ∀ f s r, env f s = some r → r.sel = none

/-! ### what a tree stands for -/

def litSyms (k : Str) : List Sym := k.map Sym.lit

/-- a rule found below a node, seen from above the node -/
def Rule.under (pre : List Sym) (r : Rule) : Rule := { r with pat := pre ++ r.pat }

def ownRule : Option Nat → List Str → List Rule
  | some d, keys => [⟨[], d, keys⟩]
  | none, _ => []

mutual
/-- the rules stored in the subtree of a node (its own key excluded), in depth-first order:
the node itself, the literal children in order, the wildcard child -/
def denN : Node → List Rule
  | .mk _ d pk _ _ lits tok => ownRule d pk ++ denL lits ++ denT tok
def denT : Option Node → List Rule
  | none => []
  | some t => (denN t).map (Rule.under [Sym.tok t.filter])
def denL : List Node → List Rule
  | [] => []
  | k :: ks => (denN k).map (Rule.under (litSyms k.key)) ++ denL ks
end

/-- the rules a tree holds -/
def denote (t : Node) : List Rule := denN t

mutual
/-- well-formed tree: literal children have non-empty keys with pairwise distinct first
characters.  Nothing is required of nodes without data (removals leave them behind). -/
def WFN : Node → Prop
  | .mk _ _ _ _ _ lits tok => WFL lits ∧ WFT tok
def WFT : Option Node → Prop
  | none => True
  | some t => WFN t
def WFL : List Node → Prop
  | [] => True
  | k :: ks => k.key ≠ [] ∧ WFN k ∧ WFL ks ∧ (∀ k' ∈ ks, k'.key.head? ≠ k.key.head?)
end

/-- what `get` answers as far as C01 is concerned: route, stored names, values -/
def Res.core : Res → Option (Nat × List Str × List Val)
  | .hit d k v _ => some (d, k, v)
  | .miss .. => none

end Ombott.Router
