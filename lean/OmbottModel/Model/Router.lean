import OmbottModel.Py
import OmbottModel.Gen.Router
/-!
Executable model of the router of `ombott` (`ombott/router/*.py`, `Ombott.to_route/handler`).

Sections (kept separate because C11 and C19 extend them):
  1. values, symbols, filter environment
  2. rule parser          (`sym_stream.py`, `parser.py`, `Route.parse_rule`, `FilterFactory.make_filter`)
  3. radix tree           (`radidict.py`: `_match`, `_set`/`_split`/`_mount`/`_make_route`, `get`)
  4. `Route` objects      (`radirouter.py`: method table)
  5. `RadiRouter`         (`routes`, `named_routes`, `add/_add/_match/resolve`)
  6. `Ombott.to_route/handler` glue

Conventions.  A *pattern* is a `List Sym`: `Sym.lit c` for literal text, `Sym.tok f` for the
wildcard marker (`RadiDict.param_token`, a CR in the Python pattern string) together with the
filter registered at that position (`none` = plain wildcard).  Python keeps the filters in a list
beside the pattern string and pairs them up by counting markers; the two representations are
the same as long as the rule text itself contains no marker character and no parameter name is
repeated inside one rule (`inDomain`); outside that domain Python mis-pairs them (IndexError
after a partial update of the tree) and the model is not meant to follow.

Regular expressions stay in Python: the filter handlers are a parameter (`FilterEnv`).
`IS_EXCLUSIVE`/`WEIGHT` are never used by `RadiRouter` (always `False`/unused) and are left out.
-/
namespace Ombott.Router
open Py

/-! ## 1. values, symbols, filter environment -/

/-- a value bound to a wildcard: the matched text, or what a converting filter (`int`, `float`)
made of it, carried as the canonical text the harness ships (`int:12`) -/
inductive Val
  | str (s : Str)
  | conv (repr : Str)
  deriving DecidableEq, Repr, Inhabited

/-- identity of a filter handler: the cache key `f'{filter}({args})'` of
`FilterFactory._filter_cache` (equal keys ⇒ the identical handler object) -/
abbrev Fid := Str

inductive Sym
  | lit (c : Char)
  | tok (f : Option Fid)
  deriving DecidableEq, Repr, Inhabited

/-- result of a filter handler on the remaining text: converted value, characters consumed,
`rex` selector (group number) -/
structure FilterRes where
  val : Val
  n : Nat
  sel : Option Nat
  deriving DecidableEq, Repr

/-- `handler(route[i:])` for every filter; `none` = the handler answered `(None, 0, None)` -/
abbrev FilterEnv := Fid → Str → Option FilterRes

/-- the plain wildcard: everything up to the next `path_sep` (possibly nothing) -/
def plainTok (rest : Str) : FilterRes :=
  let v := rest.takeWhile (· != Gen.pathSep)
  ⟨.str v, v.length, none⟩

/-- what the wildcard with filter `f` does on `rest` (`RadiDict.get`, token branch) -/
def tokRes (env : FilterEnv) (f : Option Fid) (rest : Str) : Option FilterRes :=
  match f with
  | some g => env g rest
  | none => some (plainTok rest)

/-- the pattern string of Python (`Route.pattern`): marker character for every wildcard -/
def symChar : Sym → Char
  | .lit c => c
  | .tok _ => Gen.paramToken

def patStr (p : List Sym) : Str := p.map symChar

/-! ## 2. rule parser -/

/-- one item yielded by `Parser.iter_parse`: `(part, param, filter, filter_args, filter_selector)` -/
structure Part where
  part : Option Str := none
  param : Option Str := none
  filter : Option Str := none
  args : Option Str := none
  sel : Option Str := none
  deriving DecidableEq, Repr

def isAsciiAlpha (c : Char) : Bool := ('a' ≤ c && c ≤ 'z') || ('A' ≤ c && c ≤ 'Z')

/-- `\w` of `re` on `str` patterns (Unicode aware; ranges above ASCII come from the running
interpreter, `Gen.wordRanges`) -/
def isWord (c : Char) : Bool :=
  isAsciiAlpha c || c.isDigit || c == '_' ||
  (c.toNat ≥ 0x80 && Gen.wordRanges.any fun (lo, hi) => lo ≤ c.toNat && c.toNat ≤ hi)

/-- `[a-zA-Z_]` -/
def isNameStart (c : Char) : Bool := isAsciiAlpha c || c == '_'

/-- `re.match(r'[a-zA-Z_]\w*', s)`: `(name, rest)` -/
def pyName : Str → Option (Str × Str)
  | c :: r => if isNameStart c then some (c :: r.takeWhile isWord, r.dropWhile isWord) else none
  | [] => none

/-- `param_tokens = param_delimiters + ':'` -/
def isParamTok (c : Char) : Bool := c == ':' || Gen.paramDelims.any (·.1 == c)

def closeOf (c : Char) : Option Char := (Gen.paramDelims.find? (·.1 == c)).map (·.2)

/-- `find_pos_after_close_paren` started on the character after the opening parenthesis:
`(inside, rest after the closing parenthesis)`; a backslash skips the next character -/
def scanParen : Str → Nat → Str → Option (Str × Str)
  | [], _, _ => none
  | '\\' :: [], _, _ => none
  | '\\' :: c :: r, lvl, acc => scanParen r lvl (c :: '\\' :: acc)
  | c :: r, lvl, acc =>
    if c == ')' then
      match lvl with
      | 0 => some (acc.reverse, r)
      | l + 1 => scanParen r l (c :: acc)
    else if c == '(' then scanParen r (lvl + 1) (c :: acc)
    else scanParen r lvl (c :: acc)

/-- tail of `re.match(r'\[(.+?)\]', …)` after the first group character: shortest run of
non-newline characters up to a `]` -/
def scanSelTail : Str → Str → Option (Str × Str)
  | [], _ => none
  | c :: r, acc =>
    if c == ']' then some (acc.reverse, r)
    else if c == '\n' then none
    else scanSelTail r (c :: acc)

/-- `S.expect(r'\[(.+?)\]', 1)` with `S.current == '['` -/
def scanSel : Str → Option (Str × Str)
  | '[' :: c :: r => if c == '\n' then none else scanSelTail r [c]
  | _ => none

/-- `S.expect(dclose)` -/
def expectClose (dclose : Char) (s : Str) : Except Err Str :=
  match s with
  | c :: r => if c == dclose then .ok r else .error .routeSyntaxError
  | [] => .error .routeSyntaxError

/-- the `if filter:` block of `_parse_param`: argument and selector syntax after the filter name -/
def parseFilterTail (dclose : Char) (s : Str) : Except Err (Option Str × Option Str × Str) :=
  match s with
  | [] => .error .typeError              -- `None in ':(>'`
  | c :: r =>
    if c == dclose then .ok (none, none, s)
    else if c == '(' then
      match scanParen r 0 [] with
      | none => .error .routeSyntaxError
      | some (args, r') =>
        if r'.head? == some '[' then
          match scanSel r' with
          | some (sel, r'') => .ok (some args, some sel, r'')
          | none => .error .routeSyntaxError
        else .ok (some args, none, r')
    else if c == ':' then
      -- bottle style: `S.next(); filter_args = S.eat('[^>]+')`
      .ok (if (r.takeWhile (· != dclose)).isEmpty then none else some (r.takeWhile (· != dclose)), none,
           r.dropWhile (· != dclose))
    else .error .routeSyntaxError

/-- `_parse_param` after the first name inside `<…>` / `{…}`: `(param, filter, rest)` -/
def parseAfterName (dclose : Char) (bottle : Bool) (name : Str) (r1 : Str) :
    Except Err (Option Str × Option Str × Str) :=
  match r1 with
  | [] => .error .routeSyntaxError
  | c :: r1' =>
    if c == dclose then .ok (if bottle then none else some name, if bottle then some name else none, r1)
    else if c == '.' then
      match pyName r1' with
      | some (f, r2) => .ok (some name, some f, r2)
      | none => .error .routeSyntaxError
    else if c == ':' then
      if bottle then .ok (none, some name, r1)
      else
        match pyName r1' with
        | some (f, r2) => .ok (some name, some f, r2)
        | none => .error .routeSyntaxError
    else if c == '(' then .ok (none, some name, r1)
    else .error .routeSyntaxError

/-- `_parse_param`: filter arguments / selector (if there is a filter) and the closing delimiter -/
def parseClose (dclose : Char) (param filter : Option Str) (r2 : Str) : Except Err (Part × Str) :=
  match filter with
  | none => (expectClose dclose r2).map fun r3 => ({ param := param }, r3)
  | some f =>
    match parseFilterTail dclose r2 with
    | .error e => .error e
    | .ok (args, sel, r3) =>
      (expectClose dclose r3).map fun r4 => ({ param := param, filter := some f, args := args, sel := sel }, r4)

/-- `Parser._parse_param` with `S.current` the first character of `s` (a param token).
Returns the item and the rest of the rule. -/
def parseParam (s : Str) : Except Err (Part × Str) :=
  match s with
  | [] => .error .routeSyntaxError
  | first :: r =>
    if first == ':' then
      if r.isEmpty then .ok ({}, []) else
      -- `S.expect(r'([a-zA-Z_]\w*)?((?=/)|$)', group=1)`: a missing group is reported as no match
      match pyName r with
      | some (nm, r') =>
        if r'.isEmpty || r' == ['\n'] || r'.head? == some '/' then .ok ({ param := some nm }, r')
        else .error .routeSyntaxError
      | none => .error .routeSyntaxError
    else
      match closeOf first with
      | none => .error .assertionError
      | some dclose =>
        let bottle := r.head? == some ':'
        match pyName (if bottle then r.drop 1 else r) with
        | none => .error .routeSyntaxError
        | some (name, r1) =>
          match parseAfterName dclose bottle name r1 with
          | .error e => .error e
          | .ok (param, filter, r2) => parseClose dclose param filter r2

/-- `Parser._iter_parse` as the list of items produced before the generator stops or raises -/
def iterParse (fuel : Nat) (s : Str) : List Part × Option Err :=
  match fuel with
  | 0 => ([], none)
  | fuel + 1 =>
    match s with
    | [] => ([], none)
    | c :: _ =>
      if isParamTok c then
        match parseParam s with
        | .error e => ([], some e)
        | .ok (p, rest) =>
          -- `path` takes the literal text that follows as its argument
          let p := if p.filter == some "path".toList then
              let pre := rest.takeWhile (fun c => !isParamTok c)
              { p with args := some (if pre.isEmpty then rest else pre) }
            else p
          let (ps, e) := iterParse fuel rest
          (p :: ps, e)
      else
        let part := s.takeWhile (fun c => !isParamTok c)
        let (ps, e) := iterParse fuel (s.dropWhile (fun c => !isParamTok c))
        ({ part := some part } :: ps, e)

/-- cache key of `FilterFactory.make_filter` -/
def fkey (filter : Str) (args : Option Str) : Fid :=
  filter ++ '(' :: (args.getD "None".toList) ++ [')']

/-- outcome of building a filter that the model cannot decide: the regular expression does not
compile (`re.error`) or `re.compile(None)` (TypeError).  Shipped by the harness per rule. -/
abbrev CompileEnv := Fid → Option String

/-- errors of a registration: Python class name -/
abbrev ErrName := String

/-- the parsed rule: what `Route.parse_rule` returns -/
structure Parsed where
  syms : List Sym            -- `pattern` with the filters zipped in
  params : List Str
  symsOut : List Sym         -- `pattern_out` (no selector text)
  deriving Repr

def Parsed.filters (p : Parsed) : List (Option Fid) :=
  p.syms.filterMap fun | .tok f => some f | .lit _ => none

/-- `FilterFactory.make_filter(filter, args)`: the handler identity, or the exception -/
def makeFilter (cenv : CompileEnv) (filter : Option Str) (args : Option Str) :
    Except ErrName (Option Fid) :=
  match filter with
  | none => pure none
  | some f =>
    if f.isEmpty then pure none else
    let k := fkey f args
    match cenv k with
    | some e => throw e
    | none =>
      if Gen.filterNames.any (·.toList == f) then pure (some k) else throw "KeyError"

/-- loop body of `Route.parse_rule` -/
def parseParts (cenv : CompileEnv) : List Part → Nat → Except ErrName Parsed
  | [], _ => pure ⟨[], [], []⟩
  | p :: ps, anon =>
    match p.part with
    | some txt =>
      do
      let rest ← parseParts cenv ps anon
      let lits := txt.map Sym.lit
      pure ⟨lits ++ rest.syms, rest.params, lits ++ rest.symsOut⟩
    | none => do
      let (name, anon') := match p.param with
        | some n => if n.isEmpty then (Gen.anonPrefix.toList ++ natStr anon, anon + 1) else (n, anon)
        | none => (Gen.anonPrefix.toList ++ natStr anon, anon + 1)
      let f ← makeFilter cenv p.filter p.args
      let rest ← parseParts cenv ps anon'
      let sel := (p.sel.getD []).map Sym.lit
      pure ⟨.tok f :: sel ++ rest.syms, name :: rest.params, .tok f :: rest.symsOut⟩

/-- `Route.parse_rule(rule)`.  The generator of `iter_parse` is consumed lazily, so a filter that
does not build is reported before a syntax error further right. -/
def parseRule (cenv : CompileEnv) (rule : Str) : Except ErrName Parsed :=
  match rule with
  | [] => throw "IndexError"
  | c :: r =>
    if c != '/' then throw "AssertionError" else
    let (parts, e) := iterParse (r.length + 1) r
    match parseParts cenv parts 0, e with
    | .error x, _ => throw x
    | .ok p, none => pure p
    | .ok _, some x => throw x.name

/-- inputs on which pattern string + filter list (Python) and `List Sym` (model) describe the
same thing: no marker character in the rule text, no repeated parameter name -/
def inDomain (rule : Str) (p : Parsed) : Bool :=
  !rule.contains Gen.paramToken && p.params.eraseDups.length == p.params.length

/-! ## 3. radix tree (`RadiDict`) -/

/-- `[simple, partial]` hook pair of a node (`RadiRouter.hook_installer`) -/
structure HookPair where
  simple : Option Nat
  partialHook : Option Nat
  deriving DecidableEq, Repr

/-- list node of `RadiDict`: `KEY, PARAMS, FILTER, HOOKS, DATA` and the children; `IDX` is
derived (first characters of the literal children in order, then the marker if there is a
wildcard child).  Literal children are kept in the Python order (newest first), the wildcard
child last. -/
inductive Node where
  | mk (key : Str) (data : Option Nat) (params : List Str) (filter : Option Fid)
       (hooks : Option HookPair) (lits : List Node) (tok : Option Node)
  deriving Repr

namespace Node
def key : Node → Str | mk k _ _ _ _ _ _ => k
def data : Node → Option Nat | mk _ d _ _ _ _ _ => d
def params : Node → List Str | mk _ _ p _ _ _ _ => p
def filter : Node → Option Fid | mk _ _ _ f _ _ _ => f
def hooks : Node → Option HookPair | mk _ _ _ _ h _ _ => h
def lits : Node → List Node | mk _ _ _ _ _ l _ => l
def tok : Node → Option Node | mk _ _ _ _ _ _ t => t
def withKey : Node → Str → Node | mk _ d p f h l t, k => mk k d p f h l t
/-- `self._make_node(key='/')` -/
def root : Node := mk ['/'] none [] none none [] none
end Node

/-! ### 3a. `RadiDict._match` (walk along a pattern) -/

inductive Mismatch
  | whole | partialKey | filter
  deriving DecidableEq, Repr

/-- the literal characters a pattern starts with (`ckey[:self._token_pos(ckey)]`) -/
def litRun : List Sym → Str
  | .lit c :: r => c :: litRun r
  | _ => []

/-- `key == route[i:key_end]` for a literal key: the rest of the pattern after the key -/
def stripKey : Str → List Sym → Option (List Sym)
  | [], p => some p
  | k :: ks, .lit c :: p => if k == c then stripKey ks p else none
  | _ :: _, _ => none

mutual
/-- `RadiDict._match(route, param_filters=…)` from node `n`: the node reached, or the kind of
mismatch.  `cmp = false` is the call without `param_filters` (no filter comparison). -/
def findN (cmp : Bool) : Node → List Sym → Except Mismatch Node
  | n, [] => .ok n
  | .mk _ _ _ _ _ lits _, .lit c :: r => findL cmp lits c r
  | .mk _ _ _ _ _ _ tok, .tok g :: r => findT cmp tok g r
def findT (cmp : Bool) : Option Node → Option Fid → List Sym → Except Mismatch Node
  | none, _, _ => .error .whole
  | some t, g, r => if cmp && t.filter != g then .error .filter else findN cmp t r
def findL (cmp : Bool) : List Node → Char → List Sym → Except Mismatch Node
  | [], _, _ => .error .whole
  | k :: ks, c, r =>
    if k.key.head? == some c then
      (stripKey k.key (.lit c :: r)).elim (.error .partialKey) fun rest => findN cmp k rest
    else findL cmp ks c r
end

/-! ### 3b. `RadiDict._set` (`_match` + `_split` + `_make_route`) -/

/-- arguments of `_set` -/
structure SetArgs where
  data : Option Nat := none
  hooks : Option HookPair := none
  names : List Str := []          -- `prm_keys`
  overwrite : Bool := true

/-- the `if not mismatch:` block of `_set` at the node that was reached -/
def setHere (a : SetArgs) : Node → Except Err Node
  | .mk k d p f h lits tok =>
    if a.data.isSome && d.isSome && !a.overwrite then .error .radiDictKeyError
    else if a.hooks.isSome && h.isSome && !a.overwrite then .error .radiDictKeyError
    else .ok (.mk k (if a.data.isSome then a.data else d) (if a.data.isSome then a.names else p) f
      (if a.hooks.isSome then a.hooks else h) lits tok)

mutual
/-- `_make_route` below a literal node whose key is still being collected -/
def chainLit (a : SetArgs) : Str → List Sym → Node
  | key, [] => .mk key a.data a.names none a.hooks [] none
  | key, .lit c :: r => chainLit a (key ++ [c]) r
  | key, .tok g :: r => .mk key none [] none none [] (some (chainTok a g r))
/-- `_make_route` below a freshly mounted wildcard node -/
def chainTok (a : SetArgs) : Option Fid → List Sym → Node
  | g, [] => .mk [Gen.paramToken] a.data a.names g a.hooks [] none
  | g, .lit c :: r => .mk [Gen.paramToken] none [] g none [chainLit a [c] r] none
  | g, .tok g' :: r => .mk [Gen.paramToken] none [] g none [] (some (chainTok a g' r))
end

def commonPrefix : Str → Str → Str
  | a :: as, b :: bs => if a == b then a :: commonPrefix as bs else []
  | _, _ => []

/-- `MismatchType.PARTIAL`: `_split(node, by_key=ckey)` and what `_set` does next (set the item
on the new node, or `_make_route` below it).  `route` starts at the node's key. -/
def splitIns (a : SetArgs) (n : Node) (route : List Sym) : Except Err Node :=
  let cp := commonPrefix n.key (litRun route)
  let old := n.withKey (n.key.drop cp.length)
  match route.drop cp.length with
  | [] => setHere a (.mk cp none [] none none [old] none)
  | .lit c :: r => .ok (.mk cp none [] none none [chainLit a [c] r, old] none)
  | .tok g :: r => .ok (.mk cp none [] none none [old] (some (chainTok a g r)))

mutual
/-- `RadiDict._set(pnode, route, …)`: the new node, or the exception (tree unchanged) -/
def insN (a : SetArgs) : Node → List Sym → Except Err Node
  | n, [] => setHere a n
  | .mk k d p f h lits tok, .lit c :: r =>
    (insL a lits c r).map fun o => .mk k d p f h (o.getD (chainLit a [c] r :: lits)) tok
  | .mk k d p f h lits tok, .tok g :: r =>
    (insT a tok g r).map fun t => .mk k d p f h lits (some t)
def insT (a : SetArgs) : Option Node → Option Fid → List Sym → Except Err Node
  | none, g, r => .ok (chainTok a g r)
  | some t, g, r => if t.filter != g then .error .radiDictKeyError else insN a t r
/-- `none`: no literal child starts with `c` (the caller mounts a new first child) -/
def insL (a : SetArgs) : List Node → Char → List Sym → Except Err (Option (List Node))
  | [], _, _ => .ok none
  | k :: ks, c, r =>
    if k.key.head? == some c then
      ((stripKey k.key (.lit c :: r)).elim (splitIns a k (.lit c :: r)) fun rest => insN a k rest).map
        fun k' => some (k' :: ks)
    else (insL a ks c r).map fun o => o.map (k :: ·)
end

/-- `RadiDict.add(route_pattern, data, params, overwrite=…)` -/
def treeAdd (t : Node) (pat : List Sym) (data : Nat) (names : List Str) (overwrite : Bool := false) :
    Except Err Node :=
  insN { data := some data, names := names, overwrite := overwrite } t pat

/-- `RadiDict.add_hooks(route_pattern, hooks, params, overwrite=…)` -/
def treeAddHooks (t : Node) (pat : List Sym) (hooks : HookPair) (overwrite : Bool := false) :
    Except Err Node :=
  insN { hooks := some hooks, overwrite := overwrite } t pat

/-! ### 3c. `RadiDict.get` -/

/-- loop state of `get` that travels with the search position: `route[:i]`, `params`, `hooks` -/
structure Acc where
  pre : Str := []
  vals : List Val := []
  hooks : List (Nat × HookPair) := []
  deriving Repr

/-- result of `get(route, allow_partial=True)` -/
inductive Res
  | hit (data : Nat) (keys : List Str) (vals : List Val) (hooks : List (Nat × HookPair))
  | miss (vals : List Val) (hooks : List (Nat × HookPair)) (partialRoute : Str)
  deriving Repr

def Res.isHit : Res → Bool
  | .hit .. => true
  | .miss .. => false

def Acc.miss (a : Acc) : Res := .miss a.vals a.hooks a.pre

/-- `hooks.append([i, h])` after `i` moved to the end of `pre` -/
def Acc.advance (a : Acc) (eaten : Str) (h : Option HookPair) : Acc :=
  let pre := a.pre ++ eaten
  { a with pre := pre, hooks := match h with | some hp => a.hooks ++ [(pre.length, hp)] | none => a.hooks }

/-- the `else` of the inner loop (`i == L`): a hit if the node holds data -/
def Acc.atEnd (a : Acc) (d : Option Nat) (pk : List Str) : Res :=
  match d with
  | some v => .hit v pk a.vals a.hooks
  | none => a.miss

/-- the alternatives of one node: result of the literal child (if one starts with the next
character), then the wildcard child when there is one (`look_back` entry with `look_type`
true), else the literal child's failure stands -/
def Res.orTok (lit : Option Res) (hasTok : Bool) (tokAlt : Unit → Res) : Res :=
  match lit with
  | none => tokAlt ()
  | some (.hit d k v h) => .hit d k v h
  | some (.miss v h p) => if hasTok then tokAlt () else .miss v h p

def Res.orElse (r : Res) (alt : Unit → Res) : Res :=
  match r with
  | .hit d k v h => .hit d k v h
  | .miss .. => alt ()

/-- `key == route[i:key_end]` -/
def stripPre : Str → Str → Option Str
  | [], p => some p
  | k :: ks, c :: p => if k == c then stripPre ks p else none
  | _ :: _, [] => none

/-- the wildcard branch of `get` at a node whose wildcard child has filter `f` and hooks `h`;
`k` continues the search below the wildcard child.  With a selector the search first runs on
`str(selector) + route[i:]` and, when that fails, again on `route[i:]` (`look_back` entry with
`look_type` false). -/
def tokStep (env : FilterEnv) (f : Option Fid) (h : Option HookPair) (a : Acc) (rest : Str)
    (k : Acc → Str → Res) : Res :=
  match tokRes env f rest with
  | none => a.miss
  | some ⟨v, n, sel⟩ =>
    let a' := ({ a with vals := a.vals ++ [v] } : Acc).advance (rest.take n) h
    match sel with
    | none => k a' (rest.drop n)
    | some s => (k { a' with pre := [] } (natStr s ++ rest.drop n)).orElse fun _ => k a' (rest.drop n)

mutual
/-- inner `while i < L` loop of `get` standing at node `n` with `route[i:] = rest` -/
def getN (env : FilterEnv) : Node → Acc → Str → Res
  | .mk _ d pk _ _ _ _, a, [] => a.atEnd d pk
  | .mk _ _ _ _ _ lits tok, a, c :: p =>
    Res.orTok (getL env lits a c p) tok.isSome fun _ => getT env tok a (c :: p)
def getT (env : FilterEnv) : Option Node → Acc → Str → Res
  | none, a, _ => a.miss
  | some t, a, rest => tokStep env t.filter t.hooks a rest fun a' r => getN env t a' r
/-- the literal child chosen by the first character (`none`: there is none).  The wildcard child
is not in `lits`, so it is never taken through this branch (the `c != TOKEN` test of `get`). -/
def getL (env : FilterEnv) : List Node → Acc → Char → Str → Option Res
  | [], _, _, _ => none
  | k :: ks, a, c, p =>
    if k.key.head? == some c then
      some ((stripPre k.key (c :: p)).elim a.miss fun rest => getN env k (a.advance k.key k.hooks) rest)
    else getL env ks a c p
end

/-- `RadiDict.get(route, allow_partial=True)` -/
def treeGet (env : FilterEnv) (t : Node) (route : Str) : Res :=
  getN env t { hooks := match t.hooks with | some h => [(0, h)] | none => [] } route

/-! ## 4. `Route` objects -/

/-- `RouteMethod` (`meta` left out) -/
structure RouteMethod where
  name : Str
  handler : Nat
  params : List Str
  deriving DecidableEq, Repr

/-- Python `dict` assignment: keep the position of an existing key, append a new one -/
def dictSet {α β} [BEq α] (d : List (α × β)) (k : α) (v : β) : List (α × β) :=
  if d.any (·.1 == k) then d.map fun (k', v') => if k' == k then (k', v) else (k', v')
  else d ++ [(k, v)]

def dictGet {α β} [BEq α] (d : List (α × β)) (k : α) : Option β := (d.find? (·.1 == k)).map (·.2)

def dictPop {α β} [BEq α] (d : List (α × β)) (k : α) : List (α × β) := d.filter (·.1 != k)

structure Route where
  rule : Str
  syms : List Sym
  params : List Str
  symsOut : List Sym
  methods : List (Str × RouteMethod) := []
  deriving Repr

/-- `Route.pattern` -/
def Route.pattern (r : Route) : Str := patStr r.syms

/-- `Route._set_methods` -/
def Route.setMethods (r : Route) (methods : List Str) (handler : Nat) (params : List Str) : Route :=
  methods.foldl (fun r m => { r with methods := dictSet r.methods m ⟨m, handler, params⟩ }) r

/-- `Route.add_method`: `_raise_if_registered` then `_set_methods` -/
def Route.addMethod (r : Route) (methods : List Str) (handler : Nat) (params : List Str) :
    Except Err Route :=
  if methods.any fun m => r.methods.any (·.1 == m) then throw .routeMethodError
  else pure (r.setMethods methods handler params)

/-- `Route.remove_method` -/
def Route.removeMethod (r : Route) (methods : List Str) : Route :=
  { r with methods := methods.foldl dictPop r.methods }

/-- `Route.__getitem__`: the first candidate that is registered -/
def Route.getItem (r : Route) : List Str → Except Err RouteMethod
  | [] => throw .routeMethodError
  | m :: ms =>
    match dictGet r.methods m with
    | some rm => pure rm
    | none => r.getItem ms

/-- `Route.make_params_dict`: zip, anonymous names dropped, `dict` semantics for repeats -/
def makeParamsDict (names : List Str) (vals : List Val) : List (Str × Val) :=
  (names.zip vals).foldl
    (fun d (n, v) => if Gen.anonPrefix.toList.isPrefixOf n then d else dictSet d n v) []

/-! ## 5. `RadiRouter` -/

/-- lexicographic `<` of Python `str` (code points) -/
def strLt : Str → Str → Bool
  | [], [] => false
  | [], _ :: _ => true
  | _ :: _, [] => false
  | a :: as, b :: bs => if a.toNat < b.toNat then true else if b.toNat < a.toNat then false else strLt as bs

def insertSorted (x : Str) : List Str → List Str
  | [] => [x]
  | y :: ys => if strLt y x then y :: insertSorted x ys else x :: y :: ys

/-- `sorted(names)` -/
def sortStrs (l : List Str) : List Str := l.foldr insertSorted []

/-- `",".join(l)` -/
def joinComma : List Str → Str
  | [] => []
  | [x] => x
  | x :: xs => x ++ ',' :: joinComma xs

structure Router where
  tree : Node := Node.root
  /-- the `Route` objects ever stored, index = object identity -/
  objs : List Route := []
  /-- `routes`: pattern string ↦ route -/
  routes : List (Str × Nat) := []
  /-- `named_routes` -/
  named : List (Str × Nat) := []
  /-- `hooks`: pattern string ↦ hook pair (C11) -/
  hookIdx : List (Str × HookPair) := []
  deriving Repr

def Router.obj? (R : Router) (id : Nat) : Option Route := R.objs[id]?

def Router.setObj (R : Router) (id : Nat) (r : Route) : Router := { R with objs := R.objs.set id r }

/-- `RadiRouter._match(pattern, filters)`: `node[DATA]` of the node reached without mismatch -/
def Router.matchPat (R : Router) (pat : List Sym) : Option Nat :=
  match findN true R.tree pat with
  | .ok n => n.data
  | .error _ => none

/-- ASCII `str.upper` (the parameter `upper` of `add` as the driver instantiates it) -/
def asciiUpper (s : Str) : Str := s.map fun c => if 'a' ≤ c && c ≤ 'z' then Char.ofNat (c.toNat - 32) else c

structure AddArgs where
  rule : Str
  methods : List Str
  handler : Nat
  name : Option Str := none
  overwrite : Bool := false

/-- first half of `RadiRouter._add`: `route_ = self._match(route.pattern, route.filters)`; the
route found, or a new `Route` stored in the tree and in `routes` -/
def Router.findOrInsert (R : Router) (rule : Str) (p : Parsed) : Router × Except ErrName Nat :=
  match R.matchPat p.syms with
  | some id => (R, .ok id)
  | none =>
    match treeAdd R.tree p.syms R.objs.length p.params with
    | .error e => (R, .error e.name)
    | .ok t =>
      ({ R with tree := t,
                objs := R.objs ++ [{ rule := rule, syms := p.syms, params := p.params, symsOut := p.symsOut }],
                routes := dictSet R.routes (patStr p.syms) R.objs.length }, .ok R.objs.length)

/-- the name part of `_add` (after the methods were stored) -/
def Router.registerName (R : Router) (a : AddArgs) (id : Nat) : Router × Except ErrName Nat :=
  match a.name with
  | none => (R, .ok id)
  | some nm =>
    if nm.isEmpty then (R, .ok id) else
    match dictGet R.named nm with
    | some reg =>
      if !a.overwrite && reg != id then (R, .error "RouteBuildError")
      else ({ R with named := dictSet R.named nm id }, .ok id)
    | none => ({ R with named := dictSet R.named nm id }, .ok id)

/-- second half of `_add`: `set_method` / `add_method` on the route, then the name -/
def Router.register (R : Router) (a : AddArgs) (p : Parsed) (id : Nat) : Router × Except ErrName Nat :=
  match R.obj? id with
  | none => (R, .error "fault")
  | some route =>
    if a.overwrite then (R.setObj id (route.setMethods a.methods a.handler p.params)).registerName a id
    else
      match route.addMethod a.methods a.handler p.params with
      | .error e => (R, .error e.name)
      | .ok route' => (R.setObj id route').registerName a id

/-- `RadiRouter._add` after the rule was parsed; methods already upper-cased.  Returns the new
state together with the outcome, because a rejected `add` can leave effects behind (name clash
is detected after the methods were stored). -/
def Router.addParsed (R : Router) (a : AddArgs) (p : Parsed) : Router × Except ErrName Nat :=
  -- `RadiRouter._match`: `if route_pattern: assert route_pattern[0] != '/'`
  if p.syms.head? == some (.lit '/') then (R, .error "AssertionError") else
  match R.findOrInsert a.rule p with
  | (R', .error e) => (R', .error e)
  | (R', .ok id) => R'.register a p id

/-- `RadiRouter.add(rule, methods, handler, name, overwrite=…)`; `upper` is `str.upper` -/
def Router.add (upper : Str → Str) (cenv : CompileEnv) (R : Router) (a : AddArgs) :
    Router × Except ErrName Nat :=
  let a := { a with methods := a.methods.map upper }
  match parseRule cenv a.rule with
  | .error e => (R, .error e)
  | .ok p => R.addParsed a p

/-- `route.remove_method(methods)` on the route object `id` (`RouteMethod.remove`) -/
def Router.removeMethod (R : Router) (id : Nat) (methods : List Str) : Router :=
  match R.obj? id with
  | some r => R.setObj id (r.removeMethod methods)
  | none => R

/-- the operations of a registration history (what the driver plays between lookups) -/
inductive Op
  | add (cenv : CompileEnv) (a : AddArgs)
  | removeMethod (id : Nat) (methods : List Str)

def Router.step (upper : Str → Str) (R : Router) : Op → Router
  | .add cenv a => (R.add upper cenv a).1
  | .removeMethod id ms => R.removeMethod id ms

/-- the router after a history, starting from `RadiRouter()` -/
def Router.run (upper : Str → Str) (ops : List Op) : Router := ops.foldl (Router.step upper) {}

/-- `str.strip('/')` -/
def stripSlash (s : Str) : Str := stripBy (· == '/') s

/-- outcome of `RadiRouter.resolve(path, methods)` -/
inductive Resolved
  | found (handler : Nat) (method : Str) (kwargs : List (Str × Val)) (hooks : List (Nat × HookPair))
  | notFound (vals : List Val) (hooks : List (Nat × HookPair)) (partialRoute : Str)
  | notAllowed (allow : Str)
  | fault            -- tree data without a route object (never reached from `add`)
  deriving DecidableEq, Repr

/-- `RadiRouter.resolve(path, methods)` with a non-empty `methods` -/
def Router.resolve (env : FilterEnv) (R : Router) (path : Str) (methods : List Str) : Resolved :=
  match treeGet env R.tree (stripSlash path) with
  | .miss v h p => .notFound v h p
  | .hit id keys vals hooks =>
    match R.obj? id with
    | none => .fault
    | some route =>
      match route.getItem methods with
      | .ok m => .found m.handler m.name
          (makeParamsDict (if m.params.isEmpty then keys else m.params) vals) hooks
      | .error _ => .notAllowed (joinComma (sortStrs (route.methods.map (·.1))))

/-- `RadiRouter.resolve(path)` without methods: the route -/
def Router.resolveRoute (env : FilterEnv) (R : Router) (path : Str) : Option Nat :=
  match treeGet env R.tree (stripSlash path) with
  | .miss .. => none
  | .hit id .. => some id

/-! ## 6. `Ombott.to_route` / `Ombott.handler` -/

/-- the candidate list `Ombott.to_route` passes for a verb (generated table) -/
def candidates (verb : Str) : List Str :=
  let t := match Gen.candSpecial.find? (·.1.toList == verb) with
    | some (_, t) => t
    | none => Gen.candDefault
  t.map fun | none => verb | some m => m.toList

/-- `Ombott.to_route(path, verb)` -/
def Router.toRoute (env : FilterEnv) (R : Router) (path verb : Str) : Resolved :=
  R.resolve env path (candidates verb)

/-- what a request amounts to as far as routing goes (`_handle` + `handler`, no hooks installed):
`request.method` is upper-cased, `request.path` gets exactly one leading slash -/
def Router.handle (upper : Str → Str) (env : FilterEnv) (R : Router) (verb path : Str) : Resolved :=
  R.toRoute env ('/' :: path.dropWhile (· == '/')) (upper verb)

end Ombott.Router
