import OmbottModel.Model.ErrorPage
/-
The abstract notions the C20 theorems are stated with: what "cannot inject markup" means for a
piece of text placed into an HTML page between tags (or, for the quote characters, inside a
quoted attribute value).
-/
namespace Ombott.ErrorPage
open Py

/-- the character references the two escapers may produce; a browser reads each as one
character of data (`& < > " ' '`) -/
def entities : List Str :=
  [['&', 'a', 'm', 'p', ';'], ['&', 'l', 't', ';'], ['&', 'g', 't', ';'], ['&', 'q', 'u', 'o', 't', ';'],
   ['&', '#', 'x', '2', '7', ';'], ['&', '#', '0', '3', '9', ';']]

/-- the characters that can open or close markup, an attribute value or a character reference -/
def special : List Char := ['<', '>', '"', '\'', '&']

/-- Inert text: none of `< > " '` occurs, and every `&` is the first character of one of the
`entities`.  Such text cannot start or end a tag, an attribute value or a comment. -/
def Inert (t : Str) : Prop :=
  (∀ c ∈ t, c ≠ '<' ∧ c ≠ '>' ∧ c ≠ '"' ∧ c ≠ '\'') ∧
  ∀ pre suf, t = pre ++ '&' :: suf → ∃ ent ∈ entities, ent <+: '&' :: suf

/-- a token of escaped text: an entity, or one character that is not special -/
def IsTok (tok : Str) : Prop := tok ∈ entities ∨ ∃ c, tok = [c] ∧ c ∉ special

/-- text that is a sequence of such tokens -/
def Tokenized (t : Str) : Prop := ∃ toks : List Str, t = toks.flatten ∧ ∀ tok ∈ toks, IsTok tok

/-- one character reference at the head of the text, as an HTML parser decodes it -/
def matchEntity : Str → Option (Char × Str)
  | '&' :: 'a' :: 'm' :: 'p' :: ';' :: r => some ('&', r)
  | '&' :: 'l' :: 't' :: ';' :: r => some ('<', r)
  | '&' :: 'g' :: 't' :: ';' :: r => some ('>', r)
  | '&' :: 'q' :: 'u' :: 'o' :: 't' :: ';' :: r => some ('"', r)
  | '&' :: '#' :: 'x' :: '2' :: '7' :: ';' :: r => some ('\'', r)
  | '&' :: '#' :: '0' :: '3' :: '9' :: ';' :: r => some ('\'', r)
  | _ => none

/-- character data between two tags as a (strict) HTML parser reads it: a `<` ends the data
(`none`: markup would start here), an `&` must start one of the references and stands for its
character, everything else is itself.  `fuel` bounds the number of characters. -/
def htmlData : Nat → Str → Option Str
  | _, [] => some []
  | 0, _ :: _ => none
  | f + 1, c :: r =>
    if c == '&' then
      match matchEntity (c :: r) with
      | some (d, r') => (htmlData f r').map (d :: ·)
      | none => none
    else if c == '<' then none
    else (htmlData f r).map (c :: ·)

/-- the text a browser shows for `t` placed between two tags; `none` if `t` is not pure data -/
def htmlText (t : Str) : Option Str := htmlData t.length t

/-- what `render` puts between the quotes of `repr(clean_url)`: the escaped URL with `repr`'s
backslash escapes (single-quote variant) -/
def urlCell (pr : Char → Bool) (url : Str) : Str := (pageEscape url).flatMap (reprChar pr '\'')

/-- what a browser shows for the URL cell: the URL with `repr`'s backslash escapes on the
characters that are not special (the special ones show as themselves) -/
def shownUrl (pr : Char → Bool) (url : Str) : Str :=
  url.flatMap fun c => if special.contains c then [c] else reprChar pr '\'' c

/-- the outcomes for which the framework itself creates the error object with a fixed text (404,
405, 500 for a crashing handler, hook or iterator, 400/413 through `errors_map`; 400 for an
undecodable path arises whatever the outcome).  Not among them: `abort` (user text) and
`unsupportedType`, whose body quotes the handler's type name as it is (`<class 'int'>`; not
request text, but not escaped either). -/
def Outcome.framework : Outcome → Bool
  | .notFound | .notAllowed _ | .raises _ _ _ | .requestError _ _ _ | .iterRaises _ _ _ => true
  | .unsupportedType _ | .abort _ _ | .ok _ => false

/-- status line and body text of every framework-generated error: a closed list, nothing in it
comes from a request -/
def frameworkPages : List (Str × Str) :=
  [(statusLine 400, "Invalid path string. Expected UTF-8".toList),
   (statusLine 404, "Not Found".toList),
   (statusLine 405, "Method not allowed.".toList),
   (statusLine 500, "Internal Server Error".toList),
   (statusLine 500, "Unhandled exception".toList)] ++
  Gen.errorsMap.map fun (_, code, body) => (statusLine code, body)

end Ombott.ErrorPage
