import OmbottModel.Model.ErrorPage
/-
The abstract notions the C20 theorems are stated with: what "cannot inject markup" means for a
piece of text placed into an HTML page between tags (or, for the quote characters, inside a
quoted attribute value).
-/
namespace Ombott.ErrorPage
open Py

/-- the character references the two escapers may produce; a browser reads each as one
character of data (`& < > " ' '`) -/
def entities : List Str :=
  [['&', 'a', 'm', 'p', ';'], ['&', 'l', 't', ';'], ['&', 'g', 't', ';'], ['&', 'q', 'u', 'o', 't', ';'],
   ['&', '#', 'x', '2', '7', ';'], ['&', '#', '0', '3', '9', ';']]

/-- the characters that can open or close markup, an attribute value or a character reference -/
def special : List Char := ['<', '>', '"', '\'', '&']

/-- Inert text: none of `< > " '` occurs, and every `&` is the first character of one of the
`entities`.  Such text cannot start or end a tag, an attribute value or a comment. -/
def Inert (t : Str) : Prop :=
  (∀ c ∈ t, c ≠ '<' ∧ c ≠ '>' ∧ c ≠ '"' ∧ c ≠ '\'') ∧
  ∀ pre suf, t = pre ++ '&' :: suf → ∃ ent ∈ entities, ent <+: '&' :: suf

/-- a token of escaped text: an entity, or one character that is not special -/
def IsTok (tok : Str) : Prop := tok ∈ entities ∨ ∃ c, tok = [c] ∧ c ∉ special

/-- text that is a sequence of such tokens -/
def Tokenized (t : Str) : Prop := ∃ toks : List Str, t = toks.flatten ∧ ∀ tok ∈ toks, IsTok tok

/-- what a browser makes of escaped character data: entities back to their characters
(`none` when the text is not tokenised: a bare special character) -/
def entityChar (ent : Str) : Option Char :=
  [(['&', 'a', 'm', 'p', ';'], '&'), (['&', 'l', 't', ';'], '<'), (['&', 'g', 't', ';'], '>'),
   (['&', 'q', 'u', 'o', 't', ';'], '"'), (['&', '#', 'x', '2', '7', ';'], '\''),
   (['&', '#', '0', '3', '9', ';'], '\'')].lookup ent

/-- what `render` puts between the quotes of `repr(clean_url)`: the escaped URL with `repr`'s
backslash escapes (single-quote variant) -/
def urlCell (pr : Char → Bool) (url : Str) : Str := (pageEscape url).flatMap (reprChar pr '\'')

/-- the outcomes for which the framework itself creates the error object (404, 405, 500 for a
crashing handler or hook, 400/413 through `errors_map`; 400 for an undecodable path arises
whatever the outcome) -/
def Outcome.framework : Outcome → Bool
  | .notFound | .notAllowed _ | .raises _ _ _ | .requestError _ _ _ => true
  | .abort _ _ | .ok _ => false

/-- status line and body text of every framework-generated error: a closed list, nothing in it
comes from a request -/
def frameworkPages : List (Str × Str) :=
  [(statusLine 400, "Invalid path string. Expected UTF-8".toList),
   (statusLine 404, "Not Found".toList),
   (statusLine 405, "Method not allowed.".toList),
   (statusLine 500, "Internal Server Error".toList)] ++
  Gen.errorsMap.map fun (_, code, body) => (statusLine code, body)

end Ombott.ErrorPage
