import OmbottModel.Model.Router
import OmbottModel.Model.RouterEdit
import OmbottModel.Model.RouterSpec
import OmbottModel.Model.ErrorPage
/-!
Enumerating and printing the router's content, and the key forms of `RadiRouter.__getitem__`
(C11 observes them: "lookups by name and by rule agree").  Extends `Model/Router.lean` and
`Model/RouterEdit.lean` (same namespace; nothing there is changed).

Sections
 12. `RadiDict._render_route`, `params_unpack`, `Route.params_signature`, the list form of
     `RadiDict.add/add_hooks`, the text of the `RadiDictKeyError` a filter clash raises
 13. `RadiDict._routes_iter` (the explicit-stack depth-first walk, `startswith`, `yield_hooks`)
 14. `RouteKey`, `RadiRouter.__getitem__` (every key form), `RadiRouter._match` by keyword
 15. `RouteMethod.__str__/__repr__/handler_fullname`, `Route.__repr__`, the text of the
     `RouteMethodError` of `Route._raise_if_registered`
 16. the thin wrappers of `Ombott` (`add_route`, `remove_route`, `on_route`, `remove_route_hook`,
     `routes`)

Not in the source (asked about, absent): `RadiDict.__iter__/keys/items/__len__/__str__/__repr__`,
`RadiRouter.__str__/__repr__/__iter__` — `str(router)` is `object.__repr__` (an address) and
`list(router.radidict)` raises `TypeError`; the only enumeration is `_routes_iter` (which nothing
in the package calls) and the `routes` dict (`Ombott.routes`).

Wildcard children are told by their slot, as everywhere in `Model/Router.lean` (`IDX` is derived):
an element of an enumerated path carries the flag "taken from the wildcard slot", which in Python
is `parent[IDX][i] == TOKEN` and, for every tree the router builds, `node[KEY] == TOKEN`.
-/
namespace Ombott.Router
open Py

/-! ## 12. `_render_route`, `params_unpack`, `params_signature` -/

/-- `s.replace(c, new, 1)` for a one-character `c` -/
def replaceFirst (c : Char) (new : Str) : Str → Str
  | [] => []
  | d :: r => if d == c then new ++ r else d :: replaceFirst c new r

/-- `f':{p or "noname"}'` -/
def paramLabel (p : Str) : Str := ':' :: (if p.isEmpty then "noname".toList else p)

/-- `RadiDict._render_route(route, params)`: the first marker still in the text becomes `:name`,
once per name (a name that itself holds a marker is hit by the next round, as in Python) -/
def renderRoute (route : Str) (params : List Str) : Str :=
  params.foldl (fun rt p => replaceFirst Gen.paramToken (paramLabel p) rt) route

/-- a `params` dict of `RadiDict._set`: `name ↦ [is_exclusive, filter]` in insertion order -/
abbrev ParamsDict := List (Str × (Bool × Option Fid))

/-- `RadiDict.params_unpack(params)` → `(exclusions, filters, keys)`; `None` and `{}` give three
empty lists -/
def paramsUnpack (params : Option ParamsDict) : List Bool × List (Option Fid) × List Str :=
  match params with
  | none => ([], [], [])
  | some d => (d.map (·.2.1), d.map (·.2.2), d.map (·.1))

/-- `Route.params_signature()`: `{name: [False, filter] for name, filter in zip(params, filters)}`
(a repeated name keeps its first position and its last filter) -/
def paramsSignature (names : List Str) (filters : List (Option Fid)) : ParamsDict :=
  (names.zip filters).foldl (fun d (n, f) => dictSet d n (false, f)) []

/-- `RadiDict.add/add_hooks` given a list or tuple of names:
`dict.fromkeys(params, [self.is_exclusive, None])` with `is_exclusive = False` -/
def paramsFromKeys (names : List Str) : ParamsDict :=
  names.foldl (fun d n => dictSet d n (false, none)) []

/-- the filters a pattern carries, in order (`Route.filters`) -/
def symFilters (p : List Sym) : List (Option Fid) :=
  p.filterMap fun | .tok f => some f | .lit _ => none

mutual
/-- `ptr` of `RadiDict._match(route, param_filters=…)` when it stops with `MismatchType.FILTER`:
the index of the marker whose filter differs (`none`: no filter mismatch on the way) -/
def clashPtrN : Node → List Sym → Nat → Option Nat
  | _, [], _ => none
  | .mk _ _ _ _ _ lits _, .lit c :: r, i => clashPtrL lits c r i
  | .mk _ _ _ _ _ _ tok, .tok g :: r, i => clashPtrT tok g r i
def clashPtrT : Option Node → Option Fid → List Sym → Nat → Option Nat
  | none, _, _, _ => none
  | some t, g, r, i => if t.filter != g then some i else clashPtrN t r (i + 1)
def clashPtrL : List Node → Char → List Sym → Nat → Option Nat
  | [], _, _, _ => none
  | k :: ks, c, r, i =>
    if k.key.head? == some c then
      (stripKey k.key (.lit c :: r)).elim none fun rest => clashPtrN k rest (i + k.key.length)
    else clashPtrL ks c r i
end

/-- `str(e)` of the `RadiDictKeyError` that `RadiDict._set(root, pattern, params=…)` raises on
`MismatchType.FILTER` (`error('tokens filter mismatch')`): the message, then `matched:` with the
pattern up to the clashing marker and `route:` with the whole pattern, both through
`_render_route`.  `none`: the walk meets no filter clash. -/
def filterClashMsg (t : Node) (pat : List Sym) (names : List Str) : Option Str :=
  (clashPtrN t pat 0).map fun ptr =>
    "tokens filter mismatch\n matched:   ".toList ++ renderRoute ((patStr pat).take ptr) names ++
      "\n  route:     ".toList ++ renderRoute (patStr pat) names

/-! ## 13. `RadiDict._routes_iter` -/

/-- one element of an enumerated path: the node and whether it sits in the wildcard slot of
its parent -/
abbrev PathEl := Bool × Node

/-- `pnode[OFFSET:]`: the literal children in stored order, then the wildcard child -/
def Node.children : Node → List PathEl
  | .mk _ _ _ _ _ lits none => lits.map fun k => (false, k)
  | .mk _ _ _ _ _ lits (some t) => lits.map (fun k => (false, k)) ++ [(true, t)]

/-- `pnode[DATA] or yield_hooks and pnode[HOOKS]` -/
def wantsYield (yieldHooks : Bool) (n : Node) : Bool :=
  n.data.isSome || (yieldHooks && n.hooks.isSome)

/-- a frame `[pnode, L, i]` of `stack` (`L = len(pnode[IDX] or '')` is the number of children) -/
abbrev Frame := Bool × Node × Nat

/-- `path` is kept in step with `stack`: its nodes, bottom first -/
def framesPath (stack : List Frame) : List PathEl := (stack.map fun fr => (fr.1, fr.2.1)).reverse

/-- the `while stack:` loop of `_routes_iter`, at most `fuel` rounds; `stack` top first; the
result is what the generator yields from here on (`prefix_stack + path` each time) -/
def iterLoop (yieldHooks : Bool) (pre : List PathEl) : Nat → List Frame → List (List PathEl)
  | 0, _ => []
  | _ + 1, [] => []
  | fuel + 1, (b, n, i) :: rest =>
    match n.children[i]? with
    | some c =>            -- `if i < L:` push the child, `stack[-1][2] = i + 1`
      iterLoop yieldHooks pre fuel ((c.1, c.2, 0) :: (b, n, i + 1) :: rest)
    | none =>              -- `else:` yield if wanted, `stack.pop(); path.pop()`
      if wantsYield yieldHooks n then
        (pre ++ framesPath ((b, n, i) :: rest)) :: iterLoop yieldHooks pre fuel rest
      else iterLoop yieldHooks pre fuel rest

mutual
/-- rounds of the loop a subtree costs once its root frame is on the stack: one round per child
to push it, one round per node to pop it -/
def roundsN : Node → Nat
  | .mk _ _ _ _ _ lits tok => roundsL lits + roundsT tok + 1
def roundsT : Option Node → Nat
  | none => 0
  | some t => roundsN t + 1
def roundsL : List Node → Nat
  | [] => 0
  | k :: ks => roundsN k + 1 + roundsL ks
end

/-- `_routes_iter(pnode)` once the start node is fixed: the loop runs until the stack is empty,
which takes `roundsN` rounds (`iterLoop_rounds` in `Lemmas/RouterListing.lean`) -/
def iterFrom (yieldHooks : Bool) (pre : List PathEl) (start : PathEl) : List (List PathEl) :=
  iterLoop yieldHooks pre (roundsN start.2) [(start.1, start.2, 0)]

/-- `key.startswith(rest)` on a literal key, `rest` = what is left of the `startswith` pattern -/
def keyStartsWith (key : Str) (rest : List Sym) : Bool := (patStr rest).isPrefixOf key

mutual
/-- the `startswith` part of `_routes_iter`: `_match(startswith, pnode=pnode)` (no filters) and
the test `not mismatch or mismatch == PARTIAL and node[KEY].startswith(startswith[ptr:])`.
Returns `stack` of `_match` below the start node (top last), i.e. the nodes walked, the last one
being where the enumeration starts; `none` = `return []`. -/
def seekN : Node → List Sym → Option (List PathEl)
  | _, [] => some []
  | .mk _ _ _ _ _ lits _, .lit c :: r => seekL lits c r
  | .mk _ _ _ _ _ _ tok, .tok _ :: r => seekT tok r
def seekT : Option Node → List Sym → Option (List PathEl)
  | none, _ => none
  | some t, r => (seekN t r).map fun p => (true, t) :: p
def seekL : List Node → Char → List Sym → Option (List PathEl)
  | [], _, _ => none
  | k :: ks, c, r =>
    if k.key.head? == some c then
      match stripKey k.key (.lit c :: r) with
      | some rest => (seekN k rest).map fun p => (false, k) :: p
      | none => if keyStartsWith k.key (.lit c :: r) then some [(false, k)] else none
    else seekL ks c r
end

/-- `RadiDict._routes_iter(pnode=None, startswith, yield_hooks)` as the list of what it yields:
every yield is the list of nodes from the root down to a node holding data (or hooks), each node
after all of its children -/
def routesIter (t : Node) (startswith : List Sym := []) (yieldHooks : Bool := false) :
    List (List PathEl) :=
  match startswith with
  | [] => iterFrom yieldHooks [] (false, t)           -- `if startswith:` not taken
  | _ :: _ =>
    match seekN t startswith with
    | none => []
    | some walked =>
      -- `stack` of `_match` is `[pnode] + walked`; `pnode = node; del prefix_stack[-1]`
      match walked.getLast? with
      | none => iterFrom yieldHooks [] (false, t)
      | some last => iterFrom yieldHooks ((false, t) :: walked.dropLast) last

/-- the pattern a path spells below its first node: `''.join(n[KEY] for n in path[1:])` with the
filter of every wildcard node zipped in (`[n[FILTER] for n in path[1:] if n[KEY] == TOKEN]`) -/
def pathSyms : List PathEl → List Sym
  | [] => []
  | (true, n) :: r => Sym.tok n.filter :: pathSyms r
  | (false, n) :: r => litSyms n.key ++ pathSyms r

/-- what a consumer reads off a yielded path: pattern with filters, and `DATA`, `PARAMS`, `HOOKS`
of the last node -/
structure Listed where
  pat : List Sym
  data : Option Nat
  keys : List Str
  hooks : Option HookPair
  deriving DecidableEq, Repr

def listedOf (p : List PathEl) : Listed :=
  match p.getLast? with
  | some (_, n) => ⟨pathSyms p.tail, n.data, n.params, n.hooks⟩
  | none => ⟨[], none, [], none⟩

/-- the route a yielded path stands for (`none`: the last node holds hooks only) -/
def Listed.rule? (l : Listed) : Option Rule := l.data.map fun d => ⟨l.pat, d, l.keys⟩

/-! ### what the enumeration is supposed to be

`denote` (`Model/RouterSpec.lean`) lists a node before its children; `_routes_iter` yields a node
when its frame is popped, i.e. after its children.  `denPost` is `denote` in that order. -/

mutual
/-- the rules of a subtree, children first: literal children in stored order, then the wildcard
child, then the node itself -/
def denPostN : Node → List Rule
  | .mk _ d pk _ _ lits tok => denPostL lits ++ denPostT tok ++ ownRule d pk
def denPostT : Option Node → List Rule
  | none => []
  | some t => (denPostN t).map (Rule.under [Sym.tok t.filter])
def denPostL : List Node → List Rule
  | [] => []
  | k :: ks => (denPostN k).map (Rule.under (litSyms k.key)) ++ denPostL ks
end

/-- a listed entry seen from above the node it was found under -/
def Listed.under (pre : List Sym) (l : Listed) : Listed := { l with pat := pre ++ l.pat }

def ownListed (yieldHooks : Bool) (d : Option Nat) (pk : List Str) (h : Option HookPair) : List Listed :=
  if d.isSome || (yieldHooks && h.isSome) then [⟨[], d, pk, h⟩] else []

mutual
/-- everything `_routes_iter(yield_hooks=…)` lists in a subtree, children first -/
def listPostN (yh : Bool) : Node → List Listed
  | .mk _ d pk _ h lits tok => listPostL yh lits ++ listPostT yh tok ++ ownListed yh d pk h
def listPostT (yh : Bool) : Option Node → List Listed
  | none => []
  | some t => (listPostN yh t).map (Listed.under [Sym.tok t.filter])
def listPostL (yh : Bool) : List Node → List Listed
  | [] => []
  | k :: ks => (listPostN yh k).map (Listed.under (litSyms k.key)) ++ listPostL yh ks
end

/-! ## 14. `RouteKey` and `RadiRouter.__getitem__` -/

/-- a Python value as far as `__getitem__`/`_match` tell values apart: a `str`, `None`, or an
`int` (standing for every object that is neither; `truthy` = its truth value) -/
inductive KAtom
  | str (s : Str)
  | none
  | int (truthy : Bool)
  deriving DecidableEq, Repr

/-- `bool(v)` -/
def KAtom.truthy : KAtom → Bool
  | .str s => !s.isEmpty
  | .none => false
  | .int b => b

/-- the objects offered to `router[key]` -/
inductive Key
  /-- a `str`: the name of a named route -/
  | name (s : Str)
  /-- a `set` with these (distinct) elements -/
  | set (elems : List KAtom)
  /-- a `dict` (or `RouteKey`, a `dict` subclass) with these items -/
  | dict (items : List (KAtom × KAtom))
  /-- anything else (`tuple`, `list`, `frozenset`, `int`, `None`, …) -/
  | other
  deriving DecidableEq, Repr

/-- `RouteKey.__init__(rule, pattern=pattern)` / `RouteKey.check_args`: the items of the dict it
becomes, or `TypeError` when both are given.  A false `rule` (`None`, `''`) is dropped: the key is then
`{'pattern': pattern}` even when `pattern` is `None`. -/
def routeKeyNew (rule pattern : KAtom) : Except ErrName (List (KAtom × KAtom)) :=
  if (([rule, pattern].filter (· != KAtom.none)).length > 1) then .error "TypeError"
  else if rule.truthy then .ok [(.str "rule".toList, rule)]
  else .ok [(.str "pattern".toList, pattern)]

/-- a pattern string read as `RadiDict._match` reads it: the marker character walks into the
wildcard child (filters are not compared on this path) -/
def symsOfStr (s : Str) : List Sym :=
  s.map fun c => if c == Gen.paramToken then Sym.tok none else Sym.lit c

/-- `RadiRouter._match(route_pattern=s)`: `node[DATA]` of the node `RadiDict._match(s)` ends at -/
def Router.matchStr (R : Router) (s : Str) : Except ErrName (Option Nat) :=
  if s.head? == some '/' then .error "AssertionError"      -- `assert route_pattern[0] != '/'`
  else
    match findN false R.tree (symsOfStr s) with
    | .ok n => .ok n.data
    | .error _ => .ok none

/-- `RadiRouter._match(**{kw: v})` with exactly one keyword argument.
`rule`: parse and compare filters (`Router.byRule`); `route_pattern`: walk the pattern string;
`filters` / `get_hooks` alone leave `rule = None`, which `parse_rule` (or `len`) refuses;
any other keyword, or a key that is not a `str`, is refused by the call itself. -/
def Router.matchKw (cenv : CompileEnv) (R : Router) (kw v : KAtom) : Except ErrName (Option Nat) :=
  match kw with
  | .str k =>
    if k == "rule".toList then
      match v with
      | .str rule => R.byRule cenv rule
      | _ => .error "TypeError"                             -- `rule[0]` on `None` / an `int`
    else if k == "route_pattern".toList then
      match v with
      | .str s => R.matchStr s
      | _ => .error "TypeError"     -- `None`: falls through to `parse_rule(None)`; `int`: `[0]` / `len`
    else .error "TypeError"
  | _ => .error "TypeError"                                 -- keywords must be strings

/-- `RadiRouter.__getitem__(key)` -/
def Router.getItem (cenv : CompileEnv) (R : Router) : Key → Except ErrName (Option Nat)
  | .name s => .ok (R.byName s)                              -- `self.named_routes.get(key)`
  | .set es =>
    if es.length > 1 then .error "TypeError"                 -- `RouteKey.check_args(key)`
    else match es with
      | [] => .error "IndexError"                            -- `[*key][0]`
      | e :: _ => R.matchKw cenv (.str "rule".toList) e
  | .dict items =>
    if items.length > 1 then .error "TypeError"
    else match items with
      | [] => .error "TypeError"                             -- `_match()`: `parse_rule(None)`
      | (k, v) :: _ =>
        -- `if 'pattern' in kwargs: kwargs['route_pattern'] = kwargs.pop('pattern')`
        R.matchKw cenv (if k == .str "pattern".toList then .str "route_pattern".toList else k) v
  | .other => .error "TypeError"       -- `len(key)` fails / is > 1 / 'Item key must be instance of …'

/-- `router[RouteKey(rule, pattern=pattern)]` -/
def Router.getByRouteKey (cenv : CompileEnv) (R : Router) (rule pattern : KAtom) :
    Except ErrName (Option Nat) :=
  match routeKeyNew rule pattern with
  | .error e => .error e
  | .ok items => R.getItem cenv (.dict items)

/-! ## 15. `str` / `repr` of routes and methods (string builders; tied by correspondence only)

`str(handler)` and the handler's `__module__ + '.' + __qualname__` are parameters: a function's
`repr` holds its address. -/

structure HandlerText where
  str : Nat → Str
  fullname : Nat → Str

/-- `RouteMethod.__str__`: `'{}: {}'.format(self.name, self.handler)` -/
def RouteMethod.text (ht : HandlerText) (m : RouteMethod) : Str :=
  m.name ++ ": ".toList ++ ht.str m.handler

/-- `RouteMethod.__repr__`: `'<{}:{} {}>'.format(self.route.rule, self.name, self.handler)` -/
def RouteMethod.reprText (ht : HandlerText) (rule : Str) (m : RouteMethod) : Str :=
  '<' :: rule ++ ':' :: m.name ++ ' ' :: ht.str m.handler ++ ['>']

/-- `RouteMethod.handler_fullname` -/
def RouteMethod.handlerFullname (ht : HandlerText) (m : RouteMethod) : Str := ht.fullname m.handler

/-- `', '.join(l)` -/
def joinCommaSp : List Str → Str
  | [] => []
  | [x] => x
  | x :: xs => x ++ ',' :: ' ' :: joinCommaSp xs

/-- `Route.__repr__`: `'<%r {%s}>' % (self.rule, ', '.join(str(m) for m in self.methods.values()))` -/
def Route.reprText (pr : Char → Bool) (ht : HandlerText) (r : Route) : Str :=
  '<' :: ErrorPage.pyRepr pr r.rule ++ ' ' :: '{' :: joinCommaSp (r.methods.map fun m => m.2.text ht) ++
    ['}', '>']

/-- `repr` of a list of `str` -/
def reprStrList (pr : Char → Bool) (l : List Str) : Str :=
  '[' :: joinCommaSp (l.map (ErrorPage.pyRepr pr)) ++ [']']

/-- `repr` of a `dict` of `str ↦ str` -/
def reprStrDict (pr : Char → Bool) (d : List (Str × Str)) : Str :=
  '{' :: joinCommaSp (d.map fun kv => ErrorPage.pyRepr pr kv.1 ++ ':' :: ' ' :: ErrorPage.pyRepr pr kv.2) ++ ['}']

/-- `str(e)` of the `RouteMethodError` of `Route._raise_if_registered(method, candidate)`;
`none`: nothing registered under these methods.  `registered` is a `set` in Python: with more
than one clashing method the order of the last part is the set's (the model lists them in the
order of `method`). -/
def Route.clashMsg (pr : Char → Bool) (ht : HandlerText) (r : Route) (methods : List Str)
    (candidate : Nat) : Option Str :=
  let registered := methods.eraseDups.filter fun m => r.methods.any (·.1 == m)
  if registered.isEmpty then none else
  let names := registered.filterMap fun m => (dictGet r.methods m).map fun rm => (m, rm.handlerFullname ht)
  some ("Trying to register `".toList ++ ht.fullname candidate ++ "` as handler for route methods `".toList ++
    r.rule ++ ": ".toList ++ reprStrList pr methods ++ "`, but there are already registered: `".toList ++
    reprStrDict pr names ++ "`".toList)

/-- what there is to print about one route: `repr(route)`, then per method `repr(m)`, `str(m)`
and `m.handler_fullname` -/
def Route.describe (pr : Char → Bool) (ht : HandlerText) (r : Route) : List Str :=
  r.reprText pr ht :: r.methods.flatMap fun m =>
    [m.2.reprText ht r.rule, m.2.text ht, m.2.handlerFullname ht]

/-- the enumerated routes as text: `Route.describe` of `path[-1][DATA]` per yielded path, one
item per line -/
def Router.listingText (pr : Char → Bool) (ht : HandlerText) (R : Router) : Str :=
  let lines := (routesIter R.tree).flatMap fun p =>
    match (listedOf p).data.bind R.obj? with
    | some r => r.describe pr ht
    | none => []
  "\n".toList.intercalate lines

/-! ## 16. the wrappers of `Ombott` -/

/-- `Ombott.add_route(rule, method, handler, name, overwrite=…)` (and through it `Ombott.route` and
the verb shortcuts): `method` may be one `str`
(`RadiRouter.add` wraps it into a list) -/
def Router.appAddRoute (upper : Str → Str) (cenv : CompileEnv) (R : Router) (a : AddArgs) :
    Router × Except ErrName Nat := R.add upper cenv a

/-- `Ombott.remove_route(rule, route_pattern=…, name=…)` = `RadiRouter.remove`: a rule wins over
a name, a name over a pattern string (which is looked up as it is: no parsing, no filters) -/
def Router.appRemoveRoute (cenv : CompileEnv) (R : Router) (rule name routePattern : Option Str) :
    Router × Except ErrName Unit :=
  match rule, name, routePattern with
  | some r, _, _ => R.removeRule cenv r
  | none, some n, _ => R.removeName n
  | none, none, some s => R.removePattern (symsOfStr s)
  | none, none, none => (R, .error "TypeError")       -- `RadiDict._match(None)`: `len(None)`

/-- `Ombott.on_route(rule, func)` (also as a decorator): always the simple hook slot -/
def Router.appOnRoute (cenv : CompileEnv) (R : Router) (rule : Str) (hook : Nat) :
    Router × Except ErrName Str := R.addHook cenv rule hook false

/-- `Ombott.remove_route_hook(rule)` -/
def Router.appRemoveRouteHook (cenv : CompileEnv) (R : Router) (rule : Str) :
    Router × Except ErrName Unit := R.removeHook cenv rule

/-- `Ombott.routes`: the `routes` dict itself; `list(app.routes)` = its keys in insertion order -/
def Router.appRoutes (R : Router) : List Str := R.routes.map (·.1)

end Ombott.Router
