import OmbottModel.Py
import OmbottModel.Py.Text
import OmbottModel.Py.CharLit
import OmbottModel.Model.Qs
import OmbottModel.Model.Cookies
import OmbottModel.Gen.Helpers
/-
Model of the two `dict` subclasses of `ombott/request_pkg/helpers.py` the request hands out:

* `FormsDict` (`Request.query`, `.GET`, `.forms`, `.POST`, `.files`, `.params`; C18): a plain `dict` plus `copy`
  and `__getattr__` (attribute access to the values, missing attributes are `None`).  This tree's `FormsDict` has
  NO `getall` / `getunicode` / `decode` / `recode_unicode` (bottle's `MultiDict` family): a repeated key is held as
  a list VALUE, produced by `parse_qsl`'s promotion closure (`Model/Qs.lean`).  Which accessors exist is the
  generated `Gen.hpFormsDictAttrs` / `hpFormsDictOwn`.
* `CookieDict` (`Request.cookies`; C15): `_fix`, `decode`, `getunicode`, `__getattr__` (attribute access recodes
  the Latin-1 view of the wire bytes as `input_encoding`).

Attribute access is `getattr(obj, name)`: normal lookup first (instance `__dict__`, which the framework never
fills, then the class and `dict`), `__getattr__` only for names that lookup does not find.
-/
namespace Ombott.FormsDict
open Py Ombott.Qs

/-- exception classes of this area -/
inductive HErr
  | keyError | attributeError | typeError | unicodeError | lookupError
  deriving Repr, DecidableEq

def HErr.name : HErr → String
  | .keyError => "KeyError" | .attributeError => "AttributeError" | .typeError => "TypeError"
  | .unicodeError => "UnicodeError" | .lookupError => "LookupError"

/-- what `getattr(d, name)` gives: something found by normal lookup (a method of `dict` or of the class, a class
attribute: the data is NOT consulted), or the value `__getattr__` computed (`none` = Python `None`) -/
inductive Attr (β : Type)
  | classAttr (name : Str)
  | value (v : Option β)
  deriving Repr, DecidableEq

/-- `name.startswith('__') and name.endswith('__')` (true for `'__'`, `'___'` as well) -/
def isDunder (name : Str) : Bool := cs!"__".isPrefixOf name && cs!"__".isSuffixOf name

/-! ### `FormsDict` -/

/-- names found by normal attribute lookup on a `FormsDict` (generated) -/
def fdAttrs : List Str := Gen.hpFormsDictAttrs.map String.toList

/-- `d[k]` -/
def fdGetitem (d : Dict Val) (k : Str) : Except HErr Val :=
  match d.get? k with
  | some v => .ok v
  | none => .error .keyError

/-- `d.get(k, default)` -/
def fdGet (d : Dict Val) (k : Str) (default : Option Val) : Option Val :=
  match d.get? k with
  | some v => some v
  | none => default

/-- `k in d` -/
def fdContains (d : Dict Val) (k : Str) : Bool := (d.get? k).isSome

/-- `list(d.keys())` -/
def fdKeys (d : Dict Val) : List Str := d.map (·.1)

/-- `len(d)` -/
def fdLen (d : Dict Val) : Nat := d.length

/-- `getattr(d, name)`, i.e. normal lookup and then `FormsDict.__getattr__`:
```
def __getattr__(self, name):
    if name.startswith('__') and name.endswith('__'):
        return super().__getattr__(name)        # AttributeError: 'super' object has no attribute '__getattr__'
    return self.get(name, None)
``` -/
def fdGetattr (d : Dict Val) (name : Str) : Except HErr (Attr Val) :=
  if fdAttrs.contains name then .ok (.classAttr name)
  else if isDunder name then .error .attributeError
  else .ok (.value (fdGet d name none))

/-- `FormsDict.copy`: `self.__class__(**self)` — every key is a `str` here, so this is a new `FormsDict` with the same
items in the same order (the values are shared, not copied) -/
def fdCopy (d : Dict Val) : Dict Val := d

/-! ### `CookieDict` -/

/-- the codecs the model knows -/
inductive Codec
  | utf8 | latin1 | ascii
  deriving Repr, DecidableEq

/-- `codecs.lookup(name)` on the names the generators use: the name is lower-cased, `-` and space become `_`
(`encodings.normalize_encoding` + the alias table); any other name is a `LookupError` here -/
def codecOf (name : Str) : Option Codec :=
  let n := name.map fun c => if c = '-' ∨ c = ' ' then '_' else c.toLower
  if n = cs!"utf8" ∨ n = cs!"utf_8" ∨ n = cs!"u8" ∨ n = cs!"utf" then some .utf8
  else if n = cs!"latin1" ∨ n = cs!"latin_1" ∨ n = cs!"iso8859_1" ∨ n = cs!"iso_8859_1" ∨ n = cs!"l1" ∨ n = cs!"latin"
    then some .latin1
  else if n = cs!"ascii" ∨ n = cs!"us_ascii" then some .ascii
  else none

/-- `b.decode(encoding)`; an empty byte string decodes to `''` before the codec is even looked up
(`PyUnicode_FromEncodedObject`) -/
def decodeWith (b : Bytes) (enc : Str) : Except HErr Str :=
  if b.isEmpty then .ok [] else
  match codecOf enc with
  | none => .error .lookupError
  | some .utf8 => match utf8Dec b with | some s => .ok s | none => .error .unicodeError
  | some .latin1 => .ok (latin1Dec b)
  | some .ascii => if b.all (·.toNat < 128) then .ok (latin1Dec b) else .error .unicodeError

/-- `CookieDict._fix(s, encoding)` for a `str`: `s.encode('latin1').decode(encoding)` -/
def fix (s : Str) (enc : Str) : Except HErr Str :=
  match latin1Enc s with
  | none => .error .unicodeError                       -- UnicodeEncodeError
  | some b => decodeWith b enc

/-- a `CookieDict`: its items (a `dict`: later assignment to a key replaces the value in place), the instance's
`input_encoding` and `_decoded` -/
structure CD where
  items : List (Str × Str)
  enc : Str := Gen.hpCookieInputEncoding.toList
  decoded : Bool := false
  deriving Repr, DecidableEq

def sset : List (Str × Str) → Str → Str → List (Str × Str)
  | [], k, v => [(k, v)]
  | (k', v') :: r, k, v => if k' = k then (k, v) :: r else (k', v') :: sset r k v

def sget? : List (Str × Str) → Str → Option Str
  | [], _ => none
  | (k', v) :: r, k => if k' = k then some v else sget? r k

/-- `CookieDict(pairs)`: `dict(pairs)` -/
def cdOfPairs (ps : List (Str × Str)) : CD := { items := ps.foldl (fun d p => sset d p.1 p.2) [] }

/-- `PropsMixin.cookies`:
`self._cookie_factory((c.key, c.value) for c in SimpleCookie(self._env_get('HTTP_COOKIE', '')).values())` with the
`http.cookies` tokeniser of `Model/Cookies.lean` -/
def requestCookies (hdr : Str) : Except Ombott.Cookies.CErr CD := (Ombott.Cookies.parseCookies hdr).map cdOfPairs

/-- names found by normal attribute lookup on a `CookieDict` (generated) -/
def cdAttrs : List Str := Gen.hpCookieDictAttrs.map String.toList

def cdGetitem (c : CD) (k : Str) : Except HErr Str :=
  match sget? c.items k with
  | some v => .ok v
  | none => .error .keyError

def cdGet (c : CD) (k : Str) (default : Option Str) : Option Str :=
  match sget? c.items k with
  | some v => some v
  | none => default

/-- `CookieDict.getunicode(name, default, encoding)`
```
if encoding is None: encoding = self.input_encoding
try: return self._fix(self[name], encoding)
except (UnicodeError, KeyError): return default
``` -/
def cdGetunicode (c : CD) (name : Str) (default : Option Str) (encoding : Option Str) : Except HErr (Option Str) :=
  let enc := encoding.getD c.enc
  match cdGetitem c name with
  | .error .keyError => .ok default
  | .error x => .error x
  | .ok v =>
    match fix v enc with
    | .ok s => .ok (some s)
    | .error .unicodeError => .ok default
    | .error x => .error x                              -- `LookupError` is not caught

/-- `getattr(c, name)`: `CookieDict.__getattr__` is `self.getunicode(name)` behind the same dunder guard -/
def cdGetattr (c : CD) (name : Str) : Except HErr (Attr Str) :=
  if cdAttrs.contains name then .ok (.classAttr name)
  else if isDunder name then .error .attributeError
  else (cdGetunicode c name none none).map .value

/-- the loop of `decode`: `for key, value in self.items(): copy[self._fix(key, enc)] = self._fix(value, enc)`
(the right-hand side is evaluated first) -/
def decodeGo (enc : Str) : List (Str × Str) → List (Str × Str) → Except HErr (List (Str × Str))
  | [], acc => .ok acc
  | (k, v) :: r, acc =>
    match fix v enc with
    | .error x => .error x
    | .ok v' =>
      match fix k enc with
      | .error x => .error x
      | .ok k' => decodeGo enc r (sset acc k' v')

/-- `CookieDict.decode(encoding)` -/
def cdDecode (c : CD) (encoding : Option Str) : Except HErr CD :=
  if c.decoded then
    match encoding with
    | some e => if e ≠ c.enc then .error .typeError else .ok c      -- the NAMES are compared, not the codecs
    | none => .ok c
  else
    let enc := encoding.getD c.enc
    (decodeGo enc c.items []).map fun items => { items := items, enc := enc, decoded := true }

end Ombott.FormsDict
