import OmbottModel.Model.Chunked
import OmbottModel.Py.IntLim
/-
`_body_read` and the request level of `ombott/request_pkg/body_mixin.py` on top of
`Model/Body.lean` (Content-Length framing, accumulator) and `Model/Chunked.lean`:
`bodyRead`, `contentLength`, `isChunked`, `raise_` (`BaseRequest._raise`), `Req.loadBody`
(`BodyMixin._body`), `Req.body`, `Req.getBodyString`, `Req.access` / `Req.run` (access sequences), `errStatus` (what
`Ombott._handle` makes of an exception).  C04, C05, C13.
-/
namespace Ombott.Body
open Py Ombott.Chunked

/-- `_body_read(read, buff_size, content_length=…, chunked=…, max_body_size=…)` (no multipart
markup: `markup.parse(part)` records its own errors and never raises, it is the subject of C06)
```
body_iter = _iter_chunked if chunked else partial(_iter_body, content_length=content_length)
body, body_size, is_temp_file = BytesIO(), 0, False
for part in body_iter(read, buff_size): …        # Sink.push
return body
``` -/
def bodyRead (buf : Nat) (cl : Int) (chunked : Bool) (max : Option Nat) (r : Rec) : Except Err Sink × Rec :=
  if chunked then iterChunked buf max r {} else iterBody buf max cl r {}

/-! ### request level: `BodyMixin` and `BaseRequest._raise` -/

/-- `BaseRequest._raise(err, except_class)`: the error class, then `except_class`, is looked up
in `config.errors_map` (class name → status of the mapped `HTTPError`); unmapped errors are raised
as they are. -/
def raise_ (errorsMap : List (String × Nat)) (e : Err) (exceptClass : String) : Err :=
  match errorsMap.lookup e.name with
  | some st => .http st
  | none =>
    match errorsMap.lookup exceptClass with
    | some st => .http st
    | none => e

/-- the classes `except RequestError` catches among the errors the body reader can raise -/
def isRequestError : Err → Bool
  | .requestError | .bodyParsingError | .bodySizeError => true
  | _ => false

/-- what `Ombott._handle` answers when the handler raised: a raised `HTTPResponse` is the
response, anything else is the catch-all 500 -/
def errStatus : Err → Nat
  | .http st => st
  | _ => 500

/-- `int(environ.get('CONTENT_LENGTH') or -1)`; `int` as the interpreter does it (`pyIntLim`): a
numeral of more than `Gen.intMaxStrDigits` digits is a `ValueError` like a non-numeric text -/
def contentLength (h : Option Str) : Except Err Int :=
  match h with
  | none => .ok (-1)
  | some s => if s.isEmpty then .ok (-1) else
    match pyIntLim s with
    | some n => .ok n
    | none => .error .valueError

def asciiLower (c : Char) : Char := if 'A' ≤ c ∧ c ≤ 'Z' then Char.ofNat (c.toNat + 32) else c

/-- `'chunked' in environ.get('HTTP_TRANSFER_ENCODING', '').lower()` (WSGI header text is Latin-1;
no Latin-1 character outside A–Z lower-cases to an ASCII letter) -/
def isChunked (h : Option Str) : Bool :=
  match h with
  | none => false
  | some s => (findSub "chunked".toList (s.map asciiLower)).isSome

structure Cfg where
  maxBody : Option Nat          -- config.max_body_size
  memfile : Nat                 -- config.max_memfile_size
  errorsMap : List (String × Nat)
  deriving Repr

/-- the request as far as the body code is concerned.  `cache` is
`environ['ombott.request.body']` — the buffered copy with its current file position — which also
replaces `environ['wsgi.input']` once it exists; `bodyError` is
`environ['ombott.request.body.error']`: the error of a failed read, kept because the stream is
spent. -/
structure Req where
  cfg : Cfg
  clHeader : Option Str
  teHeader : Option Str
  input : Rec
  cache : Option (Sink × Nat) := none
  bodyError : Option Err := none
  deriving Repr

/-- `BodyMixin._body` (a `cache_in` property): read once, keep, rewind; a failed read stays
failed.
```
err = environ.get('ombott.request.body.error')
if err is not None: self._raise(err, RequestError)
try: body = _body_read(environ['wsgi.input'].read, config.max_memfile_size, content_length=…,
                       chunked=…, max_body_size=config.max_body_size, markup=…)
except RequestError as err:
    environ['ombott.request.body.error'] = err.with_traceback(None)
    self._raise(err, RequestError)
environ['wsgi.input'] = body; body.seek(0)
``` -/
def Req.loadBody (q : Req) : Except Err Sink × Req :=
  match q.cache with
  | some (sk, _) => (.ok sk, q)
  | none =>
    match q.bodyError with
    | some e => (.error (raise_ q.cfg.errorsMap e "RequestError"), q)
    | none =>
      match contentLength q.clHeader with
      | .error e => (.error e, q)
      | .ok cl =>
        match bodyRead q.cfg.memfile cl (isChunked q.teHeader) q.cfg.maxBody q.input with
        | (.error e, r) =>
          if isRequestError e then
            (.error (raise_ q.cfg.errorsMap e "RequestError"), { q with input := r, bodyError := some e })
          else (.error e, { q with input := r })
        | (.ok sk, r) => (.ok sk, { q with input := r, cache := some (sk, 0) })

/-- `Request.body`: `ret = self._body; ret.seek(0); return ret` -/
def Req.body (q : Req) :
    Except Err Sink × Req :=
  match q.loadBody with
  | (.error e, q') => (.error e, q')
  | (.ok sk, q') => (.ok sk, { q' with cache := some (sk, 0) })

/-- `BodyMixin._get_body_string`
```
self._body.seek(0); read = self._body.read
if content_length > max_memfile_size: raise self._raise(BodySizeError(), RequestError)
if content_length < 0: content_length = max_memfile_size + 1
data = read(content_length)
if len(data) > max_memfile_size: raise self._raise(BodySizeError(), RequestError)
return data
``` -/
def Req.getBodyString (q : Req) :
    Except Err Bytes × Req :=
  match q.body with
  | (.error e, q') => (.error e, q')
  | (.ok sk, q') =>
    match contentLength q'.clHeader with
    | .error e => (.error e, q')
    | .ok cl =>
      if cl > (q'.cfg.memfile : Int) then
        (.error (raise_ q'.cfg.errorsMap .bodySizeError "RequestError"), q')
      else
        let n : Nat := if cl < 0 then q'.cfg.memfile + 1 else cl.toNat
        let data := sk.body.take n
        let q'' := { q' with cache := some (sk, data.length) }
        if data.length > q'.cfg.memfile then
          (.error (raise_ q'.cfg.errorsMap .bodySizeError "RequestError"), q'')
        else (.ok data, q'')

/-! ### what a handler (or a hook) can do with the body, as a state machine -/

/-- one access to the request body -/
inductive Access
  | bodyRead (n : Option Nat)   -- `request.body.read(n)`  (`none`: `read()`)
  | bodyString                  -- `request._get_body_string()`: what `forms` / `json` start from
  | inputRead                   -- `environ['wsgi.input'].read()` by the application itself
  | replaceInput (r : Rec)      -- `request['wsgi.input'] = new_stream`
  | setContentLength (s : Str)  -- `request['CONTENT_LENGTH'] = s`
  deriving Repr

/-- the bytes the access returns (or the exception it raises) and the request afterwards.  An
exception may be caught by the caller, who can then go on using the same request. -/
def Req.access (q : Req) : Access → Except Err Bytes × Req
  | .bodyRead n =>
    match q.body with
    | (.error e, q') => (.error e, q')
    | (.ok sk, q') =>          -- `body` has just rewound the buffered copy
      let d := match n with | some k => sk.body.take k | none => sk.body
      (.ok d, { q' with cache := some (sk, d.length) })
  | .bodyString => q.getBodyString
  | .inputRead =>
    match q.cache with
    | some (sk, pos) =>        -- `wsgi.input` is the buffered copy by now
      (.ok (sk.body.drop pos), { q with cache := some (sk, pos + (sk.body.drop pos).length) })
    | none =>
      (.ok (q.input.read q.input.st.data.length).1, { q with input := (q.input.read q.input.st.data.length).2 })
  -- `BaseRequest.__setitem__` + `_on_env_changed`: a new `wsgi.input` drops everything derived
  -- from the old one (`ombott.request.body`, `…body.error`, forms, files, json, …)
  | .replaceInput r => (.ok [], { q with input := r, cache := none, bodyError := none })
  -- `_on_env_changed` drops the cached `content_length` (fix proposed in
  -- `proposed_fixes/c04-content-length-cache-stale.patch`); nothing else depends on the header
  | .setContentLength s => (.ok [], { q with clHeader := some s })

/-- a handler that catches every exception and carries on: the request after a sequence of
accesses (the most permissive caller) -/
def Req.run (q : Req) (ops : List Access) : Req := ops.foldl (fun q a => (q.access a).2) q

end Ombott.Body
