import OmbottModel.Py
import OmbottModel.Model.Multipart
/-!
Specification side of C06/C07/C12 for the multipart markup.

* `encodeBody boundary parts epilogue` / `WFBody`: what a well-formed multipart/form-data body is.
* `expectedMarkups`: the sections such a body consists of (the "one-shot" reading: a data
  section ends at the first occurrence of `CRLF--boundary`, a header block at the first
  `CRLFCRLF`).
* `R`: a reference machine that reads **one byte at a time**, so that its result cannot depend on
  how the bytes were grouped into chunks.  Its state is the grammar position plus one counter:
  the length `m` of the delimiter prefix matched so far (data), or the length `k` of the
  `CRLFCRLF` prefix matched so far (headers).  Where the behaviour of the implementation depends
  on the chunking (junk after a delimiter, a preamble, bare CR/LF sequences inside a header
  block) the machine is `undefined` (`none`); no well-formed body gets there.
-/
namespace Ombott.Multipart.Spec
open Py Ombott.Multipart

/-- the delimiter `CRLF--boundary` -/
def delim (boundary : Bytes) : Bytes := CRLF ++ (HYPHENx2 ++ boundary)

/-! ### encoder -/

structure Part where
  lines : List Bytes          -- header lines, without their CRLF
  data : Bytes
  deriving Repr, DecidableEq

def headerBlock (lines : List Bytes) : Bytes := (lines.map (· ++ CRLF)).flatten

/-- `CRLF header-lines CRLF data CRLF--boundary`: the rest of the delimiter line, the part, and
the delimiter that ends it -/
def encodePart (boundary : Bytes) (p : Part) : Bytes :=
  CRLF ++ (headerBlock p.lines ++ (CRLF ++ (p.data ++ delim boundary)))

def encodeParts (boundary : Bytes) (parts : List Part) : Bytes :=
  (parts.map (encodePart boundary)).flatten

/-- `--boundary (CRLF part CRLF--boundary)* -- epilogue` -/
def encodeBody (boundary : Bytes) (parts : List Part) (epilogue : Bytes) : Bytes :=
  HYPHENx2 ++ boundary ++ (encodeParts boundary parts ++ (HYPHENx2 ++ epilogue))

def WFLine (l : Bytes) : Prop := l ≠ [] ∧ CR ∉ l ∧ LF ∉ l

def WFPart (boundary : Bytes) (p : Part) : Prop :=
  p.lines ≠ [] ∧ (∀ l ∈ p.lines, WFLine l) ∧ findSub (delim boundary) p.data = none

/-- well-formed: a boundary the constructor accepts, every part has at least one header line,
header lines are non-empty and free of CR and LF, no part's data contains the delimiter.  The
epilogue is arbitrary. -/
def WFBody (boundary : Bytes) (parts : List Part) : Prop :=
  CR ∉ boundary ∧ ∀ p ∈ parts, WFPart boundary p

instance (l : Bytes) : Decidable (WFLine l) := by unfold WFLine; infer_instance
instance (b : Bytes) (p : Part) : Decidable (WFPart b p) := by unfold WFPart; infer_instance
instance (b : Bytes) (ps : List Part) : Decidable (WFBody b ps) := by unfold WFBody; infer_instance

/-- `body` divided at the given absolute positions (taken in order; a position that is not
beyond the previous one gives an empty chunk, one beyond the end takes what is left) -/
def cutAt (body : Bytes) (off : Nat) : List Nat → List Bytes
  | [] => [body]
  | p :: ps => body.take (p - off) :: cutAt (body.drop (p - off)) (max p off) ps

/-- the sections of the parts that start (with the CRLF ending the delimiter line) at `off` -/
def partMarkups (tlen : Nat) : Nat → List Part → List Markup
  | _, [] => []
  | off, p :: ps =>
    let hs := off + 2
    let he := hs + (headerBlock p.lines).length - 2      -- the last line's CRLF starts CRLFCRLF
    let ds := he + 4
    let de := ds + p.data.length
    ⟨.headers, hs, he⟩ :: ⟨.data, ds, de⟩ :: partMarkups tlen (de + tlen) ps

/-- the markup of a complete well-formed body: the empty section before the first boundary,
then a header block and a data range per part -/
def expectedMarkups (boundary : Bytes) (parts : List Part) : List Markup :=
  ⟨.data, 0, 0⟩ :: partMarkups (delim boundary).length (2 + boundary.length) parts

/-- the bytes of `body` a section covers -/
def sectionBytes (body : Bytes) (m : Markup) : Bytes := slice body m.start.toNat m.stop.toNat

/-- what the sections of a complete body should contain: nothing before the first boundary, then
per part the header lines (without the CRLF that belongs to CRLFCRLF) and the data -/
def expectedContents (parts : List Part) : List Bytes :=
  [] :: parts.flatMap fun p => [(headerBlock p.lines).take ((headerBlock p.lines).length - 2), p.data]

/-! ### the byte-at-a-time reference machine -/

/-- one byte of a prefix matcher for a pattern that starts with CR and has no other CR:
`m` = number of pattern bytes matched so far -/
def stepM (pat : Bytes) (m : Nat) (b : UInt8) : Nat :=
  if pat[m]? = some b then m + 1 else if b = CR then 1 else 0

/-- result of scanning some bytes for the delimiter -/
inductive ScanRes
  | found (j : Nat)     -- the delimiter was completed by the `j`-th byte read (1-based)
  | more (m : Nat)      -- not completed; `m` delimiter bytes are matched at the end
  deriving Repr, DecidableEq

/-- the data phase of the reference machine in isolation: run `stepM` from `m` over the bytes
until the pattern is complete -/
def scan (pat : Bytes) : Nat → Bytes → ScanRes
  | m, [] => .more m
  | m, b :: bs =>
    if stepM pat m b = pat.length then .found 1
    else match scan pat (stepM pat m b) bs with
      | .found j => .found (j + 1)
      | .more m' => .more m'

/-- `self.trest` when `m` delimiter bytes are matched -/
def trestOf (tok : Bytes) (m : Nat) : Option Bytes := if m = 0 then none else some (tok.drop m)

/-- what `_eat_data(chunk, base)` has to answer for a scan result of `chunk[base:]` -/
def renderScan (tok : Bytes) (base : Nat) : ScanRes → EatOut
  | .found j => ⟨some (((base + j : Nat) : Int) - tok.length), none⟩
  | .more m => ⟨none, trestOf tok m⟩

inductive Phase
  | start (m : Nat)        -- before the first delimiter (a body starting with `--` counts as m = 2)
  | data (m : Nat)         -- in a data section, `m` delimiter bytes matched
  | afterDelim             -- delimiter complete
  | afterCR                -- delimiter, CR
  | afterHyphen            -- delimiter, `-`
  | headers (k : Nat)      -- in a header block, `k` bytes of CRLFCRLF matched
  | stopped                -- closing delimiter seen: everything else is epilogue
  | failed (e : Err)       -- an error that does not depend on the chunking
  deriving Repr, DecidableEq

structure RSt where
  phase : Phase
  pos : Nat := 0                 -- bytes consumed
  secStart : Int := 0            -- where the current section started
  markups : List Markup := []
  deriving Repr, DecidableEq

def RSt.init : RSt := { phase := .start 0 }

/-- one byte inside a header block: `k` bytes of CRLFCRLF are matched.  `none` where the
implementation's answer depends on the chunking: `CRLFCR` + other byte (an error is raised only
if a chunk ended after the CR), `CRLF` + LF (at a chunk end Python's `$` takes `CRLF LF` for
`CRLF`). -/
def kstep (k : Nat) (b : UInt8) : Option Nat :=
  if k = 3 ∧ b ≠ LF then none
  else if k = 2 ∧ b = LF then none
  else some (stepM CRLFx2 k b)

inductive HStep
  | undef | stop | done | next (ph : Phase)
  deriving Repr, DecidableEq

/-- one byte after a delimiter / inside a header block -/
def hstep : Phase → UInt8 → HStep
  | .afterDelim, b =>
    if b = CR then .next .afterCR else if b = HYPHEN then .next .afterHyphen else .undef
  | .afterCR, b => if b = LF then .next (.headers 0) else .undef
  | .afterHyphen, b => if b = HYPHEN then .stop else .undef
  | .headers k, b =>
    match kstep k b with
    | none => .undef
    | some k' => if k' = 4 then .done else .next (.headers k')
  | _, _ => .undef

/-- consume the byte `b` (at absolute position `s.pos`); `none` = the implementation's behaviour
from here on depends on the chunking -/
def step (tok : Bytes) (s : RSt) (b : UInt8) : Option RSt :=
  let next : RSt := { s with pos := s.pos + 1 }
  match s.phase with
  | .stopped => some next
  | .failed _ => some next
  | .start m =>
    if s.pos = 0 then
      if b = CR then some { next with phase := .start 1 }
      else if b = HYPHEN then some { next with phase := .start 3 }
      else some { next with phase := .failed .invalidBoundaryError }
    else
      let m' := stepM tok m b
      if m' = tok.length then
        some { next with phase := .afterDelim, secStart := (s.pos : Int) + 1 + 2,
                         markups := s.markups ++
                           [⟨.data, s.secStart, max 0 ((s.pos : Int) + 1 - tok.length)⟩] }
      else if m' = 0 then none
      else some { next with phase := .start m' }
  | .data m =>
    let m' := stepM tok m b
    if m' = tok.length then
      some { next with phase := .afterDelim, secStart := (s.pos : Int) + 1 + 2,
                       markups := s.markups ++ [⟨.data, s.secStart, (s.pos : Int) + 1 - tok.length⟩] }
    else some { next with phase := .data m' }
  | ph =>
    match hstep ph b with
    | .undef => none
    | .stop => some { next with phase := .stopped }
    | .done =>
      some { next with phase := .data 0, secStart := (s.pos : Int) + 1,
                       markups := s.markups ++ [⟨.headers, s.secStart, (s.pos : Int) + 1 - 4⟩] }
    | .next ph' => some { next with phase := ph' }

/-- result of running the post-delimiter phases in isolation -/
inductive HRes
  | undef
  | stop                 -- the closing `--` was read
  | done (j : Nat)       -- CRLFCRLF completed by the `j`-th byte read (1-based)
  | more (ph : Phase)    -- out of bytes in phase `ph`
  deriving Repr, DecidableEq

def HRes.bump : HRes → HRes
  | .done j => .done (j + 1)
  | r => r

/-- the post-delimiter phases of the reference machine in isolation -/
def runH : Phase → Bytes → HRes
  | ph, [] => .more ph
  | ph, b :: bs =>
    match hstep ph b with
    | .undef => .undef
    | .stop => .stop
    | .done => .done 1
    | .next ph' => (runH ph' bs).bump

/-- `self.headers_end_expected` when `k` bytes of CRLFCRLF are matched at a chunk end -/
def heeOf (k : Nat) : Option Bytes := if k = 0 then none else some (CRLFx2.drop k)

/-- the `HeadersEaeter` object in a post-delimiter phase -/
def eaterOf : Phase → Eater
  | .afterCR => { eatMeth := .lf }
  | .afterHyphen => { eatMeth := .lastHyphen }
  | .headers k => { eatMeth := .headers, headersEndExpected := heeOf k }
  | _ => {}

def runFrom (tok : Bytes) : RSt → Bytes → Option RSt
  | s, [] => some s
  | s, b :: bs =>
    match step tok s b with
    | none => none
    | some s' => runFrom tok s' bs

def RSt.obs (s : RSt) : Obs :=
  ⟨s.markups, (match s.phase with | .failed e => some e | _ => none),
   (match s.phase with | .stopped => true | _ => false)⟩

/-- the reference result for a whole input; `none` where the implementation's result may depend
on the chunking (or the boundary is rejected by the constructor) -/
def run (boundary body : Bytes) : Option Obs :=
  if CR ∈ boundary then none
  else (runFrom (delim boundary) RSt.init body).map RSt.obs

end Ombott.Multipart.Spec
