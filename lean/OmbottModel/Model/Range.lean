import OmbottModel.Model.Stream
import OmbottModel.Py.IntLim
/-
Model of `ombott/static_stream.py`: `get_first_range`, `_file_iter_range` and the response
assembly of `static_file` after the access checks (C17).
-/
namespace Ombott.Range
open Py

/-- the three arithmetic branches of `get_first_range` (`ValueError` from `int()` = `none`; `int` as
the interpreter does it, `pyIntLim`: a numeral of more than `Gen.intMaxStrDigits` digit characters is a
`ValueError` whatever its value) -/
def rangeNums (s e : Str) (maxlen : Nat) : Option (Int × Int) :=
  if s.isEmpty then (pyIntLim e).map fun n => (max 0 ((maxlen : Int) - n), (maxlen : Int))
  else if e.isEmpty then (pyIntLim s).map fun n => (n, (maxlen : Int))
  else match pyIntLim s, pyIntLim e with
    | some a, some b => some (a, min (b + 1) maxlen)
    | _, _ => none

/-- `if 0 <= start < end <= maxlen: return start, end` -/
def clip (maxlen : Nat) : Option (Int × Int) → Option (Nat × Nat)
  | some (a, b) => if 0 ≤ a ∧ a < b ∧ b ≤ maxlen then some (a.toNat, b.toNat) else none
  | none => none

/-- `get_first_range(header, maxlen)`; `none` is Python's `None`. -/
def firstRange (header : Str) (maxlen : Nat) : Option (Nat × Nat) :=
  match splitFirstSub "bytes=".toList header with
  | none => none                                   -- IndexError: no 'bytes='
  | some (_, ranges) =>
    match splitOn1 '-' ((splitOn1 ',' ranges).headD []) with   -- split(',', 1)[0].split('-')
    | [s, e] => clip maxlen (rangeNums s e maxlen)
    | _ => none                                    -- ValueError on unpacking


/-! ### `parse_date`: the instant an HTTP date names

`email.utils.parsedate_tz` (library, a parameter: its ten fields are shipped by the harness) followed
by the conversion of the broken-down time to an epoch.  The conversion is modelled as what it has to
be: `calendar.timegm` of the fields minus the zone offset of the date — independent of the time zone
the process runs in.  (`common_helpers.parse_date` gets there through `time.mktime(... isdst=0) -
time.timezone`; the correspondence run executes it under several `TZ` settings.) -/

/-- `(y-1)*365 + (y-1)//4 - (y-1)//100 + (y-1)//400` : `datetime._days_before_year` -/
def daysBeforeYear (y : Int) : Int :=
  let y1 := y - 1
  y1 * 365 + y1 / 4 - y1 / 100 + y1 / 400

def isLeap (y : Int) : Bool := y % 4 == 0 && (y % 100 != 0 || y % 400 == 0)

/-- days in the year before the first of month `m` (1..12) -/
def daysBeforeMonth (y m : Int) : Int :=
  let t : Int := match m with
    | 1 => 0 | 2 => 31 | 3 => 59 | 4 => 90 | 5 => 120 | 6 => 151 | 7 => 181 | 8 => 212
    | 9 => 243 | 10 => 273 | 11 => 304 | _ => 334
  t + (if m > 2 && isLeap y then 1 else 0)

/-- `calendar.timegm((y, mo, d, h, mi, s, ...))`: `date(y, mo, 1).toordinal() - 719163 + d - 1` days, then
hours, minutes, seconds added linearly (so out-of-range days/hours carry over); `ValueError`
(`none`) when `date(y, mo, 1)` does not exist -/
def timegm (y mo d h mi s : Int) : Option Int :=
  if 1 ≤ y ∧ y ≤ 9999 ∧ 1 ≤ mo ∧ mo ≤ 12 then
    let days := daysBeforeYear y + daysBeforeMonth y mo + 1 - 719163 + d - 1
    some (((days * 24 + h) * 60 + mi) * 60 + s)
  else none

/-- the fields `parsedate_tz` returns that matter: date, time, zone offset in seconds (`None` → 0) -/
structure DateFields where
  y : Int
  mo : Int
  d : Int
  h : Int
  mi : Int
  s : Int
  tz : Int
  deriving Repr, DecidableEq

/-- `parse_date` after `parsedate_tz` succeeded -/
def parseDate (f : DateFields) : Option Int := (timegm f.y f.mo f.d f.h f.mi f.s).map (· - f.tz)

/-- `_file_iter_range(fp, offset, bytes_len, maxread)` after the `seek`: the chunks yielded. -/
def fileIterRange (st : Stream) (bytesLen maxread : Nat) : List Bytes :=
  if h : 0 < bytesLen ∧ (st.read (min bytesLen maxread)).1 ≠ [] then
    (st.read (min bytesLen maxread)).1 ::
      fileIterRange (st.read (min bytesLen maxread)).2
        (bytesLen - (st.read (min bytesLen maxread)).1.length) maxread
  else []
termination_by bytesLen
decreasing_by
  have : 0 < (st.read (min bytesLen maxread)).1.length := List.length_pos_iff.mpr h.2
  omega

/-- What `static_file` answers once the file is known to exist and be readable. -/
inductive Resp
  | notModified                                     -- 304, no body
  | unsatisfiable                                   -- 416
  | partialContent (contentRange : Str) (contentLength : Str) (body : List Bytes)   -- 206
  | full (contentLength : Nat) (body : List Bytes)  -- 200
  deriving Repr, DecidableEq

/-- `maxread` is the streaming buffer of `_file_iter_range` (1 MiB in the source); the 200
response hands the open file to the WSGI layer, modelled as one read-to-EOF. -/
def staticBody (file : Bytes) (sched : List Nat) (isHead : Bool) (off len maxread : Nat) : List Bytes :=
  if isHead then [] else fileIterRange ⟨file.drop off, sched⟩ len maxread

def staticFile (file : Bytes) (sched : List Nat) (isHead : Bool) (rangeHdr : Option Str)
    (ims : Option Int) (mtime : Int) (maxread : Nat) : Resp :=
  let clen := file.length
  match ims with
  | some t => if t ≥ mtime then .notModified else go clen
  | none => go clen
where
  go (clen : Nat) : Resp :=
    match rangeHdr with
    | some h =>
      if h.isEmpty then .full clen (if isHead then [] else [file])
      else match firstRange h clen with
        | none => .unsatisfiable
        | some (s, e) =>
          .partialContent ("bytes ".toList ++ natStr s ++ "-".toList ++ intStr ((e : Int) - 1) ++ "/".toList ++ natStr clen)
            (natStr (e - s)) (staticBody file sched isHead s (e - s) maxread)
    | none => .full clen (if isHead then [] else [file])

/-- `int(stats.st_mtime)` from the nanosecond stamp of the file: `st_mtime` is the stamp in (float) seconds and `int()`
truncates TOWARD ZERO, so a stamp half a second before the epoch and one half a second after it both read 0.
(Exact as long as the float holds the fraction, which the harness's stamps - multiples of 1/4 s below 2^34 - do.) -/
def mtimeSeconds (ns : Int) : Int :=
  if ns ≥ 0 then ns / 1000000000 else -((-ns) / 1000000000)

/-- `static_file` on a file whose modification time is given as `st_mtime_ns` -/
def staticFileNs (file : Bytes) (sched : List Nat) (isHead : Bool) (rangeHdr : Option Str)
    (ims : Option Int) (mtimeNs : Int) (maxread : Nat) : Resp :=
  staticFile file sched isHead rangeHdr ims (mtimeSeconds mtimeNs) maxread

end Ombott.Range
