import OmbottModel.Drv.Common
import OmbottModel.Model.WsgiConc
/-!
Protocol lines of area `tsprops` (self-contained: programs + interleaving on one line).

    tsprops run    <variant> <multi> T <tid> <item>* [T <tid> <item>*]* EV <e,e,...>
                   e = tid: that thread makes its next recorded store access; e = 1000+tid: it runs
                   to its end; after the list every thread runs to its end, in the order given.
                   Thread 0 is the main thread (it constructs the initial applications).
    tsprops labels <variant> <multi> ...same...

    variant := fixed | shared            multi := 0 | 1 (labels carry the application id)
    item    := serve <req> | construct <app> | poke <app> <k> <v> | pokeattr <app> <name> <v> | idle <app>
    req     := R <app> <env> <debug 0|1> <custom codes n,n|-> B <op>* A <op>* <route>
               (application config that matters while serving: config.debug, codes with an
               @app.error handler, before_request / after_request hook statements)
    env     := - | <hexkey>:<val>&<hexkey>:<val>...          val := n | s<hex>
    route   := H <op>* <outcome> | NF <line> <text> | NA <line> <text> <allow> | BP <line>
    op      := path | method | query <k> | cookie <k> | header <name> <wsgikey> | envget <k> | body
             | form <k> | file <name> <field> | url | kwargs | urlargs | scookie <k> | dump <what> | mutate <what>
             | envset <k> <v> | reqset <k> <v> | extset <name> <v> | extget <name> | whoami | status <code> <line> | rdstatus | sethdr <k> <v> | addhdr <k> <v>
             | rdhdr <k> | setcookie <k> <rendered> | ctype <v> | copy | cpath <n> | cset <n> <k> <v>
             | cheader <n> <name> <wsgikey>
             | nested <req> | construct <app>
    outcome := ret <text> | retb <text> | empty | raise <code> <line> <body> <env> | error <code> <line> <text>
             | crash <line> <repr of the exception> | failjson <errors_map key> | failform <errors_map key>
             | failmultipart <errors_map key> | redirect <location> <303 line>

`run` answers, per thread, the observations in order (`<app>:<hex of the observation>`): the values
handlers read (`r:`) and the responses produced (`w:`).  `labels` answers the labels of the visible
steps each thread made (diagnostics for the harness).  Text is hex of UTF-8.
-/
namespace Drv.TsProps
open Py Drv Ombott.TsProps Ombott.WsgiConc

def str (s : String) : String := String.ofList (unhexStr s)

def pval (s : String) : Option PVal :=
  if s == "n" then some .none
  else if s.startsWith "s" then some (.str (str (s.drop 1).toString))
  else none

def dict (s : String) : Option Dict :=
  if s == "-" then some [] else
  (s.splitOn "&").mapM fun kv =>
    match kv.splitOn ":" with
    | [k, v] => (pval v).map fun x => (str k, x)
    | _ => none

def strDict (s : String) : Option (List (String × String)) :=
  (dict s).map fun d => d.map fun kv => (kv.1, strOf kv.2)

mutual
  partial def parseReq : List String → Option (Req × List String)
    | "R" :: a :: env :: dbg :: custom :: "B" :: rest => do
      let a ← a.toNat?
      let env ← dict env
      let (before, rest) ← parseHook rest
      let (after, rest) ← parseHook rest
      let (rt, rest) ← parseRoute rest
      pure (.mk a env (bool01 dbg) ((natList custom).map Int.ofNat) before after rt, rest)
    | _ => none
  /-- hook statements up to the next `A` (end of the before hooks) or route keyword -/
  partial def parseHook : List String → Option (List HOp × List String)
    | "A" :: rest => some ([], rest)
    | "H" :: rest => some ([], "H" :: rest)
    | "NF" :: rest => some ([], "NF" :: rest)
    | "NA" :: rest => some ([], "NA" :: rest)
    | "BP" :: rest => some ([], "BP" :: rest)
    | toks => do
      let (op, rest) ← parseOp toks
      let (ops, rest) ← parseHook rest
      pure (op :: ops, rest)
  partial def parseRoute : List String → Option (Route × List String)
    | "NF" :: l :: t :: rest => some (.notFound (str l) (str t), rest)
    | "NA" :: l :: t :: al :: rest => some (.notAllowed (str l) (str t) (str al), rest)
    | "BP" :: l :: rest => some (.badPath (str l), rest)
    | "H" :: rest => do
      let (ops, out, rest) ← parseOps rest
      pure (.handler ops out, rest)
    | _ => none
  partial def parseOps : List String → Option (List HOp × Outcome × List String)
    | "ret" :: t :: rest => some ([], .ret (str t), rest)
    | "retb" :: t :: rest => some ([], .retBytes (str t), rest)
    | "empty" :: rest => some ([], .empty, rest)
    | "raise" :: c :: l :: b :: h :: rest => do
      pure ([], .raise (← c.toInt?) (str l) (str b) (← strDict h), rest)
    | "error" :: c :: l :: t :: rest => do pure ([], .error (← c.toInt?) (str l) (str t), rest)
    | "crash" :: l :: e :: rest => some ([], .crash (str l) (str e), rest)
    | "failjson" :: e :: rest => some ([], .failJson (str e), rest)
    | "failform" :: e :: rest => some ([], .failForm (str e), rest)
    | "failmultipart" :: e :: rest => some ([], .failMultipart (str e), rest)
    | "redirect" :: loc :: l :: rest => some ([], .redirect (str loc) (str l), rest)
    | toks => do
      let (op, rest) ← parseOp toks
      let (ops, out, rest) ← parseOps rest
      pure (op :: ops, out, rest)
  partial def parseOp : List String → Option (HOp × List String)
    | "path" :: r => some (.path, r)
    | "method" :: r => some (.method, r)
    | "query" :: k :: r => some (.query (str k), r)
    | "cookie" :: k :: r => some (.cookie (str k), r)
    | "header" :: n :: k :: r => some (.header (str n) (str k), r)
    | "envget" :: k :: r => some (.envGet (str k), r)
    | "body" :: r => some (.body, r)
    | "form" :: k :: r => some (.form (str k), r)
    | "file" :: n :: f :: r => some (.file (str n) (str f), r)
    | "url" :: r => some (.url, r)
    | "dump" :: w :: r => some (.dump (str w), r)
    | "mutate" :: w :: r => some (.mutate (str w), r)
    | "envset" :: k :: v :: r => some (.envSet (str k) (str v), r)
    | "extset" :: k :: v :: r => some (.extSet (str k) (str v), r)
    | "extget" :: k :: r => some (.extGet (str k), r)
    | "reqset" :: k :: v :: r => some (.reqSet (str k) (str v), r)
    | "whoami" :: r => some (.whoami, r)
    | "kwargs" :: r => some (.kwargs, r)
    | "urlargs" :: r => some (.urlArgs, r)
    | "scookie" :: k :: r => some (.scookie (str k), r)
    | "status" :: c :: l :: r => do pure (.status (← c.toInt?) (str l), r)
    | "rdstatus" :: r => some (.rdStatus, r)
    | "sethdr" :: k :: v :: r => some (.setHdr (str k) (str v), r)
    | "addhdr" :: k :: v :: r => some (.addHdr (str k) (str v), r)
    | "rdhdr" :: k :: r => some (.rdHdr (str k), r)
    | "setcookie" :: k :: v :: r => some (.setCookie (str k) (str v), r)
    | "ctype" :: v :: r => some (.ctype (str v), r)
    | "copy" :: r => some (.copy, r)
    | "cpath" :: n :: r => do pure (.cpath (← n.toNat?), r)
    | "cset" :: n :: k :: v :: r => do pure (.cset (← n.toNat?) (str k) (str v), r)
    | "cheader" :: n :: nm :: k :: r => do pure (.cheader (← n.toNat?) (str nm) (str k), r)
    | "nested" :: r => do
      let (q, r) ← parseReq r
      pure (.nested q, r)
    | "construct" :: a :: r => do pure (.construct (← a.toNat?), r)
    | _ => none
end

partial def parseItems : List String → Option (List Item × List String)
  | "serve" :: rest => do
    let (q, rest) ← parseReq rest
    let (its, rest) ← parseItems rest
    pure (.serve q :: its, rest)
  | "construct" :: a :: rest => do
    let (its, rest) ← parseItems rest
    pure (.construct (← a.toNat?) :: its, rest)
  | "poke" :: a :: k :: v :: rest => do
    let (its, rest) ← parseItems rest
    pure (.poke (← a.toNat?) (str k) (str v) :: its, rest)
  | "pokeattr" :: a :: k :: v :: rest => do
    let (its, rest) ← parseItems rest
    pure (.pokeAttr (← a.toNat?) (str k) (str v) :: its, rest)
  | "idle" :: a :: rest => do
    let (its, rest) ← parseItems rest
    pure (.idle (← a.toNat?) :: its, rest)
  | rest => some ([], rest)

def evOf (n : Nat) : Ev := if n ≥ 1000 then .finish (n - 1000) else .step n

partial def parseThreads : List String → Option (List (ThreadId × List Item) × List Ev)
  | "T" :: t :: rest => do
    let t ← t.toNat?
    let (its, rest) ← parseItems rest
    let (ths, ev) ← parseThreads rest
    pure ((t, its) :: ths, ev)
  | ["EV", ev] => some ([], (natList ev).map evOf)
  | _ => none

def variant : String → Option Variant
  | "fixed" => some .perInstance
  | "shared" => some .shared
  | _ => none

def progsOf (ths : List (ThreadId × List Item)) : ThreadId → Prog := fun t =>
  match ths.find? (·.1 == t) with
  | some (_, its) => threadProg its
  | none => .done

def showObs (o : AppId × String) : String := s!"{o.1}:{hexBytes o.2.toUTF8.toList}"

def handle : List String → Option String
  | "run" :: v :: _multi :: rest => do
    let v ← variant v
    let (ths, ev) ← parseThreads rest
    let tids := ths.map (·.1)
    let (m, _) := runEvents v (Machine.start (progsOf ths)) (ev ++ tids.map .finish)
    pure (" ; ".intercalate (tids.filter (· ≠ 0) |>.map fun t =>
      let out := (m.threads t).out
      s!"T{t} " ++ (if out.isEmpty then "-" else ",".intercalate (out.map showObs))))
  | "labels" :: v :: multi :: rest => do
    let v ← variant v
    let (ths, ev) ← parseThreads rest
    let tids := ths.map (·.1)
    let (m, _) := runEvents v (Machine.start (progsOf ths)) (ev ++ tids.map .finish)
    pure (" ; ".intercalate (tids.filter (· ≠ 0) |>.map fun t =>
      let ls := (m.log.filter fun e => e.thread == t && visible e.acc).map (label (bool01 multi))
      s!"T{t} " ++ (if ls.isEmpty then "-" else ",".intercalate ls)))
  | _ => none

end Drv.TsProps
