import OmbottModel.Drv.Common
import OmbottModel.Model.Headers
/-! Protocol lines of the header model (C14).  One line = one whole handler:

    hdr run  <op> <op> …             operations on a fresh response object
    hdr wsgi <bodylen> <op> …        the same inside an `Ombott()` call, answer = what
                                     `start_response` received

An operation is one token, fields separated by `:`; values are `s<hex>` (text), `i<int>`,
`f<hex>` (float, text of `str(x)`), `bT`/`bF`, `n` (None), `y<hex>` (bytes), `o` (other object);
pair lists are `k=v,k=v` (`~` = empty).  Answer: `out=<per-op ok|ErrorClass> st=<code> hl=<name=value,…>`
with names and values in hex. -/
namespace Drv.Headers
open Py Drv Ombott.Headers

def parseVal (t : String) : Option PyVal :=
  match t.toList with
  | 's' :: r => some (.str (unhexStr (String.ofList r)))
  | 'i' :: r => (String.ofList r).toInt?.map PyVal.int
  | 'f' :: r => some (.float (unhexStr (String.ofList r)))
  | ['b', 'T'] => some (.bool true)
  | ['b', 'F'] => some (.bool false)
  | ['n'] => some .none
  | 'y' :: r => some (.bytes (unhexBytes (String.ofList r)))
  | ['o'] => some .other
  | _ => Option.none

def parseErr : String → Option Err
  | "ValueError" => some .valueError
  | "TypeError" => some .typeError
  | "KeyError" => some .keyError
  | "IndexError" => some .indexError
  | "AttributeError" => some .attributeError
  | _ => Option.none

def parseFmt (t : String) : Option (Except Err Str) :=
  match t.toList with
  | ['-'] => some (.error .typeError)
  | 'k' :: r => some (.ok (unhexStr (String.ofList r)))
  | 'e' :: r => (parseErr (String.ofList r)).map Except.error
  | _ => Option.none

def parsePair (t : String) : Option (Str × PyVal) :=
  match t.splitOn "=" with
  | [k, v] => (parseVal v).map fun v' => (unhexStr k, v')
  | _ => Option.none

def parsePairs (t : String) : Option (List (Str × PyVal)) :=
  if t == "~" then some [] else (t.splitOn ",").mapM parsePair

def parseStatus (t : String) : Option (Option Int) :=
  if t == "~" then some Option.none else t.toInt?.map some

def parseProp : String → Option HProp
  | "ct" => some .contentType
  | "cl" => some .contentLength
  | "ex" => some .expires
  | _ => Option.none

def parseOp (t : String) : Option Op :=
  match t.splitOn ":" with
  | ["set", k, v] => (parseVal v).map (Op.setitem (unhexStr k))
  | ["app", k, v] => (parseVal v).map (Op.append (unhexStr k))
  | ["sdf", k, v] => (parseVal v).map (Op.setdefault (unhexStr k))
  | ["prop", p, v, f] => do pure (Op.propSet (← parseProp p) (← parseVal v) (← parseFmt f))
  | ["del", k] => some (Op.delitem (unhexStr k))
  | ["clr", ks] => some (Op.clear (unhexStrList ks))
  | ["st", n] => n.toInt?.map Op.status
  | ["init", st, h, m] => do pure (Op.init (← parseStatus st) (← parsePairs h) (← parsePairs m))
  | ["initmap", st, ks, m] => do pure (Op.initMap (← parseStatus st) (unhexStrList ks) (← parsePairs m))
  | ["err", st, o] => do pure (Op.error (← parseStatus st) (← parsePairs o))
  | ["ck", n, o] => some (Op.cookie (unhexStr n) (unhexStr o))
  | _ => Option.none

def showOutcomes (es : List (Option Err)) : String :=
  if es.isEmpty then "~" else
  ",".intercalate (es.map fun | Option.none => "ok" | some e => e.name)

def showHeaders (hl : List (Str × Str)) : String :=
  if hl.isEmpty then "~" else
  ",".intercalate (hl.map fun (n, v) => hexStr n ++ "=" ++ hexStr v)

def showStatus : Option Nat → String
  | some c => toString c
  | Option.none => "~"

def answer (r : Resp) (es : List (Option Err)) (hl : List (Str × Str)) : String :=
  s!"out={showOutcomes es} st={showStatus r.status} hl={showHeaders hl}"

def handle : List String → Option String
  | "run" :: ops => do
    let ops' ← ops.mapM parseOp
    let (r, es) := run Resp.fresh ops'
    pure (answer r es (headerlist r))
  | "wsgi" :: n :: ops => do
    let len ← n.toNat?
    let ops' ← ops.mapM parseOp
    let (r, es, hl) := wsgiHeaders ops' len
    pure (match hl with
      | some hl => answer r es hl
      | Option.none => s!"wsgi-500 out={showOutcomes es} hl={showHeaders catchAllHeaders}")
  | _ => Option.none

end Drv.Headers
