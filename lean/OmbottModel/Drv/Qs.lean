import OmbottModel.Drv.Common
import OmbottModel.Model.Qs
/-! Protocol lines of area `qs` (C18).  Text is hex of UTF-8, a pair is `key:value`, lists are
comma separated (`~` = empty list), a dictionary value is `s:<text>` or `l:<text>/<text>/…`. -/
namespace Drv.Qs
open Py Drv Ombott.Qs

def showPairs (l : List (Str × Str)) : String :=
  if l.isEmpty then "~" else ",".intercalate (l.map fun (k, v) => s!"{hexStr k}:{hexStr v}")

def readPairs (s : String) : Option (List (Str × Str)) :=
  if s == "~" then some [] else
  (s.splitOn ",").mapM fun p =>
    match p.splitOn ":" with
    | [k, v] => some (unhexStr k, unhexStr v)
    | _ => none

def showVal : Val → String
  | .one s => s!"s:{hexStr s}"
  | .many l => "l:" ++ "/".intercalate (l.map hexStr)

def showDict : Except Err (Dict Val) → String
  | .error e => s!"err {e.name}"
  | .ok d => if d.isEmpty then "ok ~" else "ok " ++ ",".intercalate (d.map fun (k, v) => s!"{hexStr k}:{showVal v}")

def handle : List String → Option String
  | ["parse", qs] => some (showPairs (parseQsl (unhexStr qs)))
  | ["dict", qs] => some (showDict (parseInto [] (unhexStr qs)))
  | ["query", qs] => some (showDict (query (unhexStr qs)))
  | ["forms", body] => some (showDict (forms (unhexBytes body)))
  | ["formsct", ct, body] =>
    some (match formsCt (optStr ct) (unhexBytes body) with | some r => showDict r | none => "other")
  | ["paramsct", ct, qs, body] =>
    some (match paramsCt (optStr ct) (unhexStr qs) (unhexBytes body) with | some r => showDict r | none => "other")
  | ["params", qs, body] => some (showDict (params (unhexStr qs) (unhexBytes body)))
  | ["unquote", s] => some (hexStr (unquote (unhexStr s)))
  | ["decode", b] => some (hexStr (utf8DecReplace (unhexBytes b)))
  | ["quote", s] => some (hexStr (quote (unhexStr s)))
  | ["quoteplus", s] => some (hexStr (quotePlus (unhexStr s)))
  | ["urlencode", ps] => (readPairs ps).map fun l => hexStr (urlencode l)
  | ["urlencodeq", ps] => (readPairs ps).map fun l => hexStr (urlencodeWith false l)
  | _ => none

end Drv.Qs
