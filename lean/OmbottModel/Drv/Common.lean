import OmbottModel.Py
/-
Line-protocol helpers for the driver: hex coding of bytes / text, small parsers.
`-` stands for the empty string (and the empty number list), `~` for the empty list of
strings and for `None`.
-/
namespace Drv
open Py

def hexVal (c : Char) : Nat :=
  if c.isDigit then c.toNat - 48
  else if 'a' ≤ c ∧ c ≤ 'f' then c.toNat - 87
  else if 'A' ≤ c ∧ c ≤ 'F' then c.toNat - 55 else 0

def unhexL : List Char → List UInt8
  | a :: b :: r => UInt8.ofNat (hexVal a * 16 + hexVal b) :: unhexL r
  | _ => []

def unhexBytes (s : String) : Bytes := if s == "-" then [] else unhexL s.toList

/-- text travels as hex of its UTF-8 encoding -/
def unhexStr (s : String) : Str :=
  match String.fromUTF8? (ByteArray.mk (unhexBytes s).toArray) with
  | some t => t.toList
  | none => []

def hexDigit (n : Nat) : Char := if n < 10 then Char.ofNat (48 + n) else Char.ofNat (87 + n)

def hexBytes (b : Bytes) : String :=
  if b.isEmpty then "-" else
  String.ofList (b.flatMap fun x => [hexDigit (x.toNat / 16), hexDigit (x.toNat % 16)])

def hexStr (s : Str) : String := hexBytes (String.ofList s).toUTF8.toList

def natList (s : String) : List Nat :=
  if s == "-" then [] else (s.splitOn ",").filterMap (·.toNat?)

def showNatList (l : List Nat) : String :=
  if l.isEmpty then "-" else ",".intercalate (l.map toString)

def hexBytesList (l : List Bytes) : String :=
  if l.isEmpty then "~" else ",".intercalate (l.map hexBytes)

def unhexBytesList (s : String) : List Bytes :=
  if s == "~" then [] else (s.splitOn ",").map unhexBytes

def unhexStrList (s : String) : List Str :=
  if s == "~" then [] else (s.splitOn ",").map unhexStr

def hexStrList (l : List Str) : String :=
  if l.isEmpty then "~" else ",".intercalate (l.map hexStr)

def optStr (s : String) : Option Str := if s == "~" then none else some (unhexStr s)

def optInt (s : String) : Option Int := if s == "~" then none else s.toInt?

def bool01 (s : String) : Bool := s == "1"

def show01 (b : Bool) : String := if b then "1" else "0"

end Drv
