import OmbottModel.Drv.Common
import OmbottModel.Drv.Headers
import OmbottModel.Model.RespHelp
/-! Protocol lines of the response helper classes (`Model/RespHelp.lean`), all self-contained:

    resphelp hd <call> …                calls `<obj>:<thread>:<op>[:args]` on HeaderDict objects (object 0 = `HeaderDict()` made
                                        on thread 0); answer: the results joined by `;`, then per object the dict each of the
                                        threads 0..2 sees (`x` = no `dict` attribute there)
    resphelp fw <attrs> <data> <sched> <buff>     `list(WSGIFileWrapper(fp, buff))`
    resphelp ci <close-arg> <items>     `list(_closeiter(iter(items), close))` and `.close()`
    resphelp resp <fin> <op> …          statements on an `HTTPResponse()`, then `obs` | `copy:<cls>` | `repr`
    resphelp iter <body>                `list(iter(response))`
    resphelp new <cls> <0|1>            `cls.__new__(cls[, status=200])`

Values as in `Drv/Headers.lean`; a stored value is `s<hex>` or `l<hex>/<hex>…`; a dict is `k=v,k=v` (`~` empty). -/
namespace Drv.RespHelp
open Py Drv Ombott.Headers Ombott.RespHelp

def parseEntry (t : String) : Option Entry :=
  match t.toList with
  | 's' :: r => some (.one (unhexStr (String.ofList r)))
  | ['l'] => some (.many [])
  | 'l' :: r => some (.many ((String.ofList r).splitOn "/" |>.map unhexStr))
  | _ => Option.none

def parseStore (t : String) : Option Store :=
  if t == "~" then some [] else
  (t.splitOn ",").mapM fun p => match p.splitOn "=" with
    | [k, v] => (parseEntry v).map fun e => (unhexStr k, e)
    | _ => Option.none

def showEntry : Entry → String
  | .one v => "s" ++ hexStr v
  | .many vs => "l" ++ "/".intercalate (vs.map hexStr)

def showStore (d : Store) : String :=
  if d.isEmpty then "~" else ",".intercalate (d.map fun p => hexStr p.1 ++ "=" ++ showEntry p.2)

def showRes : Res → String
  | .none => "n"
  | .bool b => "b" ++ show01 b
  | .int i => s!"i{i}"
  | .entry e => showEntry e
  | .keys ks => "K" ++ hexStrList ks
  | .vals es => "V" ++ (if es.isEmpty then "~" else ",".intercalate (es.map showEntry))
  | .items d => "I" ++ showStore d
  | .pair k e => "P" ++ hexStr k ++ "=" ++ showEntry e
  | .text s => "T" ++ hexStr s
  | .obj i => s!"O{i}"

def parseHOp : List String → Option HOp
  | ["len"] => some .len
  | ["iter"] => some .iter
  | ["has", k] => some (.contains (unhexStr k))
  | ["gi", k] => some (.getitem (unhexStr k))
  | ["del", k] => some (.delitem (unhexStr k))
  | ["set", k, v] => (Headers.parseVal v).map (.setitem (unhexStr k))
  | ["app", k, v] => (Headers.parseVal v).map (.append (unhexStr k))
  | ["sdf", k, v] => (Headers.parseVal v).map (.setdefault (unhexStr k))
  | ["keys"] => some .keys
  | ["vals"] => some .values
  | ["items"] => some .items
  | ["pget", k] => some (.get (unhexStr k))
  | ["pop", k, d] => some (.pop (unhexStr k) (bool01 d))
  | ["popitem"] => some .popitem
  | ["copy"] => some .copy
  | ["clr", ks] => some (.clear (unhexStrList ks))
  | ["upd", d] => (parseStore d).map .update
  | ["repr"] => some .repr
  | ["gd"] => some .getDict
  | ["sd", d] => (parseStore d).map .setDict
  | ["pg", i, rd] => do pure (.propGet (← i.toNat?) (← Headers.parseFmt rd))
  | ["ps", i, v, f] => do pure (.propSet (← i.toNat?) (← Headers.parseVal v) (← Headers.parseFmt f))
  | ["pd", i] => i.toNat?.map .propDel
  | _ => Option.none

def parseCall (t : String) : Option (Nat × Tid × HOp) :=
  match t.splitOn ":" with
  | i :: th :: rest => do pure (← i.toNat?, ← th.toNat?, ← parseHOp rest)
  | _ => Option.none

def showOutcome : Except Err Res → String
  | .ok r => showRes r
  | .error e => "e" ++ e.name

def showObj (h : HD) : String :=
  "&".intercalate ([0, 1, 2].map fun t => match tsGet h t with
    | .ok d => showStore d
    | .error _ => "x")

def parseCb (t : String) : Option Cb :=
  match t.splitOn "." with
  | [i, r] => i.toNat?.map fun n => { id := n, raises := bool01 r }
  | _ => Option.none

def parseCloseArg (t : String) : Option CloseArg :=
  match t.toList with
  | ['n'] => some .none
  | 'o' :: r => (parseCb (String.ofList r)).map .one
  | ['m', '~'] => some (.many [])
  | 'm' :: r => ((String.ofList r).splitOn ",").mapM parseCb |>.map .many
  | _ => Option.none

def parseStArg (t : String) : Option StArg :=
  match t.toList with
  | 'i' :: r => (String.ofList r).toInt?.map .int
  | 's' :: r => some (.str (unhexStr (String.ofList r)))
  | ['o'] => some .other
  | _ => Option.none

def parseOptSt (t : String) : Option (Option StArg) :=
  if t == "~" then some Option.none else (parseStArg t).map some

def parseAVal (t : String) : Option AVal :=
  match t.toList with
  | 't' :: r => some (.text (unhexStr (String.ofList r)))
  | 'i' :: r => (String.ofList r).toInt?.map .int
  | ['f', 'T'] => some (.flag true)
  | ['f', 'F'] => some (.flag false)
  | _ => Option.none

def parseOpts (t : String) : Option (List (Str × AVal)) :=
  if t == "~" then some [] else
  (t.splitOn ",").mapM fun p => match p.splitOn "=" with
    | [k, v] => (parseAVal v).map fun a => (unhexStr k, a)
    | _ => Option.none

def parseCls : String → Option Cls
  | "BaseResponse" => some .baseResponse
  | "Response" => some .response
  | "HTTPResponse" => some .httpResponse
  | "HTTPError" => some .httpError
  | _ => Option.none

def parseROp (t : String) : Option ROp :=
  match t.splitOn ":" with
  | ["st", a] => (parseStArg a).map .setStatus
  | ["set", k, v] => (Headers.parseVal v).map (.setHeader (unhexStr k))
  | ["app", k, v] => (Headers.parseVal v).map (.appendHeader (unhexStr k))
  | ["ck", n, v, o] => do pure (.setCookie (unhexStr n) (optStr v) (← parseOpts o))
  | ["dck", n, o] => do pure (.deleteCookie (unhexStr n) (← parseOpts o))
  | ["init", c, st, h, m] => do
    pure (.init (← parseCls c) (← parseOptSt st) (← Headers.parsePairs h) (← Headers.parsePairs m))
  | _ => Option.none

def showObs (r : RObj) : String :=
  let (c, l, hl) := observe r
  s!"st={Headers.showStatus c} ln={match l with | some x => hexStr x | Option.none => "~"} hl={Headers.showHeaders hl}"

def showXOutcomes (es : List (Option XErr)) : String :=
  if es.isEmpty then "~" else ",".intercalate (es.map fun | Option.none => "ok" | some e => e.name)

def parseBody (t : String) : Option Body :=
  match t.toList with
  | 't' :: r => some (.text (unhexStr (String.ofList r)))
  | 'p' :: r => some (.parts (unhexBytesList (String.ofList r)))
  | ['o'] => some .other
  | _ => Option.none

def handle : List String → Option String
  | "hd" :: calls => do
    let cs ← calls.mapM parseCall
    let (objs, rs) ← runH hdStart cs
    pure (";".intercalate (rs.map showOutcome) ++ " " ++ "|".intercalate (objs.map showObj))
  | ["fw", attrs, data, sched, buff] => do
    let b ← buff.toNat?
    let have_ := unhexStrList attrs
    pure (s!"attrs={hexStrList (fwInit have_)} " ++
      match fwIter have_ { data := unhexBytes data, sched := natList sched } b with
      | .ok parts => "ok " ++ hexBytesList parts
      | .error e => "e" ++ e.name)
  | ["ci", arg, items] => do
    let a ← parseCloseArg arg
    let (calls, e) := closeiterClose (closeiterInit a)
    pure s!"calls={showNatList calls} err={match e with | some x => x.name | Option.none => "ok"} items={hexBytesList (closeiterIter (unhexBytesList items))}"
  | "resp" :: fin :: ops => do
    let ops' ← ops.mapM parseROp
    let (r, es) := runR RObj.fresh ops'
    let tail ← match fin.splitOn ":" with
      | ["obs"] => some (showObs r)
      | ["repr"] => some ("T" ++ hexStr (respRepr r))
      | ["copy", c] => do
        let cls ← if c == "~" then some Option.none else (parseCls c).map some
        pure (match respCopy r cls with
          | .ok cp => showObs cp
          | .error e => "e" ++ e.name)
      | _ => Option.none
    pure s!"out={showXOutcomes es} {tail}"
  | ["iter", body] => do
    let b ← parseBody body
    pure (match respIter { RObj.fresh with body := b } with
      | .ok items => "ok " ++ (if items.isEmpty then "~" else ",".intercalate (items.map fun
          | .inl s => "s" ++ hexStr s
          | .inr x => "b" ++ hexBytes x))
      | .error e => "e" ++ e.name)
  | ["new", c, a] => do
    let cls ← parseCls c
    pure (match respNew cls (bool01 a) with
      | .ok () => "ok"
      | .error e => "e" ++ e.name)
  | _ => Option.none

end Drv.RespHelp
