import OmbottModel.Drv.Common
import OmbottModel.Drv.Router
import OmbottModel.Drv.Wsgi
import OmbottModel.Drv.ErrorPage
import OmbottModel.Model.App
/-!
Protocol line of the composed model (`Model/App.lean`).  Self-contained: router history + handler
programs + one request → the full response.

```
app serve <nops> op*  app  <nprog> (<idx> <echo> handler)*  req

op      := a `router hist` op (`A|rule|methods|name|overwrite|cerr`, `D|k|methods`, `N`), one token
app     := the application of `wsgi serve` (catchall flag, hooks, error handlers)
handler := the handler program of `wsgi serve`; it is the callback of the `A` op at position <idx>;
           <echo> = 1: where it returns, it returns the text of its kwargs instead
           (an `A` op without a listed program: `return 'h<idx>'`)
req     := <id> <verb> <rawpath> <fw> <accept> <fproto> <scheme> <fhost> <host> <sname> <sport> <qs>
           <script> <fullpath> <envtable>
           (verb: hex text; rawpath: hex bytes of PATH_INFO; accept … script: `~` | hex text;
            fullpath: `ok:<hex>` | `err:<Name>`, the library's `urljoin` answer (`errorpage serve`);
            envtable: the filter answers of `router hist`'s `R` op for the decoded, stripped path)
```

Answer: `reg=<answer per op, comma separated> ` followed by `outside:<seam>` or
`ev=… call=… n=1 status=… hdrs=… exc=… body=… shape=… cl=… xh=… xp=…` where `call` is the
handler call (`<idx>:<method>:<kwargs>` | `-`), and `xh` / `xp` say whether the header list
`Model/Headers` computes for the final response object and the response `Model/ErrorPage`
describes for a routing error agree with what `Model/Wsgi` produced (`-`: not applicable).
-/
namespace Drv.App
open Py Drv Ombott Ombott.App
open Drv.Wsgi (P tok pNat pBool pStr pMany pList pApp pHandler)

def runRouterOps : Drv.Router.St → Nat → List String → Option (Drv.Router.St × List String)
  | st, _, [] => some (st, [])
  | st, i, op :: ops => do
    let (st', out) ← Drv.Router.stepOp st i op
    let (st'', rest) ← runRouterOps st' (i + 1) ops
    pure (st'', out :: rest)

/-- only registration ops belong in the history of this line -/
def isRegOp (op : String) : Bool := op.startsWith "A|" || op.startsWith "D|" || op == "N"

def handlersOf (progs : List (Nat × Bool × Wsgi.Handler)) : Nat → Kwargs → Wsgi.Handler := fun id kw =>
  match progs.find? (·.1 == id) with
  | some (_, echo, h) =>
    if echo then
      match h.res with
      | .returns _ => { h with res := .returns (.text (Drv.Router.showKwargs kw).toList) }
      | _ => h
    else h
  | none => { effs := [], res := .returns (.text ("h".toList ++ natStr id)) }

def pOpt : P (Option Str) := do pure (optStr (← tok))

def pReq : P (Req × Drv.Router.EnvTable) := do
  let id ← pNat
  let verb ← pStr
  let raw ← tok
  let fw ← pBool
  let accept ← pOpt
  let fproto ← tok
  let scheme ← tok
  let fhost ← tok
  let host ← tok
  let sname ← tok
  let sport ← tok
  let qs ← tok
  let script ← tok
  let fullpath ← tok
  let envt ← tok
  match Drv.ErrorPage.mkEnv fproto scheme fhost host sname sport qs script fullpath, Drv.Router.parseEnv envt with
  | some env, some t =>
    pure ({ id := id, verb := verb, rawPath := unhexBytes raw, env := env, accept := accept, fileWrapper := fw }, t)
  | _, _ => failure

def showCall : Option Call → String
  | none => "-"
  | some c => s!"{c.handler}:{hexStr c.method}:{Drv.Router.showKwargs c.kwargs}"

def plainHooks (a : Wsgi.App) : Bool := a.before.isEmpty && a.after.isEmpty && a.errHandlers.isEmpty

/-- `Model/Headers` on the final response object vs the list `Model/Wsgi` handed to `start_response`
(`c`: the catch-all branch emitted its literal list, which `Model/Headers` has as `catchAllHeaders`) -/
def xHeaders (res : Wsgi.Result) : String :=
  match App.startOf res.events with
  | some (_, hdrs, false) => show01 (hdrs == headerlistView res)
  | some (_, hdrs, true) => if hdrs == Headers.catchAllHeaders then "c" else "0"
  | none => "0"

def ctypeOfHdrs (h : List (Str × Str)) : Str :=
  ",".toList.intercalate ((h.filter fun p => p.1.map Char.toLower == "content-type".toList).map (·.2))

/-- `Model/ErrorPage` on a routing error of an application without hooks / error handlers vs what
`Model/Wsgi` produced -/
def xErrorPage (cfg : AppConfig) (R : Router.Router) (q : Req) (res : Wsgi.Result) : String :=
  if !plainHooks cfg.hooks then "-" else
  match errorPageView cfg R q, App.startOf res.events with
  | some r, some (line, hdrs, _) =>
    show01 (r.status == line && r.ctype == ctypeOfHdrs hdrs && utf8 r.body == bodyBytes res.body)
  | _, _ => "-"

def handle : List String → Option String
  | "serve" :: rest => do
    let (ops, rest') ← (do
      let n ← pNat
      pMany tok n : P (List String)).run rest
    if !ops.all isRegOp then none
    let (rst, regs) ← runRouterOps {} 0 ops
    let (((_, hooks), progs), (q, envt)) ← Drv.Wsgi.run (do
      let a ← pApp
      let ps ← pList (do
        let i ← pNat
        let e ← pBool
        let h ← pHandler
        pure (i, e, h))
      let r ← pReq
      pure ((a, ps), r)) rest'
    let cfg : AppConfig := { hooks := hooks, handlers := handlersOf progs, upper := Router.asciiUpper,
                             fenv := Drv.Router.envOf envt, pr := ErrorPage.isPrintable }
    let reg := "reg=" ++ (if regs.isEmpty then "-" else ",".intercalate regs) ++ " "
    match serveW cfg rst.R q with
    | .error s => pure (reg ++ "outside:" ++ s.name)
    | .ok res =>
      let call := callOf (resolved cfg rst.R q)
      let evs := res.events ++ Wsgi.serverEvents res
      let callShown := if evs.contains .handler then showCall call else "-"
      pure (reg ++ s!"call={callShown} " ++ Drv.Wsgi.showResult evs res ++
            s!" xh={xHeaders res} xp={xErrorPage cfg rst.R q res}")
  | _ => none

end Drv.App
