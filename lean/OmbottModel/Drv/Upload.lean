import OmbottModel.Drv.Common
import OmbottModel.Model.Upload
/-! Protocol lines of area `upload` (the upload object and the file proxies; extra correspondence stream of C07).
Text is hex of UTF-8 (`-` = empty), `~` = `None` / the empty list.  Every line is self-contained.

    upload fname <s|b|o> <hex>                         `FileUpload.filename` of a raw name (text / bytes / no `.decode`)
    upload dec <bytes>                                 `bytes.decode('utf8', 'ignore')`
    upload obj <s|b|o> <hex> <headers> <op>,<op>,…     one FileUpload, an accessor sequence; answers joined by `;`
        headers = `~` (None) | `0` ({}) | <k>=s<v> / <k>=h<name>/<value> joined by `+`
        f  d  S/<text>  C  g/<name>/<default|~>  ct  cl  n  r
    upload proxy <body> <spooled> <st> <en> <op>.<op>.…   a BytesIOProxy; answers joined by `,`
        r  r<int>  s<pos>/<whence>  t a k R w F c x f X
    upload bio <data> <op>.<op>.…                      the reference `io.BytesIO(data)`, same operations
    upload copy <body> <spooled> <st> <en> <preops|~> <closed> <chunk>    `_copy_file` into a recording sink
    upload scopy <data> <pos> <sched> <chunk>          `_copy_file` from a file object with short reads
    upload save <s|b|o> <hex> <body> <spooled> <st> <en> <preops|~> <closed> <p|f> <dest> <fs> <overwrite> <chunk>
        fs = <path>:<isdir>:<exists>:<OSError class|~> joined by `,` (`~` = nothing known: no dir, nothing exists)
-/
namespace Drv.Upload
open Py Drv Ombott.Forms Ombott.Upload

def rawOf (k h : String) : Option RawName :=
  match k with
  | "s" => some (.str (unhexStr h))
  | "b" => some (.bytes (unhexBytes h))
  | "o" => some .other
  | _ => none

def excName (e : Ombott.Forms.Exc) : String := "e" ++ e.name

def showHVal : Option HVal → String
  | none => "n"
  | some (.str s) => "s" ++ hexStr s
  | some (.hdr h) => s!"h{hexStr h.name}/{hexStr h.value}"

def readHVal (t : String) : Option HVal :=
  if t.startsWith "s" then some (.str (unhexStr (t.drop 1).toString))
  else if t.startsWith "h" then
    match (t.drop 1).toString.splitOn "/" with
    | [n, v] => some (.hdr ⟨unhexStr n, unhexStr v, []⟩)
    | _ => none
  else none

def readHeaders (s : String) : Option (Option (List (Str × HVal))) :=
  if s == "~" then some none
  else if s == "0" then some (some [])
  else
    ((s.splitOn "+").mapM fun (p : String) =>
      match p.splitOn "=" with
      | [k, v] => (readHVal v).map fun hv => (unhexStr k, hv)
      | _ => none).map some

def objOp (u : FileUpload) (t : String) : Option (String × FileUpload) :=
  match t.splitOn "/" with
  | ["f"] =>
    let (r, u') := u.filenameGet nfkdTable
    some (match r with | .ok s => "s" ++ hexStr s | .error e => excName e, u')
  | ["d"] =>
    let (r, u') := u.filenameDel
    some (match r with | .ok _ => "ok" | .error e => excName e, u')
  | ["S", v] => some ("ok", u.filenameSet (unhexStr v))
  | ["C"] => some (show01 u.cached.isSome, u)
  | ["g", n, d] => some (showHVal (u.getHeader (unhexStr n) (if d == "~" then none else some (.str (unhexStr d)))), u)
  | ["ct"] => some (showHVal (some u.contentType), u)
  | ["cl"] => some (match u.contentLength with | .ok n => toString n | .error e => excName e, u)
  | ["n"] => some (hexStr u.name, u)
  | ["r"] =>
    some (match u.rawFilename with
      | .str s => "s" ++ hexStr s
      | .bytes b => "b" ++ hexBytes b
      | .other => "o", u)
  | _ => none

def objOps : FileUpload → List String → List String → Option (List String)
  | _, [], acc => some acc.reverse
  | u, t :: ts, acc =>
    match objOp u t with
    | none => none
    | some (a, u') => objOps u' ts (a :: acc)

def readPOp (t : String) : Option POp :=
  match t with
  | "r" => some (.read none)
  | "t" => some .tell | "a" => some .isatty | "k" => some .seekable | "R" => some .readable
  | "w" => some .writable | "F" => some .fileno | "c" => some .closed | "x" => some .close
  | "f" => some .flush | "X" => some .closeSrc
  | _ =>
    if t.startsWith "r" then (t.drop 1).toString.toInt?.map fun k => .read (some k)
    else if t.startsWith "s" then
      match (t.drop 1).toString.splitOn "/" with
      | [a, w] => do
        let a ← a.toInt?
        let w ← w.toInt?
        pure (.seek a w)
      | _ => none
    else none

def readPOps (s : String) : Option (List POp) :=
  if s == "~" then some [] else (s.splitOn ".").mapM readPOp

def showPRes : PRes → String
  | .bytes b => hexBytes b
  | .int i => toString i
  | .bool b => if b then "T" else "F"
  | .none => "n"
  | .err e => excName e

def showPieces (ps : List Bytes) : String :=
  if ps.isEmpty then "~" else "/".intercalate (ps.map hexBytes)

def readFs (s : String) : Option Ombott.Upload.Fs :=
  let ents : Option (List (Str × Bool × Bool × Option String)) :=
    if s == "~" then some [] else
    (s.splitOn ",").mapM fun (e : String) =>
      match e.splitOn ":" with
      | [p, d, x, o] => some (unhexStr p, bool01 d, bool01 x, if o == "~" then none else some o)
      | _ => none
  ents.map fun l =>
    { isdir := fun p => match l.lookup p with | some (d, _, _) => d | none => false
      exists_ := fun p => match l.lookup p with | some (_, x, _) => x | none => false
      openErr := fun p => match l.lookup p with | some (_, _, o) => o | none => none }

def optPath : Option Str → String
  | none => "~"
  | some p => hexStr p

def handle : List String → Option String
  | ["fname", k, h] => do
    let raw ← rawOf k h
    pure (match sanitize nfkdTable raw with | some s => hexStr s | none => "ePropertyGetterError")
  | ["dec", b] => some (hexStr (utf8DecodeIgnore (unhexBytes b)))
  | ["obj", k, h, hdrs, ops] => do
    let raw ← rawOf k h
    let hd ← readHeaders hdrs
    let u := FileUpload.init (Proxy.new 0 0) cs!"field" raw hd
    let outs ← objOps u (ops.splitOn ",") []
    pure (";".intercalate outs)
  | ["proxy", body, sp, st, en, ops] => do
    let st ← st.toInt?
    let en ← en.toInt?
    let ops ← readPOps ops
    let (rs, _) := runProxy (unhexBytes body) (bool01 sp) ⟨Proxy.new st en, false⟩ ops
    pure (",".intercalate (rs.map showPRes))
  | ["bio", data, ops] => do
    let ops ← readPOps ops
    let (rs, _) := runBio ⟨unhexBytes data, 0⟩ ops
    pure (",".intercalate (rs.map showPRes))
  | ["copy", body, sp, st, en, pre, closed, chunk] => do
    let st ← st.toInt?
    let en ← en.toInt?
    let pre ← readPOps pre
    let chunk ← chunk.toInt?
    let body := unhexBytes body
    let (_, s) := runProxy body (bool01 sp) ⟨Proxy.new st en, false⟩ pre
    match copyProxy body (bool01 sp) (bool01 closed) chunk s.p with
    | none => pure "fuel"
    | some (.error e) => pure (excName e)
    | some (.ok (ps, p')) => pure s!"{showPieces ps}|{p'.tell}"
  | ["scopy", data, pos, sched, chunk] => do
    let pos ← pos.toNat?
    let chunk ← chunk.toInt?
    match copySFile chunk ⟨unhexBytes data, pos, natList sched⟩ with
    | none => pure "fuel"
    | some (.error e) => pure (excName e)
    | some (.ok (ps, f')) => pure s!"{showPieces ps}|{f'.pos}"
  | ["save", k, h, body, sp, st, en, pre, closed, dk, dest, fs, ow, chunk] => do
    let raw ← rawOf k h
    let st ← st.toInt?
    let en ← en.toInt?
    let pre ← readPOps pre
    let chunk ← chunk.toInt?
    let fs ← readFs fs
    let body := unhexBytes body
    let (_, s) := runProxy body (bool01 sp) ⟨Proxy.new st en, false⟩ pre
    let u := FileUpload.init s.p cs!"field" raw none
    let d ← (match dk with
      | "p" => some (Dest.path (unhexStr dest))
      | "f" => some Dest.filelike
      | _ => none)
    match u.save nfkdTable fs body (bool01 sp) (bool01 closed) d (bool01 ow) chunk with
    | none => pure "fuel"
    | some (.error (e, _), u') => pure s!"err {excName e} {show01 u'.cached.isSome}"
    | some (.ok sv, u') =>
      let shown := match sv.opened with
        | some _ => hexBytes sv.pieces.flatten
        | none => showPieces sv.pieces
      pure s!"ok {optPath sv.opened} {shown} {u'.file.tell} {show01 u'.cached.isSome}"
  | _ => none

end Drv.Upload
