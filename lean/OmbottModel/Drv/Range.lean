import OmbottModel.Drv.Common
import OmbottModel.Model.Range
namespace Drv.Range
open Py Drv Ombott.Range

def showResp : Resp → String
  | .notModified => "304"
  | .unsatisfiable => "416"
  | .partialContent cr cl body => s!"206 cr={hexStr cr} cl={hexStr cl} body={hexBytesList body}"
  | .full cl body => s!"200 cl={cl} body={hexBytesList body}"

/-- the If-Modified-Since argument: `~` (absent / unparsable), an integer (already an instant), or
`d:y,mo,d,h,mi,s,tz` = the fields `parsedate_tz` returned -/
def readIms (s : String) : Option (Option Int) :=
  if s == "~" then some none
  else if s.startsWith "d:" then
    match ((s.drop 2).toString.splitOn ",").mapM (·.toInt?) with
    | some [y, mo, d, h, mi, sec, tz] => some (parseDate ⟨y, mo, d, h, mi, sec, tz⟩)
    | _ => none
  else s.toInt?.map some

def handle : List String → Option String
  | ["first", h, n] => do
    let k ← n.toNat?
    pure (match firstRange (unhexStr h) k with
      | some (a, b) => s!"some {a} {b}"
      | none => "none")
  | ["iter", data, sched, len, maxread] => do
    let l ← len.toNat?
    let m ← maxread.toNat?
    pure (hexBytesList (fileIterRange ⟨unhexBytes data, natList sched⟩ l m))
  | ["static", file, sched, head, rng, ims, mtime, maxread] => do
    let m ← maxread.toNat?
    let mt ← mtime.toInt?
    let i ← readIms ims
    pure (showResp (staticFile (unhexBytes file) (natList sched) (bool01 head) (optStr rng) i mt m))
  | ["staticns", file, sched, head, rng, ims, mtimeNs, maxread] => do
    let m ← maxread.toNat?
    let mt ← mtimeNs.toInt?
    let i ← readIms ims
    pure (showResp (staticFileNs (unhexBytes file) (natList sched) (bool01 head) (optStr rng) i mt m))
  | ["timegm", y, mo, d, h, mi, s] => do
    let r := timegm (← y.toInt?) (← mo.toInt?) (← d.toInt?) (← h.toInt?) (← mi.toInt?) (← s.toInt?)
    pure (match r with | some t => s!"some {t}" | none => "none")
  | _ => none

end Drv.Range
