import OmbottModel.Drv.Common
import OmbottModel.Model.Range
namespace Drv.Range
open Py Drv Ombott.Range

def showResp : Resp → String
  | .notModified => "304"
  | .unsatisfiable => "416"
  | .partialContent cr cl body => s!"206 cr={hexStr cr} cl={hexStr cl} body={hexBytesList body}"
  | .full cl body => s!"200 cl={cl} body={hexBytesList body}"

def handle : List String → Option String
  | ["first", h, n] => do
    let k ← n.toNat?
    pure (match firstRange (unhexStr h) k with
      | some (a, b) => s!"some {a} {b}"
      | none => "none")
  | ["iter", data, sched, len, maxread] => do
    let l ← len.toNat?
    let m ← maxread.toNat?
    pure (hexBytesList (fileIterRange ⟨unhexBytes data, natList sched⟩ l m))
  | ["static", file, sched, head, rng, ims, mtime, maxread] => do
    let m ← maxread.toNat?
    let mt ← mtime.toInt?
    pure (showResp (staticFile (unhexBytes file) (natList sched) (bool01 head) (optStr rng)
      (optInt ims) mt m))
  | _ => none

end Drv.Range
