import OmbottModel.Drv.Common
import OmbottModel.Model.EnvCache
import OmbottModel.Model.EnvCacheSpec
import OmbottModel.Model.CookiesLib
/-!
Protocol lines of the cache layer of the request object (every line self-contained).

```
envcache run  <cfg> <tabs> <env> <ops>   → answers of the reads, `|`-separated (`-` when there is none)
envcache spec <cfg> <tabs> <env> <ops>   → the same sequence on the cache-free reference machine
envcache table                           → the generated table as the model reads it
```
* `<cfg>` = `<max_memfile_size>:<max_body_size|~>:<allow_x_script_name 01>:<errors_map>` (`Cls=status.…` or `~`)
* `<tabs>` = the graph of the library parameters on the points this line needs, `;`-separated (`~` none):
  `q/<arg>/<res>` `quote`, `j/<base>/<url>/<res>` `urljoin`, `g/<5 fields .-separated, ~ = None>/<res>` `geturl`,
  `J/<bytes>/<N | V | R | T<Class> | O<fd> | X<text>>` `json.loads`,
  `M/<boundary>/<body>/<E<Class> | C<forms>/<files>/<post>/<exc class|~>>` the multipart collector
* `<env>` = `;`-separated `<key>=<value>` string entries and at most one `I=<data>:<sched>` (`wsgi.input`); `~` empty
* `<ops>` = `,`-separated: `r<i>:<attr>` read, `s<i>:<key>:<value>` assign, `i<i>:<data>:<sched>` assign a new
  `wsgi.input`, `d<i>:<key>` delete, `c<i>` copy
* a value: `N` None, `B0|B1`, `I<int>`, `S<text>`, `L<texts>`, `P<k>=<v>.…` (sorted), `D<fd>`, `T<fields>`,
  `Jo<fd>` / `Jx<text>`, `Y<bytes>`, `e:<Class>`; `<fd>` = `<k>=<o<text> | m<texts with +> | x<text>>.…` sorted by key, `~` empty
All text is hex of UTF-8.
-/
namespace Drv.EnvCache
open Py Drv Ombott.EnvCache Ombott.Forms
open Ombott.Body (Rec Sink)
abbrev Cfg := Ombott.EnvCache.Cfg

def parseSched (s : String) : List Nat :=
  if s == "-" then [] else (s.splitOn ".").filterMap (·.toNat?)

def parseEmap (s : String) : Option (List (String × Nat)) :=
  if s == "~" then some [] else
  (s.splitOn ".").mapM fun kv =>
    match kv.splitOn "=" with
    | [k, v] => v.toNat?.map fun n => (k, n)
    | _ => none

def parseCfg (s : String) : Option Cfg :=
  match s.splitOn ":" with
  | [mf, mb, xs, em] => do
    let mf ← mf.toNat?
    let mb ← if mb == "~" then some none else mb.toNat?.map some
    let em ← parseEmap em
    pure { memfile := mf, maxBody := mb, allowXScriptName := bool01 xs, errorsMap := em }
  | _ => none

/-! ### values -/

def sortByKey {β} (l : List (Str × β)) : List (Str × β) :=
  (l.toArray.qsort fun a b => hexStr a.1 < hexStr b.1).toList

def showDV : DV → String
  | .one s => "o" ++ hexStr s
  | .many l => "m" ++ "+".intercalate (l.map hexStr)
  | .other t => "x" ++ hexStr t

def showFD (d : FD) : String :=
  if d.isEmpty then "~" else ".".intercalate ((sortByKey d).map fun (k, v) => s!"{hexStr k}={showDV v}")

def parseDV (t : String) : Option DV :=
  match t.toList with
  | 'o' :: r => some (.one (unhexStr (String.ofList r)))
  | 'm' :: r => some (.many (if r.isEmpty then [] else ((String.ofList r).splitOn "+").map unhexStr))
  | 'x' :: r => some (.other (unhexStr (String.ofList r)))
  | _ => none

def parseFD (s : String) : Option FD :=
  if s == "~" then some [] else
  (s.splitOn ".").mapM fun kv =>
    match kv.splitOn "=" with
    | [k, v] => (parseDV v).map fun d => (unhexStr k, d)
    | _ => none

def showOpt : Option Str → String
  | none => "~"
  | some s => hexStr s

def showVal : Val → String
  | .none => "N"
  | .bool b => "B" ++ show01 b
  | .int i => s!"I{i}"
  | .str s => "S" ++ hexStr s
  | .strs l => "L" ++ hexStrList l
  | .pairs d => "P" ++ (if d.isEmpty then "~" else
      ".".intercalate ((sortByKey d).map fun (k, v) => s!"{hexStr k}={hexStr v}"))
  | .dict d => "D" ++ showFD d
  | .tuple l => "T" ++ ".".intercalate (l.map showOpt)
  | .json (.obj d) => "Jo" ++ showFD d
  | .json (.other t) => "Jx" ++ hexStr t
  | .bytes b => "Y" ++ hexBytes b
  | .stream id => s!"stream{id}"
  | .body sk _ => "body" ++ hexBytes sk.body
  | .err e => "err" ++ e.name
  | .view i => s!"view{i}"

def showOut : Except Exc Val → String
  | .ok v => showVal v
  | .error e => "e:" ++ e.name

/-! ### the library parameters from their tables -/

def excOfName (n : String) : Exc :=
  match [Err.valueError, .typeError, .keyError, .indexError, .unicodeError, .assertionError, .attributeError,
         .stopIteration, .runtimeError, .requestError, .bodyParsingError, .bodySizeError, .invalidBoundaryError,
         .stopMarkup, .malformedHeaders, .unexpectedBodyEnd].find? (fun e => e.name == n) with
  | some e => .py e
  | none => .other n

structure Tabs where
  quote : List (Str × Str) := []
  join : List ((Str × Str) × Str) := []
  geturl : List (List (Option Str) × Str) := []
  json : List (Bytes × JOut) := []
  mp : List ((Str × Bytes) × MpOut) := []

def parseJOut (t : String) : Option JOut :=
  match t.toList with
  | ['N'] => some .null
  | ['V'] => some (.raises (.py .valueError))
  | ['R'] => some (.raises (.other "RecursionError"))
  | 'T' :: r => some (.raises (excOfName (String.ofList r)))
  | 'O' :: r => (parseFD (String.ofList r)).map fun d => .val (.obj d)
  | 'X' :: r => some (.val (.other (unhexStr (String.ofList r))))
  | _ => none

def errOfExc : Exc → Err
  | .py e => e
  | .other _ => .runtimeError

def parseTab (t : Tabs) (entry : String) : Option Tabs :=
  match entry.splitOn "/" with
  | ["q", a, r] => some { t with quote := (unhexStr a, unhexStr r) :: t.quote }
  | ["j", a, b, r] => some { t with join := ((unhexStr a, unhexStr b), unhexStr r) :: t.join }
  | ["g", f, r] => some { t with geturl := ((f.splitOn ".").map optStr, unhexStr r) :: t.geturl }
  | ["J", b, o] => (parseJOut o).map fun o => { t with json := (unhexBytes b, o) :: t.json }
  | ["M", bnd, body, o] =>
    match o.toList with
    | 'E' :: r => some { t with mp := ((unhexStr bnd, unhexBytes body),
                                       .markupError (errOfExc (excOfName (String.ofList r)))) :: t.mp }
    | _ => none
  | ["M", bnd, body, fo, fi, po, ex] =>
    match fo.toList with
    | 'C' :: r => do
      let fo ← parseFD (String.ofList r)
      let fi ← parseFD fi
      let po ← parseFD po
      let ex := if ex == "~" then none else some (excOfName ex)
      pure { t with mp := ((unhexStr bnd, unhexBytes body), .collected fo fi po ex) :: t.mp }
    | _ => none
  | _ => none

def parseTabs (s : String) : Option Tabs :=
  if s == "~" then some {} else (s.splitOn ";").foldlM parseTab {}

def lookupD {α β} [BEq α] (l : List (α × β)) (k : α) (d : β) : β := ((l.find? (·.1 == k)).map (·.2)).getD d

def noEntry : Str := cs!"<no table entry>"

def libOf (t : Tabs) : Lib where
  cookies := fun h =>
    match Ombott.Cookies.parseCookies h with
    | .ok l => .ok l
    | .error e => .error (.other e.name)
  urljoin := fun a b => lookupD t.join (a, b) noEntry
  urlquote := fun a => lookupD t.quote a noEntry
  geturl := fun f => lookupD t.geturl f noEntry
  jsonLoads := fun b => lookupD t.json b (.raises (.other "NoTableEntry"))
  multipart := fun bnd body _ => lookupD t.mp (bnd, body) (.collected [] [] [] (some (.other "NoTableEntry")))

/-! ### environ and operations -/

def parseStream (d sc : String) : Rec := { st := ⟨unhexBytes d, parseSched sc⟩ }

def parseEnv (s : String) : Option World :=
  if s == "~" then some { heap := [], envs := [[]] } else
  (s.splitOn ";").foldlM (fun (w : World) kv =>
    match kv.splitOn "=" with
    | ["I", v] =>
      match v.splitOn ":" with
      | [d, sc] =>
        some { heap := w.heap ++ [parseStream d sc],
               envs := w.envs.map fun e => e.set kInput (.stream w.heap.length) }
      | _ => none
    | [k, v] => some { w with envs := w.envs.map fun e => e.set (unhexStr k) (.str (unhexStr v)) }
    | _ => none) { heap := [], envs := [[]] }

def propOfAttr (a : String) : Option Prop' :=
  if a == "body" then some .body
  else if a == "GET" then some .query
  else Prop'.all.find? fun p => p.attr == a

def parseOp (t : String) : Option Op :=
  match t.toList with
  | c :: rest =>
    match (String.ofList rest).splitOn ":" with
    | i :: args => do
      let i ← i.toNat?
      match c, args with
      | 'r', [a] => (propOfAttr a).map fun p => Op.read i p
      | 's', [k, v] => some (.setStr i (unhexStr k) (unhexStr v))
      | 'i', [d, sc] => some (.setInput i (parseStream d sc))
      | 'd', [k] => some (.del i (unhexStr k))
      | 'c', [] => some (.copy i)
      | _, _ => none
    | [] => none
  | [] => none

def parseOps (s : String) : Option (List Op) :=
  if s == "-" then some [] else (s.splitOn ",").mapM parseOp

def showOuts (l : List (Except Exc Val)) : String :=
  if l.isEmpty then "-" else "|".intercalate (l.map showOut)

def showKeys (l : List Key) : String := ",".intercalate (l.map String.ofList)

def handle : List String → Option String
  | ["run", cfg, tabs, env, ops] => do
    let cfg ← parseCfg cfg
    let t ← parseTabs tabs
    let w ← parseEnv env
    let ops ← parseOps ops
    pure (showOuts (run cfg (libOf t) w ops))
  | ["spec", cfg, tabs, env, ops] => do
    let cfg ← parseCfg cfg
    let t ← parseTabs tabs
    let w ← parseEnv env
    let ops ← parseOps ops
    pure (showOuts (Ombott.EnvCache.specRun cfg (libOf t) w ops))
  | ["arm", k] => some (showKeys (todelete (unhexStr k)))
  | _ => none

end Drv.EnvCache
