import OmbottModel.Drv.Common
import OmbottModel.Model.BodyMixin
import OmbottModel.Model.BodySpool
import OmbottModel.Gen.Body
/-!
Protocol lines of the body reader (C04, C05, C13); every line is self-contained.

```
body read <cl> <chunked01> <buf> <max|~> <data> <sched>
   → ok <bytes> spill=<01> req=<total requested> maxoff=<stream offset reached>
   | err <Class> req=… maxoff=…
body readf <cl> <chunked01> <buf> <max|~> <data> <sched>
   → the same with `TemporaryFile()` raising OSError (`bodyReadF`): ok … | err <Class|OSError> req=… maxoff=…
body wsgi <errors_map|@> <memfile> <maxbody|~> <CONTENT_LENGTH|~> <HTTP_TRANSFER_ENCODING|~> <data> <sched> <ops>
   → status=<n> outs=<tok;…> req=… maxoff=…         (ops: B P<k> I S C, `?op` = op inside try/except, R<data>/<sched> L<text> K O, see `runOp`, `ctlOp`;
      req / maxoff list one number per stream created, in creation order)
body encode <payload:spelling:ext,…|~> <lastSpelling> <lastExt> <trailer>  → <bytes>
body spell <upper01> <zeros> <n>                                           → <bytes>
body raise <errors_map|@> <Class>                                          → <Class | HTTPnnn>
body defaults                                                              → generated table
```
`@` = the `errors_map` generated from the repository (`Gen/Body.lean`).
-/
namespace Drv.Body
open Py Drv Ombott.Body Ombott.Chunked

def optNat (s : String) : Option (Option Nat) :=
  if s == "~" then some none else s.toNat?.map some

def showRec (r : Rec) : String := s!"req={r.requested} maxoff={r.pos}"

def showRead : Except Err Sink × Rec → String
  | (.ok sk, r) => s!"ok {hexBytes sk.body} spill={show01 sk.isTemp} {showRec r}"
  | (.error e, r) => s!"err {e.name} {showRec r}"

def showReadF : FaultOut × Rec → String
  | (.body sk, r) => s!"ok {hexBytes sk.body} spill={show01 sk.isTemp} {showRec r}"
  | (.err e, r) => s!"err {e.name} {showRec r}"
  | (.tmpFailed, r) => s!"err OSError {showRec r}"

def errOfName (s : String) : Option Err :=
  [Err.requestError, .bodyParsingError, .bodySizeError, .valueError, .typeError, .keyError].find?
    (fun e => e.name == s)

/-- `Name=status,…`, `~` for the empty map, `@` for the generated one -/
def parseMap (s : String) : Option (List (String × Nat)) :=
  if s == "@" then some Ombott.Gen.bodyErrorsMap
  else if s == "~" then some []
  else (s.splitOn ",").mapM fun kv =>
    match kv.splitOn "=" with
    | [k, v] => v.toNat?.map fun n => (k, n)
    | _ => none

def showMap (m : List (String × Nat)) : String :=
  if m.isEmpty then "~" else ",".intercalate (m.map fun (k, v) => s!"{k}={v}")

def parseChunk (s : String) : Option Chunk :=
  match s.splitOn ":" with
  | [p, sp, e] => some { payload := unhexBytes p, spelling := unhexBytes sp, ext := unhexBytes e }
  | _ => none

/-- one handler statement; the token it prints -/
def runOp (q : Req) (op : String) : Option (Except Err String × Req) :=
  let tok (pre : String) (r : Except Err Bytes × Req) (suffix : Req → String) : Except Err String × Req :=
    match r with
    | (.error e, q') => (.error e, q')
    | (.ok d, q') => (.ok s!"{pre}:{hexBytes d}{suffix q'}", q')
  if op == "B" then                       -- b = request.body; b.read(); type(b)
    some (tok "b" (q.access (.bodyRead none)) fun q' =>
      match q'.cache with | some (sk, _) => (if sk.isTemp then ":t" else ":m") | none => ":?")
  else if op.startsWith "P" then          -- request.body.read(k)
    (op.drop 1).toNat?.map fun k => tok "p" (q.access (.bodyRead (some k))) fun _ => ""
  else if op == "I" then                  -- environ['wsgi.input'].read()
    some (tok "i" (q.access .inputRead) fun _ => "")
  else if op == "S" then                  -- request._get_body_string()
    some (tok "s" (q.access .bodyString) fun _ => "")
  else if op == "C" then                  -- request.content_length
    match contentLength q.clHeader with
    | .error e => some (.error e, q)
    | .ok n => some (.ok s!"c:{n}", q)
  else none

/-- the handler's view: the request object it currently talks to (`cur` = id of the stream behind
its `wsgi.input`), the original request while it works on a `request.copy()`, and the record of
every stream created so far (id = creation order).  A copy shares the stream and the buffered
body OBJECTS with the original; the generators only copy once the body is buffered and use
rewinding accesses afterwards, so value copies are faithful. -/
structure HState where
  q : Req
  cur : Nat := 0
  other : Option (Req × Nat) := none
  streams : List Rec := []

def HState.sync (h : HState) : HState := { h with streams := h.streams.set h.cur h.q.input }

def parseSched (s : String) : List Nat :=
  if s == "-" then [] else (s.splitOn ".").filterMap (·.toNat?)

/-- handler statements that are not body accesses of `runOp`: `R<data>/<sched>` replace
`wsgi.input`, `L<text>` assign CONTENT_LENGTH, `K` continue on `request.copy()`, `O` back to the
original request -/
def ctlOp (h : HState) (op : String) : Option (String × HState) :=
  if op.startsWith "R" then
    match (op.drop 1).toString.splitOn "/" with
    | [d, sc] =>
      let r : Rec := { st := ⟨unhexBytes d, parseSched sc⟩ }
      some ("r", { h with q := (h.q.access (.replaceInput r)).2, cur := h.streams.length,
                          streams := h.streams ++ [r] })
    | _ => none
  else if op.startsWith "L" then
    some ("l", { h with q := (h.q.access (.setContentLength (unhexStr (op.drop 1).toString))).2 })
  else if op == "K" then
    match h.other with
    | none => some ("k", { h with other := some (h.q, h.cur) })
    | some _ => none
  else if op == "O" then
    match h.other with
    | some (q0, c0) => some ("o", { h with q := q0, cur := c0, other := none })
    | none => none
  else none

def runOps : HState → List String → List String → Option (Nat × List String × HState)
  | h, [], outs => some (200, outs.reverse, h)
  | h, op :: ops, outs =>
    match ctlOp h op with
    | some (tok, h') => runOps h'.sync ops (tok :: outs)
    | none =>
    -- `?op` = `try: op  except Exception as e: print(class or HTTP status)` and carry on
    if op.startsWith "?" then
      match runOp h.q (op.drop 1).toString with
      | none => none
      | some (.error e, q') => runOps ({ h with q := q' }).sync ops (s!"e:{e.name}" :: outs)
      | some (.ok tok, q') => runOps ({ h with q := q' }).sync ops (tok :: outs)
    else
    match runOp h.q op with
    | none => none
    | some (.error e, q') => some (errStatus e, outs.reverse, ({ h with q := q' }).sync)
    | some (.ok tok, q') => runOps ({ h with q := q' }).sync ops (tok :: outs)

def showStreams (l : List Rec) : String :=
  s!"req={",".intercalate (l.map fun r => toString r.requested)} maxoff={",".intercalate (l.map fun r => toString r.pos)}"

def handle : List String → Option String
  | ["read", cl, ch, buf, max, data, sched] => do
    let cl ← cl.toInt?
    let buf ← buf.toNat?
    let max ← optNat max
    pure (showRead (bodyRead buf cl (bool01 ch) max { st := ⟨unhexBytes data, natList sched⟩ }))
  | ["readf", cl, ch, buf, max, data, sched] => do
    let cl ← cl.toInt?
    let buf ← buf.toNat?
    let max ← optNat max
    pure (showReadF (bodyReadF buf cl (bool01 ch) max { st := ⟨unhexBytes data, natList sched⟩ }))
  | ["wsgi", map, memfile, maxbody, cl, te, data, sched, ops] => do
    let map ← parseMap map
    let memfile ← memfile.toNat?
    let maxbody ← optNat maxbody
    let q : Req := { cfg := { maxBody := maxbody, memfile := memfile, errorsMap := map },
                     clHeader := optStr cl, teHeader := optStr te,
                     input := { st := ⟨unhexBytes data, natList sched⟩ } }
    let (st, outs, h') ← runOps { q := q, streams := [q.input] } (if ops == "-" then [] else ops.splitOn ",") []
    pure s!"status={st} outs={if outs.isEmpty then "-" else ";".intercalate outs} {showStreams h'.streams}"
  | ["encode", chunks, ls, le, tr] => do
    let cs ← if chunks == "~" then some [] else (chunks.splitOn ",").mapM parseChunk
    pure (hexBytes (encodeChunked cs (unhexBytes ls) (unhexBytes le) (unhexBytes tr)))
  | ["spell", up, zeros, n] => do
    let z ← zeros.toNat?
    let n ← n.toNat?
    pure (hexBytes (hexSpell (bool01 up) z n))
  | ["raise", map, name] => do
    let map ← parseMap map
    let e ← errOfName name
    pure (raise_ map e "RequestError").name
  | ["defaults"] =>
    some s!"errors_map={showMap Ombott.Gen.bodyErrorsMap} max_body_size={match Ombott.Gen.maxBodySize with | some n => toString n | none => "~"} max_memfile_size={Ombott.Gen.maxMemfileSize}"
  | _ => none

end Drv.Body
