import OmbottModel.Drv.Common
import OmbottModel.Model.Config
/-! Protocol lines of area `config` (the class / configuration machinery; an extra correspondence stream of C10).
Every line is self-contained: a whole operation sequence from the state after `import ombott`, the answers joined by `;`.
Names are identifier tokens (`[A-Za-z0-9_]+`); values: `n` None, `b0`/`b1`, `i<int>`, `s<hex of UTF-8>`, `x` opaque;
`~` = empty list / dict; dict literals `k=v+k=v`; name lists joined by `.`.

    config w <op>,<op>,…
        C/<name>/<bases|~>/<body|~>      class statement with metaclass _MetaSimpleConfig; body `k=<val>` or `k=d<k:v&k:v>`
                                          (a dict literal: one new object) joined by `+`
        H/<cls>/<holder>                  cls.keys_holder(holder)
        K/<cls>   I/<cls>   G/<cls>/<k>/<default>          keys() / items() / get(k, default)
        F/<reg>/<cls>/<src>/<kw|~>        reg = cls.get_from(src, **kw);   src = N | L<dict|~> | T<target>
        A/<app>/<src>   S/<app>/<src>     app = Ombott(src)  /  app.setup(src)
        Y/<app>/<reg>   V/<app>           reg = app.request.copy().config  /  serve one request
        ni/<t>  ng/<t>/<k>  nG/<t>/<k>/<d>  ns/<t>/<k>/<v>  nd/<t>/<k>/<dict|~>  nD/<t>/<k>/<d>  nu/<t>/<dict|~>
                                          NameSpace items / [k] / get / [k]=v / [k]={…} / setdefault / update
        dm/<t>/<k>/<dk>/<v>               t[k][dk] = v   (in place)
        ha/<app>/<hook>/<f>  hr/<app>/<hook>/<f>  hl/<app>       add_hook / remove_hook / app._hooks
      target t = a<app> (app.config) | r<app> (app.request.config) | g<reg>
    config cp <op>,…        g/<i>/<o|a|v>  d/<i>  s/<i>/<val>  c          answers `<ans>/<getter ran>`, then `runs=<n>`
    config px <prop:attrs+…|~> <own|~> <target=meths+…|~> <op>,…    b/<prop>/<t>  u/<prop>  c/<attr>/<arg>
    config mx <item> …      P:<name>:<bases|~>:<slots|-|~>:<keys|~>:<flags>     plain class (flags: n = __new__, i = __init__, - none)
                            M:<name>:<bases|~>:<as_mixins|-|~>:<slots|-|~>:<keys|~>:<flags>   class with metaclass MixableMeta
                            I:<name>   instantiate (the calls made)      L:<name>   listing
                            (an item that refers to a class whose definition failed answers `undef`)
-/
namespace Drv.Config
open Py Drv Ombott.Config

def sortS (l : List String) : List String := l.mergeSort (fun a b => decide (a ≤ b))

def dotList (s : String) : List String := if s == "~" then [] else s.splitOn "."

def showDot (l : List String) : String := if l.isEmpty then "~" else ".".intercalate l

def readVal (s : String) : Option Val :=
  if s == "n" then some .none
  else if s == "b0" then some (.bool false)
  else if s == "b1" then some (.bool true)
  else if s == "x" then some .special
  else if s.startsWith "i" then (s.drop 1).toString.toInt?.map .int
  else if s.startsWith "s" then some (.str (String.ofList (unhexStr (s.drop 1).toString)))
  else none

def showScalar : Val → String
  | .none => "n"
  | .bool b => if b then "b1" else "b0"
  | .int i => s!"i{i}"
  | .str s => "s" ++ hexStr s.toList
  | .list l => "l" ++ showDot l
  | .ref _ => "r"
  | .special => "x"

def showVal (h : Heap) : Val → String
  | .ref o => "d{" ++ "&".intercalate (sortS ((hget h o).map fun (k, v) => k ++ ":" ++ showScalar v)) ++ "}"
  | v => showScalar v

def readKV (sep inner : String) (s : String) : Option (AList Val) :=
  if s == "~" || s == "" then some [] else
  (s.splitOn sep).mapM fun p =>
    match p.splitOn inner with
    | [k, v] => (readVal v).map fun x => (k, x)
    | _ => none

def readDict : String → Option (AList Val) := readKV "+" "="

def showItems (h : Heap) (d : AList Val) : String :=
  if d.isEmpty then "~" else "+".intercalate (sortS (d.map fun (k, v) => k ++ "=" ++ showVal h v))

def readBody (s : String) : Option (List (Name × (Val ⊕ AList Val))) :=
  if s == "~" then some [] else
  (s.splitOn "+").mapM fun p =>
    match p.splitOn "=" with
    | [k, v] =>
      if v.startsWith "d" then (readKV "&" ":" (v.drop 1).toString).map fun d => (k, Sum.inr d)
      else (readVal v).map fun x => (k, Sum.inl x)
    | _ => none

def readTarget (s : String) : Option Target :=
  if s.startsWith "a" then (s.drop 1).toString.toNat?.map .appConfig
  else if s.startsWith "r" then (s.drop 1).toString.toNat?.map .reqConfig
  else if s.startsWith "g" then some (.reg (s.drop 1).toString)
  else none

def readSrc (s : String) : Option Src :=
  if s == "N" then some .none
  else if s.startsWith "L" then (readDict (s.drop 1).toString).map .lit
  else if s.startsWith "T" then (readTarget (s.drop 1).toString).map .ns
  else none

def readOp (s : String) : Option Op :=
  match s.splitOn "/" with
  | ["C", name, bases, body] => (readBody body).map fun b => .defClass name (dotList bases) b
  | ["H", cls, holder] => some (.holder cls holder)
  | ["K", cls] => some (.keys cls)
  | ["I", cls] => some (.items cls)
  | ["G", cls, k, d] => (readVal d).map fun v => .get cls k v
  | ["F", reg, cls, src, kw] => do some (.getFrom reg cls (← readSrc src) (← readDict kw))
  | ["A", a, src] => do some (.app (← a.toNat?) (← readSrc src))
  | ["S", a, src] => do some (.setup (← a.toNat?) (← readSrc src))
  | ["Y", a, reg] => do some (.copy (← a.toNat?) reg)
  | ["V", a] => do some (.serve (← a.toNat?))
  | ["ni", t] => do some (.nsItems (← readTarget t))
  | ["ng", t, k] => do some (.nsGetItem (← readTarget t) k)
  | ["nG", t, k, d] => do some (.nsGet (← readTarget t) k (← readVal d))
  | ["ns", t, k, v] => do some (.nsSet (← readTarget t) k (← readVal v))
  | ["nd", t, k, d] => do some (.nsSetDict (← readTarget t) k (← readDict d))
  | ["nD", t, k, d] => do some (.nsSetDefault (← readTarget t) k (← readVal d))
  | ["nu", t, d] => do some (.nsUpdate (← readTarget t) (← readDict d))
  | ["dm", t, k, dk, v] => do some (.dictSet (← readTarget t) k dk (← readVal v))
  | ["ha", a, n, f] => do some (.addHook (← a.toNat?) n f)
  | ["hr", a, n, f] => do some (.removeHook (← a.toNat?) n f)
  | ["hl", a] => do some (.hooks (← a.toNat?))
  | _ => none

def showAns (h : Heap) : Ans → Option String
  | .ok => some "ok"
  | .err e => some ("e" ++ e.name)
  | .names l => some (showDot (sortS l))
  | .items d => some (showItems h d)
  | .val v => some (showVal h v)
  | .bad => none

/-- the loop of `Ombott.Config.run`, each answer shown against the heap after its step -/
def runShow : World → List Op → Option (List String)
  | _, [] => some []
  | w, op :: r =>
    let (w1, a) := step w op
    match showAns w1.heap a with
    | none => none
    | some s => (runShow w1 r).map (s :: ·)

def handleW (ops : String) : Option String := do
  let ops ← (ops.splitOn ",").mapM readOp
  let out ← runShow World.boot ops
  some (";".intercalate out)

/-! ### cached_property -/

def readCpOp (s : String) : Option CpOp :=
  match s.splitOn "/" with
  | ["g", i, "o"] => i.toNat?.map (.get · .ok)
  | ["g", i, "a"] => i.toNat?.map (.get · .raiseAttr)
  | ["g", i, "v"] => i.toNat?.map (.get · .raiseValue)
  | ["d", i] => i.toNat?.map .del
  | ["s", i, v] => do some (.set (← i.toNat?) (← readVal v))
  | ["c"] => some .cls
  | _ => none

def showCp : Except CErr Val × Bool → String
  | (.ok v, ran) => showScalar v ++ "/" ++ show01 ran
  | (.error e, ran) => "e" ++ e.name ++ "/" ++ show01 ran

def handleCp (ops : String) : Option String := do
  let ops ← (ops.splitOn ",").mapM readCpOp
  let (s, out) := cpRun {} ops
  some (";".intercalate (out.map showCp ++ [s!"runs={s.runs}"]))

/-! ### proxy -/

def readPOp (s : String) : Option POp :=
  match s.splitOn "/" with
  | ["b", p, t] => some (.bind p t)
  | ["u", p] => some (.unbind p)
  | ["c", a, x] => some (.call a x)
  | _ => none

def showP : Except CErr (Option PCall) → String
  | .ok none => "-"
  | .ok (some (.target o m x)) => s!"t{o}.{m}.{x}"
  | .ok (some (.self l x)) => s!"o{l}.{x}"
  | .error e => "e" ++ e.name

def handlePx (inj own tg ops : String) : Option String := do
  let injs ← (if inj == "~" then some [] else (inj.splitOn "+").mapM fun p =>
    match p.splitOn ":" with
    | [prop, attrs] => some (prop, dotList attrs)
    | _ => none)
  let targets ← (if tg == "~" then some [] else (tg.splitOn "+").mapM fun p =>
    match p.splitOn "=" with
    | [t, ms] => some (t, dotList ms)
    | _ => none)
  let ops ← (ops.splitOn ",").mapM readPOp
  let cdict0 : AList PAttr := (dotList own).map fun k => (k, .own k)
  let cdict := injs.foldl (fun d pa => proxyInject d pa.1 pa.2) cdict0
  some (";".intercalate ((proxyRun cdict targets [] ops).map showP))

/-! ### MixableMeta -/

def optList (s : String) : Option (List String) := if s == "-" then none else some (dotList s)

def labels (name : String) (keys : List String) : AList String := keys.map fun k => (k, name ++ "." ++ k)

def showM (c : MClass) : String :=
  let attrs := if c.attrs.isEmpty then "~" else "+".intercalate (sortS (c.attrs.map fun (k, v) => k ++ "=" ++ v))
  let slots := match c.slots with | none => "-" | some l => showDot (sortS l)
  let sp := match c.special with | none => "-" | some (a, b) => showDot a ++ "/" ++ showDot b
  s!"{attrs}|{slots}|{sp}|{showDot c.bases}|{showDot c.mro}"

def mxStep (cs : MClasses) (item : String) : Option (MClasses × String) :=
  let res (r : Except CErr MClasses) : MClasses × String :=
    match r with
    | .ok cs' => (cs', "ok")
    | .error e => (cs, "e" ++ e.name)
  match item.splitOn ":" with
  | ["P", name, bases, slots, keys, flags] =>
    if (findM cs name).isSome then none else
    if (dotList bases).any (fun b => (findM cs b).isNone) then some (cs, "undef") else
    some (res (plainDefine cs name (dotList bases) (labels name (dotList keys)) (optList slots)
      (if flags.contains 'n' then some name else none) (if flags.contains 'i' then some name else none)))
  | ["M", name, bases, asm, slots, keys, flags] =>
    if (findM cs name).isSome then none else
    if (dotList bases ++ (optList asm).getD []).any (fun b => (findM cs b).isNone) then some (cs, "undef") else
    let attrs := (match optList asm with | some _ => labels name ["_as_mixins"] | none => []) ++ labels name (dotList keys)
    some (res (mixableDefine cs name (dotList bases)
      { attrs := attrs, slots := optList slots, asMixins := (optList asm).getD [] }
      (if flags.contains 'n' then some name else none) (if flags.contains 'i' then some name else none)))
  | ["I", name] =>
    if (findM cs name).isNone then some (cs, "undef") else
    (findM cs name).map fun c =>
      match instantiate cs c with
      | .ok t => (cs, if t.isEmpty then "~" else ">".intercalate t)
      | .error e => (cs, "e" ++ e.name)
  | ["L", name] => some (match findM cs name with | some c => (cs, showM c) | none => (cs, "undef"))
  | _ => none

def mxRun : MClasses → List String → Option (List String)
  | _, [] => some []
  | cs, it :: r =>
    match mxStep cs it with
    | none => none
    | some (cs', s) => (mxRun cs' r).map (s :: ·)

/-- the world of the mixin lines: `class Mixable(metaclass=MixableMeta): pass` exists -/
def mxBoot : MClasses := (mixableDefine [] "Mixable" [] { attrs := [] } none none).toOption.getD []

def handle : List String → Option String
  | ["w", ops] => handleW ops
  | ["cp", ops] => handleCp ops
  | ["px", inj, own, tg, ops] => handlePx inj own tg ops
  | "mx" :: items => (mxRun mxBoot items).map (";".intercalate ·)
  | _ => none

end Drv.Config
